(* C18: the macro binding strategy and the runtime (code_with_params) strategy produce the
   same item whenever the two parameter collections agree. *)
From Biscuit Require Import Model.Params Proofs.ParamsProofs.

(* ------------------------------------------------------------------ when the two collections agree *)
(* an expression value is flat when it is a parameter itself or contains none *)
Definition value_flat (t : pterm) : bool :=
  match t with PParam _ => true | _ => term_closed t end.

Fixpoint op_flat (o : pop) : bool :=
  match o with
  | POVal t => value_flat t
  | POClo _ body => forallb op_flat body
  | _ => true
  end.

Definition rskel_flat (r : rskel) : bool := let '(_, _, e, _) := r in forallb (forallb op_flat) e.

Definition iskel_flat (i : iskel) : bool :=
  match i with
  | IFact _ => true
  | IRule r => rskel_flat r
  | ICheck _ qs | IPolicy _ qs => forallb rskel_flat qs
  end.

Definition collect_same (c : cfg) (i : iskel) : Prop := rec_collect c = true \/ iskel_flat i = true.

Lemma op_params_flat (o : pop) : op_flat o = true -> op_params false o = op_params true o.
Proof.
  induction o as [t|u|b|ps body IH] using pop_ind'; cbn; intros H; try reflexivity.
  - destruct t as [n|l|n|k l|l]; cbn in *; try reflexivity; unfold term_closed in H; cbn in H;
      match goal with |- [] = ?x => destruct x; [reflexivity | discriminate] end.
  - apply flat_map_ext_Forall. rewrite forallb_forall in H. rewrite Forall_forall in *.
    intros x Hx. apply IH; [exact Hx | now apply H].
Qed.

Lemma rskel_params_flat (r : rskel) :
  rskel_flat r = true -> rskel_term_params false r = rskel_term_params true r.
Proof.
  destruct r as [[[h b] e] sc]. cbn. intros H. do 2 f_equal.
  apply flat_map_ext_Forall, Forall_forall. intros ops Hops.
  apply flat_map_ext_Forall, Forall_forall. intros o Ho. apply op_params_flat.
  rewrite forallb_forall in H. specialize (H ops Hops). rewrite forallb_forall in H. now apply H.
Qed.

Lemma rule_new_same (c : cfg) (r : rskel) :
  rec_collect c = true \/ rskel_flat r = true -> rule_new c MNew r = rule_new c MParsed r.
Proof.
  intros [H|H]; cbn; [now rewrite H|]. destruct (rec_collect c); [reflexivity|].
  now rewrite (rskel_params_flat r H).
Qed.

Lemma construct_same (c : cfg) (i : iskel) : collect_same c i -> construct c MNew i = construct c MParsed i.
Proof.
  intros H. destruct i as [p|r|k qs|k qs]; cbn.
  - reflexivity.
  - f_equal. apply rule_new_same. destruct H; [now left | now right].
  - f_equal. apply map_ext_Forall, Forall_forall. intros r Hr. apply rule_new_same.
    destruct H as [H|H]; [now left | right]. cbn in H. rewrite forallb_forall in H. now apply H.
  - f_equal. apply map_ext_Forall, Forall_forall. intros r Hr. apply rule_new_same.
    destruct H as [H|H]; [now left | right]. cbn in H. rewrite forallb_forall in H. now apply H.
Qed.

(* ------------------------------------------------------------------ invariant: maps present, keys = the item's names *)
Definition amap_keys_in {A} (names : list name) (m : option (amap A)) : Prop :=
  exists l, m = Some l /\ forall n, amem n l = true -> In n names.

Definition rule_keys_ok (r : prule) : Prop :=
  amap_keys_in (rskel_term_params true (rule_skel r)) (rule_pmap r)
  /\ amap_keys_in (rskel_scope_params (rule_skel r)) (rule_smap r).

Definition state_keys_ok (s : istate) : Prop :=
  match s with
  | StFact (Fact p m) => amap_keys_in (pred_params p) m
  | StRule r => rule_keys_ok r
  | StCheck _ qs | StPolicy _ qs => Forall rule_keys_ok qs
  end.

Lemma construct_keys_ok (c : cfg) (i : iskel) : state_keys_ok (construct c MParsed i).
Proof.
  assert (Hr : forall r, rule_keys_ok (rule_new c MParsed r)).
  { intros r. split; cbn; eexists; (split; [reflexivity|]); intros n Hn; now apply amem_amap_of_iff in Hn. }
  destruct i as [p|r|k qs|k qs]; cbn.
  - eexists. split; [reflexivity|]. intros n Hn. now apply amem_amap_of_iff in Hn.
  - apply Hr.
  - apply Forall_forall. intros x Hx. apply in_map_iff in Hx as (r & <- & _). apply Hr.
  - apply Forall_forall. intros x Hx. apply in_map_iff in Hx as (r & <- & _). apply Hr.
Qed.

Lemma amap_set_fst {A} (strict : bool) (n : name) (v : A) (m : option (amap A)) :
  fst (amap_set strict n v m) = fst (amap_set true n v m).
Proof. destruct m as [l|]; cbn; [|reflexivity]. destruct (amem n l); reflexivity. Qed.

Lemma amap_set_keys {A} names (strict : bool) (n : name) (v : A) (m : option (amap A)) :
  amap_keys_in names m -> amap_keys_in names (fst (amap_set strict n v m)).
Proof.
  intros (l & -> & H). cbn. destruct (amem n l); cbn; eexists; (split; [reflexivity|]); [|exact H].
  intros x Hx. rewrite amem_aupdate in Hx. now apply H.
Qed.

Lemma amap_set_lenient_ok {A} names (n : name) (v : A) (m : option (amap A)) :
  amap_keys_in names m -> snd (amap_set false n v m) = None.
Proof. intros (l & -> & H). cbn. destruct (amem n l); reflexivity. Qed.

Lemma amap_set_noop {A} names (strict : bool) (n : name) (v : A) (m : option (amap A)) :
  amap_keys_in names m -> ~ In n names -> fst (amap_set strict n v m) = m.
Proof.
  intros (l & -> & H) Hn. cbn. destruct (amem n l) eqn:E; [|reflexivity]. exfalso. now apply Hn, H.
Qed.

(* rule level: one setter [f] working on one of the two maps *)
Lemma rule_set_fst strict n v r : fst (rule_set strict n v r) = fst (rule_set true n v r).
Proof.
  destruct r as [s m sm]. cbn. pose proof (amap_set_fst strict n v m) as H.
  destruct (amap_set strict n v m), (amap_set true n v m). cbn in *. now subst.
Qed.

Lemma rule_set_scope_fst strict n k r : fst (rule_set_scope strict n k r) = fst (rule_set_scope true n k r).
Proof.
  destruct r as [s m sm]. cbn. pose proof (amap_set_fst strict n k sm) as H.
  destruct (amap_set strict n k sm), (amap_set true n k sm). cbn in *. now subst.
Qed.

Lemma rule_set_keys strict n v r : rule_keys_ok r -> rule_keys_ok (fst (rule_set strict n v r)).
Proof.
  destruct r as [s m sm]. intros [H1 H2]. cbn in *.
  pose proof (amap_set_keys _ strict n v m H1) as H. destruct (amap_set strict n v m). split; assumption.
Qed.

Lemma rule_set_scope_keys strict n k r : rule_keys_ok r -> rule_keys_ok (fst (rule_set_scope strict n k r)).
Proof.
  destruct r as [s m sm]. intros [H1 H2]. cbn in *.
  pose proof (amap_set_keys _ strict n k sm H2) as H. destruct (amap_set strict n k sm). split; assumption.
Qed.

Lemma rule_set_lenient_ok n v r : rule_keys_ok r -> snd (rule_set false n v r) = None.
Proof.
  destruct r as [s m sm]. intros [H1 H2]. cbn in *.
  pose proof (amap_set_lenient_ok _ n v m H1) as H. destruct (amap_set false n v m). exact H.
Qed.

Lemma rule_set_scope_lenient_ok n k r : rule_keys_ok r -> snd (rule_set_scope false n k r) = None.
Proof.
  destruct r as [s m sm]. intros [H1 H2]. cbn in *.
  pose proof (amap_set_lenient_ok _ n k sm H2) as H. destruct (amap_set false n k sm). exact H.
Qed.

Lemma rule_set_noop strict n v r :
  rule_keys_ok r -> ~ In n (rskel_term_params true (rule_skel r)) -> fst (rule_set strict n v r) = r.
Proof.
  destruct r as [s m sm]. intros [H1 H2] Hn. cbn in *.
  pose proof (amap_set_noop _ strict n v m H1 Hn) as H. destruct (amap_set strict n v m). cbn in *. now subst.
Qed.

Lemma rule_set_scope_noop strict n k r :
  rule_keys_ok r -> ~ In n (rskel_scope_params (rule_skel r)) -> fst (rule_set_scope strict n k r) = r.
Proof.
  destruct r as [s m sm]. intros [H1 H2] Hn. cbn in *.
  pose proof (amap_set_noop _ strict n k sm H2 Hn) as H. destruct (amap_set strict n k sm). cbn in *. now subst.
Qed.

(* query lists: the lenient form visits every query when none fails *)
Lemma queries_lenient_all (f : prule -> prule * option perr) (qs : list prule) :
  Forall (fun q => snd (f q) = None) qs ->
  queries_set_lenient f qs = (map (fun q => fst (f q)) qs, None).
Proof.
  induction 1 as [|q qs Hq _ IH]; cbn; [reflexivity|].
  destruct (f q) as [q' e] eqn:E. cbn in Hq. subst e. rewrite IH. reflexivity.
Qed.

Section Queries.
  Variable f : bool -> prule -> prule * option perr.
  Hypothesis f_fst : forall st r, fst (f st r) = fst (f true r).
  Hypothesis f_ok : forall r, rule_keys_ok r -> snd (f false r) = None.
  Hypothesis f_keys : forall st r, rule_keys_ok r -> rule_keys_ok (fst (f st r)).

  Lemma queries_set_fst (strict : bool) (n : name) (qs : list prule) :
    Forall rule_keys_ok qs -> fst (queries_set strict f n qs) = map (fun q => fst (f true q)) qs.
  Proof.
    intros H. unfold queries_set. destruct strict.
    - unfold queries_set_strict. cbn. now rewrite map_map.
    - rewrite queries_lenient_all.
      + cbn. apply map_ext. intros q. apply f_fst.
      + eapply Forall_impl; [|exact H]. exact f_ok.
  Qed.

  Lemma queries_set_keys (strict : bool) (n : name) (qs : list prule) :
    Forall rule_keys_ok qs -> Forall rule_keys_ok (fst (queries_set strict f n qs)).
  Proof.
    intros H. rewrite queries_set_fst by exact H. apply Forall_forall. intros x Hx.
    apply in_map_iff in Hx as (q & <- & Hq). apply f_keys. rewrite Forall_forall in H. now apply H.
  Qed.
End Queries.

(* state level *)
Lemma state_set_fst strict n v s : state_keys_ok s -> fst (state_set strict n v s) = fst (state_set true n v s).
Proof.
  intros Hs. destruct s as [[p m]|r|k qs|k qs]; cbn [state_set].
  - cbn. pose proof (amap_set_fst strict n v m) as H.
    destruct (amap_set strict n v m), (amap_set true n v m). cbn in *. now subst.
  - pose proof (rule_set_fst strict n v r) as H. destruct (rule_set strict n v r), (rule_set true n v r).
    cbn in *. now subst.
  - pose proof (queries_set_fst (fun st => rule_set st n v) (fun st r => rule_set_fst st n v r)
                  (rule_set_lenient_ok n v) strict n qs Hs) as H1.
    pose proof (queries_set_fst (fun st => rule_set st n v) (fun st r => rule_set_fst st n v r)
                  (rule_set_lenient_ok n v) true n qs Hs) as H2.
    destruct (queries_set strict _ n qs), (queries_set true _ n qs). cbn in *. now subst.
  - pose proof (queries_set_fst (fun st => rule_set st n v) (fun st r => rule_set_fst st n v r)
                  (rule_set_lenient_ok n v) strict n qs Hs) as H1.
    pose proof (queries_set_fst (fun st => rule_set st n v) (fun st r => rule_set_fst st n v r)
                  (rule_set_lenient_ok n v) true n qs Hs) as H2.
    destruct (queries_set strict _ n qs), (queries_set true _ n qs). cbn in *. now subst.
Qed.

Lemma state_set_scope_fst strict n k s :
  state_keys_ok s -> fst (state_set_scope strict n k s) = fst (state_set_scope true n k s).
Proof.
  intros Hs. destruct s as [[p m]|r|c qs|c qs]; cbn [state_set_scope].
  - reflexivity.
  - pose proof (rule_set_scope_fst strict n k r) as H.
    destruct (rule_set_scope strict n k r), (rule_set_scope true n k r). cbn in *. now subst.
  - pose proof (queries_set_fst (fun st => rule_set_scope st n k) (fun st r => rule_set_scope_fst st n k r)
                  (rule_set_scope_lenient_ok n k) strict n qs Hs) as H1.
    pose proof (queries_set_fst (fun st => rule_set_scope st n k) (fun st r => rule_set_scope_fst st n k r)
                  (rule_set_scope_lenient_ok n k) true n qs Hs) as H2.
    destruct (queries_set strict _ n qs), (queries_set true _ n qs). cbn in *. now subst.
  - pose proof (queries_set_fst (fun st => rule_set_scope st n k) (fun st r => rule_set_scope_fst st n k r)
                  (rule_set_scope_lenient_ok n k) strict n qs Hs) as H1.
    pose proof (queries_set_fst (fun st => rule_set_scope st n k) (fun st r => rule_set_scope_fst st n k r)
                  (rule_set_scope_lenient_ok n k) true n qs Hs) as H2.
    destruct (queries_set strict _ n qs), (queries_set true _ n qs). cbn in *. now subst.
Qed.

Lemma state_set_keys strict n v s : state_keys_ok s -> state_keys_ok (fst (state_set strict n v s)).
Proof.
  intros Hs. destruct s as [[p m]|r|k qs|k qs]; cbn [state_set].
  - cbn in *. pose proof (amap_set_keys _ strict n v m Hs) as H. destruct (amap_set strict n v m). exact H.
  - pose proof (rule_set_keys strict n v r Hs) as H. destruct (rule_set strict n v r). exact H.
  - pose proof (queries_set_keys (fun st => rule_set st n v) (fun st r => rule_set_fst st n v r)
                  (rule_set_lenient_ok n v) (fun st r => rule_set_keys st n v r) strict n qs Hs) as H.
    destruct (queries_set strict _ n qs). exact H.
  - pose proof (queries_set_keys (fun st => rule_set st n v) (fun st r => rule_set_fst st n v r)
                  (rule_set_lenient_ok n v) (fun st r => rule_set_keys st n v r) strict n qs Hs) as H.
    destruct (queries_set strict _ n qs). exact H.
Qed.

Lemma state_set_scope_keys strict n k s : state_keys_ok s -> state_keys_ok (fst (state_set_scope strict n k s)).
Proof.
  intros Hs. destruct s as [[p m]|r|c qs|c qs]; cbn [state_set_scope].
  - exact Hs.
  - pose proof (rule_set_scope_keys strict n k r Hs) as H. destruct (rule_set_scope strict n k r). exact H.
  - pose proof (queries_set_keys (fun st => rule_set_scope st n k) (fun st r => rule_set_scope_fst st n k r)
                  (rule_set_scope_lenient_ok n k) (fun st r => rule_set_scope_keys st n k r) strict n qs Hs) as H.
    destruct (queries_set strict _ n qs). exact H.
  - pose proof (queries_set_keys (fun st => rule_set_scope st n k) (fun st r => rule_set_scope_fst st n k r)
                  (rule_set_scope_lenient_ok n k) (fun st r => rule_set_scope_keys st n k r) strict n qs Hs) as H.
    destruct (queries_set strict _ n qs). exact H.
Qed.

(* a name the item does not contain: binding it changes nothing *)
Lemma nmem_false (n : name) (l : list name) : nmem n l = false -> ~ In n l.
Proof.
  unfold nmem. intros H Hin. assert (existsb (bytes_eqb n) l = true).
  { apply existsb_exists. exists n. split; [exact Hin | apply bytes_eqb_refl]. }
  congruence.
Qed.

Lemma state_skel_names_rule (s : istate) (r : prule) :
  match s with
  | StRule r' => r = r'
  | StCheck _ qs | StPolicy _ qs => In r qs
  | StFact _ => False
  end ->
  forall n, In n (rskel_names (rule_skel r)) -> In n (item_names (state_skel s)).
Proof.
  destruct s as [[p m]|r'|k qs|k qs]; cbn; intros H n Hn; try contradiction.
  - now subst.
  - apply in_flat_map. exists (rule_skel r). split; [now apply in_map | exact Hn].
  - apply in_flat_map. exists (rule_skel r). split; [now apply in_map | exact Hn].
Qed.

Lemma map_noop {A} (f : A -> A) (l : list A) : Forall (fun x => f x = x) l -> map f l = l.
Proof. induction 1 as [|x l Hx _ IH]; cbn; [reflexivity | now rewrite Hx, IH]. Qed.

Lemma state_set_noop n v s :
  state_keys_ok s -> ~ In n (item_names (state_skel s)) -> fst (state_set true n v s) = s.
Proof.
  intros Hs Hn. destruct s as [[p m]|r|k qs|k qs]; cbn [state_set].
  - cbn in *. pose proof (amap_set_noop _ true n v m Hs Hn) as H. destruct (amap_set true n v m).
    cbn in *. now subst.
  - pose proof (rule_set_noop true n v r Hs) as H. destruct (rule_set true n v r). cbn in *. f_equal. apply H.
    intros Hin. apply Hn. unfold rskel_names. apply in_or_app. now left.
  - pose proof (queries_set_fst (fun st => rule_set st n v) (fun st r => rule_set_fst st n v r)
                  (rule_set_lenient_ok n v) true n qs Hs) as H.
    destruct (queries_set true _ n qs). cbn in H. subst. cbn. f_equal. apply map_noop.
    cbn in Hs. rewrite Forall_forall in *. intros r Hr. apply rule_set_noop; [now apply Hs|].
    intros Hin. apply Hn. apply (state_skel_names_rule (StCheck k qs) r Hr). apply in_or_app. now left.
  - pose proof (queries_set_fst (fun st => rule_set st n v) (fun st r => rule_set_fst st n v r)
                  (rule_set_lenient_ok n v) true n qs Hs) as H.
    destruct (queries_set true _ n qs). cbn in H. subst. cbn. f_equal. apply map_noop.
    cbn in Hs. rewrite Forall_forall in *. intros r Hr. apply rule_set_noop; [now apply Hs|].
    intros Hin. apply Hn. apply (state_skel_names_rule (StPolicy k qs) r Hr). apply in_or_app. now left.
Qed.

Lemma state_set_scope_noop n k s :
  state_keys_ok s -> ~ In n (item_names (state_skel s)) -> fst (state_set_scope true n k s) = s.
Proof.
  intros Hs Hn. destruct s as [[p m]|r|c qs|c qs]; cbn [state_set_scope].
  - reflexivity.
  - pose proof (rule_set_scope_noop true n k r Hs) as H. destruct (rule_set_scope true n k r). cbn in *.
    f_equal. apply H. intros Hin. apply Hn. unfold rskel_names. apply in_or_app. now right.
  - pose proof (queries_set_fst (fun st => rule_set_scope st n k) (fun st r => rule_set_scope_fst st n k r)
                  (rule_set_scope_lenient_ok n k) true n qs Hs) as H.
    destruct (queries_set true _ n qs). cbn in H. subst. cbn. f_equal. apply map_noop.
    cbn in Hs. rewrite Forall_forall in *. intros r Hr. apply rule_set_scope_noop; [now apply Hs|].
    intros Hin. apply Hn. apply (state_skel_names_rule (StCheck c qs) r Hr). apply in_or_app. now right.
  - pose proof (queries_set_fst (fun st => rule_set_scope st n k) (fun st r => rule_set_scope_fst st n k r)
                  (rule_set_scope_lenient_ok n k) true n qs Hs) as H.
    destruct (queries_set true _ n qs). cbn in H. subst. cbn. f_equal. apply map_noop.
    cbn in Hs. rewrite Forall_forall in *. intros r Hr. apply rule_set_scope_noop; [now apply Hs|].
    intros Hin. apply Hn. apply (state_skel_names_rule (StPolicy c qs) r Hr). apply in_or_app. now right.
Qed.

(* the setters never touch the skeleton *)
Lemma rule_skel_set strict n v r : rule_skel (fst (rule_set strict n v r)) = rule_skel r.
Proof. destruct r as [s m sm]. cbn. destruct (amap_set strict n v m). reflexivity. Qed.
Lemma rule_skel_set_scope strict n k r : rule_skel (fst (rule_set_scope strict n k r)) = rule_skel r.
Proof. destruct r as [s m sm]. cbn. destruct (amap_set strict n k sm). reflexivity. Qed.

Lemma state_skel_set n v s : state_keys_ok s -> state_skel (fst (state_set true n v s)) = state_skel s.
Proof.
  intros Hs. destruct s as [[p m]|r|k qs|k qs]; cbn [state_set].
  - cbn. destruct (amap_set true n v m). reflexivity.
  - pose proof (rule_skel_set true n v r) as H. destruct (rule_set true n v r). cbn in *. now rewrite H.
  - pose proof (queries_set_fst (fun st => rule_set st n v) (fun st r => rule_set_fst st n v r)
                  (rule_set_lenient_ok n v) true n qs Hs) as H.
    destruct (queries_set true _ n qs). cbn in H. subst. cbn. f_equal. rewrite map_map.
    apply map_ext. intros r. apply rule_skel_set.
  - pose proof (queries_set_fst (fun st => rule_set st n v) (fun st r => rule_set_fst st n v r)
                  (rule_set_lenient_ok n v) true n qs Hs) as H.
    destruct (queries_set true _ n qs). cbn in H. subst. cbn. f_equal. rewrite map_map.
    apply map_ext. intros r. apply rule_skel_set.
Qed.

Lemma state_skel_set_scope n k s : state_keys_ok s -> state_skel (fst (state_set_scope true n k s)) = state_skel s.
Proof.
  intros Hs. destruct s as [[p m]|r|c qs|c qs]; cbn [state_set_scope].
  - reflexivity.
  - pose proof (rule_skel_set_scope true n k r) as H. destruct (rule_set_scope true n k r). cbn in *. now rewrite H.
  - pose proof (queries_set_fst (fun st => rule_set_scope st n k) (fun st r => rule_set_scope_fst st n k r)
                  (rule_set_scope_lenient_ok n k) true n qs Hs) as H.
    destruct (queries_set true _ n qs). cbn in H. subst. cbn. f_equal. rewrite map_map.
    apply map_ext. intros r. apply rule_skel_set_scope.
  - pose proof (queries_set_fst (fun st => rule_set_scope st n k) (fun st r => rule_set_scope_fst st n k r)
                  (rule_set_scope_lenient_ok n k) true n qs Hs) as H.
    destruct (queries_set true _ n qs). cbn in H. subst. cbn. f_equal. rewrite map_map.
    apply map_ext. intros r. apply rule_skel_set_scope.
Qed.

(* ------------------------------------------------------------------ the two strategies *)
Definition macro_cmd (b : name * anyparam) : cmd := CmdMacro (fst b) (snd b).
Definition runtime_cmd (b : name * anyparam) : cmd :=
  match snd b with APTerm v => CmdIgn (fst b) v | APKey k => CmdIgnScope (fst b) k end.

(* effect of one binding, whichever strategy *)
Definition bind_effect (s : istate) (b : name * anyparam) : istate :=
  match snd b with
  | APTerm v => fst (state_set true (fst b) v s)
  | APKey k => fst (state_set_scope true (fst b) k s)
  end.

Lemma macro_cmd_effect s b : state_keys_ok s -> fst (run_cmd s (macro_cmd b)) = bind_effect s b.
Proof.
  intros Hs. destruct b as [n [v|k]]; cbn; [now apply state_set_fst | now apply state_set_scope_fst].
Qed.

Lemma runtime_cmd_effect s b : fst (run_cmd s (runtime_cmd b)) = bind_effect s b.
Proof. destruct b as [n [v|k]]; cbn; now rewrite fst_swallow. Qed.

Lemma bind_effect_keys s b : state_keys_ok s -> state_keys_ok (bind_effect s b).
Proof. intros Hs. destruct b as [n [v|k]]; cbn; [now apply state_set_keys | now apply state_set_scope_keys]. Qed.

Lemma bind_effect_skel s b : state_keys_ok s -> state_skel (bind_effect s b) = state_skel s.
Proof. intros Hs. destruct b as [n [v|k]]; cbn; [now apply state_skel_set | now apply state_skel_set_scope]. Qed.

Lemma bind_effect_noop s b :
  state_keys_ok s -> nmem (fst b) (item_names (state_skel s)) = false -> bind_effect s b = s.
Proof.
  intros Hs Hn. apply nmem_false in Hn.
  destruct b as [n [v|k]]; cbn in *; [now apply state_set_noop | now apply state_set_scope_noop].
Qed.

Lemma fst_run_cmds_cons s c cs : fst (run_cmds s (c :: cs)) = fst (run_cmds (fst (run_cmd s c)) cs).
Proof. cbn. destruct (run_cmd s c) as [s' e]. cbn. destruct (run_cmds s' cs). reflexivity. Qed.

Lemma strategies_agree_from (bs : list (name * anyparam)) :
  forall s, state_keys_ok s ->
    fst (run_cmds s (map macro_cmd (filter (fun b => nmem (fst b) (item_names (state_skel s))) bs)))
    = fst (run_cmds s (map runtime_cmd bs)).
Proof.
  induction bs as [|b bs IH]; intros s Hs; [reflexivity|].
  cbn [filter map]. rewrite fst_run_cmds_cons, runtime_cmd_effect.
  destruct (nmem (fst b) (item_names (state_skel s))) eqn:E.
  - cbn [map]. rewrite fst_run_cmds_cons, macro_cmd_effect by exact Hs.
    rewrite <- (IH (bind_effect s b) (bind_effect_keys s b Hs)).
    now rewrite (bind_effect_skel s b Hs).
  - rewrite (bind_effect_noop s b Hs E). now apply IH.
Qed.

Lemma construct_skel (c : cfg) (mode : cmode) (i : iskel) : state_skel (construct c mode i) = i.
Proof.
  assert (Hr : forall r, rule_skel (rule_new c mode r) = r) by (intros r; destruct mode; reflexivity).
  destruct i as [p|r|k qs|k qs]; cbn.
  - destruct mode; reflexivity.
  - now rewrite Hr.
  - f_equal. rewrite map_map. rewrite <- (map_id qs) at 2. apply map_ext. exact Hr.
  - f_equal. rewrite map_map. rewrite <- (map_id qs) at 2. apply map_ext. exact Hr.
Qed.

Lemma binding_strategies_agree (c : cfg) (i : iskel) (bs : list (name * anyparam)) :
  collect_same c i -> fst (macro_bind c i bs) = fst (runtime_bind c i bs).
Proof.
  intros H. unfold macro_bind, runtime_bind. rewrite (construct_same c i H).
  pose proof (strategies_agree_from bs (construct c MParsed i) (construct_keys_ok c i)) as E.
  rewrite construct_skel in E. exact E.
Qed.

(* ------------------------------------------------------------------ refuted: the collections differ *)
Lemma param_collection_refuted :
  construct faithful MNew w_nested_expr <> construct faithful MParsed w_nested_expr
  /\ fst (macro_bind faithful w_nested_expr [(np, APTerm (PLit (LInt 1)))])
     <> fst (runtime_bind faithful w_nested_expr [(np, APTerm (PLit (LInt 1)))])
  /\ state_convert faithful (fst (macro_bind faithful w_nested_expr [(np, APTerm (PLit (LInt 1)))])) = None
  /\ state_convert faithful (fst (runtime_bind faithful w_nested_expr [(np, APTerm (PLit (LInt 1)))])) = None.
Proof. repeat split; vm_compute; try reflexivity; discriminate. Qed.

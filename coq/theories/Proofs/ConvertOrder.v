(* Order theory of [Convert.icmp] (Rust's derived Ord on datalog::Term) and what follows from it:
   everything [conv_term] returns is well formed ([iterm_wf]: sets and maps are fixed points of
   BTreeSet / BTreeMap construction), hence a block the conversion accepted converts back and
   forth to itself. *)
From Coq Require Import Sorted.
From Biscuit Require Import Model.Convert Proofs.BlockWireProofs Proofs.ConvertProofs.
Local Open Scope N_scope.

(* ------------------------------------------------------------------ scalars *)
Lemma bytes_cmp_eq a : forall b, bytes_cmp a b = Eq -> a = b.
Proof.
  induction a as [|x a IH]; intros [|y b]; cbn [bytes_cmp]; intros H; try discriminate; [reflexivity|].
  destruct (N.compare x y) eqn:E; try discriminate. apply N.compare_eq in E. subst. f_equal. now apply IH.
Qed.
Lemma bytes_cmp_refl a : bytes_cmp a a = Eq.
Proof. induction a as [|x a IH]; cbn [bytes_cmp]; [reflexivity|]. now rewrite N.compare_refl. Qed.
Lemma bytes_cmp_anti a : forall b, bytes_cmp b a = CompOpp (bytes_cmp a b).
Proof.
  induction a as [|x a IH]; intros [|y b]; cbn [bytes_cmp]; try reflexivity.
  rewrite (N.compare_antisym x y). destruct (N.compare x y); cbn [CompOpp]; try reflexivity. apply IH.
Qed.
Lemma bytes_cmp_trans a : forall b c, bytes_cmp a b = Lt -> bytes_cmp b c = Lt -> bytes_cmp a c = Lt.
Proof.
  induction a as [|x a IH]; intros [|y b] [|z c]; cbn [bytes_cmp]; intros H1 H2; try discriminate; try reflexivity.
  destruct (N.compare x y) eqn:E1; try discriminate.
  - apply N.compare_eq in E1. subst y. destruct (N.compare x z) eqn:E2; try discriminate; [|reflexivity]. now apply (IH b c).
  - destruct (N.compare y z) eqn:E2; try discriminate.
    + apply N.compare_eq in E2. subst z. now rewrite E1.
    + rewrite N.compare_lt_iff in E1, E2. assert (E : N.compare x z = Lt) by (apply N.compare_lt_iff; lia). now rewrite E.
Qed.

Lemma bool_cmp_eq a b : bool_cmp a b = Eq -> a = b.
Proof. destruct a, b; cbn; intros H; try discriminate; reflexivity. Qed.
Lemma bool_cmp_anti a b : bool_cmp b a = CompOpp (bool_cmp a b).
Proof. destruct a, b; reflexivity. Qed.
Lemma bool_cmp_trans a b c : bool_cmp a b = Lt -> bool_cmp b c = Lt -> bool_cmp a c = Lt.
Proof. destruct a, b, c; cbn; intros; try discriminate; reflexivity. Qed.

Lemma N_cmp_trans x y z : N.compare x y = Lt -> N.compare y z = Lt -> N.compare x z = Lt.
Proof. rewrite !N.compare_lt_iff. lia. Qed.
Lemma Z_cmp_trans x y z : Z.compare x y = Lt -> Z.compare y z = Lt -> Z.compare x z = Lt.
Proof. rewrite !Z.compare_lt_iff. lia. Qed.

Lemma ikey_cmp_eq a b : ikey_cmp a b = Eq -> a = b.
Proof.
  destruct a, b; cbn; intros H; try discriminate.
  - apply Z.compare_eq in H. now subst.
  - apply N.compare_eq in H. now subst.
Qed.
Lemma ikey_cmp_refl a : ikey_cmp a a = Eq.
Proof. destruct a; cbn; [apply Z.compare_refl | apply N.compare_refl]. Qed.
Lemma ikey_cmp_anti a b : ikey_cmp b a = CompOpp (ikey_cmp a b).
Proof. destruct a, b; cbn; try reflexivity; [apply Z.compare_antisym | apply N.compare_antisym]. Qed.
Lemma ikey_cmp_trans a b c : ikey_cmp a b = Lt -> ikey_cmp b c = Lt -> ikey_cmp a c = Lt.
Proof.
  destruct a, b, c; cbn; intros H1 H2; try discriminate; try reflexivity;
    [eapply Z_cmp_trans | eapply N_cmp_trans]; eassumption.
Qed.

(* ------------------------------------------------------------------ lexicographic lists and maps *)
Section Lex.
Variable cmp : iterm -> iterm -> comparison.

Lemma list_cmp_eq l : all_with (fun x => forall y, cmp x y = Eq -> x = y) l ->
  forall m, list_cmp_with cmp l m = Eq -> l = m.
Proof.
  induction l as [|x l IH]; intros Hl [|y m]; cbn [list_cmp_with]; intros H; try discriminate; [reflexivity|].
  destruct Hl as [Hx Hl]. destruct (cmp x y) eqn:E; try discriminate.
  apply Hx in E. subst. f_equal. now apply IH.
Qed.

Lemma list_cmp_refl l : all_with (fun x => cmp x x = Eq) l -> list_cmp_with cmp l l = Eq.
Proof.
  induction l as [|x l IH]; cbn [all_with list_cmp_with]; [reflexivity|]. intros [Hx Hl]. rewrite Hx. now apply IH.
Qed.

Lemma list_cmp_anti l : all_with (fun x => forall y, cmp y x = CompOpp (cmp x y)) l ->
  forall m, list_cmp_with cmp m l = CompOpp (list_cmp_with cmp l m).
Proof.
  induction l as [|x l IH]; intros Hl [|y m]; cbn [list_cmp_with]; try reflexivity.
  destruct Hl as [Hx Hl]. rewrite (Hx y). destruct (cmp x y); cbn [CompOpp]; try reflexivity. now apply IH.
Qed.

Hypothesis cmp_eq : forall x y, cmp x y = Eq -> x = y.

Lemma list_cmp_trans l :
  all_with (fun x => forall y z, cmp x y = Lt -> cmp y z = Lt -> cmp x z = Lt) l ->
  forall m n, list_cmp_with cmp l m = Lt -> list_cmp_with cmp m n = Lt -> list_cmp_with cmp l n = Lt.
Proof.
  induction l as [|x l IH]; intros Hl [|y m] [|z n]; cbn [list_cmp_with]; intros H1 H2;
    try discriminate; try reflexivity.
  destruct Hl as [Hx Hl]. destruct (cmp x y) eqn:E1; try discriminate.
  - apply cmp_eq in E1. subst y. destruct (cmp x z) eqn:E2; try discriminate; [|reflexivity]. now apply (IH Hl m n).
  - destruct (cmp y z) eqn:E2; try discriminate.
    + apply cmp_eq in E2. subst z. now rewrite E1.
    + now rewrite (Hx y z E1 E2).
Qed.

Lemma map_cmp_eq l : all_with (fun kv => match kv with (_, v) => forall y, cmp v y = Eq -> v = y end) l ->
  forall m, map_cmp_with cmp l m = Eq -> l = m.
Proof.
  induction l as [|[k v] l IH]; intros Hl [|[k' v'] m]; cbn [map_cmp_with fst snd]; intros H; try discriminate; [reflexivity|].
  destruct Hl as [Hx Hl]. destruct (ikey_cmp k k') eqn:Ek; try discriminate. apply ikey_cmp_eq in Ek. subst k'.
  destruct (cmp v v') eqn:E; try discriminate. apply Hx in E. subst. f_equal. now apply IH.
Qed.

Lemma map_cmp_refl l : all_with (fun kv => match kv with (_, v) => cmp v v = Eq end) l -> map_cmp_with cmp l l = Eq.
Proof.
  induction l as [|[k v] l IH]; cbn [all_with map_cmp_with fst snd]; [reflexivity|]. intros [Hx Hl].
  rewrite ikey_cmp_refl, Hx. now apply IH.
Qed.

Lemma map_cmp_anti l : all_with (fun kv => match kv with (_, v) => forall y, cmp y v = CompOpp (cmp v y) end) l ->
  forall m, map_cmp_with cmp m l = CompOpp (map_cmp_with cmp l m).
Proof.
  induction l as [|[k v] l IH]; intros Hl [|[k' v'] m]; cbn [map_cmp_with fst snd]; try reflexivity.
  destruct Hl as [Hx Hl]. rewrite (ikey_cmp_anti k k'). destruct (ikey_cmp k k'); cbn [CompOpp]; try reflexivity.
  rewrite (Hx v'). destruct (cmp v v'); cbn [CompOpp]; try reflexivity. now apply IH.
Qed.

Lemma map_cmp_trans l :
  all_with (fun kv => match kv with (_, v) => forall y z, cmp v y = Lt -> cmp y z = Lt -> cmp v z = Lt end) l ->
  forall m n, map_cmp_with cmp l m = Lt -> map_cmp_with cmp m n = Lt -> map_cmp_with cmp l n = Lt.
Proof.
  induction l as [|[k v] l IH]; intros Hl [|[k' v'] m] [|[k'' v''] n]; cbn [map_cmp_with fst snd]; intros H1 H2;
    try discriminate; try reflexivity.
  destruct Hl as [Hx Hl]. destruct (ikey_cmp k k') eqn:K1; try discriminate.
  - apply ikey_cmp_eq in K1. subst k'. destruct (ikey_cmp k k'') eqn:K2; try discriminate; [|reflexivity].
    destruct (cmp v v') eqn:E1; try discriminate.
    + apply cmp_eq in E1. subst v'. destruct (cmp v v'') eqn:E2; try discriminate; [|reflexivity]. now apply (IH Hl m n).
    + destruct (cmp v' v'') eqn:E2; try discriminate.
      * apply cmp_eq in E2. subst v''. now rewrite E1.
      * now rewrite (Hx v' v'' E1 E2).
  - destruct (ikey_cmp k' k'') eqn:K2; try discriminate.
    + apply ikey_cmp_eq in K2. subst k''. now rewrite K1.
    + now rewrite (ikey_cmp_trans _ _ _ K1 K2).
Qed.
End Lex.

(* ------------------------------------------------------------------ icmp is a strict total order *)
Lemma icmp_eq : forall a b, icmp a b = Eq -> a = b.
Proof.
  apply (iterm_ind' (fun a => forall b, icmp a b = Eq -> a = b)).
  - intros n [] H; cbn in H; try discriminate. apply N.compare_eq in H. now subst.
  - intros n [] H; cbn in H; try discriminate. apply Z.compare_eq in H. now subst.
  - intros n [] H; cbn in H; try discriminate. apply N.compare_eq in H. now subst.
  - intros n [] H; cbn in H; try discriminate. apply N.compare_eq in H. now subst.
  - intros n [] H; cbn in H; try discriminate. apply bytes_cmp_eq in H. now subst.
  - intros n [] H; cbn in H; try discriminate. apply bool_cmp_eq in H. now subst.
  - intros l IH [] H; cbn [icmp irank] in H; try (cbn in H; discriminate). f_equal. now apply (list_cmp_eq icmp l IH).
  - intros [] H; cbn in H; try discriminate. reflexivity.
  - intros l IH [] H; cbn [icmp irank] in H; try (cbn in H; discriminate). f_equal. now apply (list_cmp_eq icmp l IH).
  - intros l IH [] H; cbn [icmp irank] in H; try (cbn in H; discriminate). f_equal. now apply (map_cmp_eq icmp l IH).
Qed.

Lemma icmp_refl : forall a, icmp a a = Eq.
Proof.
  apply (iterm_ind' (fun a => icmp a a = Eq)); intros; cbn [icmp];
    try apply N.compare_refl; try apply Z.compare_refl; try apply bytes_cmp_refl; try reflexivity.
  - now destruct b.
  - now apply list_cmp_refl.
  - now apply list_cmp_refl.
  - now apply map_cmp_refl.
Qed.

Lemma icmp_anti : forall a b, icmp b a = CompOpp (icmp a b).
Proof.
  apply (iterm_ind' (fun a => forall b, icmp b a = CompOpp (icmp a b))).
  - intros n []; cbn; try reflexivity. apply N.compare_antisym.
  - intros n []; cbn; try reflexivity. apply Z.compare_antisym.
  - intros n []; cbn; try reflexivity. apply N.compare_antisym.
  - intros n []; cbn; try reflexivity. apply N.compare_antisym.
  - intros n []; cbn; try reflexivity. apply bytes_cmp_anti.
  - intros n []; cbn; try reflexivity. apply bool_cmp_anti.
  - intros l IH []; cbn [icmp irank]; try (cbn; reflexivity). now apply list_cmp_anti.
  - intros []; cbn; reflexivity.
  - intros l IH []; cbn [icmp irank]; try (cbn; reflexivity). now apply list_cmp_anti.
  - intros l IH []; cbn [icmp irank]; try (cbn; reflexivity). now apply map_cmp_anti.
Qed.

Lemma icmp_trans : forall a b c, icmp a b = Lt -> icmp b c = Lt -> icmp a c = Lt.
Proof.
  apply (iterm_ind' (fun a => forall b c, icmp a b = Lt -> icmp b c = Lt -> icmp a c = Lt)).
  - intros n [] [] H1 H2; cbn in *; try discriminate; try reflexivity. eapply N_cmp_trans; eassumption.
  - intros n [] [] H1 H2; cbn in *; try discriminate; try reflexivity. eapply Z_cmp_trans; eassumption.
  - intros n [] [] H1 H2; cbn in *; try discriminate; try reflexivity. eapply N_cmp_trans; eassumption.
  - intros n [] [] H1 H2; cbn in *; try discriminate; try reflexivity. eapply N_cmp_trans; eassumption.
  - intros n [] [] H1 H2; cbn in *; try discriminate; try reflexivity. eapply bytes_cmp_trans; eassumption.
  - intros n [] [] H1 H2; cbn in *; try discriminate; try reflexivity. eapply bool_cmp_trans; eassumption.
  - intros l IH [] [] H1 H2; cbn [icmp irank] in *; try (cbn in *; discriminate); try (cbn; reflexivity).
    eapply (list_cmp_trans icmp icmp_eq l IH); eassumption.
  - intros [] [] H1 H2; cbn in *; try discriminate; try reflexivity.
  - intros l IH [] [] H1 H2; cbn [icmp irank] in *; try (cbn in *; discriminate); try (cbn; reflexivity).
    eapply (list_cmp_trans icmp icmp_eq l IH); eassumption.
  - intros l IH [] [] H1 H2; cbn [icmp irank] in *; try (cbn in *; discriminate); try (cbn; reflexivity).
    eapply (map_cmp_trans icmp icmp_eq l IH); eassumption.
Qed.

Lemma icmp_gt_lt a b : icmp a b = Gt -> icmp b a = Lt.
Proof. intros H. rewrite icmp_anti, H. reflexivity. Qed.

(* ------------------------------------------------------------------ sorted lists: BTreeSet *)
Definition ilt (a b : iterm) : Prop := icmp a b = Lt.
Definition isorted (l : list iterm) : Prop := StronglySorted ilt l.

Lemma iinsert_In x l z : In z (iinsert x l) -> z = x \/ In z l.
Proof.
  induction l as [|y l IH]; cbn [iinsert].
  - intros [<-|[]]. now left.
  - destruct (icmp x y).
    + intros H. now right.
    + intros [<-|H]; [now left | now right].
    + intros [<-|H]; [right; now left|]. destruct (IH H) as [->|H']; [now left | right; now right].
Qed.

Lemma iinsert_sorted x l : isorted l -> isorted (iinsert x l).
Proof.
  induction l as [|y l IH]; cbn [iinsert]; intros Hs.
  - repeat constructor.
  - inversion Hs as [|? ? Hl Hy]; subst. destruct (icmp x y) eqn:E.
    + exact Hs.
    + constructor; [exact Hs|]. constructor; [exact E|].
      eapply Forall_impl; [|exact Hy]. intros z Hz. eapply icmp_trans; eassumption.
    + constructor; [now apply IH|]. apply Forall_forall. intros z Hz.
      apply iinsert_In in Hz as [->|Hz]; [now apply icmp_gt_lt|].
      rewrite Forall_forall in Hy. now apply Hy.
Qed.

Lemma fold_iinsert_sorted l : forall acc, isorted acc -> isorted (fold_left (fun acc x => iinsert x acc) l acc).
Proof. induction l as [|x l IH]; intros acc H; cbn [fold_left]; [exact H|]. apply IH. now apply iinsert_sorted. Qed.

(* inserting something larger than everything appends *)
Lemma iinsert_last x l : Forall (fun y => ilt y x) l -> iinsert x l = l ++ [x].
Proof.
  induction l as [|y l IH]; cbn [iinsert app]; intros H; [reflexivity|].
  inversion H as [|? ? Hy Hl]; subst. unfold ilt in Hy. rewrite icmp_anti, Hy. cbn [CompOpp]. now rewrite IH.
Qed.

Lemma sorted_app_inv acc x l : isorted (acc ++ x :: l) -> Forall (fun y => ilt y x) acc.
Proof.
  induction acc as [|a acc IH]; cbn [app]; intros H; [constructor|].
  inversion H as [|? ? Hs Ha]; subst. constructor; [|now apply IH].
  rewrite Forall_forall in Ha. apply Ha. apply in_or_app. right. now left.
Qed.

Lemma fold_iinsert_id l : forall acc, isorted (acc ++ l) ->
  fold_left (fun acc x => iinsert x acc) l acc = acc ++ l.
Proof.
  induction l as [|x l IH]; intros acc H; cbn [fold_left]; [now rewrite app_nil_r|].
  rewrite (iinsert_last x acc (sorted_app_inv acc x l H)).
  rewrite IH; rewrite <- app_assoc; cbn [app]; [reflexivity | exact H].
Qed.

Lemma isort_sorted l : isorted l -> isort l = l.
Proof. intros H. unfold isort. now rewrite (fold_iinsert_id l []). Qed.

Lemma isort_is_sorted l : isorted (isort l).
Proof. apply fold_iinsert_sorted. constructor. Qed.

(* ------------------------------------------------------------------ sorted maps: BTreeMap *)
Definition klt (a b : ikey * iterm) : Prop := ikey_cmp (fst a) (fst b) = Lt.
Definition msorted (l : list (ikey * iterm)) : Prop := StronglySorted klt l.

Lemma minsert_In k v l z : In z (minsert k v l) -> z = (k, v) \/ In z l.
Proof.
  induction l as [|[k' v'] l IH]; cbn [minsert].
  - intros [<-|[]]. now left.
  - destruct (ikey_cmp k k').
    + intros [<-|H]; [now left | right; now right].
    + intros [<-|H]; [now left | now right].
    + intros [<-|H]; [right; now left|]. destruct (IH H) as [->|H']; [now left | right; now right].
Qed.

Lemma minsert_sorted k v l : msorted l -> msorted (minsert k v l).
Proof.
  induction l as [|[k' v'] l IH]; cbn [minsert]; intros Hs.
  - repeat constructor.
  - inversion Hs as [|? ? Hl Hy]; subst. destruct (ikey_cmp k k') eqn:E.
    + apply ikey_cmp_eq in E. subst k'. constructor; [exact Hl|]. exact Hy.
    + constructor; [exact Hs|]. constructor; [exact E|].
      eapply Forall_impl; [|exact Hy]. intros z Hz. unfold klt in *. cbn [fst] in *. eapply ikey_cmp_trans; eassumption.
    + constructor; [now apply IH|]. apply Forall_forall. intros z Hz.
      apply minsert_In in Hz as [->|Hz].
      * unfold klt. cbn [fst]. rewrite ikey_cmp_anti, E. reflexivity.
      * rewrite Forall_forall in Hy. now apply Hy.
Qed.

Lemma fold_minsert_sorted l : forall acc, msorted acc ->
  msorted (fold_left (fun acc kv => minsert (fst kv) (snd kv) acc) l acc).
Proof. induction l as [|x l IH]; intros acc H; cbn [fold_left]; [exact H|]. apply IH. now apply minsert_sorted. Qed.

Lemma minsert_last k v l : Forall (fun y => klt y (k, v)) l -> minsert k v l = l ++ [(k, v)].
Proof.
  induction l as [|[k' v'] l IH]; cbn [minsert app]; intros H; [reflexivity|].
  inversion H as [|? ? Hy Hl]; subst. unfold klt in Hy. cbn [fst] in Hy. rewrite ikey_cmp_anti, Hy. cbn [CompOpp]. now rewrite IH.
Qed.

Lemma msorted_app_inv acc x l : msorted (acc ++ x :: l) -> Forall (fun y => klt y x) acc.
Proof.
  induction acc as [|a acc IH]; cbn [app]; intros H; [constructor|].
  inversion H as [|? ? Hs Ha]; subst. constructor; [|now apply IH].
  rewrite Forall_forall in Ha. apply Ha. apply in_or_app. right. now left.
Qed.

Lemma fold_minsert_id l : forall acc, msorted (acc ++ l) ->
  fold_left (fun acc kv => minsert (fst kv) (snd kv) acc) l acc = acc ++ l.
Proof.
  induction l as [|[k v] l IH]; intros acc H; cbn [fold_left fst snd]; [now rewrite app_nil_r|].
  rewrite (minsert_last k v acc (msorted_app_inv acc (k, v) l H)).
  rewrite IH; rewrite <- app_assoc; cbn [app]; [reflexivity | exact H].
Qed.

Lemma msort_sorted l : msorted l -> msort l = l.
Proof. intros H. unfold msort. now rewrite (fold_minsert_id l []). Qed.

(* ------------------------------------------------------------------ what conv_term returns is well formed *)
Lemma set_kind_conv x y : conv_term x = Some y -> elem_kind y = set_kind x.
Proof.
  unfold elem_kind. destruct x; cbn [conv_term]; intros H; try discriminate;
    try (injection H as <-; reflexivity).
  - destruct (conv_set_with conv_term l None []); [|discriminate]. injection H as <-. reflexivity.
  - destruct (conv_list_with conv_term l); [|discriminate]. injection H as <-. reflexivity.
  - destruct (conv_map_with conv_term l []); [|discriminate]. injection H as <-. reflexivity.
Qed.

Section PInd.
  Variable P : pterm -> Prop.
  Hypothesis HNone : P PTNone.
  Hypothesis HVar : forall n, P (PTVariable n).
  Hypothesis HInt : forall z, P (PTInteger z).
  Hypothesis HStr : forall n, P (PTString n).
  Hypothesis HDate : forall n, P (PTDate n).
  Hypothesis HBytes : forall b, P (PTBytes b).
  Hypothesis HBool : forall b, P (PTBool b).
  Hypothesis HSet : forall l, Forall P l -> P (PTSet l).
  Hypothesis HNull : P PTNull.
  Hypothesis HArray : forall l, Forall P l -> P (PTArray l).
  Hypothesis HMap : forall l, Forall (fun kv => P (snd kv)) l -> P (PTMap l).
  Fixpoint pterm_ind' (t : pterm) : P t :=
    match t with
    | PTNone => HNone | PTVariable n => HVar n | PTInteger z => HInt z | PTString n => HStr n
    | PTDate n => HDate n | PTBytes b => HBytes b | PTBool b => HBool b
    | PTSet l => HSet l ((fix go (l : list pterm) : Forall P l :=
                            match l with [] => Forall_nil _ | x :: l' => Forall_cons _ (pterm_ind' x) (go l') end) l)
    | PTNull => HNull
    | PTArray l => HArray l ((fix go (l : list pterm) : Forall P l :=
                                match l with [] => Forall_nil _ | x :: l' => Forall_cons _ (pterm_ind' x) (go l') end) l)
    | PTMap l => HMap l ((fix go (l : list (pmapkey * pterm)) : Forall (fun kv => P (snd kv)) l :=
                            match l with
                            | [] => Forall_nil _
                            | (k, v) :: l' => Forall_cons (k, v) (pterm_ind' v) (go l')
                            end) l)
    end.
End PInd.

Definition cwf (t : pterm) : Prop := forall i, conv_term t = Some i -> iterm_wf i.

(* invariant of the set loop: the accumulator is sorted, of one kind, and well formed *)
Definition acc_ok (kind : option N) (acc : list iterm) : Prop :=
  isorted acc /\ all_with iterm_wf acc /\
  match kind with
  | None => acc = []
  | Some k => Forall (fun y => elem_kind y = Some k) acc
  end.

Lemma all_with_iinsert x acc : iterm_wf x -> all_with iterm_wf acc -> all_with iterm_wf (iinsert x acc).
Proof.
  intros Hx. induction acc as [|y acc IH]; cbn [iinsert all_with]; intros H; [split; [exact Hx | exact I]|].
  destruct H as [Hy Ha]. destruct (icmp x y); cbn [all_with].
  - split; assumption.
  - repeat split; assumption.
  - split; [assumption | now apply IH].
Qed.

Lemma conv_set_wf l : Forall cwf l -> forall kind acc res,
  acc_ok kind acc -> conv_set_with conv_term l kind acc = Some res ->
  isorted res /\ all_with iterm_wf res /\ exists k, Forall (fun y => elem_kind y = Some k) res.
Proof.
  induction l as [|x l IH]; intros Hl kind acc res (Hs & Hw & Hk); cbn [conv_set_with]; intros H.
  - injection H as <-. repeat split; try assumption.
    destruct kind as [k|]; [exists k; exact Hk | subst acc; exists 0; constructor].
  - inversion Hl as [|? ? Hx Hl']; subst.
    destruct (set_kind x) as [k|] eqn:Ek; [|discriminate].
    destruct (match kind with Some k0 => negb (k0 =? k) | None => false end) eqn:Ec; [discriminate|].
    destruct (conv_term x) as [y|] eqn:Ey; [|discriminate].
    apply (IH Hl' (Some k) (iinsert y acc) res); [|exact H].
    split; [now apply iinsert_sorted|]. split; [apply all_with_iinsert; [now apply Hx | exact Hw]|].
    apply Forall_forall. intros z Hz. apply iinsert_In in Hz as [->|Hz].
    + rewrite (set_kind_conv x y Ey). exact Ek.
    + destruct kind as [k0|]; [|subst acc; destruct Hz].
      apply negb_false_iff in Ec. apply N.eqb_eq in Ec. subst k0.
      rewrite Forall_forall in Hk. now apply Hk.
Qed.

Lemma same_kind_of_forall k l : Forall (fun y => elem_kind y = Some k) l -> same_kind l = true.
Proof.
  destruct l as [|x l]; [reflexivity|]. intros H. inversion H as [|? ? Hx Hl]; subst. cbn [same_kind]. rewrite Hx.
  apply forallb_forall. intros y Hy. rewrite Forall_forall in Hl. rewrite (Hl y Hy). apply N.eqb_refl.
Qed.

Lemma conv_list_wf l : Forall cwf l -> forall res, conv_list_with conv_term l = Some res -> all_with iterm_wf res.
Proof.
  induction l as [|x l IH]; intros Hl res; cbn [conv_list_with]; intros H.
  - injection H as <-. exact I.
  - inversion Hl as [|? ? Hx Hl']; subst. destruct (conv_term x) as [y|] eqn:Ey; [|discriminate].
    destruct (conv_list_with conv_term l) as [r|] eqn:Er; [|discriminate]. injection H as <-.
    split; [now apply Hx | now apply IH].
Qed.

Lemma all_with_minsert k v acc :
  iterm_wf v -> all_with (fun kv => match kv with (_, v) => iterm_wf v end) acc ->
  all_with (fun kv => match kv with (_, v) => iterm_wf v end) (minsert k v acc).
Proof.
  intros Hv. induction acc as [|[k' v'] acc IH]; cbn [minsert all_with]; intros H; [split; [exact Hv | exact I]|].
  destruct H as [Hy Ha]. destruct (ikey_cmp k k'); cbn [all_with].
  - split; assumption.
  - repeat split; assumption.
  - split; [assumption | now apply IH].
Qed.

Lemma conv_map_wf l : Forall (fun kv => cwf (snd kv)) l -> forall acc res,
  msorted acc -> all_with (fun kv => match kv with (_, v) => iterm_wf v end) acc ->
  conv_map_with conv_term l acc = Some res ->
  msorted res /\ all_with (fun kv => match kv with (_, v) => iterm_wf v end) res.
Proof.
  induction l as [|[k v] l IH]; intros Hl acc res Hs Hw; cbn [conv_map_with fst snd]; intros H.
  - injection H as <-. split; assumption.
  - inversion Hl as [|? ? Hx Hl']; subst. cbn [snd] in Hx.
    destruct (conv_key k) as [k'|]; [|discriminate].
    destruct (conv_term v) as [v'|] eqn:Ev; [|discriminate].
    apply (IH Hl' (minsert k' v' acc) res); [now apply minsert_sorted | apply all_with_minsert; [now apply Hx | exact Hw] | exact H].
Qed.

Theorem conv_term_wf : forall t i, conv_term t = Some i -> iterm_wf i.
Proof.
  apply (pterm_ind' cwf); unfold cwf; cbn [conv_term]; intros; try discriminate;
    try (match goal with H : Some _ = Some _ |- _ => injection H as <- end; exact I).
  - (* set *)
    destruct (conv_set_with conv_term l None []) as [s|] eqn:Es; [|discriminate].
    match goal with H : Some _ = Some _ |- _ => injection H as <- end.
    destruct (conv_set_wf l H None [] s) as (Hs & Hw & k & Hk); [|exact Es|].
    { split; [constructor|]. split; [exact I | reflexivity]. }
    cbn [iterm_wf]. split; [now apply isort_sorted|]. split; [now apply (same_kind_of_forall k) | exact Hw].
  - (* array *)
    destruct (conv_list_with conv_term l) as [a|] eqn:Ea; [|discriminate].
    match goal with H : Some _ = Some _ |- _ => injection H as <- end.
    cbn [iterm_wf]. now apply (conv_list_wf l H).
  - (* map *)
    destruct (conv_map_with conv_term l []) as [m|] eqn:Em; [|discriminate].
    match goal with H : Some _ = Some _ |- _ => injection H as <- end.
    destruct (conv_map_wf l H [] m) as (Hs & Hw); [constructor | exact I | exact Em |].
    cbn [iterm_wf]. split; [now apply msort_sorted | exact Hw].
Qed.

(* C14: rule bodies, rules, checks and policies print and parse back. *)
From Biscuit Require Import Model.Text Proofs.TextLeaves Proofs.TextDate Proofs.TextTerm Proofs.TextItems
  Proofs.TextExprRules Proofs.TextExprOps Proofs.TextExpr.
Local Open Scope N_scope.

(* ------------------------------------------------------------------ an expression is not read as a predicate *)
(* after the longest run of name characters (possibly empty) there is no '(' *)
Definition np (T : text) : Prop :=
  match span is_name_char T with ([], _) => True | (_, b) => chr cLPar (ws b) = None end.

Definition nolpar (r : text) : Prop := chr cLPar (ws r) = None.

Lemma np_nonname : forall c x, is_name_char c = false -> np (c :: x).
Proof. intros c x H1. unfold np. cbn [span]. now rewrite H1. Qed.

Lemma np_names : forall a r, forallb is_name_char a = true -> name_stop r -> nolpar r -> np (a ++ r).
Proof.
  intros a r Ha Hs Hn. unfold np. rewrite (span_app_stop is_name_char a r Ha Hs). destruct a; [exact I|exact Hn].
Qed.

Lemma digits_name : forall ds, forallb is_digit ds = true -> forallb is_name_char ds = true.
Proof.
  induction ds as [|d ds IH]; intro H; [reflexivity|]. cbn [forallb] in *.
  apply andb_true_iff in H as [H1 H2]. rewrite (IH H2), andb_true_r.
  unfold is_digit in H1. apply andb_true_iff in H1 as [A B]. apply N.leb_le in A, B.
  unfold is_name_char, low8. rewrite N.mod_small by lia.
  assert (D : is_digit d = true) by (unfold is_digit; apply andb_true_iff; split; apply N.leb_le; lia).
  rewrite D. now rewrite orb_true_r.
Qed.

Section Esc.
Variable esc : bool.

Lemma np_term : forall t r, term_okb esc CTerm t = true -> name_stop r -> nolpar r ->
  np (print_term esc t ++ r).
Proof.
  intros t r H Hs Hn. destruct t; cbn [print_term].
  - cbn [app]. now apply np_nonname.
  - destruct (print_int_shape i) as (ch & x & E & [Hd| ->] & Hr).
    + destruct Hr as [[H1 H2]|Hm].
      * rewrite E. apply np_names; [|exact Hs|exact Hn]. apply digits_name. cbn [forallb]. now rewrite H1, H2.
      * subst ch. discriminate.
    + rewrite E. cbn [app]. now apply np_nonname.
  - destruct (print_string_head esc s) as [x ->]. cbn [app]. now apply np_nonname.
  - cbn [term_okb] in H. apply andb_true_iff in H as [H1 H2]. apply Z.leb_le in H1. apply Z.ltb_lt in H2.
    destruct (print_date_form d (conj H1 H2)) as (y & tail & Hy & ->).
    rewrite <- app_assoc. cbn [app]. apply np_names.
    + apply digits_name. unfold pad4. cbn [forallb]. now rewrite !dig_digit.
    + reflexivity.
    + reflexivity.
  - cbn [term_okb] in H. apply andb_true_iff in H as [_ Hb].
    rewrite <- app_assoc. rewrite app_assoc. apply np_names; [|exact Hs|exact Hn].
    rewrite forallb_app. rewrite (print_hex_name b Hb). reflexivity.
  - destruct b; apply np_names; try assumption; reflexivity.
  - destruct l; cbn [app]; now apply np_nonname.
  - cbn [app]. now apply np_nonname.
  - apply np_names; try assumption; reflexivity.
  - cbn [app]. now apply np_nonname.
  - cbn [app]. now apply np_nonname.
Qed.

Lemma np_expr : forall e k r, wfl esc k e = true -> name_stop r -> nolpar r -> np (print_expr esc e ++ r).
Proof.
  induction e as [t|u a IH|b l IHl r0 IHr|ps body IH]; intros k r H Hs Hn; cbn [wfl] in H; try discriminate.
  - cbn [print_expr]. now apply np_term.
  - destruct u; cbn [print_expr print_unary].
    + cbn [app]. now apply np_nonname.
    + cbn [app]. now apply np_nonname.
    + apply andb_true_iff in H as [_ Hw]. rewrite <- app_assoc. apply (IH 9%nat); [exact Hw|reflexivity|reflexivity].
    + apply andb_true_iff in H as [_ Hw]. rewrite <- app_assoc. apply (IH 9%nat); [exact Hw|reflexivity|reflexivity].
    + apply andb_true_iff in H as [_ Hw]. rewrite <- !app_assoc. apply (IH 9%nat); [exact Hw|reflexivity|reflexivity].
  - destruct (infix_op b) as [[j nm]|] eqn:Ei.
    + apply andb_true_iff in H as [_ H].
      assert (Hl : exists k', wfl esc k' l = true).
      { destruct (j =? 2)%nat.
        - apply andb_true_iff in H as [H _]. eauto.
        - apply andb_true_iff in H as [H _]. apply andb_true_iff in H as [H _]. eauto. }
      destruct Hl as [k' Hl]. cbn [print_expr]. rewrite (print_infix b j nm _ _ Ei). rewrite infix_assoc.
      apply (IHl k'); [exact Hl|reflexivity|].
      unfold nolpar. destruct b; inversion Ei; reflexivity.
    + apply andb_true_iff in H as [H _]. apply andb_true_iff in H as [H Hw].
      apply andb_true_iff in H as [H _]. apply andb_true_iff in H as [H _]. apply andb_true_iff in H as [Hm _].
      rewrite (method_text esc b l r0 r Hm). apply (IHl 9%nat); [exact Hw|reflexivity|reflexivity].
Qed.

Lemma not_predicate : forall e k pre r g, wfl esc k e = true -> blank pre -> name_stop r -> nolpar r ->
  p_predicate (S g) (pre ++ print_expr esc e ++ r) = PErr.
Proof.
  intros e k pre r g Hw Hb Hs Hn. unfold p_predicate, p_pred_gen.
  destruct (expr_head esc e k Hw) as (c & x & E & Hws & _).
  assert (W : ws (pre ++ print_expr esc e ++ r) = print_expr esc e ++ r).
  { rewrite E. cbn [app]. now apply ws_blank_head. }
  rewrite W. pose proof (np_expr e k r Hw Hs Hn) as NP. unfold np in NP.
  unfold p_name, take_while1. destruct (span is_name_char (print_expr esc e ++ r)) as [a b].
  destruct a; [reflexivity|]. now rewrite NP.
Qed.

(* ------------------------------------------------------------------ scopes after a body *)
Definition scopes_text (ss : list scope) : text :=
  match ss with [] => [] | _ => str " trusting " ++ join comma_sp (map print_scope ss) end.

(* what may follow a whole rule body *)
Definition rstop (r : text) : Prop :=
  estop r /\ no_hex_head r /\ tag (str "trusting") (ws r) = None /\ sep_comma r = None /\
  name_stop r /\ nolpar r.

Lemma rstop_nil : rstop [].
Proof. repeat split; try reflexivity. apply estop_nil. Qed.

(* " or ..." *)
Lemma rstop_or : forall x, rstop (cSp :: 111 :: x).
Proof. intro x. repeat split; try reflexivity. apply estop_keyword. now right. Qed.

Lemma scope_head : forall s, scope_okb s = true ->
  exists c x, print_scope s = c :: x /\ is_ws c = false.
Proof.
  intros [| |a k|n] H; cbn [print_scope].
  - eexists _, _; split; reflexivity.
  - eexists _, _; split; reflexivity.
  - unfold print_key. destruct a; eexists _, _; split; reflexivity.
  - eexists _, _; split; reflexivity.
Qed.

Definition stail_text (ss : list scope) : text :=
  concat (map (fun s => comma_sp ++ print_scope s) ss).

Lemma scope_list_loop : forall ss, forallb scope_okb ss = true ->
  forall acc r g, no_hex_head r -> sep_comma r = None -> (length ss + 1 <= g)%nat ->
    p_scope_list g acc (stail_text ss ++ r) = POk (rev acc ++ ss) r.
Proof.
  induction ss as [|s ss IH]; intros Hok acc r g Hh Hc Hg.
  - destruct g as [|g]; [cbn in Hg; lia|]. cbn [stail_text map concat app p_scope_list].
    rewrite Hc. now rewrite app_nil_r.
  - cbn [forallb] in Hok. apply andb_true_iff in Hok as [Hs Hss]. cbn [length] in Hg.
    destruct g as [|g]; [lia|].
    unfold stail_text. cbn [map concat]. fold (stail_text ss). rewrite <- !app_assoc.
    unfold comma_sp at 1. cbn [app p_scope_list]. unfold sep_comma at 1. cbn [ws is_ws].
    change (is_ws cComma) with false. cbv iota. cbn [chr]. rewrite N.eqb_refl.
    destruct (scope_head s Hs) as (c & x & E & Hw).
    assert (W : ws (cSp :: print_scope s ++ stail_text ss ++ r) = print_scope s ++ stail_text ss ++ r).
    { cbn [ws is_ws]. change (is_ws cSp) with true. cbv iota. rewrite E. cbn [app]. now apply ws_nonws. }
    rewrite W. rewrite (scope_roundtrip s (stail_text ss ++ r) Hs).
    + rewrite (IH Hss (s :: acc) r g Hh Hc ltac:(lia)). cbn [rev]. now rewrite <- app_assoc.
    + destruct ss; [exact Hh|reflexivity].
Qed.

Lemma scopes_roundtrip : forall ss r g, forallb scope_okb ss = true -> rstop r -> (length ss + 1 <= g)%nat ->
  p_scopes g (scopes_text ss ++ r) = POk ss r.
Proof.
  intros ss r g Hok (_ & Hh & Ht & Hc & _) Hg. unfold p_scopes, scopes_text.
  destruct ss as [|s ss].
  - cbn [app]. now rewrite Ht.
  - cbn [forallb] in Hok. apply andb_true_iff in Hok as [Hs Hss].
    cbn [map]. rewrite join_cons. rewrite <- !app_assoc.
    assert (W : ws (str " trusting " ++ print_scope s ++
                    concat (map (fun e => comma_sp ++ e) (map print_scope ss)) ++ r)
                = str "trusting " ++ print_scope s ++
                    concat (map (fun e => comma_sp ++ e) (map print_scope ss)) ++ r) by reflexivity.
    rewrite W. change (str "trusting " ++ ?x) with (str "trusting" ++ cSp :: x).
    replace (str "trusting " ++ print_scope s ++ concat (map (fun e => comma_sp ++ e) (map print_scope ss)) ++ r)
      with (str "trusting" ++ cSp :: print_scope s ++ concat (map (fun e => comma_sp ++ e) (map print_scope ss)) ++ r)
      by reflexivity.
    rewrite tag_app.
    destruct (scope_head s Hs) as (c & x & E & Hw).
    assert (W2 : ws (cSp :: print_scope s ++ concat (map (fun e => comma_sp ++ e) (map print_scope ss)) ++ r)
                 = print_scope s ++ concat (map (fun e => comma_sp ++ e) (map print_scope ss)) ++ r).
    { cbn [ws is_ws]. change (is_ws cSp) with true. cbv iota. rewrite E. cbn [app]. now apply ws_nonws. }
    rewrite W2.
    assert (ST : concat (map (fun e => comma_sp ++ e) (map print_scope ss)) = stail_text ss).
    { unfold stail_text. now rewrite map_map. }
    rewrite ST. rewrite (scope_roundtrip s (stail_text ss ++ r) Hs).
    + cbn [length] in Hg. rewrite (scope_list_loop ss Hss [s] r g Hh Hc ltac:(lia)). reflexivity.
    + destruct ss; [exact Hh|reflexivity].
Qed.
End Esc.

(* ------------------------------------------------------------------ rule bodies *)
Inductive belem := BP (p : pred) | BE (e : expr).

Section Esc2.
Variable esc : bool.

Definition belem_text (x : belem) : text :=
  match x with BP p => print_pred esc p | BE e => print_expr esc e end.
Definition belem_ok (x : belem) : bool :=
  match x with BP p => pred_okb esc CTerm p | BE e => wfl esc 0 e end.
Definition belem_res (x : belem) : pred + list op :=
  match x with BP p => inl p | BE e => inr (opcodes e) end.

Fixpoint preds_of (l : list belem) : list pred :=
  match l with [] => [] | BP p :: r => p :: preds_of r | BE _ :: r => preds_of r end.
Fixpoint exprs_of (l : list belem) : list (list op) :=
  match l with [] => [] | BE e :: r => opcodes e :: exprs_of r | BP _ :: r => exprs_of r end.

(* what follows an element of a body: ", next", " trusting ..", or the end of the body *)
Definition bstop (more : text) : Prop := estop more /\ name_stop more /\ nolpar more.

Lemma bstop_comma : forall x, bstop (cComma :: x).
Proof. intro x. split; [apply estop_char; auto|split; reflexivity]. Qed.
Lemma bstop_trusting : forall x, bstop (str " trusting " ++ x).
Proof. intro x. split; [apply (estop_keyword 116); now left|split; reflexivity]. Qed.
Lemma bstop_rstop : forall r, rstop r -> bstop r.
Proof. intros r (E & _ & _ & _ & N & L). now split. Qed.

Lemma belem_head : forall x, belem_ok x = true -> exists c y, belem_text x = c :: y /\ is_ws c = false.
Proof.
  intros [p|e] H; cbn [belem_ok belem_text] in *.
  - unfold pred_okb in H. apply andb_true_iff in H as [H _]. apply andb_true_iff in H as [Hn _].
    destruct (name_head _ Hn) as (c & y & E & Hw). unfold print_pred. rewrite E. cbn [app]. eauto.
  - destruct (expr_head esc e 0 H) as (c & y & E & Hw & _). eauto.
Qed.

Lemma elem_parse : forall x more, belem_ok x = true -> bstop more ->
  exists g0, forall g, (g0 <= g)%nat -> p_pred_or_expr g (belem_text x ++ more) = POk (belem_res x) more.
Proof.
  intros [p|e] more Hok (Es & Ns & Nl); cbn [belem_ok belem_text belem_res] in *.
  - exists (lsize (pterms p) + 1)%nat. intros g Hg. unfold p_pred_or_expr, p_predicate.
    now rewrite (pred_roundtrip esc p CTerm false more g Hok Hg).
  - destruct (expr_roundtrip esc e more Hok Es) as [g0 H0]. exists (S g0). intros g Hg.
    destruct g as [|g]; [lia|]. unfold p_pred_or_expr.
    change (print_expr esc e ++ more) with ([] ++ print_expr esc e ++ more) at 1.
    rewrite (not_predicate esc e 0 [] more g Hok eq_refl Ns Nl). cbn [app].
    rewrite (H0 (S g)) by lia. reflexivity.
Qed.

Definition btail (l : list belem) : text := concat (map (fun x => comma_sp ++ belem_text x) l).

Lemma more_bstop : forall l ss r, rstop r -> bstop (btail l ++ scopes_text ss ++ r).
Proof.
  intros l ss r Hr. destruct l as [|x l].
  - cbn [btail map concat app]. destruct ss as [|s ss].
    + cbn [scopes_text app]. now apply bstop_rstop.
    + unfold scopes_text. rewrite <- app_assoc. apply bstop_trusting.
  - unfold btail. cbn [map concat]. unfold comma_sp at 1. rewrite <- !app_assoc. cbn [app]. apply bstop_comma.
Qed.

Lemma body_loop : forall l, forallb belem_ok l = true ->
  forall ps es ss r, forallb scope_okb ss = true -> rstop r ->
  exists g0, forall g, (g0 <= g)%nat ->
    p_body_list g ps es (btail l ++ scopes_text ss ++ r)
    = POk (rev ps ++ preds_of l, rev es ++ exprs_of l, ss) r.
Proof.
  induction l as [|x l IH]; intros Hok ps es ss r Hss Hr.
  - exists (length ss + 2)%nat. intros g Hg. destruct g as [|g]; [lia|].
    cbn [btail map concat app p_body_list].
    assert (SC : sep_comma (scopes_text ss ++ r) = None).
    { destruct ss; [destruct Hr as (_ & _ & _ & Hc & _); exact Hc|reflexivity]. }
    rewrite SC. rewrite (scopes_roundtrip ss r (S g) Hss Hr) by lia. cbn [pmap preds_of exprs_of].
    now rewrite !app_nil_r.
  - cbn [forallb] in Hok. apply andb_true_iff in Hok as [Hx Hl].
    set (more := btail l ++ scopes_text ss ++ r).
    destruct (elem_parse x more Hx (more_bstop l ss r Hr)) as [g1 H1].
    destruct (belem_head x Hx) as (c & y & E & Hw).
    assert (Step : forall ps' es', exists g0, forall g, (g0 <= g)%nat ->
              p_body_list g ps' es' more = POk (rev ps' ++ preds_of l, rev es' ++ exprs_of l, ss) r)
      by (intros; now apply IH).
    destruct x as [p|e].
    + destruct (Step (p :: ps) es) as [g2 H2]. exists (S (max g1 g2)). intros g Hg.
      destruct g as [|g]; [lia|].
      unfold btail. cbn [map concat]. fold (btail l). rewrite <- !app_assoc. fold more.
      unfold comma_sp at 1. cbn [app p_body_list]. unfold sep_comma at 1. cbn [ws is_ws].
      change (is_ws cComma) with false. cbv iota. cbn [chr]. rewrite N.eqb_refl.
      assert (W : ws (cSp :: belem_text (BP p) ++ more) = belem_text (BP p) ++ more).
      { cbn [ws is_ws]. change (is_ws cSp) with true. cbv iota. rewrite E. cbn [app]. now apply ws_nonws. }
      rewrite W. rewrite (H1 (S g)) by lia. cbn [belem_res cut].
      rewrite (H2 g) by lia. cbn [rev preds_of exprs_of]. now rewrite <- app_assoc.
    + destruct (Step ps (opcodes e :: es)) as [g2 H2]. exists (S (max g1 g2)). intros g Hg.
      destruct g as [|g]; [lia|].
      unfold btail. cbn [map concat]. fold (btail l). rewrite <- !app_assoc. fold more.
      unfold comma_sp at 1. cbn [app p_body_list]. unfold sep_comma at 1. cbn [ws is_ws].
      change (is_ws cComma) with false. cbv iota. cbn [chr]. rewrite N.eqb_refl.
      assert (W : ws (cSp :: belem_text (BE e) ++ more) = belem_text (BE e) ++ more).
      { cbn [ws is_ws]. change (is_ws cSp) with true. cbv iota. rewrite E. cbn [app]. now apply ws_nonws. }
      rewrite W. rewrite (H1 (S g)) by lia. cbn [belem_res cut].
      rewrite (H2 g) by lia. cbn [rev preds_of exprs_of]. now rewrite <- app_assoc.
Qed.

(* the text of a body: first element, the others after ", ", then the scopes *)
Definition body_text (x : belem) (l : list belem) (ss : list scope) : text :=
  belem_text x ++ btail l ++ scopes_text ss.

Theorem body_roundtrip : forall x l ss pre r, forallb belem_ok (x :: l) = true ->
  forallb scope_okb ss = true -> blank pre -> rstop r ->
  exists g0, forall g, (g0 <= g)%nat ->
    p_rule_body g (pre ++ body_text x l ss ++ r) = POk (preds_of (x :: l), exprs_of (x :: l), ss) r.
Proof.
  intros x l ss pre r Hok Hss Hb Hr. cbn [forallb] in Hok. apply andb_true_iff in Hok as [Hx Hl].
  set (more := btail l ++ scopes_text ss ++ r).
  destruct (elem_parse x more Hx (more_bstop l ss r Hr)) as [g1 H1].
  destruct (belem_head x Hx) as (c & y & E & Hw).
  assert (W : ws (pre ++ body_text x l ss ++ r) = belem_text x ++ more).
  { unfold body_text, more. rewrite <- !app_assoc. rewrite E. cbn [app]. now apply ws_blank_head. }
  destruct x as [p|e].
  - destruct (body_loop l Hl [p] [] ss r Hss Hr) as [g2 H2]. exists (max g1 g2). intros g Hg.
    unfold p_rule_body. rewrite W. rewrite (H1 g) by lia. cbn [belem_res cut].
    unfold more. rewrite (H2 g) by lia. reflexivity.
  - destruct (body_loop l Hl [] [opcodes e] ss r Hss Hr) as [g2 H2]. exists (max g1 g2). intros g Hg.
    unfold p_rule_body. rewrite W. rewrite (H1 g) by lia. cbn [belem_res cut].
    unfold more. rewrite (H2 g) by lia. reflexivity.
Qed.
End Esc2.

Lemma ws_idem : forall x, ws (ws x) = ws x.
Proof.
  induction x as [|c x IH]; [reflexivity|]. cbn [ws]. destruct (is_ws c) eqn:E; [exact IH|].
  cbn [ws]. now rewrite E.
Qed.

(* ------------------------------------------------------------------ rules, checks, policies *)
Section Esc3.
Variable esc : bool.

Definition items_ok (x : belem) (l : list belem) (ss : list scope) : bool :=
  forallb (belem_ok esc) (x :: l) && forallb scope_okb ss.

Definition rule_of (h : pred) (x : belem) (l : list belem) (ss : list scope) : rule :=
  mkrule h (preds_of (x :: l)) (exprs_of (x :: l)) ss.

Definition rule_text (h : pred) (x : belem) (l : list belem) (ss : list scope) : text :=
  print_pred esc h ++ str " <- " ++ body_text esc x l ss.

Theorem rule_roundtrip : forall h x l ss,
  pred_okb esc CTerm h = true -> items_ok x l ss = true ->
  validate_variables (rule_of h x l ss) = true ->
  exists g0, forall g, (g0 <= g)%nat ->
    at_eof (p_rule_inner g (rule_text h x l ss)) = Some (rule_of h x l ss).
Proof.
  intros h x l ss Hh Hit Hv. unfold items_ok in Hit. apply andb_true_iff in Hit as [Hit Hss].
  destruct (body_roundtrip esc x l ss [cSp] [] Hit Hss eq_refl rstop_nil) as [g1 H1].
  exists (max g1 (lsize (pterms h) + 1)). intros g Hg.
  unfold p_rule_inner, rule_text, p_rule_head.
  rewrite (pred_roundtrip esc h CTerm true _ g Hh) by lia. cbn [pbind].
  change (ws (str " <- " ++ body_text esc x l ss)) with (str "<-" ++ cSp :: body_text esc x l ss).
  rewrite tag_app.
  rewrite <- (app_nil_r (body_text esc x l ss)).
  change (cSp :: body_text esc x l ss ++ []) with ([cSp] ++ body_text esc x l ss ++ []).
  rewrite (H1 g) by lia. cbn [cut pbind]. fold (rule_of h x l ss). rewrite Hv. reflexivity.
Qed.

(* one alternative of a check or policy *)
Record query := mkquery { qx : belem; ql : list belem; qss : list scope }.
Definition q_ok (q : query) : bool := items_ok (qx q) (ql q) (qss q).
Definition q_rule (q : query) : rule := rule_of query_head (qx q) (ql q) (qss q).
Definition q_text (q : query) : text := body_text esc (qx q) (ql q) (qss q).

Definition or_tail (qs : list query) : text := concat (map (fun q => str " or " ++ q_text q) qs).

Lemma or_tail_rstop : forall qs, rstop (or_tail qs ++ []).
Proof.
  intros [|q qs].
  - apply rstop_nil.
  - unfold or_tail. cbn [map concat]. rewrite <- !app_assoc. apply (rstop_or _).
Qed.

Lemma or_loop : forall qs, forallb q_ok qs = true ->
  forall acc, exists g0, forall g, (g0 <= g)%nat ->
    p_or_list g acc (or_tail qs ++ []) = POk (rev acc ++ map q_rule qs) [].
Proof.
  induction qs as [|q qs IH]; intros Hok acc.
  - exists 1%nat. intros g Hg. destruct g as [|g]; [lia|]. cbn. now rewrite app_nil_r.
  - cbn [forallb] in Hok. apply andb_true_iff in Hok as [Hq Hqs].
    unfold q_ok, items_ok in Hq. apply andb_true_iff in Hq as [Hit Hss].
    destruct (body_roundtrip esc (qx q) (ql q) (qss q) [] (or_tail qs ++ []) Hit Hss eq_refl (or_tail_rstop qs))
      as [g1 H1].
    destruct (IH Hqs (q_rule q :: acc)) as [g2 H2].
    exists (S (max g1 g2)). intros g Hg. destruct g as [|g]; [lia|].
    unfold or_tail. cbn [map concat]. fold (or_tail qs). rewrite <- !app_assoc.
    cbn [p_or_list].
    change (ws (str " or " ++ q_text q ++ or_tail qs ++ [])) with (str "or" ++ cSp :: q_text q ++ or_tail qs ++ []).
    assert (T : tag_nc (str "or") (str "or" ++ cSp :: q_text q ++ or_tail qs ++ [])
                = Some (cSp :: q_text q ++ or_tail qs ++ [])) by reflexivity.
    rewrite T.
    assert (P : p_rule_body (S g) (ws (cSp :: q_text q ++ or_tail qs ++ []))
                = p_rule_body (S g) ([] ++ q_text q ++ or_tail qs ++ [])).
    { unfold p_rule_body. rewrite ws_idem. reflexivity. }
    rewrite P. unfold q_text at 1. rewrite (H1 (S g)) by lia. cbn [cut].
    change (p_or_list g (q_rule q :: acc) (or_tail qs ++ []) = POk (rev acc ++ q_rule q :: map q_rule qs) []).
    rewrite (H2 g) by lia. cbn [rev]. rewrite <- app_assoc. reflexivity.
Qed.

Definition queries_text (q : query) (qs : list query) : text := q_text q ++ or_tail qs.

Lemma check_body_roundtrip : forall q qs, forallb q_ok (q :: qs) = true ->
  exists g0, forall g, (g0 <= g)%nat ->
    p_check_body g (cSp :: queries_text q qs) = POk (map q_rule (q :: qs)) [].
Proof.
  intros q qs Hok. cbn [forallb] in Hok. apply andb_true_iff in Hok as [Hq Hqs].
  unfold q_ok, items_ok in Hq. apply andb_true_iff in Hq as [Hit Hss].
  destruct (body_roundtrip esc (qx q) (ql q) (qss q) [] (or_tail qs ++ []) Hit Hss eq_refl (or_tail_rstop qs))
    as [g1 H1].
  destruct (or_loop qs Hqs [q_rule q]) as [g2 H2].
  exists (max g1 g2). intros g Hg. unfold p_check_body, queries_text.
  assert (P : p_rule_body g (ws (cSp :: q_text q ++ or_tail qs))
              = p_rule_body g ([] ++ q_text q ++ or_tail qs ++ [])).
  { unfold p_rule_body. rewrite app_nil_r. rewrite ws_idem. reflexivity. }
  rewrite P. unfold q_text at 1. rewrite (H1 g) by lia. cbn [cut].
  change (p_or_list g [q_rule q] (or_tail qs ++ []) = POk (map q_rule (q :: qs)) []).
  rewrite (H2 g) by lia. reflexivity.
Qed.

Definition check_kw (k : ckind) : text :=
  match k with CheckIf => str "check if" | CheckAll => str "check all" | RejectIf => str "reject if" end.

Definition check_text (k : ckind) (q : query) (qs : list query) : text :=
  check_kw k ++ cSp :: queries_text q qs.

Theorem check_roundtrip : forall k q qs, forallb q_ok (q :: qs) = true ->
  exists g0, forall g, (g0 <= g)%nat ->
    at_eof (p_check_inner g (check_text k q qs)) = Some (mkcheck (map q_rule (q :: qs)) k).
Proof.
  intros k q qs Hok. destruct (check_body_roundtrip q qs Hok) as [g0 H0]. exists g0. intros g Hg.
  unfold p_check_inner, check_text. destruct k; cbn [check_kw].
  - change (ws (str "check if" ++ cSp :: queries_text q qs)) with (str "check if" ++ cSp :: queries_text q qs).
    assert (T : tag_nc (str "check if") (str "check if" ++ cSp :: queries_text q qs)
                = Some (cSp :: queries_text q qs)) by reflexivity.
    rewrite T. rewrite (H0 g Hg). reflexivity.
  - change (ws (str "check all" ++ cSp :: queries_text q qs)) with (str "check all" ++ cSp :: queries_text q qs).
    assert (T1 : tag_nc (str "check if") (str "check all" ++ cSp :: queries_text q qs) = None) by reflexivity.
    assert (T : tag_nc (str "check all") (str "check all" ++ cSp :: queries_text q qs)
                = Some (cSp :: queries_text q qs)) by reflexivity.
    rewrite T1, T. rewrite (H0 g Hg). reflexivity.
  - change (ws (str "reject if" ++ cSp :: queries_text q qs)) with (str "reject if" ++ cSp :: queries_text q qs).
    assert (T1 : tag_nc (str "check if") (str "reject if" ++ cSp :: queries_text q qs) = None) by reflexivity.
    assert (T2 : tag_nc (str "check all") (str "reject if" ++ cSp :: queries_text q qs) = None) by reflexivity.
    assert (T : tag_nc (str "reject if") (str "reject if" ++ cSp :: queries_text q qs)
                = Some (cSp :: queries_text q qs)) by reflexivity.
    rewrite T1, T2, T. rewrite (H0 g Hg). reflexivity.
Qed.

Definition policy_text (k : pkind) (q : query) (qs : list query) : text :=
  (match k with Allow => str "allow if" | Deny => str "deny if" end) ++ cSp :: queries_text q qs.

Theorem policy_roundtrip : forall k q qs, forallb q_ok (q :: qs) = true ->
  exists g0, forall g, (g0 <= g)%nat ->
    at_eof (p_policy_inner g (policy_text k q qs)) = Some (mkpolicy (map q_rule (q :: qs)) k).
Proof.
  intros k q qs Hok. destruct (check_body_roundtrip q qs Hok) as [g0 H0]. exists g0. intros g Hg.
  unfold p_policy_inner, policy_text. destruct k.
  - change (ws (str "allow if" ++ cSp :: queries_text q qs)) with (str "allow if" ++ cSp :: queries_text q qs).
    assert (T : tag_nc (str "allow if") (str "allow if" ++ cSp :: queries_text q qs)
                = Some (cSp :: queries_text q qs)) by reflexivity.
    rewrite T. rewrite (H0 g Hg). reflexivity.
  - change (ws (str "deny if" ++ cSp :: queries_text q qs)) with (str "deny if" ++ cSp :: queries_text q qs).
    assert (T1 : tag_nc (str "allow if") (str "deny if" ++ cSp :: queries_text q qs) = None) by reflexivity.
    assert (T : tag_nc (str "deny if") (str "deny if" ++ cSp :: queries_text q qs)
                = Some (cSp :: queries_text q qs)) by reflexivity.
    rewrite T1, T. rewrite (H0 g Hg). reflexivity.
Qed.
End Esc3.

(* ------------------------------------------------------------------ the model printers print these texts *)
Section Esc4.
Variable esc : bool.

Lemma print_exprs_opcodes : forall es, print_exprs esc (map opcodes es) = Some (map (print_expr esc) es).
Proof.
  induction es as [|e es IH]; [reflexivity|]. cbn [map print_exprs].
  now rewrite print_ops_opcodes, IH.
Qed.

Definition items_of (ps : list pred) (es : list expr) : list belem := map BP ps ++ map BE es.

Lemma preds_of_items : forall ps es, preds_of (items_of ps es) = ps.
Proof.
  unfold items_of. induction ps as [|p ps IH]; intro es; cbn [map app preds_of].
  - induction es as [|e es IHe]; [reflexivity|exact IHe].
  - now rewrite IH.
Qed.

Lemma exprs_of_items : forall ps es, exprs_of (items_of ps es) = map opcodes es.
Proof.
  unfold items_of. induction ps as [|p ps IH]; intro es; cbn [map app exprs_of].
  - induction es as [|e es IHe]; [reflexivity|]. cbn [map exprs_of]. now rewrite IHe.
  - exact (IH es).
Qed.

Lemma join_app2 : forall (a b : list text), a <> [] -> b <> [] ->
  join comma_sp (a ++ b) = join comma_sp a ++ comma_sp ++ join comma_sp b.
Proof.
  intros a b Ha Hb. destruct a as [|x a]; [congruence|]. clear Ha. revert x.
  induction a as [|y a IH]; intro x.
  - destruct b as [|z b]; [congruence|]. reflexivity.
  - change ((x :: y :: a) ++ b) with (x :: (y :: a) ++ b).
    change (join comma_sp (x :: (y :: a) ++ b)) with (x ++ comma_sp ++ join comma_sp ((y :: a) ++ b)).
    rewrite IH. change (join comma_sp (x :: y :: a)) with (x ++ comma_sp ++ join comma_sp (y :: a)).
    now rewrite <- !app_assoc.
Qed.

Lemma body_text_join : forall x l ss,
  body_text esc x l ss = join comma_sp (map (belem_text esc) (x :: l)) ++ scopes_text ss.
Proof.
  intros. unfold body_text, btail. cbn [map]. rewrite join_cons. rewrite map_map. now rewrite <- app_assoc.
Qed.

Lemma print_body_items : forall h ps es ss x l, items_of ps es = x :: l ->
  print_rule_body esc (mkrule h ps (map opcodes es) ss) = Some (body_text esc x l ss).
Proof.
  intros h ps es ss x l E. unfold print_rule_body. cbn [rexprs rbody rscopes].
  rewrite print_exprs_opcodes. rewrite body_text_join, <- E. f_equal.
  assert (J : join comma_sp (map (print_pred esc) ps) ++
              match map (print_expr esc) es with
              | [] => []
              | _ :: _ =>
                  match map (print_pred esc) ps with
                  | [] => join comma_sp (map (print_expr esc) es)
                  | _ :: _ => comma_sp ++ join comma_sp (map (print_expr esc) es)
                  end
              end = join comma_sp (map (belem_text esc) (items_of ps es))).
  { unfold items_of. rewrite map_app, !map_map. cbn [belem_text].
    destruct es as [|e es].
    - cbn [map]. now rewrite !app_nil_r.
    - destruct ps as [|p ps].
      + reflexivity.
      + cbn [map]. symmetry.
        apply (join_app2 (print_pred esc p :: map (fun x0 => print_pred esc x0) ps)
                         (print_expr esc e :: map (fun x0 => print_expr esc x0) es)); discriminate. }
  rewrite app_assoc. rewrite J. destruct ss; reflexivity.
Qed.

(* rules *)
Theorem rule_printed_roundtrip : forall h ps es ss,
  pred_okb esc CTerm h = true -> forallb (pred_okb esc CTerm) ps = true ->
  forallb (wfl esc 0) es = true -> items_of ps es <> [] -> forallb scope_okb ss = true ->
  validate_variables (mkrule h ps (map opcodes es) ss) = true ->
  exists t, print_rule esc (mkrule h ps (map opcodes es) ss) = Some t /\
    exists g0, forall g, (g0 <= g)%nat ->
      at_eof (p_rule_inner g t) = Some (mkrule h ps (map opcodes es) ss).
Proof.
  intros h ps es ss Hh Hps Hes Hne Hss Hv.
  destruct (items_of ps es) as [|x l] eqn:E; [congruence|].
  exists (rule_text esc h x l ss). split.
  - unfold print_rule. rewrite (print_body_items h ps es ss x l E). reflexivity.
  - assert (Hit : items_ok esc x l ss = true).
    { unfold items_ok. rewrite Hss, andb_true_r. rewrite <- E. unfold items_of. rewrite forallb_app.
      apply andb_true_iff. split; rewrite forallb_forall; intros y Hy; apply in_map_iff in Hy as (z & <- & Hz);
        cbn [belem_ok]; [rewrite forallb_forall in Hps|rewrite forallb_forall in Hes]; auto. }
    assert (R : rule_of h x l ss = mkrule h ps (map opcodes es) ss).
    { unfold rule_of. rewrite <- E. now rewrite preds_of_items, exprs_of_items. }
    rewrite <- R in *. now apply rule_roundtrip.
Qed.

(* the alternatives of a check or policy, as (body predicates, expression trees, scopes) *)
Definition alt : Type := list pred * list expr * list scope.
Definition alt_rule (a : alt) : rule :=
  let '(ps, es, ss) := a in mkrule query_head ps (map opcodes es) ss.
Definition alt_ok (a : alt) : bool :=
  let '(ps, es, ss) := a in
  forallb (pred_okb esc CTerm) ps && forallb (wfl esc 0) es && negb (is_nil (items_of ps es)) && forallb scope_okb ss.

Lemma alt_query : forall a, alt_ok a = true ->
  exists q, q_ok esc q = true /\ q_rule q = alt_rule a /\ print_rule_body esc (alt_rule a) = Some (q_text esc q).
Proof.
  intros [[ps es] ss] H. unfold alt_ok in H. repeat (apply andb_true_iff in H as [H ?]).
  destruct (items_of ps es) as [|x l] eqn:E; [discriminate|].
  exists (mkquery x l ss). repeat split.
  - unfold q_ok, items_ok. cbn [qx ql qss]. rewrite H0, andb_true_r. rewrite <- E. unfold items_of.
    rewrite forallb_app. apply andb_true_iff.
    split; rewrite forallb_forall; intros y Hy; apply in_map_iff in Hy as (z & <- & Hz); cbn [belem_ok];
      [rewrite forallb_forall in H|rewrite forallb_forall in H2]; auto.
  - unfold q_rule, rule_of, alt_rule. cbn [qx ql qss]. rewrite <- E. now rewrite preds_of_items, exprs_of_items.
  - unfold alt_rule, q_text. cbn [qx ql qss]. now apply print_body_items.
Qed.

Lemma alts_queries : forall l, forallb alt_ok l = true ->
  exists qs, forallb (q_ok esc) qs = true /\ map q_rule qs = map alt_rule l /\
             print_bodies esc (map alt_rule l) = Some (map (q_text esc) qs).
Proof.
  induction l as [|a l IH]; intro H.
  - exists []. repeat split.
  - cbn [forallb] in H. apply andb_true_iff in H as [Ha Hl].
    destruct (alt_query a Ha) as (q & Q1 & Q2 & Q3). destruct (IH Hl) as (qs & S1 & S2 & S3).
    exists (q :: qs). repeat split.
    + cbn [forallb]. now rewrite Q1, S1.
    + cbn [map]. now rewrite Q2, S2.
    + cbn [map print_bodies]. now rewrite Q3, S3.
Qed.

Lemma join_or : forall q qs,
  join (str " or ") (map (q_text esc) (q :: qs)) = queries_text esc q qs.
Proof.
  intros q qs. unfold queries_text, or_tail. revert q. induction qs as [|q2 qs IH]; intro q.
  - cbn [map join concat]. now rewrite app_nil_r.
  - change (join (str " or ") (map (q_text esc) (q :: q2 :: qs)))
      with (q_text esc q ++ str " or " ++ join (str " or ") (map (q_text esc) (q2 :: qs))).
    rewrite IH. cbn [map concat]. now rewrite <- !app_assoc.
Qed.

Theorem check_printed_roundtrip : forall k a l, forallb alt_ok (a :: l) = true ->
  let c := mkcheck (map alt_rule (a :: l)) k in
  exists t, print_check esc c = Some t /\
    exists g0, forall g, (g0 <= g)%nat -> at_eof (p_check_inner g t) = Some c.
Proof.
  intros k a l H c. destruct (alts_queries (a :: l) H) as (qs & S1 & S2 & S3).
  destruct qs as [|q qs]; [discriminate|].
  exists (check_text esc k q qs). split.
  - unfold print_check, c. cbn [cqueries ckind_of]. rewrite S3. rewrite join_or.
    unfold check_text. destruct k; cbn [check_kw]; rewrite <- ?app_assoc; reflexivity.
  - unfold c. rewrite <- S2. now apply check_roundtrip.
Qed.

Theorem policy_printed_roundtrip : forall k a l, forallb alt_ok (a :: l) = true ->
  let p := mkpolicy (map alt_rule (a :: l)) k in
  exists t, print_policy esc p = Some t /\
    exists g0, forall g, (g0 <= g)%nat -> at_eof (p_policy_inner g t) = Some p.
Proof.
  intros k a l H p. destruct (alts_queries (a :: l) H) as (qs & S1 & S2 & S3).
  destruct qs as [|q qs]; [discriminate|].
  exists (policy_text esc k q qs). split.
  - unfold print_policy, p. cbn [pqueries pkind_of].
    change (map alt_rule (a :: l)) with (alt_rule a :: map alt_rule l) at 1.
    cbn iota. change (alt_rule a :: map alt_rule l) with (map alt_rule (a :: l)).
    rewrite S3. rewrite join_or. unfold policy_text. destruct k; rewrite <- ?app_assoc; reflexivity.
  - unfold p. rewrite <- S2. now apply policy_roundtrip.
Qed.
End Esc4.

(* Layout lemmas: le32, decidable equalities, completeness of [readings_*], injectivity of
   the signed messages under the unique-reading premise, per-shape injectivity. *)
From Biscuit Require Import Model.Token Model.Readings.
Local Open Scope N_scope.

(* ------------------------------------------------------------------ equalities *)
Lemma bytes_eqb_refl : forall a, bytes_eqb a a = true.
Proof. induction a as [|x a IH]; cbn [bytes_eqb]; [reflexivity|]. now rewrite N.eqb_refl, IH. Qed.

Lemma bytes_eqb_eq : forall a b, bytes_eqb a b = true -> a = b.
Proof.
  induction a as [|x a IH]; destruct b as [|y b]; cbn [bytes_eqb]; intros H; try discriminate; [reflexivity|].
  apply andb_true_iff in H as [H1 H2]. apply N.eqb_eq in H1. subst. f_equal. now apply IH.
Qed.

Lemma alg_eqb_eq : forall a b, alg_eqb a b = true -> a = b.
Proof. destruct a, b; cbn; intros; congruence. Qed.

Lemma alg_eqb_refl : forall a, alg_eqb a a = true.
Proof. destruct a; reflexivity. Qed.

Lemma pubkey_eqb_eq : forall a b, pubkey_eqb a b = true -> a = b.
Proof.
  intros [a1 a2] [b1 b2]; unfold pubkey_eqb; cbn [pk_alg pk_bytes]; intros H.
  apply andb_true_iff in H as [H1 H2]. apply alg_eqb_eq in H1. apply bytes_eqb_eq in H2. congruence.
Qed.

Lemma pubkey_eqb_refl : forall a, pubkey_eqb a a = true.
Proof. intros [a b]; unfold pubkey_eqb; cbn. now rewrite alg_eqb_refl, bytes_eqb_refl. Qed.

Lemma obytes_eqb_eq : forall a b, obytes_eqb a b = true -> a = b.
Proof. intros [a|] [b|]; cbn; intros H; try discriminate; [apply bytes_eqb_eq in H; congruence | reflexivity]. Qed.

Lemma fields_eqb_eq : forall x y, fields_eqb x y = true -> x = y.
Proof.
  intros [[[v d] k] e] [[[v' d'] k'] e']; cbn [fields_eqb]; intros H.
  apply andb_true_iff in H as [H He]. apply andb_true_iff in H as [H Hk]. apply andb_true_iff in H as [Hv Hd].
  apply N.eqb_eq in Hv. apply bytes_eqb_eq in Hd. apply pubkey_eqb_eq in Hk. apply obytes_eqb_eq in He. congruence.
Qed.

Lemma fields_list_eqb_eq : forall a b, fields_list_eqb a b = true -> a = b.
Proof.
  induction a as [|x a IH]; destruct b as [|y b]; cbn [fields_list_eqb]; intros H; try discriminate; [reflexivity|].
  apply andb_true_iff in H as [H1 H2]. apply fields_eqb_eq in H1. f_equal; auto.
Qed.

Lemma is_nil_eq : forall A (l : list A), is_nil l = true -> l = [].
Proof. destruct l; cbn; intros; congruence. Qed.

(* ------------------------------------------------------------------ le32 *)
Lemma le32_length : forall n, length (le32 n) = 4%nat.
Proof. reflexivity. Qed.

Lemma le32_value : forall n, n < 4294967296 ->
  n = n mod 256 + 256 * ((n / 256) mod 256) + 65536 * ((n / 65536) mod 256)
      + 16777216 * ((n / 16777216) mod 256).
Proof.
  intros n Hn.
  assert (H1 := N.div_mod n 256 ltac:(discriminate)).
  assert (H2 := N.div_mod (n / 256) 256 ltac:(discriminate)).
  assert (H3 := N.div_mod (n / 256 / 256) 256 ltac:(discriminate)).
  assert (E2 : n / 65536 = n / 256 / 256) by (rewrite N.div_div by discriminate; reflexivity).
  assert (E3 : n / 16777216 = n / 256 / 256 / 256) by (rewrite !N.div_div by discriminate; reflexivity).
  assert (Hs : n / 256 / 256 / 256 < 256).
  { rewrite !N.div_div by discriminate. apply N.div_lt_upper_bound; [discriminate|]. exact Hn. }
  rewrite E2, E3. rewrite (N.mod_small (n / 256 / 256 / 256) 256) by exact Hs. lia.
Qed.

Theorem le32_injective : forall n m, n < 4294967296 -> m < 4294967296 -> le32 n = le32 m -> n = m.
Proof.
  intros n m Hn Hm H. unfold le32 in H. injection H as H0 H1 H2 H3.
  rewrite (le32_value n Hn), (le32_value m Hm). now rewrite H0, H1, H2, H3.
Qed.

(* ------------------------------------------------------------------ list splitting *)
Lemma firstn_app_len : forall A (x k : list A), firstn (length (x ++ k) - length k) (x ++ k) = x.
Proof.
  intros. rewrite app_length, Nat.add_sub. rewrite firstn_app, Nat.sub_diag, firstn_all, firstn_O. apply app_nil_r.
Qed.

Lemma skipn_app_len : forall A (x k : list A), skipn (length (x ++ k) - length k) (x ++ k) = k.
Proof.
  intros. rewrite app_length, Nat.add_sub. rewrite skipn_app, Nat.sub_diag, skipn_all. reflexivity.
Qed.

Lemma split_end_app : forall x k, split_end (length k) (x ++ k) = Some (x, k).
Proof.
  intros. unfold split_end.
  assert (H : (length k <=? length (x ++ k))%nat = true) by (apply Nat.leb_le; rewrite app_length; lia).
  rewrite H, firstn_app_len, skipn_app_len. reflexivity.
Qed.

Lemma strip_suffix_app : forall p x, strip_suffix p (x ++ p) = Some x.
Proof. intros. unfold strip_suffix. now rewrite split_end_app, bytes_eqb_refl. Qed.

Lemma strip_prefix_app : forall p r, strip_prefix p (p ++ r) = Some r.
Proof. induction p as [|x p IH]; intros; cbn [strip_prefix app]; [reflexivity|]. now rewrite N.eqb_refl. Qed.

Lemma strip_prefix_sound : forall p s r, strip_prefix p s = Some r -> s = p ++ r.
Proof.
  induction p as [|x p IH]; intros s r H; cbn [strip_prefix] in H; [now inversion H|].
  destruct s as [|y s]; [discriminate|]. destruct (N.eqb x y) eqn:E; [|discriminate].
  apply N.eqb_eq in E. subst. cbn [app]. f_equal. now apply IH.
Qed.

Lemma splits_complete : forall pat x y, In (x, y) (splits pat (x ++ pat ++ y)).
Proof.
  intros pat x y. induction x as [|c x IH].
  - cbn [app]. destruct pat as [|p pat]; cbn [splits].
    + destruct y; cbn; auto.
    + cbn [app]. apply in_or_app. left. change (p :: pat ++ y) with ((p :: pat) ++ y).
      rewrite strip_prefix_app. now left.
  - cbn [app splits]. apply in_or_app. right.
    apply (in_map (fun xy => (c :: fst xy, snd xy))) in IH. exact IH.
Qed.

(* ------------------------------------------------------------------ readings are complete *)
Lemma key_ok_len : forall k, key_ok k = true -> length (pk_bytes k) = key_len (pk_alg k).
Proof. intros k H. unfold key_ok in H. apply andb_true_iff in H as [H _]. now apply Nat.eqb_eq. Qed.

Lemma read_key_complete : forall sep d k, key_ok k = true ->
  In (d, k) (read_key sep (d ++ sep (pk_alg k) ++ pk_bytes k)).
Proof.
  intros sep d [a kb] Hk. cbn [pk_alg pk_bytes].
  assert (Hl := key_ok_len _ Hk). cbn [pk_alg pk_bytes] in Hl.
  assert (Hone : In (d, mkpub a kb) (read_key_alg sep (d ++ sep a ++ kb) a)).
  { unfold read_key_alg. rewrite <- Hl. rewrite app_assoc. rewrite split_end_app.
    rewrite Hk. rewrite strip_suffix_app. now left. }
  unfold read_key. apply in_or_app. destruct a; [left | right]; exact Hone.
Qed.

Lemma block_wf_inv : forall b, block_wf b = true ->
  (b_version b = 0 \/ b_version b = 1) /\ (b_version b = 0 -> b_ext b = None) /\ key_ok (b_next b) = true.
Proof.
  intros b H. unfold block_wf in H. apply andb_true_iff in H as [H Hk]. apply andb_true_iff in H as [Hv He].
  apply N.leb_le in Hv. split; [lia|]. split; [|exact Hk].
  intros H0. destruct (b_ext b); [|reflexivity]. apply N.eqb_eq in He. lia.
Qed.

Lemma ext_sig_none : forall b, b_ext b = None -> ext_sig b = None.
Proof. intros b H. unfold ext_sig. now rewrite H. Qed.

Lemma readings_block_complete : forall prev b, block_wf b = true ->
  In (fields_of b) (readings_block prev (msg_block prev b)).
Proof.
  intros prev b Hwf. destruct (block_wf_inv b Hwf) as (Hv & H0 & Hk).
  unfold readings_block, msg_block, fields_of. destruct Hv as [Hv | Hv]; rewrite Hv.
  - (* version 0 *)
    cbn [N.eqb]. rewrite (ext_sig_none b (H0 Hv)). apply in_or_app. left.
    unfold payload_v0, opt_bytes, key_part. cbn [app].
    apply (in_map (mk_fields 0 None)) with (x := (b_data b, b_next b)).
    apply (read_key_complete sep_v0). exact Hk.
  - (* version 1 *)
    cbn [N.eqb Pos.eqb]. apply in_or_app. right.
    unfold payload_block_v1, payload_authority_v1.
    replace ((tag_block_version ++ le32 1 ++ tag_payload ++ b_data b ++
              tag_algorithm ++ le32 (alg_num (pk_alg (b_next b))) ++ tag_nextkey ++ pk_bytes (b_next b)) ++
             tag_prevsig ++ prev ++ match ext_sig b with Some s => tag_externalsig ++ s | None => [] end)
      with (v1_header 1 ++
            ((b_data b ++ sep_v1 (pk_alg (b_next b)) ++ pk_bytes (b_next b)) ++
             match ext_sig b with
             | Some s => (tag_prevsig ++ prev ++ tag_externalsig) ++ s
             | None => tag_prevsig ++ prev
             end))
      by (unfold v1_header, sep_v1; destruct (ext_sig b); rewrite <- ?app_assoc, ?app_nil_r; reflexivity).
    rewrite strip_prefix_app. apply in_or_app.
    destruct (ext_sig b) as [e|] eqn:Ee.
    + right. apply in_flat_map.
      exists (b_data b ++ sep_v1 (pk_alg (b_next b)) ++ pk_bytes (b_next b), e). split.
      * apply splits_complete.
      * cbn [fst snd].
        apply (in_map (mk_fields 1 (Some e))) with (x := (b_data b, b_next b)).
        apply (read_key_complete sep_v1). exact Hk.
    + left. rewrite strip_suffix_app.
      apply (in_map (mk_fields 1 None)) with (x := (b_data b, b_next b)).
      apply (read_key_complete sep_v1). exact Hk.
Qed.

Lemma readings_authority_complete : forall b, block_wf b = true -> b_ext b = None ->
  In (fields_of b) (readings_authority (msg_authority b)).
Proof.
  intros b Hwf He. destruct (block_wf_inv b Hwf) as (Hv & _ & Hk).
  unfold readings_authority, msg_authority, fields_of. rewrite (ext_sig_none b He).
  destruct Hv as [Hv | Hv]; rewrite Hv.
  - cbn [N.eqb]. apply in_or_app. left. unfold payload_v0, opt_bytes, key_part. cbn [app].
    apply (in_map (mk_fields 0 None)) with (x := (b_data b, b_next b)).
    apply (read_key_complete sep_v0). exact Hk.
  - cbn [N.eqb Pos.eqb]. apply in_or_app. right. unfold payload_authority_v1.
    replace (tag_block_version ++ le32 1 ++ tag_payload ++ b_data b ++
             tag_algorithm ++ le32 (alg_num (pk_alg (b_next b))) ++ tag_nextkey ++ pk_bytes (b_next b))
      with (v1_header 1 ++ (b_data b ++ sep_v1 (pk_alg (b_next b)) ++ pk_bytes (b_next b)))
      by (unfold v1_header, sep_v1; rewrite <- ?app_assoc; reflexivity).
    rewrite strip_prefix_app.
    apply (in_map (mk_fields 1 None)) with (x := (b_data b, b_next b)).
    apply (read_key_complete sep_v1). exact Hk.
Qed.

(* ------------------------------------------------------------------ injectivity from unique readings *)
Theorem msg_block_inj : forall prev b b',
  readings_block prev (msg_block prev b) = [fields_of b] ->
  block_wf b' = true ->
  msg_block prev b' = msg_block prev b -> fields_of b' = fields_of b.
Proof.
  intros prev b b' Hu Hwf Hm. assert (H := readings_block_complete prev b' Hwf).
  rewrite Hm, Hu in H. destruct H as [H | []]. now symmetry.
Qed.

Theorem msg_authority_inj : forall b b',
  readings_authority (msg_authority b) = [fields_of b] ->
  block_wf b' = true -> b_ext b' = None ->
  msg_authority b' = msg_authority b -> fields_of b' = fields_of b.
Proof.
  intros b b' Hu Hwf He Hm. assert (H := readings_authority_complete b' Hwf He).
  rewrite Hm, Hu in H. destruct H as [H | []]. now symmetry.
Qed.

Theorem msg_block_not_seal : forall prev b' M,
  readings_block prev M = [] -> block_wf b' = true -> msg_block prev b' <> M.
Proof.
  intros prev b' M Hu Hwf Hm. assert (H := readings_block_complete prev b' Hwf).
  rewrite Hm, Hu in H. exact H.
Qed.

(* ------------------------------------------------------------------ per-shape injectivity *)
Lemma app_eq_len_l : forall A (x x' y y' : list A),
  length x = length x' -> x ++ y = x' ++ y' -> x = x' /\ y = y'.
Proof.
  induction x as [|a x IH]; destruct x' as [|a' x']; cbn; intros y y' Hl H; try discriminate; [auto|].
  injection H as Ha H. injection Hl as Hl. destruct (IH x' y y' Hl H). subst. auto.
Qed.

Lemma app_eq_len_r : forall A (x x' y y' : list A),
  length y = length y' -> x ++ y = x' ++ y' -> x = x' /\ y = y'.
Proof.
  intros A x x' y y' Hl H. apply app_eq_len_l; [|exact H].
  apply (f_equal (@length A)) in H. rewrite !app_length in H. lia.
Qed.

Lemma alg_num_inj : forall a b, alg_num a = alg_num b -> a = b.
Proof. destruct a, b; cbn; intros; congruence. Qed.

Lemma alg_num_lt : forall a, alg_num a < 4294967296.
Proof. destruct a; cbn; lia. Qed.

Lemma pubkey_ext : forall k k', pk_alg k = pk_alg k' -> pk_bytes k = pk_bytes k' -> k = k'.
Proof. intros [a b] [a' b']; cbn; intros; congruence. Qed.

(* data ++ T3 ++ le32 alg ++ T4 ++ key, keys of equal length *)
Lemma v1_tail_inj : forall d d' k k',
  length (pk_bytes k) = length (pk_bytes k') ->
  d ++ tag_algorithm ++ le32 (alg_num (pk_alg k)) ++ tag_nextkey ++ pk_bytes k =
  d' ++ tag_algorithm ++ le32 (alg_num (pk_alg k')) ++ tag_nextkey ++ pk_bytes k' ->
  d = d' /\ k = k'.
Proof.
  intros d d' k k' Hl H.
  apply app_eq_len_r in H as [Hd H]; [|rewrite !app_length, !le32_length, Hl; reflexivity].
  apply app_inv_head in H. apply app_eq_len_l in H as [Ha H]; [|reflexivity].
  apply app_inv_head in H.
  split; [exact Hd|]. apply pubkey_ext; [|exact H].
  apply alg_num_inj. apply le32_injective; auto using alg_num_lt.
Qed.

Theorem payload_authority_v1_inj : forall d d' k k' v v',
  v < 4294967296 -> v' < 4294967296 -> length (pk_bytes k) = length (pk_bytes k') ->
  payload_authority_v1 d k v = payload_authority_v1 d' k' v' -> d = d' /\ k = k' /\ v = v'.
Proof.
  intros d d' k k' v v' Hv Hv' Hl H. unfold payload_authority_v1 in H.
  apply app_inv_head in H. apply app_eq_len_l in H as [Hle H]; [|reflexivity].
  apply app_inv_head in H. destruct (v1_tail_inj _ _ _ _ Hl H) as [Hd Hk].
  repeat split; auto. now apply le32_injective.
Qed.

Definition olen (o : option bytes) : option nat := option_map (@length N) o.

Theorem payload_block_v1_inj : forall d d' k k' e e' p p' v v',
  v < 4294967296 -> v' < 4294967296 -> length (pk_bytes k) = length (pk_bytes k') ->
  length p = length p' -> olen e = olen e' ->
  payload_block_v1 d k e p v = payload_block_v1 d' k' e' p' v' ->
  d = d' /\ k = k' /\ e = e' /\ p = p' /\ v = v'.
Proof.
  intros d d' k k' e e' p p' v v' Hv Hv' Hl Hp He H. unfold payload_block_v1 in H.
  assert (Hsplit : payload_authority_v1 d k v = payload_authority_v1 d' k' v' /\
                   tag_prevsig ++ p ++ match e with Some s => tag_externalsig ++ s | None => [] end =
                   tag_prevsig ++ p' ++ match e' with Some s => tag_externalsig ++ s | None => [] end).
  { apply app_eq_len_r; [|exact H]. rewrite !app_length, Hp. f_equal. f_equal.
    destruct e as [s|], e' as [s'|]; cbn in He; try discriminate; [|reflexivity].
    injection He as He. now rewrite !app_length, He. }
  destruct Hsplit as [Ha Ht].
  destruct (payload_authority_v1_inj _ _ _ _ _ _ Hv Hv' Hl Ha) as (Hd & Hk & Hvv).
  apply app_inv_head in Ht. apply app_eq_len_l in Ht as [Hpp Ht]; [|exact Hp].
  repeat split; auto.
  destruct e as [s|], e' as [s'|]; cbn in He; try discriminate; [|reflexivity].
  apply app_inv_head in Ht. congruence.
Qed.

Theorem payload_external_v1_inj : forall d d' p p' v v',
  v < 4294967296 -> v' < 4294967296 -> length p = length p' ->
  payload_external_v1 d p v = payload_external_v1 d' p' v' -> d = d' /\ p = p' /\ v = v'.
Proof.
  intros d d' p p' v v' Hv Hv' Hp H. unfold payload_external_v1 in H.
  apply app_inv_head in H. apply app_eq_len_l in H as [Hle H]; [|reflexivity].
  apply app_inv_head in H.
  apply app_eq_len_r in H as [Hd H]; [|rewrite !app_length, Hp; reflexivity].
  apply app_inv_head in H. repeat split; auto. now apply le32_injective.
Qed.

Lemma key_part_inj : forall k k', length (pk_bytes k) = length (pk_bytes k') ->
  key_part k = key_part k' -> k = k'.
Proof.
  intros k k' Hl H. unfold key_part in H. apply app_eq_len_l in H as [Ha H]; [|reflexivity].
  apply pubkey_ext; [|exact H]. apply alg_num_inj. apply le32_injective; auto using alg_num_lt.
Qed.

(* version 0 without external signature *)
Theorem payload_v0_inj : forall d d' k k',
  length (pk_bytes k) = length (pk_bytes k') ->
  payload_v0 d None k = payload_v0 d' None k' -> d = d' /\ k = k'.
Proof.
  intros d d' k k' Hl H. unfold payload_v0, opt_bytes in H. cbn [app] in H.
  apply app_eq_len_r in H as [Hd H]; [|unfold key_part; rewrite !app_length, Hl; reflexivity].
  split; [exact Hd | now apply key_part_inj].
Qed.

(* version 0 with an external signature of known length (legacy third-party blocks) *)
Theorem payload_v0_ext_inj : forall d d' e e' k k',
  length (pk_bytes k) = length (pk_bytes k') -> length e = length e' ->
  payload_v0 d (Some e) k = payload_v0 d' (Some e') k' -> d = d' /\ e = e' /\ k = k'.
Proof.
  intros d d' e e' k k' Hl He H. unfold payload_v0, opt_bytes in H.
  apply app_eq_len_r in H as [Hd H];
    [|unfold key_part; rewrite !app_length, Hl, He; reflexivity].
  apply app_eq_len_l in H as [Hee H]; [|exact He].
  repeat split; auto. now apply key_part_inj.
Qed.

Theorem payload_seal_inj : forall d d' k k' s s',
  length (pk_bytes k) = length (pk_bytes k') -> length s = length s' ->
  payload_seal d k s = payload_seal d' k' s' -> d = d' /\ k = k' /\ s = s'.
Proof.
  intros d d' k k' s s' Hl Hs H. unfold payload_seal in H.
  apply app_eq_len_r in H as [Hd H];
    [|unfold key_part; rewrite !app_length, Hl, Hs; reflexivity].
  apply app_eq_len_r in H as [Hk H]; [|exact Hs].
  repeat split; auto. now apply key_part_inj.
Qed.

Theorem payload_external_v0_inj : forall d d' k k',
  length (pk_bytes k) = length (pk_bytes k') ->
  payload_external_v0 d k = payload_external_v0 d' k' -> d = d' /\ k = k'.
Proof.
  intros d d' k k' Hl H. unfold payload_external_v0 in H.
  apply app_eq_len_r in H as [Hd H]; [|unfold key_part; rewrite !app_length, Hl; reflexivity].
  split; [exact Hd | now apply key_part_inj].
Qed.

(* the tagged block layout and the tagged external layout never coincide *)
Theorem block_v1_not_external_v1 : forall d k e p v d' p' v',
  payload_block_v1 d k e p v <> payload_external_v1 d' p' v'.
Proof.
  intros. unfold payload_block_v1, payload_authority_v1, payload_external_v1,
    tag_block_version, tag_external_version. cbn [str app N_of_ascii N_of_digits]. intros H. discriminate H.
Qed.

(* Proofs about Model/Snapshot.v: restore (snapshot a) = a for the repaired restore, saved
   policies, and the refutation witnesses for the unchanged code. *)
From Biscuit Require Import Model.Snapshot Proofs.SymbolsProofs.

(* ------------------------------------------------------------------ reading back what was authored *)
Lemma all_some_map : forall {A C} (u : C -> option A) (e : A -> C),
  (forall x, u (e x) = Some x) -> forall l, all_some (map u (map e l)) = Some l.
Proof.
  intros A C u e H. induction l as [|x l IH]; [reflexivity|]. cbn. rewrite H, IH. reflexivity.
Qed.

Lemma unres_scope_ok : forall s, unres_scope (map_scope RKey s) = Some s.
Proof. intros [| |k]; reflexivity. Qed.

Lemma unres_fact_ok : forall f, unres_fact (map_fact RStr f) = Some f.
Proof. intros [n a]. reflexivity. Qed.

Lemma unres_rule_ok : forall r, unres_rule (map_rule RStr RKey r) = Some r.
Proof.
  intros [h b v sc]. cbn. rewrite (all_some_map unres_scope (map_scope RKey) unres_scope_ok). reflexivity.
Qed.

Lemma unres_check_ok : forall c, unres_check (map_check RStr RKey c) = Some c.
Proof.
  intros [b a sc]. cbn. rewrite (all_some_map unres_scope (map_scope RKey) unres_scope_ok). reflexivity.
Qed.

Lemma unres_view_ok : forall c, unres_view (authored c) = Some c.
Proof.
  intros [fs rs cs ss]. unfold authored. cbn.
  rewrite (all_some_map unres_fact (map_fact RStr) unres_fact_ok),
          (all_some_map unres_rule (map_rule RStr RKey) unres_rule_ok),
          (all_some_map unres_check (map_check RStr RKey) unres_check_ok),
          (all_some_map unres_scope (map_scope RKey) unres_scope_ok). reflexivity.
Qed.

(* ------------------------------------------------------------------ interning of the snapshot's parts *)
Definition res_policy (t : tables) (p : policy_ N N) : policy_ rstr rkey :=
  (fst p, map_check (res_str (fst t)) (res_key (snd t)) (snd p)).
Definition emb_policy (p : policy_ bytes key) : policy_ rstr rkey := (fst p, map_check RStr RKey (snd p)).

Lemma intern_policy_ok : interns intern_policy res_policy emb_policy.
Proof.
  intros t [k c] t' y. unfold intern_policy. cbn [fst snd].
  destruct (intern_check t c) as [t1 c'] eqn:E. intro H. injection H as <- <-.
  destruct (intern_check_ok _ _ _ _ E) as [T R]. split; [exact T|].
  intros t'' Hp. unfold res_policy, emb_policy. cbn [fst snd]. rewrite (R t'' Hp). reflexivity.
Qed.

Definition res_blk (t : tables) (b : wcontent * option key) : view * option key := (resolve_content t (fst b), snd b).
Definition emb_blk (b : blk) : view * option key := (authored (fst b), snd b).

Lemma intern_blk_ok : interns intern_blk res_blk emb_blk.
Proof.
  intros t [c e] t' y. unfold intern_blk. cbn [fst snd].
  destruct (intern_content t c) as [t1 w] eqn:E. intro H. injection H as <- <-.
  destruct (intern_content_ok _ _ _ _ E) as [T R]. split; [exact T|].
  intros t'' Hp. unfold res_blk, emb_blk. cbn [fst snd]. rewrite (R t'' Hp). reflexivity.
Qed.

Definition res_ofact (t : tables) (f : origin * fact_ N) : origin * fact_ rstr := (fst f, map_fact (res_str (fst t)) (snd f)).
Definition emb_ofact (f : ofact) : origin * fact_ rstr :=
  let '(o, n, v) := f in (o, YFact (RStr n) (RStr v)).

Lemma intern_ofact_ok : interns intern_ofact res_ofact emb_ofact.
Proof.
  intros t [[o n] v] t' y. unfold intern_ofact.
  destruct (intern_fact t (YFact n v)) as [t1 w] eqn:E. intro H. injection H as <- <-.
  destruct (intern_fact_ok _ _ _ _ E) as [T R]. split; [exact T|].
  intros t'' Hp. unfold res_ofact, emb_ofact. cbn [fst snd]. rewrite (R t'' Hp). reflexivity.
Qed.

(* reading a list back, given that it resolves to the embedding of what was interned *)
Lemma read_list : forall {A B C} (r : B -> C) (e : A -> C) (u : C -> option A),
  (forall x, u (e x) = Some x) ->
  forall ys xs, map r ys = map e xs -> all_some (map (fun y => u (r y)) ys) = Some xs.
Proof.
  intros A B C r e u H. induction ys as [|y ys IH]; intros [|x xs] E; try discriminate; [reflexivity|].
  cbn in E. injection E as E1 E2. cbn. rewrite E1, H, (IH xs E2). reflexivity.
Qed.

Lemma read_policy_eq : forall t p,
  read_policy t p = (fun q : policy_ rstr rkey =>
                       match unres_check (snd q) with Some c => Some (fst q, c) | None => None end) (res_policy t p).
Proof. intros t [k c]. reflexivity. Qed.

Lemma read_ofact_eq : forall t f,
  read_ofact t f = (fun q : origin * fact_ rstr =>
                      match unres_fact (snd q) with Some (YFact n v) => Some (fst q, n, v) | None => None end) (res_ofact t f).
Proof. intros t [o w]. reflexivity. Qed.

Lemma read_blocks_ok : forall t ys xs i,
  map (res_blk t) ys = map emb_blk xs -> read_blocks Repaired t i ys = Some xs.
Proof.
  intros t. induction ys as [|[w e] ys IH]; intros [|[c e'] xs] i E; try discriminate; [reflexivity|].
  cbn in E. injection E as E1 E2 E3. subst e'. cbn [read_blocks].
  assert (Hr : restore_tables Repaired t i e = t) by (destruct e, i; reflexivity).
  rewrite Hr. unfold read_content. unfold res_blk in E1. cbn [fst] in E1. rewrite E1, unres_view_ok.
  rewrite (IH xs (S i) E3). reflexivity.
Qed.

(* ------------------------------------------------------------------ facts: the union with what loading inserts *)
Lemma add_ofact_present : forall l f, existsb (ofact_eqb f) l = true -> add_ofact l f = l.
Proof. intros l f H. unfold add_ofact. rewrite H. reflexivity. Qed.

Lemma fold_add_present : forall init l,
  forallb (fun f => existsb (ofact_eqb f) l) init = true -> fold_left add_ofact init l = l.
Proof.
  induction init as [|f init IH]; intros l H; [reflexivity|]. cbn in H. apply andb_true_iff in H.
  destruct H as [H1 H2]. cbn [fold_left]. rewrite (add_ofact_present _ _ H1). apply IH. exact H2.
Qed.

(* ------------------------------------------------------------------ the round trip *)
Theorem snapshot_roundtrip : forall a,
  a_rules a = world_rules Repaired (a_blocks a) (a_auth a) ->
  wf_b a = true ->
  restore Repaired Repaired (snapshot a) = ROk' a.
Proof.
  intros [bs au ps fs rules lim it ex] Hr Hw. cbn [a_rules a_blocks a_auth] in Hr. unfold wf_b in Hw.
  cbn [a_facts a_blocks a_auth] in Hw. unfold snapshot.
  cbn [a_policies a_auth a_blocks a_facts a_limits a_iterations a_exec].
  destruct (intern_list intern_policy ([], []) ps) as [t1 wps] eqn:E1.
  destruct (intern_content t1 au) as [t2 wa] eqn:E2.
  destruct (intern_list intern_blk t2 bs) as [t3 wbs] eqn:E3.
  destruct (intern_list intern_ofact t3 fs) as [t4 wfs] eqn:E4.
  destruct (intern_list_ok _ _ _ intern_policy_ok _ _ _ _ E1) as [T1 R1].
  destruct (intern_content_ok _ _ _ _ E2) as [T2 R2].
  destruct (intern_list_ok _ _ _ intern_blk_ok _ _ _ _ E3) as [T3 R3].
  destruct (intern_list_ok _ _ _ intern_ofact_ok _ _ _ _ E4) as [T4 R4].
  pose proof (text_pext _ _ T2) as P2. pose proof (text_pext _ _ T3) as P3. pose proof (text_pext _ _ T4) as P4.
  assert (Q4 : pext t4 t4) by apply pext_refl.
  assert (Q3 : pext t3 t4) by exact P4.
  assert (Q2 : pext t2 t4) by (eapply pext_trans; eassumption).
  assert (Q1 : pext t1 t4) by (eapply pext_trans; eassumption).
  specialize (R1 t4 Q1). specialize (R2 t4 Q2). specialize (R3 t4 Q3). specialize (R4 t4 Q4).
  unfold restore. cbn [s_strings s_keys s_auth s_policies s_blocks s_facts s_limits s_iterations s_exec].
  assert (Et : (fst t4, snd t4) = t4) by (destruct t4; reflexivity). rewrite Et.
  unfold read_content at 1. rewrite R2, unres_view_ok.
  assert (Hp : all_some (map (read_policy t4) wps) = Some ps).
  { rewrite (map_ext _ _ (read_policy_eq t4)).
    apply (read_list (res_policy t4) emb_policy
             (fun q => match unres_check (snd q) with Some c => Some (fst q, c) | None => None end)).
    - intros [k c]. unfold emb_policy. cbn [fst snd]. rewrite unres_check_ok. reflexivity.
    - exact R1. }
  rewrite Hp. rewrite (read_blocks_ok t4 wbs bs 0%nat R3).
  assert (Hf : all_some (map (read_ofact t4) wfs) = Some fs).
  { rewrite (map_ext _ _ (read_ofact_eq t4)).
    apply (read_list (res_ofact t4) emb_ofact
             (fun q => match unres_fact (snd q) with Some (YFact n v) => Some (fst q, n, v) | None => None end)).
    - intros [[o n] v]. reflexivity.
    - exact R4. }
  rewrite Hf. rewrite (fold_add_present _ _ Hw). rewrite <- Hr. reflexivity.
Qed.

Theorem same_behaviour : forall a,
  a_rules a = world_rules Repaired (a_blocks a) (a_auth a) -> wf_b a = true ->
  exists a', restore Repaired Repaired (snapshot a) = ROk' a' /\ eval_state a' = eval_state a /\
             snapshot a' = snapshot a.
Proof. intros a Hr Hw. exists a. split; [apply snapshot_roundtrip; assumption | split; reflexivity]. Qed.

(* ------------------------------------------------------------------ the moments of a snapshot are well formed *)
Lemma ofact_eqb_refl : forall f, ofact_eqb f f = true.
Proof.
  intros [[o n] v]. unfold ofact_eqb. rewrite !bytes_eqb_refl.
  assert (H : o_eqb o o = true).
  { unfold o_eqb. assert (S : o_sub o o = true).
    { unfold o_sub. apply forallb_forall. intros x Hx. unfold o_mem. apply existsb_exists.
      exists x. split; [exact Hx | apply N.eqb_refl]. }
    rewrite S. reflexivity. }
  rewrite H. reflexivity.
Qed.

Lemma facts_self : forall l, forallb (fun f => existsb (ofact_eqb f) l) l = true.
Proof.
  intro l. apply forallb_forall. intros f Hf. apply existsb_exists. exists f. split; [exact Hf | apply ofact_eqb_refl].
Qed.

Theorem wf_before_run : forall bs a ps lim,
  let s := build_authorizer bs a ps lim in
  a_rules s = world_rules Repaired (a_blocks s) (a_auth s) /\ wf_b s = true.
Proof. intros. split; [reflexivity|]. unfold wf_b. cbn. apply facts_self. Qed.

Lemma existsb_add : forall f l g, existsb (ofact_eqb f) l = true -> existsb (ofact_eqb f) (add_ofact l g) = true.
Proof.
  intros f l g H. unfold add_ofact. destruct (existsb (ofact_eqb g) l); [exact H|].
  rewrite existsb_app, H. reflexivity.
Qed.

Lemma existsb_fold_add : forall new f l, existsb (ofact_eqb f) l = true ->
  existsb (ofact_eqb f) (fold_left add_ofact new l) = true.
Proof. induction new as [|g new IH]; intros f l H; [exact H|]. cbn. apply IH. apply existsb_add. exact H. Qed.

Lemma existsb_saturate : forall fuel rules f l, existsb (ofact_eqb f) l = true ->
  existsb (ofact_eqb f) (saturate fuel rules l) = true.
Proof.
  induction fuel as [|fuel IH]; intros rules f l H; [exact H|]. cbn [saturate].
  destruct (length (fold_left add_ofact (flat_map (apply_entry l) rules) l) =? length l)%nat; [exact H|].
  apply IH. apply existsb_fold_add. exact H.
Qed.

(* any growth of the world by added facts (a complete run, a run stopped by a limit) keeps
   the state well formed *)
Definition with_world (a : astate) (fs : list ofact) (it ex : N) : astate :=
  mkastate (a_blocks a) (a_auth a) (a_policies a) fs (a_rules a) (a_limits a) it ex.

Theorem wf_after_run : forall a fuel it ex,
  a_rules a = world_rules Repaired (a_blocks a) (a_auth a) -> wf_b a = true ->
  let s := with_world a (saturate fuel (a_rules a) (a_facts a)) it ex in
  a_rules s = world_rules Repaired (a_blocks s) (a_auth s) /\ wf_b s = true.
Proof.
  intros a fuel it ex Hr Hw. split; [exact Hr|]. unfold wf_b, with_world in *. cbn [a_facts a_blocks a_auth].
  apply forallb_forall. intros f Hf. apply existsb_saturate.
  exact (proj1 (forallb_forall _ _) Hw f Hf).
Qed.

Theorem wf_after_partial_run : forall a extra it ex,
  a_rules a = world_rules Repaired (a_blocks a) (a_auth a) -> wf_b a = true ->
  let s := with_world a (fold_left add_ofact extra (a_facts a)) it ex in
  a_rules s = world_rules Repaired (a_blocks s) (a_auth s) /\ wf_b s = true.
Proof.
  intros a extra it ex Hr Hw. split; [exact Hr|]. unfold wf_b, with_world in *. cbn [a_facts a_blocks a_auth].
  apply forallb_forall. intros f Hf. apply existsb_fold_add.
  exact (proj1 (forallb_forall _ _) Hw f Hf).
Qed.

(* ------------------------------------------------------------------ saved policies *)
Lemma fresh_from_empty : forall t, fresh_ext default_symbols [] t -> has_common t default_symbols = false.
Proof.
  intros t [d [E [_ H]]]. cbn in E. subst. apply has_common_false. intros x Hx. apply (H x Hx).
Qed.

Theorem policies_roundtrip : forall p : apolicies, load_policies (save_policies Repaired p) = ROk' p.
Proof.
  intros [a ps]. unfold save_policies. cbn [fst snd].
  destruct (intern_content ([], []) a) as [t1 w] eqn:E1.
  destruct (intern_list intern_policy t1 ps) as [t2 wps] eqn:E2.
  destruct (intern_content_ok _ _ _ _ E1) as [T1 R1].
  destruct (intern_list_ok _ _ _ intern_policy_ok _ _ _ _ E2) as [T2 R2].
  pose proof (text_trans _ _ _ T1 T2) as T12. destruct T12 as [Hs _]. cbn [fst] in Hs.
  unfold load_policies. rewrite (fresh_from_empty _ Hs).
  assert (Et : (fst t2, snd t2) = t2) by (destruct t2; reflexivity). rewrite Et.
  unfold read_content. rewrite (R1 t2 (text_pext _ _ T2)), unres_view_ok.
  assert (Hp : all_some (map (read_policy t2) wps) = Some ps).
  { rewrite (map_ext _ _ (read_policy_eq t2)).
    apply (read_list (res_policy t2) emb_policy
             (fun q => match unres_check (snd q) with Some c => Some (fst q, c) | None => None end)).
    - intros [k c]. unfold emb_policy. cbn [fst snd]. rewrite unres_check_ok. reflexivity.
    - exact (R2 t2 (pext_refl t2)). }
  rewrite Hp. reflexivity.
Qed.

(* ------------------------------------------------------------------ witnesses against the unchanged code *)
Definition lim0 : N * N * N := (1000, 100, 1000000)%N.

(* a third-party block with a symbol of its own: "p", "file1" *)
Definition s_c0 : acontent := YContent [YFact (str "right") (str "read")] [] [] [].
Definition s_tp : acontent := YContent [YFact (str "p") (str "file1")] [] [] [].
Definition s_a1 : astate :=
  build_authorizer [(s_c0, None); (s_tp, Some (wk "0"))] (YContent [] [] [] [])
                   [(true, YCheck (str "p") (str "file1") [YKey (wk "0")])] lim0.

Lemma third_party_symbols_witness :
  restore Faithful Faithful (snapshot s_a1) = RErr' RUnknownRef /\
  restore Repaired Repaired (snapshot s_a1) = ROk' s_a1 /\
  eval_state s_a1 = (SDone (Some (true, 0%N)) [], a_facts s_a1).
Proof. repeat split; vm_compute; reflexivity. Qed.

(* block 0 has a rule trusting the key that signs block 1; block 1 uses default symbols only *)
Definition s_fwd : acontent :=
  YContent [YFact (str "right") (str "read")]
           [YRule (str "owner") (str "resource") (str "user") [YKey (wk "1")]] [] [].
Definition s_tp2 : acontent := YContent [YFact (str "resource") (str "read")] [] [] [].
Definition s_a2 : astate :=
  build_authorizer [(s_fwd, None); (s_tp2, Some (wk "1"))] (YContent [] [] [] [])
                   [(true, YCheck (str "owner") (str "read") [YAuth; YKey (wk "1")])] lim0.

Definition restored_or (d : astate) (r : rres astate) : astate := match r with ROk' a => a | RErr' _ => d end.

Lemma forward_key_witness :
  let a' := restored_or s_a2 (restore Faithful Faithful (snapshot s_a2)) in
  restore Faithful Faithful (snapshot s_a2) = ROk' a' /\
  a_rules s_a2 = [(0%N, [1%N; 0%N; auth_id], str "owner", str "resource")] /\
  a_rules a' = [(0%N, [0%N; auth_id], str "owner", str "resource")] /\
  fst (eval_state s_a2) = SDone (Some (true, 0%N)) [] /\
  fst (eval_state a') = SDone None [] /\
  restore Repaired Repaired (snapshot s_a2) = ROk' s_a2.
Proof. intro a'. repeat split; vm_compute; reflexivity. Qed.

(* saved policies with a public key in a scope *)
Definition s_pol : apolicies :=
  (YContent [] [] [YCheck (str "right") (str "read") [YKey (wk "3")]] [],
   [(true, YCheck (str "right") (str "read") [YKey (wk "2")])]).

Lemma policies_keys_witness :
  load_policies (save_policies Faithful s_pol) = RErr' RUnknownRef /\
  load_policies (save_policies Repaired s_pol) = ROk' s_pol.
Proof. split; vm_compute; reflexivity. Qed.

(* a richer state for the non-vacuity examples: authorizer facts, rules, checks, scopes, a
   deny policy, after a run *)
Definition s_auth : acontent :=
  YContent [YFact (str "resource") (str "file1")]
           [YRule (str "q") (str "p") (str "x") [YKey (wk "0")]]
           [YCheck (str "right") (str "read") [YAuth]] [YPrev].
Definition s_a3 : astate :=
  build_authorizer [(s_c0, None); (YContent [YFact (str "p") (str "x")] [] [] [], None); (s_tp, Some (wk "0"))]
                   s_auth
                   [(false, YCheck (str "q") (str "zz") []); (true, YCheck (str "q") (str "file1") [YKey (wk "0")])] lim0.
Definition s_a3_ran : astate := with_world s_a3 (saturate 64 (a_rules s_a3) (a_facts s_a3)) 2%N 12345%N.

Lemma example_ran :
  length (a_facts s_a3) = 4%nat /\ length (a_facts s_a3_ran) = 5%nat /\
  fst (eval_state s_a3_ran) = SDone (Some (true, 1%N)) [] /\
  s_strings (snapshot s_a3_ran) = [str "q"; str "zz"; str "file1"; str "x"; str "p"] /\
  s_keys (snapshot s_a3_ran) = [wk "0"].
Proof. repeat split; vm_compute; reflexivity. Qed.

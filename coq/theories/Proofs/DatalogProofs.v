(* The engine computes exactly the derivable pairs (C05). *)
From Biscuit Require Import Spec.DatalogSpec Proofs.ValueProofs.
From Coq Require Import Permutation.

(* ---------- join against its declarative reading ---------- *)
Lemma join_spec facts body : forall s o o' s',
  In (o', s') (join facts body s o) <->
  exists picks, (forall p, In p picks -> In p facts) /\
                match_all body (map snd picks) s = Some s' /\ o' = ounions o picks.
Proof.
  induction body as [|p body IH]; intros s o o' s'; cbn [join].
  - split.
    + intros [H|[]]. inversion H; subst. exists []. repeat split; intros ? [].
    + intros [picks [_ [H1 H2]]]. destruct picks as [|x picks]; [|discriminate].
      simpl in *. inversion H1; subst. left. reflexivity.
  - rewrite in_flat_map. split.
    + intros [of [Hin H]]. destruct (match_pred p (snd of) s) as [s1|] eqn:E; [|destruct H].
      apply IH in H. destruct H as [picks [Hp [Hm Ho]]].
      exists (of :: picks). repeat split.
      * intros q [<-|Hq]; [assumption|apply Hp; assumption].
      * cbn [map match_all]. rewrite E. exact Hm.
      * exact Ho.
    + intros [picks [Hp [Hm Ho]]]. destruct picks as [|of picks]; [discriminate|].
      cbn [map match_all] in Hm. destruct (match_pred p (snd of) s) as [s1|] eqn:E; [|discriminate].
      exists of. split; [apply Hp; left; reflexivity|]. rewrite E. apply IH.
      exists picks. repeat split; [intros q Hq; apply Hp; right; assumption|exact Hm|exact Ho].
Qed.

Lemma visible_In tr facts p : In p (visible tr facts) <-> In p facts /\ osubset (fst p) tr = true.
Proof. unfold visible. apply filter_In. Qed.

(* ---------- produce / apply_rule ---------- *)
Section Engine.
Variable orc : oracles.

Lemma produce_sound r owner ms : forall l,
  produce orc r owner ms = Ok l ->
  forall x, In x l ->
  exists o s vs, In (o, s) ms /\ eval_exprs orc s (rexprs r) = Ok true /\
                 inst_terms s (pargs (rhead r)) = Some vs /\
                 x = (oinsert owner o, mkfact (pname (rhead r)) vs).
Proof.
  induction ms as [|[o s] ms IH]; intros l H x Hx; cbn [produce] in H.
  - inversion H; subst. destruct Hx.
  - destruct (eval_exprs orc s (rexprs r)) as [[|]|e] eqn:E; try discriminate.
    + destruct (inst_terms s (pargs (rhead r))) as [vs|] eqn:I.
      * destruct (produce orc r owner ms) as [l'|e] eqn:P; [|discriminate].
        inversion H; subst. destruct Hx as [<-|Hx].
        -- exists o, s, vs. repeat split; auto. left; reflexivity.
        -- destruct (IH l' eq_refl x Hx) as [o1 [s1 [vs1 [A [B [C D]]]]]].
           exists o1, s1, vs1. repeat split; auto. right; assumption.
      * destruct (IH l H x Hx) as [o1 [s1 [vs1 [A [B [C D]]]]]].
        exists o1, s1, vs1. repeat split; auto. right; assumption.
    + destruct (IH l H x Hx) as [o1 [s1 [vs1 [A [B [C D]]]]]].
      exists o1, s1, vs1. repeat split; auto. right; assumption.
Qed.

Lemma produce_complete r owner ms : forall l,
  produce orc r owner ms = Ok l ->
  forall o s vs, In (o, s) ms -> eval_exprs orc s (rexprs r) = Ok true ->
                 inst_terms s (pargs (rhead r)) = Some vs ->
                 In (oinsert owner o, mkfact (pname (rhead r)) vs) l.
Proof.
  induction ms as [|[o1 s1] ms IH]; intros l H o s vs Hin He Hi; [destruct Hin|].
  cbn [produce] in H.
  destruct (eval_exprs orc s1 (rexprs r)) as [[|]|e] eqn:E; try discriminate.
  - destruct (inst_terms s1 (pargs (rhead r))) as [vs1|] eqn:I.
    + destruct (produce orc r owner ms) as [l'|e] eqn:P; [|discriminate].
      inversion H; subst. destruct Hin as [Hin|Hin].
      * inversion Hin; subst. rewrite Hi in I. inversion I; subst. left. reflexivity.
      * right. eapply IH; eauto.
    + destruct Hin as [Hin|Hin]; [inversion Hin; subst; congruence|]. eapply IH; eauto.
  - destruct Hin as [Hin|Hin]; [inversion Hin; subst; congruence|]. eapply IH; eauto.
Qed.

Lemma apply_rules_In facts rs : forall new,
  apply_rules orc facts rs = Ok new ->
  (forall x, In x new -> exists re l, In re rs /\ apply_rule orc facts re = Ok l /\ In x l) /\
  (forall re, In re rs -> exists l, apply_rule orc facts re = Ok l /\ forall x, In x l -> In x new).
Proof.
  induction rs as [|r rs IH]; intros new H; cbn [apply_rules] in H.
  - inversion H; subst. split; [intros x []|intros re []].
  - destruct (apply_rule orc facts r) as [l|e] eqn:A; [|discriminate].
    destruct (apply_rules orc facts rs) as [l'|e] eqn:B; [|discriminate].
    inversion H; subst. destruct (IH l' eq_refl) as [I1 I2]. split.
    + intros x Hx. apply in_app_or in Hx. destruct Hx as [Hx|Hx].
      * exists r, l. repeat split; auto. left; reflexivity.
      * destruct (I1 x Hx) as [re [l0 [P [Q R]]]]. exists re, l0. repeat split; auto. right; assumption.
    + intros re [<-|Hre].
      * exists l. split; [assumption|]. intros x Hx. apply in_or_app. left; assumption.
      * destruct (I2 re Hre) as [l0 [P Q]]. exists l0. split; [assumption|].
        intros x Hx. apply in_or_app. right. apply Q. assumption.
Qed.

(* ---------- merge ---------- *)
Lemma add_fact_In facts f x : In x (add_fact facts f) -> In x facts \/ x = f.
Proof.
  unfold add_fact. destruct (existsb (ofact_eqb f) facts); [auto|].
  intro H. apply in_app_or in H. destruct H as [H|[H|[]]]; auto.
Qed.

Lemma add_fact_keeps facts f x : In x facts -> In x (add_fact facts f).
Proof.
  unfold add_fact. destruct (existsb (ofact_eqb f) facts); [auto|]. intro H. apply in_or_app. auto.
Qed.

Lemma merge_In new : forall facts x, In x (merge facts new) -> In x facts \/ In x new.
Proof.
  unfold merge. induction new as [|f new IH]; intros facts x H; cbn [fold_left] in H; [auto|].
  apply IH in H. destruct H as [H|H]; [|right; right; assumption].
  apply add_fact_In in H. destruct H as [H|H]; [left; assumption|right; left; congruence].
Qed.

Lemma merge_keeps new : forall facts x, In x facts -> In x (merge facts new).
Proof.
  unfold merge. induction new as [|f new IH]; intros facts x H; cbn [fold_left]; [assumption|].
  apply IH. apply add_fact_keeps. assumption.
Qed.

Lemma add_fact_length facts f :
  (length (add_fact facts f) = length facts /\ existsb (ofact_eqb f) facts = true) \/
  (length (add_fact facts f) = S (length facts)).
Proof.
  unfold add_fact. destruct (existsb (ofact_eqb f) facts); [left; auto|].
  right. rewrite app_length. simpl. lia.
Qed.

Lemma merge_length_ge new : forall facts, (length facts <= length (merge facts new))%nat.
Proof.
  unfold merge. induction new as [|f new IH]; intro facts; cbn [fold_left]; [lia|].
  specialize (IH (add_fact facts f)).
  destruct (add_fact_length facts f) as [[E _]|E]; lia.
Qed.

Lemma existsb_ofact_mono f facts facts' :
  (forall x, In x facts -> In x facts') ->
  existsb (ofact_eqb f) facts = true -> existsb (ofact_eqb f) facts' = true.
Proof.
  intros H E. apply existsb_exists in E. destruct E as [x [Hx Ex]].
  apply existsb_exists. exists x. split; [apply H; assumption|assumption].
Qed.

(* if merging adds nothing, every new fact was already present (up to set-equal origins) *)
Lemma merge_same_length new : forall facts,
  length (merge facts new) = length facts ->
  merge facts new = facts /\ forall x, In x new -> existsb (ofact_eqb x) facts = true.
Proof.
  unfold merge. induction new as [|f new IH]; intros facts H; cbn [fold_left] in *.
  - split; [reflexivity|intros x []].
  - pose proof (merge_length_ge new (add_fact facts f)) as G. unfold merge in G.
    destruct (add_fact_length facts f) as [[E1 E2]|E1]; [|lia].
    assert (add_fact facts f = facts) as A.
    { unfold add_fact. rewrite E2. reflexivity. }
    rewrite A in *. destruct (IH facts H) as [I1 I2]. split; [assumption|].
    intros x [<-|Hx]; [assumption|apply I2; assumption].
Qed.

(* ---------- soundness ---------- *)
Theorem saturate_sound (W : world) : forall n facts fs,
  (forall x, In x facts -> Derivable orc W (fst x) (snd x)) ->
  saturate orc n (w_rules W) facts = Ok (Some fs) ->
  forall x, In x fs -> Derivable orc W (fst x) (snd x).
Proof.
  induction n as [|n IH]; intros facts fs Hf H x Hx; cbn [saturate] in H; [discriminate|].
  destruct (apply_rules orc facts (w_rules W)) as [new|e] eqn:A; [|discriminate].
  assert (Hnew : forall y, In y (merge facts new) -> Derivable orc W (fst y) (snd y)).
  { intros y Hy. apply merge_In in Hy. destruct Hy as [Hy|Hy]; [apply Hf; assumption|].
    destruct (apply_rules_In _ _ _ A) as [I1 _].
    destruct (I1 y Hy) as [re [l [Hre [Hl Hyl]]]].
    unfold apply_rule in Hl.
    destruct (produce_sound _ _ _ _ Hl y Hyl) as [o [s [vs [Hin [He [Hi ->]]]]]].
    apply join_spec in Hin. destruct Hin as [picks [Hp [Hm ->]]].
    cbn [fst snd]. apply D_rule with (s := s); try assumption.
    - intros p Hpk. apply Hf. apply (visible_In (re_trusted re) facts p). apply Hp. assumption.
    - intros p Hpk. apply (visible_In (re_trusted re) facts p). apply Hp. assumption. }
  match type of H with context [if ?c then _ else _] => destruct c eqn:L end.
  - inversion H; subst. apply Hnew. assumption.
  - eapply IH; eauto.
Qed.

(* ---------- completeness ---------- *)
Definition closed (rules : list rule_entry) (fs : list ofact) : Prop :=
  exists new, apply_rules orc fs rules = Ok new /\
              forall x, In x new -> existsb (ofact_eqb x) fs = true.

Lemma saturate_closed rules : forall n facts fs,
  saturate orc n rules facts = Ok (Some fs) ->
  closed rules fs /\ (forall x, In x facts -> In x fs).
Proof.
  induction n as [|n IH]; intros facts fs H; cbn [saturate] in H; [discriminate|].
  destruct (apply_rules orc facts rules) as [new|e] eqn:A; [|discriminate].
  match type of H with context [if ?c then _ else _] => destruct c eqn:L end.
  - inversion H; subst. apply Nat.eqb_eq in L.
    destruct (merge_same_length _ _ L) as [M1 M2]. rewrite M1. split; [|auto].
    exists new. split; assumption.
  - destruct (IH _ _ H) as [I1 I2]. split; [assumption|].
    intros x Hx. apply I2. apply merge_keeps. assumption.
Qed.

Lemma ounions_oeq : forall picks picks' o o',
  oeq o o' ->
  Forall2 (fun p p' => oeq (fst p) (fst p')) picks picks' ->
  oeq (ounions o picks) (ounions o' picks').
Proof.
  unfold ounions. induction picks as [|p picks IH]; intros picks' o o' Ho H; inversion H; subst;
    cbn [fold_left]; [assumption|].
  apply IH; [apply ounion_oeq; assumption|assumption].
Qed.

Theorem derivable_in_closed (W : world) fs :
  closed (w_rules W) fs ->
  (forall x, In x (w_facts W) -> exists o', In (o', snd x) fs /\ oeq (fst x) o') ->
  forall o f, Derivable orc W o f -> exists o', In (o', f) fs /\ oeq o o'.
Proof.
  intros [new [Hnew Hcl]] Hbase o f D.
  induction D as [o f Hin | re picks s vs Hre Hd IH Hvis Hm He Hi].
  - apply (Hbase (o, f)). assumption.
  - (* replace every pick by its representative in fs *)
    assert (exists picks', Forall2 (fun p p' => snd p = snd p' /\ oeq (fst p) (fst p') /\ In p' fs) picks picks')
      as [picks' HP].
    { clear Hm Hvis Hd. induction picks as [|p picks IHp]; [exists []; constructor|].
      destruct (IH p (or_introl eq_refl)) as [o' [Ho1 Ho2]].
      destruct IHp as [picks' HP']; [intros q Hq; apply IH; right; assumption|].
      exists ((o', snd p) :: picks'). constructor; [|assumption].
      split; [reflexivity|split; [exact Ho2|exact Ho1]]. }
    assert (map snd picks' = map snd picks) as Hmap.
    { clear -HP. induction HP as [|p p' l l' [E _] _ IHl]; [reflexivity|]. cbn [map]. congruence. }
    assert (forall p', In p' picks' -> In p' (visible (re_trusted re) fs)) as Hvis'.
    { intros p' Hp'. apply visible_In.
      clear -HP Hvis Hp'. induction HP as [|p q l l' [E1 [E2 E3]] _ IHl]; [destruct Hp'|].
      destruct Hp' as [<-|Hp'].
      - split; [assumption|]. rewrite <- (osubset_oeq _ _ _ E2). apply Hvis. left; reflexivity.
      - apply IHl; [intros z Hz; apply Hvis; right; assumption|assumption]. }
    assert (In (ounions [] picks', s) (join (visible (re_trusted re) fs) (rbody (re_rule re)) [] [])) as Hj.
    { apply join_spec. exists picks'. repeat split; [assumption|rewrite Hmap; assumption]. }
    destruct (apply_rules_In _ _ _ Hnew) as [_ I2].
    destruct (I2 re Hre) as [l [Hl Hsub]]. unfold apply_rule in Hl.
    pose proof (produce_complete _ _ _ _ Hl _ _ _ Hj He Hi) as Hin.
    apply Hsub in Hin. apply Hcl in Hin. apply existsb_exists in Hin.
    destruct Hin as [[o2 f2] [Hin2 Heq]]. apply ofact_eqb_spec in Heq. cbn [fst snd] in Heq.
    destruct Heq as [Eo Ef]. subst f2. exists o2. split; [assumption|].
    eapply oeq_trans; [|exact Eo]. apply oinsert_oeq. apply ounions_oeq; [apply oeq_refl|].
    clear -HP. induction HP as [|p q l l' [_ [E _]] _ IHl]; constructor; assumption.
Qed.

Theorem saturate_complete (W : world) n fs :
  saturate orc n (w_rules W) (w_facts W) = Ok (Some fs) ->
  forall o f, Derivable orc W o f -> exists o', In (o', f) fs /\ oeq o o'.
Proof.
  intros H. destruct (saturate_closed _ _ _ _ H) as [Hc Hk].
  apply derivable_in_closed; [assumption|].
  intros [o f] Hin. exists o. split; [apply Hk; assumption|apply oeq_refl].
Qed.

Theorem saturate_exact (W : world) n fs :
  saturate orc n (w_rules W) (w_facts W) = Ok (Some fs) ->
  (forall o f, In (o, f) fs -> Derivable orc W o f) /\
  (forall o f, Derivable orc W o f -> exists o', In (o', f) fs /\ oeq o o').
Proof.
  intro H. split.
  - intros o f Hin. apply (saturate_sound W n (w_facts W) fs) with (x := (o, f)); [|assumption|assumption].
    intros [o1 f1] Hx. apply D_base. assumption.
  - apply saturate_complete with (n := n). assumption.
Qed.

End Engine.

(* ---------- the limited run agrees with saturation when it succeeds ---------- *)
Lemma run_loop_saturate (orc : oracles) rules : forall fuel mi mf idx facts fs k k',
  run_loop orc fuel mi mf idx rules facts = (ROk (fs, k), k') ->
  saturate orc fuel rules facts = Ok (Some fs).
Proof.
  induction fuel as [|fuel IH]; intros mi mf idx facts fs k k' H; cbn [run_loop saturate] in *;
    [discriminate|].
  destruct (apply_rules orc facts rules) as [new|e]; [|discriminate].
  cbv zeta in H.
  destruct (length (merge facts new) =? length facts)%nat eqn:L.
  - inversion H; subst. reflexivity.
  - destruct (N.eqb (N.succ idx) mi); [discriminate|].
    destruct (mf <=? N.of_nat (length (merge facts new)))%N; [discriminate|].
    eapply IH; eauto.
Qed.

(* ---------- variables bound by matching come from the body ---------- *)
Definition term_vars (ts : list term) : list N :=
  flat_map (fun t => match t with TVar x => [x] | TVal _ => [] end) ts.
Definition body_vars (body : list pred) : list N := flat_map (fun p => term_vars (pargs p)) body.

Lemma match_terms_dom ts : forall vs s s' x v,
  match_terms ts vs s = Some s' -> lookup x s' = Some v ->
  (exists w, lookup x s = Some w) \/ In x (term_vars ts).
Proof.
  induction ts as [|t ts IH]; intros vs s s' x v H L; destruct vs as [|v0 vs]; cbn [match_terms] in H;
    try discriminate.
  - inversion H; subst. left. eauto.
  - destruct t; discriminate.
  - destruct t as [y|c].
    + destruct (lookup y s) as [w|] eqn:E.
      * destruct (value_eqb w v0); [|discriminate].
        destruct (IH _ _ _ _ _ H L) as [G|G]; [left; assumption|right; cbn; right; assumption].
      * destruct (IH _ _ _ _ _ H L) as [[w G]|G].
        -- cbn [lookup] in G. destruct (N.eqb_spec x y) as [->|N].
           ++ right. cbn. left. reflexivity.
           ++ left. eauto.
        -- right. cbn. right. assumption.
    + destruct (value_eqb c v0); [|discriminate].
      destruct (IH _ _ _ _ _ H L) as [G|G]; [left; assumption|right; cbn; assumption].
Qed.

Lemma match_all_dom body : forall fs s s' x v,
  match_all body fs s = Some s' -> lookup x s' = Some v ->
  (exists w, lookup x s = Some w) \/ In x (body_vars body).
Proof.
  induction body as [|p body IH]; intros fs s s' x v H L; destruct fs as [|f fs]; cbn [match_all] in H;
    try discriminate.
  - inversion H; subst. left; eauto.
  - destruct (match_pred p f s) as [s1|] eqn:E; [|discriminate].
    destruct (IH _ _ _ _ _ H L) as [[w G]|G].
    + unfold match_pred in E. destruct (sym_eqb (pname p) (fname f)); [|discriminate].
      destruct (match_terms_dom _ _ _ _ _ _ E G) as [G'|G']; [left; assumption|].
      right. unfold body_vars. cbn [flat_map]. apply in_or_app. left; assumption.
    + right. unfold body_vars. cbn [flat_map]. apply in_or_app. right; assumption.
Qed.

Lemma inst_terms_unbound s ts x :
  In (TVar x) ts -> lookup x s = None -> inst_terms s ts = None.
Proof.
  induction ts as [|t ts IH]; intros H L; [destruct H|].
  destruct H as [->|H]; cbn [inst_terms].
  - rewrite L. reflexivity.
  - destruct t as [y|c].
    + rewrite (IH H L). destruct (lookup y s); reflexivity.
    + rewrite (IH H L). reflexivity.
Qed.

Lemma produce_unbound_head (orc : oracles) r owner x ms : forall l,
  In (TVar x) (pargs (rhead r)) ->
  (forall o s, In (o, s) ms -> lookup x s = None) ->
  produce orc r owner ms = Ok l -> l = [].
Proof.
  induction ms as [|[o s] ms IH]; intros l Hx Hs H; cbn [produce] in H; [inversion H; reflexivity|].
  destruct (eval_exprs orc s (rexprs r)) as [[|]|e]; try discriminate.
  - rewrite (inst_terms_unbound s _ x Hx (Hs o s (or_introl eq_refl))) in H.
    apply IH; auto. intros o' s' Hin. apply (Hs o' s'). right; assumption.
  - apply IH; auto. intros o' s' Hin. apply (Hs o' s'). right; assumption.
Qed.

Theorem unbound_head_produces_nothing (orc : oracles) facts re x l :
  In (TVar x) (pargs (rhead (re_rule re))) ->
  ~ In x (body_vars (rbody (re_rule re))) ->
  apply_rule orc facts re = Ok l -> l = [].
Proof.
  intros Hx Hb H. unfold apply_rule in H.
  eapply produce_unbound_head; eauto.
  intros o s Hin. apply join_spec in Hin. destruct Hin as [picks [_ [Hm _]]].
  destruct (lookup x s) as [v|] eqn:L; [|reflexivity].
  destruct (match_all_dom _ _ _ _ _ _ Hm L) as [[w G]|G]; [discriminate|contradiction].
Qed.

(* ---------- queries on a world ---------- *)
Section Queries.
Variable orc : oracles.

(* a binding of the rule body over the visible facts that satisfies the expressions *)
Definition holds_binding (facts : list ofact) (tr : origin) (r : rule) (s : env) : Prop :=
  exists picks, (forall p, In p picks -> In p facts /\ osubset (fst p) tr = true) /\
                match_all (rbody r) (map snd picks) [] = Some s.

Lemma join_holds facts tr r o s :
  In (o, s) (join (visible tr facts) (rbody r) [] []) -> holds_binding facts tr r s.
Proof.
  intro H. apply join_spec in H. destruct H as [picks [Hp [Hm _]]]. exists picks. split; [|assumption].
  intros p Hin. apply visible_In. apply Hp. assumption.
Qed.

Lemma holds_join facts tr r s :
  holds_binding facts tr r s -> exists o, In (o, s) (join (visible tr facts) (rbody r) [] []).
Proof.
  intros [picks [Hp Hm]]. exists (ounions [] picks). apply join_spec. exists picks.
  repeat split; [|assumption]. intros p Hin. apply visible_In. apply Hp. assumption.
Qed.

Lemma first_produced_spec r ms b :
  first_produced orc r ms = Ok b ->
  (b = true <-> exists o s vs, In (o, s) ms /\ eval_exprs orc s (rexprs r) = Ok true /\
                               inst_terms s (pargs (rhead r)) = Some vs).
Proof.
  induction ms as [|[o s] ms IH]; cbn [first_produced]; intro H.
  - inversion H; subst. split; [discriminate|]. intros [? [? [? [[] _]]]].
  - destruct (eval_exprs orc s (rexprs r)) as [[|]|e] eqn:E; try discriminate.
    + destruct (inst_terms s (pargs (rhead r))) as [vs|] eqn:I.
      * inversion H; subst. split; [|reflexivity]. intros _. exists o, s, vs. repeat split; auto. left; reflexivity.
      * destruct (IH H) as [I1 I2]. split.
        -- intro Hb. destruct (I1 Hb) as [o1 [s1 [vs1 [A [B C]]]]]. exists o1, s1, vs1. repeat split; auto. right; assumption.
        -- intros [o1 [s1 [vs1 [[A|A] [B C]]]]]; [inversion A; subst; congruence|]. apply I2. eauto 8.
    + destruct (IH H) as [I1 I2]. split.
      * intro Hb. destruct (I1 Hb) as [o1 [s1 [vs1 [A [B C]]]]]. exists o1, s1, vs1. repeat split; auto. right; assumption.
      * intros [o1 [s1 [vs1 [[A|A] [B C]]]]]; [inversion A; subst; congruence|]. apply I2. eauto 8.
Qed.

(* check if / policies: a match exists iff some visible binding satisfies the expressions *)
Theorem find_match_spec facts tr r b :
  find_match orc facts tr r = Ok b ->
  (b = true <-> exists s vs, holds_binding facts tr r s /\ eval_exprs orc s (rexprs r) = Ok true /\
                             inst_terms s (pargs (rhead r)) = Some vs).
Proof.
  unfold find_match. intro H. rewrite (first_produced_spec _ _ _ H). split.
  - intros [o [s [vs [A [B C]]]]]. exists s, vs. repeat split; auto. eapply join_holds; eauto.
  - intros [s [vs [A [B C]]]]. destruct (holds_join _ _ _ _ A) as [o Ho]. exists o, s, vs. auto.
Qed.

Lemma all_match_spec es ms found b :
  all_match orc es ms found = Ok b ->
  (b = true <-> (found = true \/ ms <> []) /\ forall o s, In (o, s) ms -> eval_exprs orc s es = Ok true).
Proof.
  revert found. induction ms as [|[o s] ms IH]; intros found H; cbn [all_match] in H.
  - inversion H; subst. split.
    + intro Hb. split; [left; assumption|intros ? ? []].
    + intros [[Hf|Hn] _]; [assumption|contradiction].
  - destruct (eval_exprs orc s es) as [[|]|e] eqn:E; try discriminate.
    + destruct (IH _ H) as [I1 I2]. split.
      * intro Hb. destruct (I1 Hb) as [_ G]. split; [right; discriminate|].
        intros o1 s1 [A|A]; [inversion A; subst; assumption|eapply G; eauto].
      * intros [_ G]. apply I2. split; [left; reflexivity|]. intros o1 s1 A. eapply G. right; eassumption.
    + inversion H; subst. split; [discriminate|]. intros [_ G].
      rewrite (G o s (or_introl eq_refl)) in E. discriminate.
Qed.

(* check all: there is a visible binding and every visible binding satisfies the expressions *)
Theorem check_match_all_spec facts tr r b :
  check_match_all orc facts tr r = Ok b ->
  (b = true <-> (exists s, holds_binding facts tr r s) /\
                forall s, holds_binding facts tr r s -> eval_exprs orc s (rexprs r) = Ok true).
Proof.
  unfold check_match_all. intro H. rewrite (all_match_spec _ _ _ _ H). split.
  - intros [[F|N] G]; [discriminate|]. split.
    + destruct (join (visible tr facts) (rbody r) [] []) as [|[o s] ms] eqn:J; [contradiction|].
      exists s. eapply join_holds. rewrite J. left; reflexivity.
    + intros s Hs. destruct (holds_join _ _ _ _ Hs) as [o Ho]. eapply G; eauto.
  - intros [[s Hs] G]. split.
    + right. destruct (holds_join _ _ _ _ Hs) as [o Ho]. intro E. rewrite E in Ho. destruct Ho.
    + intros o s1 Hin. apply G. eapply join_holds; eauto.
Qed.

End Queries.

(* ---------- insertion order does not matter ---------- *)
Lemma derivable_perm (orc : oracles) W W' :
  (forall x, In x (w_facts W) <-> In x (w_facts W')) ->
  (forall r, In r (w_rules W) <-> In r (w_rules W')) ->
  forall o f, Derivable orc W o f -> Derivable orc W' o f.
Proof.
  intros Hf Hr o f D. induction D as [o f Hin | re picks s vs Hre Hd IH Hvis Hm He Hi].
  - apply D_base. apply Hf. assumption.
  - apply D_rule with (s := s); auto. apply Hr. assumption.
Qed.

Theorem order_independent (orc : oracles) facts facts' rules rules' n m fs fs' :
  Permutation facts facts' -> Permutation rules rules' ->
  saturate orc n rules facts = Ok (Some fs) ->
  saturate orc m rules' facts' = Ok (Some fs') ->
  forall o f, In (o, f) fs -> exists o', In (o', f) fs' /\ oeq o o'.
Proof.
  intros Pf Pr H H' o f Hin.
  destruct (saturate_exact orc (mkworld facts rules) n fs H) as [S _].
  destruct (saturate_exact orc (mkworld facts' rules') m fs' H') as [_ C].
  apply C. apply derivable_perm with (W := mkworld facts rules).
  - intro x. cbn. split; intro G; [eapply Permutation_in; eauto|eapply Permutation_in; [apply Permutation_sym|]; eauto].
  - intro x. cbn. split; intro G; [eapply Permutation_in; eauto|eapply Permutation_in; [apply Permutation_sym|]; eauto].
  - apply S. assumption.
Qed.

(* ---------- the assignment found by matching instantiates every body atom to its fact ---------- *)
Definition extends (s s' : env) : Prop := forall x v, lookup x s = Some v -> lookup x s' = Some v.

Lemma extends_refl s : extends s s.
Proof. intros x v H. assumption. Qed.
Lemma extends_trans a b c : extends a b -> extends b c -> extends a c.
Proof. intros H1 H2 x v H. apply H2. apply H1. assumption. Qed.

Lemma inst_terms_extends s s' ts vs :
  extends s s' -> inst_terms s ts = Some vs -> inst_terms s' ts = Some vs.
Proof.
  intro E. revert vs. induction ts as [|t ts IH]; intros vs H; cbn [inst_terms] in *; [assumption|].
  destruct t as [x|c].
  - destruct (lookup x s) as [v|] eqn:L; [|discriminate].
    destruct (inst_terms s ts) as [l|]; [|discriminate].
    rewrite (E _ _ L), (IH l eq_refl). assumption.
  - destruct (inst_terms s ts) as [l|]; [|discriminate]. rewrite (IH l eq_refl). assumption.
Qed.

Lemma match_terms_inst ts : forall vs s s',
  match_terms ts vs s = Some s' -> extends s s' /\ inst_terms s' ts = Some vs.
Proof.
  induction ts as [|t ts IH]; intros vs s s' H; destruct vs as [|v vs]; cbn [match_terms] in H;
    try discriminate.
  - inversion H; subst. split; [apply extends_refl|reflexivity].
  - destruct t; discriminate.
  - destruct t as [x|c].
    + destruct (lookup x s) as [w|] eqn:L.
      * destruct (value_eqb w v) eqn:E; [|discriminate]. apply value_eqb_eq in E. subst w.
        destruct (IH _ _ _ H) as [X I]. split; [assumption|].
        cbn [inst_terms]. rewrite (X _ _ L), I. reflexivity.
      * destruct (IH _ _ _ H) as [X I]. split.
        -- intros y u Hy. apply X. cbn [lookup]. destruct (N.eqb_spec y x) as [->|N]; [congruence|assumption].
        -- cbn [inst_terms]. rewrite (X x v), I; [reflexivity|]. cbn [lookup]. rewrite N.eqb_refl. reflexivity.
    + destruct (value_eqb c v) eqn:E; [|discriminate]. apply value_eqb_eq in E. subst c.
      destruct (IH _ _ _ H) as [X I]. split; [assumption|]. cbn [inst_terms]. rewrite I. reflexivity.
Qed.

Definition inst_pred (s : env) (p : pred) (f : fact) : Prop :=
  pname p = fname f /\ inst_terms s (pargs p) = Some (fargs f).

Theorem match_all_inst body : forall fs s s',
  match_all body fs s = Some s' -> extends s s' /\ Forall2 (inst_pred s') body fs.
Proof.
  induction body as [|p body IH]; intros fs s s' H; destruct fs as [|f fs]; cbn [match_all] in H;
    try discriminate.
  - inversion H; subst. split; [apply extends_refl|constructor].
  - destruct (match_pred p f s) as [s1|] eqn:E; [|discriminate].
    destruct (IH _ _ _ H) as [X F]. unfold match_pred in E.
    destruct (sym_eqb (pname p) (fname f)) eqn:N; [|discriminate]. apply sym_eqb_eq in N.
    destruct (match_terms_inst _ _ _ _ E) as [X1 I1]. split; [eapply extends_trans; eauto|].
    constructor; [|assumption]. split; [assumption|]. eapply inst_terms_extends; eauto.
Qed.

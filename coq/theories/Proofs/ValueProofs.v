(* Decidable equality on values reflects Leibniz equality; membership lemmas for origins. *)
From Biscuit Require Import Model.Datalog.

Lemma bytes_eqb_eq a b : bytes_eqb a b = true <-> a = b.
Proof.
  revert b; induction a as [|x a IH]; destruct b as [|y b]; simpl; split; intro H;
    try reflexivity; try discriminate.
  - apply andb_prop in H. destruct H as [H1 H2]. apply N.eqb_eq in H1. apply IH in H2. congruence.
  - inversion H; subst. rewrite N.eqb_refl. apply IH. reflexivity.
Qed.

Lemma mapkey_eqb_eq a b : mapkey_eqb a b = true <-> a = b.
Proof.
  destruct a, b; simpl; split; intro H; try discriminate; try (inversion H; subst).
  - apply Z.eqb_eq in H. congruence.
  - apply Z.eqb_refl.
  - apply bytes_eqb_eq in H. congruence.
  - apply bytes_eqb_eq. reflexivity.
  - apply N.eqb_eq in H. congruence.
  - apply N.eqb_refl.
Qed.

(* induction principle that reaches inside the nested lists *)
Section ValueInd.
Variable P : value -> Prop.
Hypothesis Hint : forall i, P (VInt i).
Hypothesis Hstr : forall s, P (VStr s).
Hypothesis Hunk : forall i, P (VUnk i).
Hypothesis Hdate : forall d, P (VDate d).
Hypothesis Hbytes : forall b, P (VBytes b).
Hypothesis Hbool : forall b, P (VBool b).
Hypothesis Hset : forall l, Forall P l -> P (VSet l).
Hypothesis Hnull : P VNull.
Hypothesis Harray : forall l, Forall P l -> P (VArray l).
Hypothesis Hmap : forall l, Forall (fun kv => P (snd kv)) l -> P (VMap l).

Fixpoint value_ind' (v : value) : P v :=
  match v with
  | VInt i => Hint i
  | VStr s => Hstr s
  | VUnk i => Hunk i
  | VDate d => Hdate d
  | VBytes b => Hbytes b
  | VBool b => Hbool b
  | VSet l => Hset l ((fix go (l : list value) : Forall P l :=
                         match l with
                         | [] => Forall_nil P
                         | x :: r => Forall_cons x (value_ind' x) (go r)
                         end) l)
  | VNull => Hnull
  | VArray l => Harray l ((fix go (l : list value) : Forall P l :=
                             match l with
                             | [] => Forall_nil P
                             | x :: r => Forall_cons x (value_ind' x) (go r)
                             end) l)
  | VMap l => Hmap l ((fix go (l : list (mapkey * value)) : Forall (fun kv => P (snd kv)) l :=
                         match l with
                         | [] => Forall_nil _
                         | kv :: r => Forall_cons kv (value_ind' (snd kv)) (go r)
                         end) l)
  end.
End ValueInd.

Lemma vlist_eqb_eq l m :
  Forall (fun a => forall b, value_eqb a b = true <-> a = b) l ->
  vlist_eqb l m = true <-> l = m.
Proof.
  intro H. revert m. induction H as [|x l Hx Hl IH]; destruct m as [|y m]; simpl; split; intro E;
    try reflexivity; try discriminate.
  - apply andb_prop in E. destruct E as [E1 E2]. apply Hx in E1. apply IH in E2. congruence.
  - inversion E; subst. apply andb_true_intro. split; [apply Hx; reflexivity|apply IH; reflexivity].
Qed.

Lemma value_eqb_eq a : forall b, value_eqb a b = true <-> a = b.
Proof.
  induction a using value_ind'; intro b0; destruct b0; simpl; split; intro E;
    try discriminate; try reflexivity.
  - apply Z.eqb_eq in E. congruence.
  - inversion E. apply Z.eqb_refl.
  - apply bytes_eqb_eq in E. congruence.
  - inversion E. apply bytes_eqb_eq. reflexivity.
  - apply N.eqb_eq in E. congruence.
  - inversion E. apply N.eqb_refl.
  - apply Z.eqb_eq in E. congruence.
  - inversion E. apply Z.eqb_refl.
  - apply bytes_eqb_eq in E. congruence.
  - inversion E. apply bytes_eqb_eq. reflexivity.
  - apply Bool.eqb_prop in E. congruence.
  - inversion E. apply Bool.eqb_reflx.
  - change (vlist_eqb l l0 = true) in E. apply vlist_eqb_eq in E; [congruence|assumption].
  - inversion E; subst. change (vlist_eqb l0 l0 = true). apply vlist_eqb_eq; [assumption|reflexivity].
  - change (vlist_eqb l l0 = true) in E. apply vlist_eqb_eq in E; [congruence|assumption].
  - inversion E; subst. change (vlist_eqb l0 l0 = true). apply vlist_eqb_eq; [assumption|reflexivity].
  - f_equal. revert l0 E. induction H as [|[k x] l Hx Hl IH]; destruct l0 as [|[k' y] l0]; intro E;
      try reflexivity; try discriminate.
    apply andb_prop in E. destruct E as [E E3]. apply andb_prop in E. destruct E as [E1 E2].
    apply mapkey_eqb_eq in E1. apply Hx in E2. simpl in E2. apply IH in E3. congruence.
  - inversion E; subst. clear E. induction H as [|[k x] l Hx Hl IH]; [reflexivity|].
    apply andb_true_intro; split; [apply andb_true_intro; split|].
    + apply mapkey_eqb_eq. reflexivity.
    + apply Hx. reflexivity.
    + apply IH.
Qed.

Lemma value_eqb_refl a : value_eqb a a = true.
Proof. apply value_eqb_eq. reflexivity. Qed.

Lemma vlist_eqb_true l m : vlist_eqb l m = true <-> l = m.
Proof.
  apply vlist_eqb_eq. apply Forall_forall. intros x _. apply value_eqb_eq.
Qed.

Lemma sym_eqb_eq a b : sym_eqb a b = true <-> a = b.
Proof.
  destruct a, b; simpl; split; intro H; try discriminate; try (inversion H; subst).
  - apply bytes_eqb_eq in H. congruence.
  - apply bytes_eqb_eq. reflexivity.
  - apply N.eqb_eq in H. congruence.
  - apply N.eqb_refl.
Qed.

Lemma fact_eqb_eq a b : fact_eqb a b = true <-> a = b.
Proof.
  destruct a as [n1 a1], b as [n2 a2]. unfold fact_eqb. simpl. split; intro H.
  - apply andb_prop in H. destruct H as [H1 H2]. apply sym_eqb_eq in H1. apply vlist_eqb_true in H2. congruence.
  - inversion H; subst. apply andb_true_intro. split; [apply sym_eqb_eq|apply vlist_eqb_true]; reflexivity.
Qed.

(* ---- origins as sets ---- *)
Lemma omem_In x o : omem x o = true <-> In x o.
Proof.
  unfold omem. rewrite existsb_exists. split.
  - intros [y [H1 H2]]. apply N.eqb_eq in H2. congruence.
  - intro H. exists x. split; [assumption|apply N.eqb_refl].
Qed.

Lemma oinsert_In x y o : In x (oinsert y o) <-> x = y \/ In x o.
Proof.
  induction o as [|z o IH]; simpl.
  - split; [intros [H|[]]; auto | intros [H|[]]; auto].
  - destruct (N.compare_spec y z) as [E|E|E]; simpl.
    + subst. split; [auto | intros [H|H]; [left; congruence | assumption]].
    + split; [intros [H|H]; auto | intros [H|H]; auto].
    + rewrite IH. split; [intros [H|[H|H]]; auto | intros [H|[H|H]]; auto].
Qed.

Lemma ounion_In x a b : In x (ounion a b) <-> In x a \/ In x b.
Proof.
  unfold ounion. revert a. induction b as [|y b IH]; intro a; simpl.
  - split; [auto | intros [H|[]]; assumption].
  - rewrite IH, oinsert_In. split; [intros [[H|H]|H]; auto | intros [H|[H|H]]; auto].
Qed.

Lemma osubset_spec a b : osubset a b = true <-> (forall x, In x a -> In x b).
Proof.
  unfold osubset. rewrite forallb_forall. split; intros H x Hx.
  - apply omem_In. apply H. assumption.
  - apply omem_In. apply H. assumption.
Qed.

Definition oeq (a b : origin) : Prop := forall x, In x a <-> In x b.

Lemma origin_eqb_spec a b : origin_eqb a b = true <-> oeq a b.
Proof.
  unfold origin_eqb, oeq. rewrite andb_true_iff, !osubset_spec. split.
  - intros [H1 H2] x. split; auto.
  - intro H. split; intros x Hx; apply H; assumption.
Qed.

Lemma oeq_refl a : oeq a a.
Proof. intro x. reflexivity. Qed.
Lemma oeq_sym a b : oeq a b -> oeq b a.
Proof. intros H x. symmetry. apply H. Qed.
Lemma oeq_trans a b c : oeq a b -> oeq b c -> oeq a c.
Proof. intros H1 H2 x. rewrite (H1 x). apply H2. Qed.

Lemma osubset_oeq a a' b : oeq a a' -> osubset a b = osubset a' b.
Proof.
  intro H. destruct (osubset a b) eqn:E1, (osubset a' b) eqn:E2; try reflexivity.
  - rewrite osubset_spec in E1. assert (osubset a' b = true) as X; [|congruence].
    apply osubset_spec. intros x Hx. apply E1. apply H. assumption.
  - rewrite osubset_spec in E2. assert (osubset a b = true) as X; [|congruence].
    apply osubset_spec. intros x Hx. apply E2. apply H. assumption.
Qed.

Lemma ounion_oeq a a' b b' : oeq a a' -> oeq b b' -> oeq (ounion a b) (ounion a' b').
Proof. intros H1 H2 x. rewrite !ounion_In, (H1 x), (H2 x). reflexivity. Qed.

Lemma oinsert_oeq x a a' : oeq a a' -> oeq (oinsert x a) (oinsert x a').
Proof. intros H y. rewrite !oinsert_In, (H y). reflexivity. Qed.

Lemma ofact_eqb_spec a b : ofact_eqb a b = true <-> oeq (fst a) (fst b) /\ snd a = snd b.
Proof.
  unfold ofact_eqb. rewrite andb_true_iff, origin_eqb_spec, fact_eqb_eq. reflexivity.
Qed.

(* Authorizer-level proofs: trusted origins against their table (C04), check kinds against
   their declarative reading (C04), non-interference of an appended block (C03). *)
From Biscuit Require Import Model.Authorizer Spec.DatalogSpec Proofs.ValueProofs Proofs.DatalogProofs.

(* ---------- trusted origins ---------- *)
Lemma range_upto_In x n : In x (range_upto n) <-> (x < N.of_nat n)%N.
Proof.
  induction n as [|n IH]; cbn [range_upto].
  - split; [intros []|lia].
  - rewrite in_app_iff, IH. cbn [In]. split.
    + intros [H|[H|[]]]; lia.
    + intro H. destruct (N.eq_dec x (N.of_nat n)) as [->|E]; [right; left; reflexivity|left; lia].
Qed.

(* what one scope grants to a rule of block [cur] *)
Definition scope_grants (km : keymap) (cur : N) (sc : scope) (x : N) : Prop :=
  match sc with
  | ScAuthority => x = 0%N
  | ScPrevious => cur <> auth_id /\ (x <= cur)%N
  | ScKey k => In x (keymap_get k km)
  end.

Lemma from_scopes_fold km cur scopes : forall acc x,
  In x (fold_left (fun acc sc =>
                     match sc with
                     | ScAuthority => oinsert 0%N acc
                     | ScPrevious => if N.eqb cur auth_id then acc
                                     else ounion acc (range_upto (S (N.to_nat cur)))
                     | ScKey k => ounion acc (keymap_get k km)
                     end) scopes acc)
  <-> In x acc \/ exists sc, In sc scopes /\ scope_grants km cur sc x.
Proof.
  induction scopes as [|sc scopes IH]; intros acc x; cbn [fold_left].
  - split; [auto|intros [H|[sc [[] _]]]; assumption].
  - rewrite IH. split.
    + intros [H|[sc' [H1 H2]]].
      * destruct sc as [| |k].
        -- apply oinsert_In in H. destruct H as [->|H]; [right; exists ScAuthority; split; [left; reflexivity|reflexivity]|left; assumption].
        -- destruct (N.eqb_spec cur auth_id) as [E|E]; [left; assumption|].
           apply ounion_In in H. destruct H as [H|H]; [left; assumption|].
           right. exists ScPrevious. split; [left; reflexivity|]. split; [assumption|].
           apply range_upto_In in H. lia.
        -- apply ounion_In in H. destruct H as [H|H]; [left; assumption|].
           right. exists (ScKey k). split; [left; reflexivity|assumption].
      * right. exists sc'. split; [right; assumption|assumption].
    + intros [H|[sc' [[<-|H1] H2]]].
      * left. destruct sc as [| |k].
        -- apply oinsert_In. right; assumption.
        -- destruct (N.eqb cur auth_id); [assumption|]. apply ounion_In. left; assumption.
        -- apply ounion_In. left; assumption.
      * left. destruct sc as [| |k]; cbn [scope_grants] in H2.
        -- apply oinsert_In. left; assumption.
        -- destruct H2 as [E H2]. destruct (N.eqb_spec cur auth_id) as [E'|E']; [contradiction|].
           apply ounion_In. right. apply range_upto_In. lia.
        -- apply ounion_In. right; assumption.
      * right. exists sc'. split; assumption.
Qed.

(* the table of DESIGN D.2 *)
Theorem from_scopes_spec scopes default cur km x :
  In x (from_scopes scopes default cur km) <->
  x = auth_id \/ x = cur \/
  match scopes with
  | [] => In x default
  | _ => exists sc, In sc scopes /\ scope_grants km cur sc x
  end.
Proof.
  unfold from_scopes. destruct scopes as [|sc scopes].
  - rewrite !oinsert_In. tauto.
  - rewrite from_scopes_fold. rewrite !oinsert_In. cbn [In]. tauto.
Qed.

Lemma default_trust_In x : In x default_trust <-> x = auth_id \/ x = 0%N.
Proof. unfold default_trust. rewrite !oinsert_In. cbn [In]. tauto. Qed.

Lemma from_scopes_ext scopes default cur km km' :
  (forall k, In (ScKey k) scopes -> keymap_get k km = keymap_get k km') ->
  oeq (from_scopes scopes default cur km) (from_scopes scopes default cur km').
Proof.
  intros H x. rewrite !from_scopes_spec. destruct scopes as [|sc0 scopes]; [reflexivity|].
  split; (intros [A|[A|[sc [I G]]]]; [left; assumption|right; left; assumption|]);
    right; right; exists sc; (split; [assumption|]);
    destruct sc as [| |k]; cbn [scope_grants] in *; try assumption.
  - rewrite <- (H k I). assumption.
  - rewrite (H k I). assumption.
Qed.

(* ---------- alternatives of a check ---------- *)
Section Checks.
Variable orc : oracles.

Lemma any_query_spec k facts default cur km qs b :
  any_query orc k facts default cur km qs = Ok b ->
  (b = true <-> exists q, In q qs /\
                 query_holds orc k facts (from_scopes (rscopes q) default cur km) q = Ok true).
Proof.
  revert b. induction qs as [|q qs IH]; intros b H; cbn [any_query] in H.
  - inversion H; subst. split; [discriminate|intros [q [[] _]]].
  - destruct (query_holds orc k facts (from_scopes (rscopes q) default cur km) q) as [[|]|e] eqn:E;
      try discriminate.
    + inversion H; subst. split; [intros _; exists q; split; [left; reflexivity|assumption]|reflexivity].
    + rewrite (IH _ H). split.
      * intros [q' [I Q]]. exists q'. split; [right; assumption|assumption].
      * intros [q' [[<-|I] Q]]; [congruence|]. exists q'. split; assumption.
Qed.

Lemma all_queries_spec k facts default cur km qs b :
  all_queries orc k facts default cur km qs = Ok b ->
  (b = true <-> forall q, In q qs ->
                 query_holds orc k facts (from_scopes (rscopes q) default cur km) q = Ok true).
Proof.
  revert b. induction qs as [|q qs IH]; intros b H; cbn [all_queries] in H.
  - inversion H; subst. split; [intros _ q []|reflexivity].
  - destruct (query_holds orc k facts (from_scopes (rscopes q) default cur km) q) as [[|]|e] eqn:E;
      try discriminate.
    + rewrite (IH _ H). split.
      * intros G q' [<-|I]; [assumption|apply G; assumption].
      * intros G q' I. apply G. right; assumption.
    + inversion H; subst. split; [discriminate|]. intro G. rewrite (G q (or_introl eq_refl)) in E. discriminate.
Qed.

(* `reject if` (as the property states it): passes iff it has alternatives and none matches *)
Theorem reject_spec facts default cur km c b :
  ckind c = CkReject ->
  check_passes orc true facts default cur km c = Ok b ->
  (b = true <-> cqueries c <> [] /\
                forall q, In q (cqueries c) ->
                  find_match orc facts (from_scopes (rscopes q) default cur km) q = Ok false).
Proof.
  intros K H. unfold check_passes in H. rewrite K in H.
  destruct (cqueries c) as [|q0 qs] eqn:Q.
  - inversion H; subst. split; [discriminate|intros [G _]; contradiction].
  - rewrite (all_queries_spec _ _ _ _ _ _ _ H). split.
    + intro G. split; [discriminate|]. intros q I. specialize (G q I). cbn [query_holds] in G.
      destruct (find_match orc facts (from_scopes (rscopes q) default cur km) q) as [[|]|e]; try discriminate.
      reflexivity.
    + intros [_ G] q I. cbn [query_holds]. rewrite (G q I). reflexivity.
Qed.

(* `check if` / `check all`: one alternative holds *)
Theorem check_one_all_spec facts default cur km c b :
  ckind c <> CkReject ->
  check_passes orc true facts default cur km c = Ok b ->
  (b = true <-> exists q, In q (cqueries c) /\
                 query_holds orc (ckind c) facts (from_scopes (rscopes q) default cur km) q = Ok true).
Proof.
  intros K H. unfold check_passes in H. destruct (ckind c) eqn:E; try contradiction;
    apply (any_query_spec _ _ _ _ _ _ _ H).
Qed.

(* failed checks: exactly the indices whose check does not pass, in order *)
Lemma run_checks_spec ra facts default cur km mk cs : forall j l,
  run_checks orc ra facts default cur km mk j cs = Ok l ->
  l = flat_map (fun jc => match check_passes orc ra facts default cur km (snd jc) with
                          | Ok false => [mk (fst jc)]
                          | _ => []
                          end)
               (combine (map (fun i => (j + N.of_nat i)%N) (seq 0 (length cs))) cs)
  /\ forall c, In c cs -> exists b, check_passes orc ra facts default cur km c = Ok b.
Proof.
  induction cs as [|c cs IH]; intros j l H; cbn [run_checks] in H.
  - inversion H; subst. split; [reflexivity|intros c []].
  - destruct (check_passes orc ra facts default cur km c) as [ok|e] eqn:E; [|discriminate].
    destruct (run_checks orc ra facts default cur km mk (N.succ j) cs) as [l'|e] eqn:R; [|discriminate].
    inversion H; subst. destruct (IH _ _ R) as [I1 I2]. split.
    + cbn [length seq map combine flat_map fst snd]. rewrite E.
      replace (j + N.of_nat 0)%N with j by lia.
      assert (map (fun i => (j + N.of_nat i)%N) (seq 1 (length cs))
              = map (fun i => (N.succ j + N.of_nat i)%N) (seq 0 (length cs))) as ->.
      { rewrite <- seq_shift, map_map. apply map_ext. intro i. lia. }
      rewrite <- I1. destruct ok; reflexivity.
    + intros c' [<-|I]; [eauto|apply I2; assumption].
Qed.

(* the first policy with a matching alternative decides *)
Lemma run_policies_spec facts default km ps : forall i r,
  run_policies orc facts default km i ps = Ok r ->
  match r with
  | None => forall p, In p ps -> any_query orc CkOne facts default auth_id km (pqueries p) = Ok false
  | Some (k, j) =>
      exists pre p post, ps = pre ++ p :: post /\ j = (i + N.of_nat (length pre))%N /\ k = pkind p /\
        any_query orc CkOne facts default auth_id km (pqueries p) = Ok true /\
        forall p', In p' pre -> any_query orc CkOne facts default auth_id km (pqueries p') = Ok false
  end.
Proof.
  induction ps as [|p ps IH]; intros i r H; cbn [run_policies] in H.
  - inversion H; subst. intros p [].
  - destruct (any_query orc CkOne facts default auth_id km (pqueries p)) as [[|]|e] eqn:E; try discriminate.
    + inversion H; subst. exists [], p, ps. repeat split; auto. cbn. lia. intros p' [].
    + specialize (IH _ _ H). destruct r as [[k j]|].
      * destruct IH as [pre [p0 [post [A [B [C [D F]]]]]]].
        exists (p :: pre), p0, post. repeat split; auto.
        -- cbn. rewrite A. reflexivity.
        -- cbn [length]. lia.
        -- intros p' [<-|I]; [assumption|apply F; assumption].
      * intros p' [<-|I]; [assumption|apply IH; assumption].
Qed.

End Checks.

(* ======================= C03: an appended block cannot grant anything ======================= *)

(* every scope that appears in a token and an authorizer *)
Definition rule_scopes (rs : list rule) : list scope := flat_map rscopes rs.
Definition check_scopes (cs : list check) : list scope := flat_map (fun c => rule_scopes (cqueries c)) cs.
Definition block_all_scopes (b : block) : list scope :=
  bscopes b ++ rule_scopes (brules b) ++ check_scopes (bchecks b).
Definition auth_all_scopes (a : authorizer) : list scope :=
  ascopes a ++ rule_scopes (arules a) ++ check_scopes (achecks a)
  ++ flat_map (fun p => rule_scopes (pqueries p)) (apolicies a).
Definition all_scopes (t : token) (a : authorizer) : list scope :=
  flat_map block_all_scopes t ++ auth_all_scopes a.

(* the new block's key, if any, is named by nobody *)
Definition untrusted_ext (t : token) (a : authorizer) (b : block) : Prop :=
  match bext b with
  | Some k => ~ In (ScKey k) (all_scopes t a)
  | None => True
  end.

(* ---- key map of the extended token ---- *)
Lemma keymap_get_add k' k b m : k' <> k -> keymap_get k' (keymap_add k b m) = keymap_get k' m.
Proof.
  intro N. induction m as [|[k0 bs] m IH]; cbn [keymap_add keymap_get].
  - destruct (N.eqb_spec k' k); [contradiction|reflexivity].
  - destruct (N.eqb_spec k k0) as [->|E]; cbn [keymap_get].
    + destruct (N.eqb_spec k' k0); [contradiction|reflexivity].
    + destruct (N.eqb k' k0); [reflexivity|apply IH].
Qed.

Lemma build_keymap_app bs : forall i m b,
  build_keymap i (bs ++ [b]) m =
  let m1 := build_keymap i bs m in
  match bext b with
  | Some k => if N.eqb (i + N.of_nat (length bs)) 0 then m1 else keymap_add k (i + N.of_nat (length bs)) m1
  | None => m1
  end.
Proof.
  induction bs as [|b0 bs IH]; intros i m b; cbn [app build_keymap length].
  - replace (i + N.of_nat 0)%N with i by lia. cbv zeta. destruct (bext b); reflexivity.
  - rewrite IH. cbv zeta.
    replace (N.succ i + N.of_nat (length bs))%N with (i + N.of_nat (S (length bs)))%N by lia.
    reflexivity.
Qed.

Lemma keymap_ext t b k' :
  (forall k, bext b = Some k -> k' <> k) ->
  keymap_get k' (token_keymap (t ++ [b])) = keymap_get k' (token_keymap t).
Proof.
  intro H. unfold token_keymap. rewrite build_keymap_app. cbv zeta.
  destruct (bext b) as [k|]; [|reflexivity].
  destruct (N.eqb (0 + N.of_nat (length t)) 0); [reflexivity|].
  apply keymap_get_add. apply H. reflexivity.
Qed.

(* block indices recorded in the key map are smaller than the number of blocks *)
Lemma keymap_add_In k b m k' x :
  In x (keymap_get k' (keymap_add k b m)) -> x = b \/ In x (keymap_get k' m).
Proof.
  induction m as [|[k0 bs] m IH]; cbn [keymap_add keymap_get].
  - destruct (N.eqb k' k); [intros [H|[]]; auto|intros []].
  - destruct (N.eqb_spec k k0) as [->|E]; cbn [keymap_get].
    + destruct (N.eqb k' k0); [|auto]. intro H. apply in_app_or in H. destruct H as [H|[H|[]]]; auto.
    + destruct (N.eqb k' k0); [auto|apply IH].
Qed.

Lemma build_keymap_bound bs : forall i m k x,
  In x (keymap_get k (build_keymap i bs m)) ->
  In x (keymap_get k m) \/ (i <= x < i + N.of_nat (length bs))%N.
Proof.
  induction bs as [|b bs IH]; intros i m k x H; cbn [build_keymap] in H; [left; assumption|].
  apply IH in H. cbn [length]. destruct H as [H|H]; [|right; lia].
  destruct (bext b) as [k0|]; [|left; assumption].
  destruct (N.eqb i 0); [left; assumption|].
  apply keymap_add_In in H. destruct H as [->|H]; [right; lia|left; assumption].
Qed.

Lemma token_keymap_bound t k x : In x (keymap_get k (token_keymap t)) -> (x < N.of_nat (length t))%N.
Proof.
  intro H. apply build_keymap_bound in H. destruct H as [[]|H]. lia.
Qed.

(* a trusted set computed for block [cur] of the original token (or for the authorizer) does
   not contain the index of a block appended later *)
Lemma trust_excludes_new t scopes default cur :
  (N.of_nat (length t) < auth_id)%N ->
  (cur = auth_id \/ (cur < N.of_nat (length t))%N) ->
  (forall x, In x default -> x = auth_id \/ (x < N.of_nat (length t))%N) ->
  t <> [] ->
  ~ In (N.of_nat (length t)) (from_scopes scopes default cur (token_keymap t)).
Proof.
  intros Hn Hc Hd Ht H. apply from_scopes_spec in H.
  destruct H as [H|[H|H]]; [lia|destruct Hc; lia|].
  destruct scopes as [|sc scopes].
  - apply Hd in H. lia.
  - destruct H as [sc' [_ G]]. destruct sc' as [| |k]; cbn [scope_grants] in G.
    + destruct t; [contradiction|]. cbn [length] in G. lia.
    + destruct G as [G1 G2]. destruct Hc; [contradiction|lia].
    + apply token_keymap_bound in G. lia.
Qed.

(* ---- the extended world ---- *)
Lemma load_blocks_app km bs : forall i b,
  load_blocks km i (bs ++ [b]) =
  (fst (load_blocks km i bs) ++ block_facts (i + N.of_nat (length bs)) b,
   snd (load_blocks km i bs) ++ block_rules km (i + N.of_nat (length bs)) b).
Proof.
  induction bs as [|b0 bs IH]; intros i b; cbn [app load_blocks length].
  - replace (i + N.of_nat 0)%N with i by lia. cbn. rewrite !app_nil_r. reflexivity.
  - rewrite IH. destruct (load_blocks km (N.succ i) bs) as [fs rs]. cbn [fst snd].
    replace (N.succ i + N.of_nat (length bs))%N with (i + N.of_nat (S (length bs)))%N by lia.
    rewrite !app_assoc. reflexivity.
Qed.

(* facts and rules before deduplication: the world as a set *)
Definition raw_facts (t : token) (a : authorizer) : list ofact :=
  fst (load_blocks (token_keymap t) 0 t) ++ map (fun f => ([auth_id], f)) (afacts a).
Definition auth_rules (km : keymap) (a : authorizer) : list rule_entry :=
  map (fun r => mkentry (from_scopes (rscopes r) (auth_trust km a) auth_id km) auth_id r) (arules a).
Definition raw_rules (km : keymap) (t : token) (a : authorizer) : list rule_entry :=
  snd (load_blocks km 0 t) ++ auth_rules km a.

Lemma load_facts t a : w_facts (load t a) = merge [] (raw_facts t a).
Proof. unfold load, raw_facts. destruct (load_blocks (token_keymap t) 0 t). reflexivity. Qed.
Lemma load_rules t a : w_rules (load t a) = raw_rules (token_keymap t) t a.
Proof. unfold load, raw_rules, auth_rules. destruct (load_blocks (token_keymap t) 0 t). reflexivity. Qed.

Lemma merge_nil_In l x : In x (merge [] l) -> In x l.
Proof. intro H. apply merge_In in H. destruct H as [[]|H]. assumption. Qed.

Lemma merge_nil_rep l x : In x l -> exists o, In (o, snd x) (merge [] l) /\ oeq (fst x) o.
Proof.
  unfold merge. generalize (@nil ofact) as acc. induction l as [|y l IH]; intros acc H; [destruct H|].
  cbn [fold_left]. destruct H as [->|H]; [|apply IH; assumption].
  assert (exists o, In (o, snd x) (add_fact acc x) /\ oeq (fst x) o) as [o [A B]].
  { unfold add_fact. destruct (existsb (ofact_eqb x) acc) eqn:E.
    - apply existsb_exists in E. destruct E as [[o f] [I Q]]. apply ofact_eqb_spec in Q.
      cbn [fst snd] in Q. destruct Q as [Q1 Q2]. exists o. rewrite Q2. auto.
    - exists (fst x). split; [apply in_or_app; right; left; destruct x; reflexivity|apply oeq_refl]. }
  exists o. split; [|assumption].
  change (In (o, snd x) (merge (add_fact acc x) l)). apply merge_keeps. assumption.
Qed.

(* owners and fact origins of loaded blocks are the block indices *)
Lemma load_blocks_owner km bs : forall i re,
  In re (snd (load_blocks km i bs)) -> (i <= re_owner re < i + N.of_nat (length bs))%N.
Proof.
  induction bs as [|b bs IH]; intros i re H; cbn [load_blocks] in H; [destruct H|].
  destruct (load_blocks km (N.succ i) bs) as [fs rs] eqn:L. cbn [snd] in H.
  apply in_app_or in H. cbn [length]. destruct H as [H|H].
  - unfold block_rules in H. apply in_map_iff in H. destruct H as [r [<- _]]. cbn. lia.
  - specialize (IH (N.succ i) re). rewrite L in IH. specialize (IH H). lia.
Qed.

Lemma load_blocks_origin km bs : forall i x,
  In x (fst (load_blocks km i bs)) -> exists j, fst x = [j] /\ (i <= j < i + N.of_nat (length bs))%N.
Proof.
  induction bs as [|b bs IH]; intros i x H; cbn [load_blocks] in H; [destruct H|].
  destruct (load_blocks km (N.succ i) bs) as [fs rs] eqn:L. cbn [fst] in H.
  apply in_app_or in H. cbn [length]. destruct H as [H|H].
  - unfold block_facts in H. apply in_map_iff in H. destruct H as [f [<- _]]. exists i. split; [reflexivity|lia].
  - specialize (IH (N.succ i) x). rewrite L in IH. destruct (IH H) as [j [A B]]. exists j. split; [assumption|lia].
Qed.

(* ---- entries of the original world and of the extended world correspond ---- *)
Definition entry_sim (re re' : rule_entry) : Prop :=
  re_owner re = re_owner re' /\ re_rule re = re_rule re' /\ oeq (re_trusted re) (re_trusted re').

Lemma from_scopes_oeq scopes d d' cur km km' :
  (forall k, In (ScKey k) scopes -> keymap_get k km = keymap_get k km') ->
  oeq d d' ->
  oeq (from_scopes scopes d cur km) (from_scopes scopes d' cur km').
Proof.
  intros Hk Hd. eapply oeq_trans; [apply from_scopes_ext; eassumption|].
  intro x. rewrite !from_scopes_spec. destruct scopes; [rewrite (Hd x)|]; reflexivity.
Qed.

Lemma load_blocks_facts_indep km km' bs : forall i,
  fst (load_blocks km i bs) = fst (load_blocks km' i bs).
Proof.
  induction bs as [|b bs IH]; intro i; cbn [load_blocks]; [reflexivity|].
  specialize (IH (N.succ i)).
  destruct (load_blocks km (N.succ i) bs), (load_blocks km' (N.succ i) bs). cbn [fst] in *. congruence.
Qed.

Lemma in_flat_map_intro {A B} (f : A -> list B) l a x : In a l -> In x (f a) -> In x (flat_map f l).
Proof. intros H1 H2. apply in_flat_map. exists a. auto. Qed.

Lemma load_blocks_sim km km' bs : forall i,
  (forall b k, In b bs -> In (ScKey k) (block_all_scopes b) -> keymap_get k km = keymap_get k km') ->
  Forall2 entry_sim (snd (load_blocks km i bs)) (snd (load_blocks km' i bs)).
Proof.
  induction bs as [|b bs IH]; intros i H; cbn [load_blocks]; [constructor|].
  specialize (IH (N.succ i) (fun b0 k I => H b0 k (or_intror I))).
  destruct (load_blocks km (N.succ i) bs) as [fs rs], (load_blocks km' (N.succ i) bs) as [fs' rs'].
  cbn [snd] in *. apply Forall2_app; [|assumption].
  unfold block_rules.
  assert (Hb : forall k, In (ScKey k) (block_all_scopes b) -> keymap_get k km = keymap_get k km')
    by (intros k I; apply (H b k (or_introl eq_refl) I)).
  assert (Hbt : oeq (block_trust km i b) (block_trust km' i b)).
  { unfold block_trust. apply from_scopes_ext. intros k I. apply Hb. unfold block_all_scopes.
    apply in_or_app. left; assumption. }
  assert (Hr : forall r, In r (brules b) -> forall k, In (ScKey k) (rscopes r) ->
                         keymap_get k km = keymap_get k km').
  { intros r Ir k I. apply Hb. unfold block_all_scopes. apply in_or_app. right. apply in_or_app. left.
    unfold rule_scopes. eapply in_flat_map_intro; eauto. }
  clear -Hbt Hr. induction (brules b) as [|r rs IHr]; cbn [map]; constructor.
  - split; [reflexivity|split; [reflexivity|]]. cbn [re_trusted]. apply from_scopes_oeq; [apply Hr; left; reflexivity|assumption].
  - apply IHr. intros r0 I. apply Hr. right; assumption.
Qed.

Lemma auth_rules_sim km km' a :
  (forall k, In (ScKey k) (auth_all_scopes a) -> keymap_get k km = keymap_get k km') ->
  Forall2 entry_sim (auth_rules km a) (auth_rules km' a).
Proof.
  intro H. unfold auth_rules.
  assert (Hat : oeq (auth_trust km a) (auth_trust km' a)).
  { unfold auth_trust. apply from_scopes_ext. intros k I. apply H. unfold auth_all_scopes.
    apply in_or_app. left; assumption. }
  assert (Hr : forall r, In r (arules a) -> forall k, In (ScKey k) (rscopes r) ->
                         keymap_get k km = keymap_get k km').
  { intros r Ir k I. apply H. unfold auth_all_scopes. apply in_or_app. right. apply in_or_app. left.
    unfold rule_scopes. eapply in_flat_map_intro; eauto. }
  clear -Hat Hr. induction (arules a) as [|r rs IHr]; cbn [map]; constructor.
  - split; [reflexivity|split; [reflexivity|]]. cbn [re_trusted]. apply from_scopes_oeq; [apply Hr; left; reflexivity|assumption].
  - apply IHr. intros r0 I. apply Hr. right; assumption.
Qed.

Lemma Forall2_In_r {A B} (R : A -> B -> Prop) l l' y :
  Forall2 R l l' -> In y l' -> exists x, In x l /\ R x y.
Proof.
  induction 1 as [|a b l l' Hab _ IH]; intro H; [destruct H|].
  destruct H as [<-|H]; [exists a; split; [left; reflexivity|assumption]|].
  destruct (IH H) as [x [I Rx]]. exists x. split; [right; assumption|assumption].
Qed.
Lemma Forall2_In_l {A B} (R : A -> B -> Prop) l l' x :
  Forall2 R l l' -> In x l -> exists y, In y l' /\ R x y.
Proof.
  induction 1 as [|a b l l' Hab _ IH]; intro H; [destruct H|].
  destruct H as [<-|H]; [exists b; split; [left; reflexivity|assumption]|].
  destruct (IH H) as [y [I Ry]]. exists y. split; [right; assumption|assumption].
Qed.

Section NonInterference.
Variable orc : oracles.
Variables (t : token) (a : authorizer) (b : block).
Hypothesis Ht : t <> [].
Hypothesis Hn : (N.of_nat (length t) < auth_id)%N.
Hypothesis Hu : untrusted_ext t a b.

Let n := N.of_nat (length t).
Let t' := t ++ [b].
Let km := token_keymap t.
Let km' := token_keymap t'.
Let W := load t a.
Let W' := load t' a.

Lemma keys_agree k : In (ScKey k) (all_scopes t a) -> keymap_get k km = keymap_get k km'.
Proof.
  intro I. symmetry. apply keymap_ext. intros k0 E ->. unfold untrusted_ext in Hu. rewrite E in Hu.
  contradiction.
Qed.

Lemma rules_sim_old : Forall2 entry_sim (raw_rules km t a) (snd (load_blocks km' 0 t) ++ auth_rules km' a).
Proof.
  unfold raw_rules. apply Forall2_app.
  - apply load_blocks_sim. intros b0 k Ib I. apply keys_agree. unfold all_scopes. apply in_or_app. left.
    eapply in_flat_map_intro; eauto.
  - apply auth_rules_sim. intros k I. apply keys_agree. unfold all_scopes. apply in_or_app. right; assumption.
Qed.

Lemma raw_rules_ext :
  raw_rules km' t' a = snd (load_blocks km' 0 t) ++ block_rules km' n b ++ auth_rules km' a.
Proof.
  unfold raw_rules, t'. rewrite load_blocks_app. cbn [snd]. rewrite <- app_assoc. reflexivity.
Qed.

Lemma raw_facts_ext :
  raw_facts t' a = fst (load_blocks km 0 t) ++ block_facts n b ++ map (fun f => ([auth_id], f)) (afacts a).
Proof.
  unfold raw_facts, t'. fold km'. rewrite load_blocks_app. cbn [fst]. rewrite <- app_assoc.
  rewrite (load_blocks_facts_indep km' km). reflexivity.
Qed.

(* every rule entry of the extended world that is not owned by the new block has a twin in
   the original world *)
Lemma rule_of_old re' : In re' (w_rules W') -> re_owner re' <> n ->
  exists re, In re (w_rules W) /\ entry_sim re re'.
Proof.
  unfold W', W. rewrite !load_rules. fold km km'. rewrite raw_rules_ext. intros H Ho.
  assert (In re' (snd (load_blocks km' 0 t) ++ auth_rules km' a)) as H'.
  { apply in_app_or in H. destruct H as [H|H]; [apply in_or_app; left; assumption|].
    apply in_app_or in H. destruct H as [H|H]; [|apply in_or_app; right; assumption].
    unfold block_rules in H. apply in_map_iff in H. destruct H as [r [<- _]]. cbn in Ho. contradiction. }
  apply (Forall2_In_r _ _ _ _ rules_sim_old H').
Qed.

Lemma rule_to_new re : In re (w_rules W) -> exists re', In re' (w_rules W') /\ entry_sim re re'.
Proof.
  unfold W', W. rewrite !load_rules. fold km km'. rewrite raw_rules_ext. intro H.
  destruct (Forall2_In_l _ _ _ _ rules_sim_old H) as [re' [I S]]. exists re'. split; [|assumption].
  apply in_app_or in I. destruct I as [I|I]; apply in_or_app; [left; assumption|right].
  apply in_or_app. right; assumption.
Qed.

Lemma ounions_In x o picks : In x (ounions o picks) <-> In x o \/ exists p, In p picks /\ In x (fst p).
Proof.
  unfold ounions. revert o. induction picks as [|p picks IH]; intro o; cbn [fold_left].
  - split; [auto|intros [H|[p [[] _]]]; assumption].
  - rewrite IH, ounion_In. split.
    + intros [[H|H]|[q [I H]]]; [left; assumption|right; exists p; split; [left; reflexivity|assumption]|].
      right. exists q. split; [right; assumption|assumption].
    + intros [H|[q [[<-|I] H]]]; [left; left; assumption|left; right; assumption|].
      right. exists q. split; assumption.
Qed.

(* replace picks by equivalent ones *)
Lemma picks_replace (P : ofact -> Prop) picks :
  (forall p, In p picks -> exists o, P (o, snd p) /\ oeq o (fst p)) ->
  exists picks0, Forall2 (fun p p0 => snd p = snd p0 /\ oeq (fst p0) (fst p) /\ P p0) picks picks0.
Proof.
  induction picks as [|p picks IH]; intro H; [exists []; constructor|].
  destruct (H p (or_introl eq_refl)) as [o [A B]].
  destruct IH as [picks0 F]; [intros q I; apply H; right; assumption|].
  exists ((o, snd p) :: picks0). constructor; [|assumption]. split; [reflexivity|split; assumption].
Qed.

Lemma Forall2_map_snd (R : ofact -> ofact -> Prop) picks picks0 :
  Forall2 (fun p p0 => snd p = snd p0 /\ R p p0) picks picks0 -> map snd picks0 = map snd picks.
Proof. induction 1 as [|p p0 l l0 [E _] _ IH]; [reflexivity|]. cbn [map]. congruence. Qed.

(* NON-INTERFERENCE: a pair derivable in the extended world whose origin does not contain the
   new block is derivable in the original world *)
Theorem noninterference o f :
  Derivable orc W' o f -> ~ In n o -> exists o0, Derivable orc W o0 f /\ oeq o0 o.
Proof.
  intros D. induction D as [o f Hin | re' picks s vs Hre Hd IH Hvis Hm He Hi]; intro Hno.
  - unfold W' in Hin. rewrite load_facts in Hin. apply merge_nil_In in Hin.
    rewrite raw_facts_ext in Hin. 
    assert (In (o, f) (raw_facts t a)) as Hold.
    { unfold raw_facts. fold km. apply in_app_or in Hin. destruct Hin as [H|H]; [apply in_or_app; left; assumption|].
      apply in_app_or in H. destruct H as [H|H]; [|apply in_or_app; right; assumption].
      unfold block_facts in H. apply in_map_iff in H. destruct H as [f0 [E _]]. inversion E; subst.
      exfalso. apply Hno. left; reflexivity. }
    destruct (merge_nil_rep _ _ Hold) as [o0 [A B]]. cbn [fst snd] in *.
    exists o0. split; [apply D_base; unfold W; rewrite load_facts; assumption|apply oeq_sym; assumption].
  - assert (re_owner re' <> n) as Ho.
    { intro E. apply Hno. apply oinsert_In. left. symmetry. assumption. }
    destruct (rule_of_old re' Hre Ho) as [re [Ire [S1 [S2 S3]]]].
    destruct (picks_replace (fun p0 => Derivable orc W (fst p0) (snd p0)) picks) as [picks0 F].
    { intros p Ip. apply IH; [assumption|]. intro Hx. apply Hno. apply oinsert_In. right.
      apply ounions_In. right. exists p. split; assumption. }
    assert (map snd picks0 = map snd picks) as Hmap.
    { clear -F. induction F as [|p p0 l l0 [E _] _ IHF]; [reflexivity|cbn [map]; congruence]. }
    exists (oinsert (re_owner re) (ounions [] picks0)). split.
    + rewrite <- S2 in *. apply D_rule with (s := s); try assumption.
      * intros p0 I0. destruct (Forall2_In_r _ _ _ _ F I0) as [p [Ip [_ [_ D0]]]]. assumption.
      * intros p0 I0. destruct (Forall2_In_r _ _ _ _ F I0) as [p [Ip [_ [E0 _]]]].
        rewrite (osubset_oeq _ _ _ E0).
        apply osubset_spec. intros x Hx. apply S3.
        specialize (Hvis p Ip). rewrite osubset_spec in Hvis. apply Hvis. assumption.
      * rewrite Hmap. assumption.
    + rewrite S1. apply oinsert_oeq. apply ounions_oeq; [apply oeq_refl|].
      clear -F. induction F as [|p p0 l l0 [_ [E _]] _ IHF]; constructor; assumption.
Qed.

(* and nothing is lost: the original world embeds in the extended one *)
Theorem extension_monotone o f :
  Derivable orc W o f -> exists o', Derivable orc W' o' f /\ oeq o' o.
Proof.
  intros D. induction D as [o f Hin | re picks s vs Hre Hd IH Hvis Hm He Hi].
  - unfold W in Hin. rewrite load_facts in Hin. apply merge_nil_In in Hin.
    assert (In (o, f) (raw_facts t' a)) as Hnew.
    { rewrite raw_facts_ext. unfold raw_facts in Hin. fold km in Hin. apply in_app_or in Hin.
      destruct Hin as [H|H]; apply in_or_app; [left; assumption|right; apply in_or_app; right; assumption]. }
    destruct (merge_nil_rep _ _ Hnew) as [o0 [A B]]. cbn [fst snd] in *.
    exists o0. split; [apply D_base; unfold W'; rewrite load_facts; assumption|apply oeq_sym; assumption].
  - destruct (rule_to_new re Hre) as [re' [Ire [S1 [S2 S3]]]].
    destruct (picks_replace (fun p0 => Derivable orc W' (fst p0) (snd p0)) picks) as [picks0 F].
    { intros p Ip. apply IH. assumption. }
    assert (map snd picks0 = map snd picks) as Hmap.
    { clear -F. induction F as [|p p0 l l0 [E _] _ IHF]; [reflexivity|cbn [map]; congruence]. }
    exists (oinsert (re_owner re') (ounions [] picks0)). split.
    + rewrite S2 in *. apply D_rule with (s := s); try assumption.
      * intros p0 I0. destruct (Forall2_In_r _ _ _ _ F I0) as [p [Ip [_ [_ D0]]]]. assumption.
      * intros p0 I0. destruct (Forall2_In_r _ _ _ _ F I0) as [p [Ip [_ [E0 _]]]].
        rewrite (osubset_oeq _ _ _ E0).
        apply osubset_spec. intros x Hx. apply S3.
        specialize (Hvis p Ip). rewrite osubset_spec in Hvis. apply Hvis. assumption.
      * rewrite Hmap. assumption.
    + rewrite <- S1. apply oinsert_oeq. apply ounions_oeq; [apply oeq_refl|].
      clear -F. induction F as [|p p0 l l0 [_ [E _]] _ IHF]; constructor; assumption.
Qed.

End NonInterference.

(* ---- two fact sets that show the same facts to every trusted set that excludes [n] ---- *)
Section Agree.
Variable orc : oracles.
Variables (fs fs' : list ofact) (ok_tr : origin -> Prop).

Definition same_view : Prop :=
  forall tr tr', oeq tr tr' -> ok_tr tr ->
    (forall p', In p' fs' -> osubset (fst p') tr' = true ->
                exists p, In p fs /\ snd p = snd p' /\ osubset (fst p) tr = true) /\
    (forall p, In p fs -> osubset (fst p) tr = true ->
               exists p', In p' fs' /\ snd p' = snd p /\ osubset (fst p') tr' = true).

Hypothesis SV : same_view.

Lemma picks_swap (Q : ofact -> Prop) (picks : list ofact) :
  (forall p, In p picks -> exists p0, Q p0 /\ snd p0 = snd p) ->
  exists picks0, (forall p0, In p0 picks0 -> Q p0) /\ map snd picks0 = map snd picks.
Proof.
  induction picks as [|p picks IH]; intro H; [exists []; split; [intros ? []|reflexivity]|].
  destruct (H p (or_introl eq_refl)) as [p0 [A B]].
  destruct IH as [picks0 [C D]]; [intros q I; apply H; right; assumption|].
  exists (p0 :: picks0). split; [intros q [<-|I]; auto|]. cbn [map]. congruence.
Qed.

Lemma holds_binding_agree tr tr' r s : oeq tr tr' -> ok_tr tr ->
  (holds_binding fs' tr' r s <-> holds_binding fs tr r s).
Proof.
  intros E N. destruct (SV tr tr' E N) as [V1 V2]. split; intros [picks [Hp Hm]].
  - destruct (picks_swap (fun p0 => In p0 fs /\ osubset (fst p0) tr = true) picks) as [picks0 [A B]].
    { intros p I. destruct (Hp p I) as [I1 I2]. destruct (V1 p I1 I2) as [p0 [X [Y Z]]]. exists p0. auto. }
    exists picks0. split; [assumption|rewrite B; assumption].
  - destruct (picks_swap (fun p0 => In p0 fs' /\ osubset (fst p0) tr' = true) picks) as [picks0 [A B]].
    { intros p I. destruct (Hp p I) as [I1 I2]. destruct (V2 p I1 I2) as [p0 [X [Y Z]]]. exists p0. auto. }
    exists picks0. split; [assumption|rewrite B; assumption].
Qed.

Lemma bool_iff_eq (b b' : bool) (P P' : Prop) :
  (b = true <-> P) -> (b' = true <-> P') -> (P' <-> P) -> b' = b.
Proof.
  intros H1 H2 H3. destruct b, b'; try reflexivity.
  - apply H2, H3, H1. reflexivity.
  - symmetry. apply H1, H3, H2. reflexivity.
Qed.

Lemma find_match_agree tr tr' r bb bb' : oeq tr tr' -> ok_tr tr ->
  find_match orc fs tr r = Ok bb -> find_match orc fs' tr' r = Ok bb' -> bb' = bb.
Proof.
  intros E N H H'. eapply bool_iff_eq; [apply (find_match_spec _ _ _ _ _ H)|apply (find_match_spec _ _ _ _ _ H')|].
  split; intros [s [vs [A B]]]; exists s, vs; (split; [|assumption]);
    apply (holds_binding_agree tr tr' r s E N); assumption.
Qed.

Lemma check_match_all_agree tr tr' r bb bb' : oeq tr tr' -> ok_tr tr ->
  check_match_all orc fs tr r = Ok bb -> check_match_all orc fs' tr' r = Ok bb' -> bb' = bb.
Proof.
  intros E N H H'.
  eapply bool_iff_eq; [apply (check_match_all_spec _ _ _ _ _ H)|apply (check_match_all_spec _ _ _ _ _ H')|].
  split; intros [[s A] B]; (split; [exists s; apply (holds_binding_agree tr tr' r s E N); assumption|]);
    intros s0 A0; apply B; apply (holds_binding_agree tr tr' r s0 E N); assumption.
Qed.

Lemma query_holds_agree k tr tr' r bb bb' : oeq tr tr' -> ok_tr tr ->
  query_holds orc k fs tr r = Ok bb -> query_holds orc k fs' tr' r = Ok bb' -> bb' = bb.
Proof.
  intros E N H H'. destruct k; cbn [query_holds] in *.
  - eapply find_match_agree; eauto.
  - eapply check_match_all_agree; eauto.
  - destruct (find_match orc fs tr r) as [x|] eqn:F; [|discriminate].
    destruct (find_match orc fs' tr' r) as [x'|] eqn:F'; [|discriminate].
    inversion H; inversion H'; subst. f_equal. eapply find_match_agree; eauto.
Qed.

(* the trusted set of every alternative, in both worlds *)
Definition alt_ok (default default' : origin) (cur : N) (km km' : keymap) (qs : list rule) : Prop :=
  forall q, In q qs ->
    oeq (from_scopes (rscopes q) default cur km) (from_scopes (rscopes q) default' cur km') /\
    ok_tr (from_scopes (rscopes q) default cur km).

Lemma any_query_agree k default default' cur km km' qs bb bb' :
  alt_ok default default' cur km km' qs ->
  any_query orc k fs default cur km qs = Ok bb ->
  any_query orc k fs' default' cur km' qs = Ok bb' -> bb' = bb.
Proof.
  revert bb bb'. induction qs as [|q qs IH]; intros bb bb' A H H'; cbn [any_query] in *; [congruence|].
  destruct (A q (or_introl eq_refl)) as [E N].
  destruct (query_holds orc k fs (from_scopes (rscopes q) default cur km) q) as [x|] eqn:Q; [|discriminate].
  destruct (query_holds orc k fs' (from_scopes (rscopes q) default' cur km') q) as [x'|] eqn:Q'; [|discriminate].
  assert (x' = x) as -> by (eapply query_holds_agree; eauto).
  destruct x; [congruence|]. apply IH; auto. intros q0 I. apply A. right; assumption.
Qed.

Lemma all_queries_agree k default default' cur km km' qs bb bb' :
  alt_ok default default' cur km km' qs ->
  all_queries orc k fs default cur km qs = Ok bb ->
  all_queries orc k fs' default' cur km' qs = Ok bb' -> bb' = bb.
Proof.
  revert bb bb'. induction qs as [|q qs IH]; intros bb bb' A H H'; cbn [all_queries] in *; [congruence|].
  destruct (A q (or_introl eq_refl)) as [E N].
  destruct (query_holds orc k fs (from_scopes (rscopes q) default cur km) q) as [x|] eqn:Q; [|discriminate].
  destruct (query_holds orc k fs' (from_scopes (rscopes q) default' cur km') q) as [x'|] eqn:Q'; [|discriminate].
  assert (x' = x) as -> by (eapply query_holds_agree; eauto).
  destruct x; [|congruence]. apply IH; auto. intros q0 I. apply A. right; assumption.
Qed.

Lemma check_passes_agree ra default default' cur km km' c bb bb' :
  alt_ok default default' cur km km' (cqueries c) ->
  check_passes orc ra fs default cur km c = Ok bb ->
  check_passes orc ra fs' default' cur km' c = Ok bb' -> bb' = bb.
Proof.
  intros A H H'. unfold check_passes in *. destruct (ckind c).
  - eapply any_query_agree; eauto.
  - eapply any_query_agree; eauto.
  - destruct ra.
    + destruct (cqueries c); [congruence|]. eapply all_queries_agree; eauto.
    + eapply any_query_agree; eauto.
Qed.

Lemma run_checks_agree ra default default' cur km km' mk cs : forall j l l',
  (forall c, In c cs -> alt_ok default default' cur km km' (cqueries c)) ->
  run_checks orc ra fs default cur km mk j cs = Ok l ->
  run_checks orc ra fs' default' cur km' mk j cs = Ok l' -> l' = l.
Proof.
  induction cs as [|c cs IH]; intros j l l' A H H'; cbn [run_checks] in *; [congruence|].
  destruct (check_passes orc ra fs default cur km c) as [x|] eqn:C; [|discriminate].
  destruct (check_passes orc ra fs' default' cur km' c) as [x'|] eqn:C'; [|discriminate].
  destruct (run_checks orc ra fs default cur km mk (N.succ j) cs) as [r|] eqn:R; [|discriminate].
  destruct (run_checks orc ra fs' default' cur km' mk (N.succ j) cs) as [r'|] eqn:R'; [|discriminate].
  assert (x' = x) as -> by (eapply check_passes_agree; eauto; apply A; left; reflexivity).
  assert (r' = r) as -> by (eapply IH; eauto; intros c0 I; apply A; right; assumption).
  congruence.
Qed.

Lemma run_policies_agree default default' km km' ps : forall i r r',
  (forall p, In p ps -> alt_ok default default' auth_id km km' (pqueries p)) ->
  run_policies orc fs default km i ps = Ok r ->
  run_policies orc fs' default' km' i ps = Ok r' -> r' = r.
Proof.
  induction ps as [|p ps IH]; intros i r r' A H H'; cbn [run_policies] in *; [congruence|].
  destruct (any_query orc CkOne fs default auth_id km (pqueries p)) as [x|] eqn:Q; [|discriminate].
  destruct (any_query orc CkOne fs' default' auth_id km' (pqueries p)) as [x'|] eqn:Q'; [|discriminate].
  assert (x' = x) as -> by (eapply any_query_agree; eauto; apply A; left; reflexivity).
  destruct x; [congruence|]. eapply IH; eauto. intros p0 I. apply A. right; assumption.
Qed.

End Agree.

(* ---- assembling C03 ---- *)
Lemma trust_bounded (t : token) scopes default cur x :
  t <> [] ->
  (cur = auth_id \/ (cur < N.of_nat (length t))%N) ->
  (forall y, In y default -> y = auth_id \/ (y < N.of_nat (length t))%N) ->
  In x (from_scopes scopes default cur (token_keymap t)) ->
  x = auth_id \/ (x < N.of_nat (length t))%N.
Proof.
  intros Ht Hc Hd H. apply from_scopes_spec in H.
  destruct H as [H|[H|H]]; [left; assumption|subst; assumption|].
  destruct scopes as [|sc scopes]; [apply Hd; assumption|].
  destruct H as [sc' [_ G]]. destruct sc' as [| |k]; cbn [scope_grants] in G.
  - right. destruct t; [contradiction|]. cbn [length]. lia.
  - destruct G as [G1 G2]. destruct Hc; [contradiction|right; lia].
  - right. apply token_keymap_bound in G. assumption.
Qed.

Lemma default_trust_bounded (t : token) y : t <> [] -> In y default_trust -> y = auth_id \/ (y < N.of_nat (length t))%N.
Proof.
  intros Ht H. apply default_trust_In in H. destruct H as [H|H]; [left; assumption|right].
  destruct t; [contradiction|]. cbn [length]. lia.
Qed.

Definition fails_of (o : outcome) : list failed :=
  match o with ONoPolicy f | ORefused _ _ f => f | _ => [] end.
Definition no_exec (o : outcome) : Prop := match o with OExec _ => False | _ => True end.

Lemma run_block_checks_app (orc : oracles) ra facts km bs : forall i b,
  run_block_checks orc ra facts km i (bs ++ [b]) =
  match run_block_checks orc ra facts km i bs with
  | Err e => Err e
  | Ok l =>
      match run_checks orc ra facts (block_trust km (i + N.of_nat (length bs)) b)
                       (i + N.of_nat (length bs)) km (FBlock (i + N.of_nat (length bs))) 0 (bchecks b) with
      | Err e => Err e
      | Ok lb => Ok (l ++ lb)
      end
  end.
Proof.
  induction bs as [|b0 bs IH]; intros i b; cbn [app run_block_checks length].
  - replace (i + N.of_nat 0)%N with i by lia.
    destruct (run_checks orc ra facts (block_trust km i b) i km (FBlock i) 0 (bchecks b)); [|reflexivity].
    rewrite app_nil_r. reflexivity.
  - destruct (run_checks orc ra facts (block_trust km i b0) i km (FBlock i) 0 (bchecks b0)) as [l0|]; [|reflexivity].
    rewrite IH.
    replace (N.succ i + N.of_nat (length bs))%N with (i + N.of_nat (S (length bs)))%N by lia.
    destruct (run_block_checks orc ra facts km (N.succ i) bs) as [l|]; [|reflexivity].
    destruct (run_checks orc ra facts _ _ km _ 0 (bchecks b)) as [lb|]; [|reflexivity].
    rewrite app_assoc. reflexivity.
Qed.

Section Monotone.
Variable orc : oracles.
Variables (t : token) (a : authorizer) (b : block).
Hypothesis Ht : t <> [].
Hypothesis Hn : (N.of_nat (length t) < auth_id)%N.
Hypothesis Hu : untrusted_ext t a b.
Variables (m m' : nat) (fs fs' : list ofact).
Hypothesis Hs : saturate orc m (w_rules (load t a)) (w_facts (load t a)) = Ok (Some fs).
Hypothesis Hs' : saturate orc m' (w_rules (load (t ++ [b]) a)) (w_facts (load (t ++ [b]) a)) = Ok (Some fs').

Let n := N.of_nat (length t).
Let km := token_keymap t.
Let km' := token_keymap (t ++ [b]).

Lemma same_view_sat : same_view fs fs' (fun tr => ~ In n tr).
Proof.
  intros tr tr' E N.
  destruct (saturate_exact orc _ _ _ Hs) as [S C].
  destruct (saturate_exact orc _ _ _ Hs') as [S' C'].
  split.
  - intros [o' f] I V. cbn [fst snd] in *.
    assert (~ In n o') as No.
    { intro X. apply N. apply E. rewrite osubset_spec in V. apply V. assumption. }
    destruct (noninterference orc t a b Hu o' f (S' _ _ I) No) as [o0 [D0 E0]].
    destruct (C _ _ D0) as [o1 [I1 E1]]. exists (o1, f). split; [assumption|split; [reflexivity|]].
    cbn [fst]. apply osubset_spec. intros x Hx. apply E. rewrite osubset_spec in V. apply V.
    apply E0. apply E1. assumption.
  - intros [o f] I V. cbn [fst snd] in *.
    destruct (extension_monotone orc t a b Hu o f (S _ _ I)) as [o0 [D0 E0]].
    destruct (C' _ _ D0) as [o1 [I1 E1]]. exists (o1, f). split; [assumption|split; [reflexivity|]].
    cbn [fst]. apply osubset_spec. intros x Hx. apply E. rewrite osubset_spec in V. apply V.
    apply E0. apply E1. assumption.
Qed.

Lemma keys_agree' k : In (ScKey k) (all_scopes t a) -> keymap_get k km = keymap_get k km'.
Proof. apply keys_agree. assumption. Qed.

(* alternatives of a check whose scopes belong to the original token/authorizer *)
Lemma alt_ok_intro default default' cur qs :
  (forall q k, In q qs -> In (ScKey k) (rscopes q) -> In (ScKey k) (all_scopes t a)) ->
  oeq default default' ->
  (cur = auth_id \/ (cur < n)%N) ->
  (forall y, In y default -> y = auth_id \/ (y < n)%N) ->
  alt_ok (fun tr => ~ In n tr) default default' cur km km' qs.
Proof.
  intros Hq Hd Hc Hb q I. split.
  - apply from_scopes_oeq; [|assumption]. intros k Ik. apply keys_agree'. eapply Hq; eauto.
  - intro X. apply (trust_bounded t) in X; try assumption. unfold n in *. destruct X; lia.
Qed.

Lemma auth_scopes_in k : In (ScKey k) (auth_all_scopes a) -> In (ScKey k) (all_scopes t a).
Proof. intro H. unfold all_scopes. apply in_or_app. right; assumption. Qed.

Lemma block_scopes_in b0 k : In b0 t -> In (ScKey k) (block_all_scopes b0) -> In (ScKey k) (all_scopes t a).
Proof. intros I H. unfold all_scopes. apply in_or_app. left. eapply in_flat_map_intro; eauto. Qed.

Lemma auth_trust_oeq : oeq (auth_trust km a) (auth_trust km' a).
Proof.
  unfold auth_trust. apply from_scopes_ext. intros k I. apply keys_agree'. apply auth_scopes_in.
  unfold auth_all_scopes. apply in_or_app. left; assumption.
Qed.

Lemma auth_trust_bounded y : In y (auth_trust km a) -> y = auth_id \/ (y < n)%N.
Proof.
  unfold auth_trust. apply trust_bounded; auto. intros z Hz. apply default_trust_bounded; assumption.
Qed.

Lemma block_trust_oeq i b0 : In b0 t -> oeq (block_trust km i b0) (block_trust km' i b0).
Proof.
  intro I. unfold block_trust. apply from_scopes_ext. intros k Ik. apply keys_agree'.
  apply (block_scopes_in b0); [assumption|]. unfold block_all_scopes. apply in_or_app. left; assumption.
Qed.

Lemma block_trust_bounded i b0 y : (i < n)%N -> In y (block_trust km i b0) -> y = auth_id \/ (y < n)%N.
Proof.
  intro Hi. unfold block_trust. apply trust_bounded; auto. intros z Hz. apply default_trust_bounded; assumption.
Qed.

Lemma run_block_checks_agree bs : forall i l l',
  (forall b0, In b0 bs -> In b0 t) ->
  (i + N.of_nat (length bs) <= n)%N ->
  run_block_checks orc true fs km i bs = Ok l ->
  run_block_checks orc true fs' km' i bs = Ok l' -> l' = l.
Proof.
  induction bs as [|b0 bs IH]; intros i l l' Hin Hi H H'; cbn [run_block_checks] in *; [congruence|].
  cbn [length] in Hi.
  destruct (run_checks orc true fs (block_trust km i b0) i km (FBlock i) 0 (bchecks b0)) as [x|] eqn:R; [|discriminate].
  destruct (run_checks orc true fs' (block_trust km' i b0) i km' (FBlock i) 0 (bchecks b0)) as [x'|] eqn:R'; [|discriminate].
  destruct (run_block_checks orc true fs km (N.succ i) bs) as [y|] eqn:B; [|discriminate].
  destruct (run_block_checks orc true fs' km' (N.succ i) bs) as [y'|] eqn:B'; [|discriminate].
  assert (x' = x) as ->.
  { eapply (run_checks_agree orc fs fs' _ same_view_sat); [|exact R|exact R'].
    intros c Ic. apply alt_ok_intro.
    - intros q k Iq Ik. apply (block_scopes_in b0); [apply Hin; left; reflexivity|].
      unfold block_all_scopes. apply in_or_app. right. apply in_or_app. right.
      unfold check_scopes. eapply in_flat_map_intro; [exact Ic|]. unfold rule_scopes.
      eapply in_flat_map_intro; eauto.
    - apply block_trust_oeq. apply Hin. left; reflexivity.
    - right. lia.
    - intros y0 Hy. eapply block_trust_bounded; [|exact Hy]. lia. }
  assert (y' = y) as ->.
  { eapply IH; [| |exact B|exact B']; [intros b1 I1; apply Hin; right; assumption|lia]. }
  congruence.
Qed.

Lemma firstn_1_app : firstn 1 (t ++ [b]) = firstn 1 t.
Proof. destruct t; [contradiction|reflexivity]. Qed.
Lemma skipn_1_app : skipn 1 (t ++ [b]) = skipn 1 t ++ [b].
Proof. destruct t; [contradiction|reflexivity]. Qed.
Lemma firstn_1_in b0 : In b0 (firstn 1 t) -> In b0 t.
Proof. destruct t; cbn; [auto|intros [H|[]]; left; assumption]. Qed.
Lemma skipn_1_in b0 : In b0 (skipn 1 t) -> In b0 t.
Proof. destruct t; cbn; [auto|intro H; right; assumption]. Qed.
Lemma firstn_1_len : (0 + N.of_nat (length (firstn 1 t)) <= n)%N.
Proof. unfold n. destruct t; [contradiction|]. cbn [firstn length]. lia. Qed.
Lemma skipn_1_len : (1 + N.of_nat (length (skipn 1 t)) <= n)%N.
Proof. unfold n. destruct t; [contradiction|]. cbn [skipn length]. lia. Qed.

(* THE DECISION CAN ONLY GET STRICTER *)
Theorem decision_monotone :
  no_exec (decide orc true fs t a) -> no_exec (decide orc true fs' (t ++ [b]) a) ->
  (forall i, decide orc true fs' (t ++ [b]) a = OAllow i -> decide orc true fs t a = OAllow i) /\
  incl (fails_of (decide orc true fs t a)) (fails_of (decide orc true fs' (t ++ [b]) a)).
Proof.
  unfold decide. fold km km'. rewrite firstn_1_app, skipn_1_app, run_block_checks_app.
  destruct (run_checks orc true fs (auth_trust km a) auth_id km FAuth 0 (achecks a)) as [f1|] eqn:A1;
    [|intros []].
  destruct (run_block_checks orc true fs km 0 (firstn 1 t)) as [f2|] eqn:A2; [|intros []].
  destruct (run_policies orc fs (auth_trust km a) km 0 (apolicies a)) as [pol|] eqn:A3; [|intros []].
  destruct (run_block_checks orc true fs km 1 (skipn 1 t)) as [f3|] eqn:A4; [|intros []].
  destruct (run_checks orc true fs' (auth_trust km' a) auth_id km' FAuth 0 (achecks a)) as [f1'|] eqn:B1;
    [|intros _ []].
  destruct (run_block_checks orc true fs' km' 0 (firstn 1 t)) as [f2'|] eqn:B2; [|intros _ []].
  destruct (run_policies orc fs' (auth_trust km' a) km' 0 (apolicies a)) as [pol'|] eqn:B3; [|intros _ []].
  destruct (run_block_checks orc true fs' km' 1 (skipn 1 t)) as [f3'|] eqn:B4; [|intros _ []].
  destruct (run_checks orc true fs' _ _ km' _ 0 (bchecks b)) as [lb|] eqn:B5; [|intros _ []].
  intros _ _.
  assert (f1' = f1) as ->.
  { eapply (run_checks_agree orc fs fs' _ same_view_sat); [|exact A1|exact B1].
    intros c Ic. apply alt_ok_intro.
    - intros q k Iq Ik. apply auth_scopes_in. unfold auth_all_scopes.
      apply in_or_app. right. apply in_or_app. right. apply in_or_app. left.
      unfold check_scopes. eapply in_flat_map_intro; [exact Ic|]. unfold rule_scopes.
      eapply in_flat_map_intro; eauto.
    - apply auth_trust_oeq.
    - left; reflexivity.
    - apply auth_trust_bounded. }
  assert (f2' = f2) as ->.
  { eapply run_block_checks_agree; [apply firstn_1_in|apply firstn_1_len|exact A2|exact B2]. }
  assert (pol' = pol) as ->.
  { eapply (run_policies_agree orc fs fs' _ same_view_sat); [|exact A3|exact B3].
    intros p Ip. apply alt_ok_intro.
    - intros q k Iq Ik. apply auth_scopes_in. unfold auth_all_scopes.
      apply in_or_app. right. apply in_or_app. right. apply in_or_app. right.
      eapply in_flat_map_intro; [exact Ip|]. unfold rule_scopes. eapply in_flat_map_intro; eauto.
    - apply auth_trust_oeq.
    - left; reflexivity.
    - apply auth_trust_bounded. }
  assert (f3' = f3) as ->.
  { eapply run_block_checks_agree; [apply skipn_1_in|apply skipn_1_len|exact A4|exact B4]. }
  split.
  - intros i H. destruct pol as [[[|] j]|]; destruct (f1 ++ f2 ++ f3 ++ lb) eqn:E; try discriminate.
    apply app_eq_nil in E. destruct E as [-> E]. apply app_eq_nil in E. destruct E as [-> E].
    apply app_eq_nil in E. destruct E as [-> _]. cbn. assumption.
  - assert (incl (f1 ++ f2 ++ f3) (f1 ++ f2 ++ f3 ++ lb)) as I.
    { intros x Hx. rewrite !app_assoc. apply in_or_app. left. rewrite <- !app_assoc. assumption. }
    assert (F : forall (pol : option (policy_kind * N)) (L : list failed),
              fails_of (match pol, L with
                        | Some (PAllow, i), [] => OAllow i
                        | None, _ => ONoPolicy L
                        | Some (PAllow, i), _ => ORefused true i L
                        | Some (PDeny, i), _ => ORefused false i L
                        end) = L).
    { intros [[[|] i]|] [|x L]; reflexivity. }
    rewrite !F. exact I.
Qed.

End Monotone.

(* ---------- C04: visibility, decision shape, queries ---------- *)
Lemma visible_derivable (orc : oracles) W m fs tr f :
  saturate orc m (w_rules W) (w_facts W) = Ok (Some fs) ->
  ((exists o, In (o, f) fs /\ osubset o tr = true) <->
   (exists o, Derivable orc W o f /\ osubset o tr = true)).
Proof.
  intro H. destruct (saturate_exact orc _ _ _ H) as [S C]. split.
  - intros [o [I V]]. exists o. split; [apply S; assumption|assumption].
  - intros [o [D V]]. destruct (C _ _ D) as [o' [I E]]. exists o'. split; [assumption|].
    rewrite <- (osubset_oeq _ _ _ E). assumption.
Qed.

Definition outcome_of (pol : option (policy_kind * N)) (fails : list failed) : outcome :=
  match pol, fails with
  | Some (PAllow, i), [] => OAllow i
  | None, _ => ONoPolicy fails
  | Some (PAllow, i), _ => ORefused true i fails
  | Some (PDeny, i), _ => ORefused false i fails
  end.

Lemma decide_shape (orc : oracles) ra fs t a f1 f2 pol f3 :
  let km := token_keymap t in
  run_checks orc ra fs (auth_trust km a) auth_id km FAuth 0 (achecks a) = Ok f1 ->
  run_block_checks orc ra fs km 0 (firstn 1 t) = Ok f2 ->
  run_policies orc fs (auth_trust km a) km 0 (apolicies a) = Ok pol ->
  run_block_checks orc ra fs km 1 (skipn 1 t) = Ok f3 ->
  decide orc ra fs t a = outcome_of pol (f1 ++ f2 ++ f3).
Proof. intros km H1 H2 H3 H4. unfold decide. fold km. rewrite H1, H2, H3, H4. reflexivity. Qed.

Lemma decide_allow_iff (orc : oracles) ra fs t a i :
  let km := token_keymap t in
  decide orc ra fs t a = OAllow i <->
  run_checks orc ra fs (auth_trust km a) auth_id km FAuth 0 (achecks a) = Ok [] /\
  run_block_checks orc ra fs km 0 (firstn 1 t) = Ok [] /\
  run_policies orc fs (auth_trust km a) km 0 (apolicies a) = Ok (Some (PAllow, i)) /\
  run_block_checks orc ra fs km 1 (skipn 1 t) = Ok [].
Proof.
  intro km. unfold decide. fold km.
  destruct (run_checks orc ra fs (auth_trust km a) auth_id km FAuth 0 (achecks a)) as [f1|];
    [|split; [discriminate|intros [H _]; discriminate]].
  destruct (run_block_checks orc ra fs km 0 (firstn 1 t)) as [f2|];
    [|split; [discriminate|intros [_ [H _]]; discriminate]].
  destruct (run_policies orc fs (auth_trust km a) km 0 (apolicies a)) as [pol|];
    [|split; [discriminate|intros [_ [_ [H _]]]; discriminate]].
  destruct (run_block_checks orc ra fs km 1 (skipn 1 t)) as [f3|];
    [|split; [discriminate|intros [_ [_ [_ H]]]; discriminate]].
  split.
  - intro H. destruct pol as [[[|] j]|]; destruct (f1 ++ f2 ++ f3) eqn:E; try discriminate.
    inversion H; subst. apply app_eq_nil in E. destruct E as [-> E]. apply app_eq_nil in E.
    destruct E as [-> ->]. auto.
  - intros [H1 [H2 [H3 H4]]]. inversion H1; inversion H2; inversion H3; inversion H4; subst. reflexivity.
Qed.

Lemma query_trust_default km q x :
  rscopes q = [] -> (In x (query_trust km q) <-> x = auth_id \/ x = 0%N).
Proof.
  intro E. unfold query_trust. rewrite E, from_scopes_spec, default_trust_In. tauto.
Qed.

Lemma query_all_trust_default km nb q x :
  rscopes q = [] -> N.of_nat nb <> auth_id ->
  (In x (query_all_trust km nb q) <-> x = auth_id \/ (x <= N.of_nat nb)%N).
Proof.
  intros E Hn. unfold query_all_trust. rewrite E, from_scopes_spec. split.
  - intros [H|[H|[sc [[<-|[]] G]]]]; [left; assumption|right; lia|]. destruct G as [_ G]. right; assumption.
  - intros [H|H]; [left; assumption|]. right. right. exists ScPrevious. split; [left; reflexivity|].
    split; assumption.
Qed.

(* the pre-fix reading of `reject if` (first unmatched alternative wins) accepts a request
   that the property refuses *)
Definition rj_orc : oracles :=
  {| regex_match := fun _ _ => Ok false; extern_call := fun _ _ _ => Err EUndefinedExtern |}.
Definition rj_q (name : string) : rule :=
  mkrule (mkpred (Sym (str "query")) []) [mkpred (Sym (str name)) [TVar 0]] [] [].
Definition rj_token : token := [mkblock [mkfact (Sym (str "b")) [VInt 1]] [] [] [] None].
Definition rj_auth : authorizer :=
  mkauth [] [] [mkcheck CkReject [rj_q "a"; rj_q "b"]]
         [mkpolicy PAllow [mkrule (mkpred (Sym (str "query")) []) [] [[OVal (VBool true)]] []]] [].

Lemma reject_multi_refuted :
  fst (authorize_world rj_orc false 10 1000 100 rj_token rj_auth) = OAllow 0 /\
  fst (authorize_world rj_orc true 10 1000 100 rj_token rj_auth) = ORefused true 0 [FAuth 0].
Proof. split; vm_compute; reflexivity. Qed.

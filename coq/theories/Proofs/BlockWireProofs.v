(* Wire format of block contents: decode_block (encode_block k) = Some k for every value of the
   Rust types that fits prost's recursion budget. *)
From Biscuit Require Import Model.BlockWire Proofs.WireProofs.
Local Open Scope N_scope.

(* ------------------------------------------------------------------ scalars *)
Lemma of_i64_lt : forall z, (-9223372036854775808 <= z < 9223372036854775808)%Z -> of_i64 z < two64.
Proof.
  intros z H. unfold of_i64, two64. destruct (z <? 0)%Z eqn:E.
  - apply Z.ltb_lt in E. lia.
  - apply Z.ltb_ge in E. lia.
Qed.

Lemma to_of_i64 : forall z, (-9223372036854775808 <= z < 9223372036854775808)%Z -> to_i64 (of_i64 z) = z.
Proof.
  intros z H. unfold to_i64, of_i64, two64, two63. destruct (z <? 0)%Z eqn:E.
  - apply Z.ltb_lt in E. rewrite N.mod_small by lia.
    assert (Hx : (Z.to_N (z + 18446744073709551616) <? 9223372036854775808) = false) by (apply N.ltb_ge; lia).
    rewrite Hx. lia.
  - apply Z.ltb_ge in E. rewrite N.mod_small by lia.
    assert (Hx : (Z.to_N z <? 9223372036854775808) = true) by (apply N.ltb_lt; lia).
    rewrite Hx. lia.
Qed.

Lemma to_of_bool : forall b, to_bool (of_bool b) = b.
Proof. now intros []. Qed.

Lemma of_bool_lt : forall b, of_bool b < two64.
Proof. intros []; unfold of_bool, two64; lia. Qed.

Lemma in_i64z_range : forall z, in_i64z z = true -> (-9223372036854775808 <= z < 9223372036854775808)%Z.
Proof. intros z H. unfold in_i64z in H. apply andb_true_iff in H as [H1 H2]. apply Z.leb_le in H1. apply Z.ltb_lt in H2. lia. Qed.

Lemma in_i32_range : forall z, in_i32 z = true -> (-2147483648 <= z < 2147483648)%Z.
Proof. intros z H. unfold in_i32 in H. apply andb_true_iff in H as [H1 H2]. apply Z.leb_le in H1. apply Z.ltb_lt in H2. lia. Qed.

(* ------------------------------------------------------------------ sizes *)
Lemma nlen_le_field : forall t b, nlen b <= nlen (enc_field (t, FLen b)).
Proof. intros. cbn [enc_field]. rewrite !nlen_app. lia. Qed.

Lemma nlen_in_fields : forall fs f, In f fs -> nlen (enc_field f) <= nlen (enc_fields fs).
Proof.
  induction fs as [|g fs IH]; intros f Hin; [destruct Hin|].
  rewrite enc_fields_cons, nlen_app. destruct Hin as [-> | Hin]; [lia|]. specialize (IH f Hin). lia.
Qed.

Lemma sub_fits : forall fs t b, nlen (enc_fields fs) < two64 -> In (t, FLen b) fs -> nlen b < two64.
Proof.
  intros fs t b H Hin. pose proof (nlen_in_fields fs _ Hin). pose proof (nlen_le_field t b). lia.
Qed.

(* tags and varints in range; the sizes follow from the size of the whole *)
Definition precanonical (f : field) : Prop :=
  match f with
  | (t, FVar n) => 1 <= t /\ t < 536870912 /\ n < two64
  | (t, FLen _) => 1 <= t /\ t < 536870912
  | (_, FSkip _) => False
  end.

Lemma canonical_of_size : forall fs, nlen (enc_fields fs) < two64 -> Forall precanonical fs -> Forall canonical fs.
Proof.
  intros fs Hs Hp. apply Forall_forall. intros f Hin. rewrite Forall_forall in Hp. specialize (Hp f Hin).
  destruct f as [t [n | b | w]]; cbn [precanonical canonical] in *; [exact Hp | | exact Hp].
  destruct Hp as [H1 H2]. repeat split; try assumption. now apply (sub_fits fs t b).
Qed.

Lemma fields_of_enc' : forall fs ctx, nlen (enc_fields fs) < two64 -> Forall precanonical fs ->
  fields_of_body ctx (enc_fields fs) = Some fs.
Proof. intros. apply fields_of_enc. now apply canonical_of_size. Qed.

Lemma sub_fields_enc : forall fs c, nlen (enc_fields fs) < two64 -> Forall precanonical fs ->
  sub_fields (S c) (enc_fields fs) = Some (c, fs).
Proof. intros. unfold sub_fields. now rewrite fields_of_enc'. Qed.

(* the size bound goes down into a message field and into the elements of a list of them *)
Lemma msg_fits : forall fs t inner, nlen (enc_fields fs) < two64 -> In (msg t inner) fs -> nlen (enc_fields inner) < two64.
Proof. intros fs t inner H Hin. unfold msg in Hin. now apply (sub_fits fs t _ H). Qed.

Lemma msg1_fits : forall t inner, nlen (enc_fields [msg t inner]) < two64 -> nlen (enc_fields inner) < two64.
Proof. intros t inner H. apply (msg_fits [msg t inner] t inner H). now left. Qed.

Lemma map_msg_fits : forall {X} (g : X -> list field) t l x,
  nlen (enc_fields (map (fun y => msg t (g y)) l)) < two64 -> In x l -> nlen (enc_fields (g x)) < two64.
Proof.
  intros X g t l x H Hin. apply (msg_fits _ t (g x) H). apply in_map_iff. now exists x.
Qed.

Lemma app_fits_l : forall a b, nlen (enc_fields (a ++ b)) < two64 -> nlen (enc_fields a) < two64.
Proof. intros a b H. rewrite enc_fields_app, nlen_app in H. lia. Qed.
Lemma app_fits_r : forall a b, nlen (enc_fields (a ++ b)) < two64 -> nlen (enc_fields b) < two64.
Proof. intros a b H. rewrite enc_fields_app, nlen_app in H. lia. Qed.
Lemma cons_fits : forall f fs, nlen (enc_fields (f :: fs)) < two64 -> nlen (enc_fields fs) < two64.
Proof. intros f fs H. rewrite enc_fields_cons, nlen_app in H. lia. Qed.

(* ------------------------------------------------------------------ folds *)
Lemma fold_seg : forall {A X} (step : A -> field -> option A) (g : X -> field) (snoc : A -> X -> A) l a,
  (forall a' x, In x l -> step a' (g x) = Some (snoc a' x)) ->
  fold_opt step (map g l) a = Some (fold_left snoc l a).
Proof.
  intros A X step g snoc. induction l as [|x l IH]; intros a H; [reflexivity|].
  cbn [map fold_opt fold_left]. rewrite H by now left. apply IH. intros a' y Hy. apply H. now right.
Qed.

Lemma fold_left_snoc : forall {X} (l acc : list X), fold_left (fun a x => a ++ [x]) l acc = acc ++ l.
Proof.
  intros X. induction l as [|x l IH]; intros acc; cbn [fold_left]; [now rewrite app_nil_r|].
  rewrite IH, <- app_assoc. reflexivity.
Qed.

Lemma list_maxn_in : forall l x, In x l -> (x <= list_maxn l)%nat.
Proof.
  induction l as [|y l IH]; intros x H; [destruct H|]. unfold list_maxn. cbn [fold_right]. fold (list_maxn l).
  destruct H as [-> | H]; [lia|]. specialize (IH x H). lia.
Qed.

(* ------------------------------------------------------------------ terms *)
Lemma pterm_ind' : forall P : pterm -> Prop,
  P PTNone -> (forall n, P (PTVariable n)) -> (forall z, P (PTInteger z)) -> (forall n, P (PTString n)) ->
  (forall n, P (PTDate n)) -> (forall b, P (PTBytes b)) -> (forall b, P (PTBool b)) ->
  (forall l, Forall P l -> P (PTSet l)) -> P PTNull -> (forall l, Forall P l -> P (PTArray l)) ->
  (forall l, Forall (fun kv => P (snd kv)) l -> P (PTMap l)) ->
  forall t, P t.
Proof.
  intros P H0 H1 H2 H3 H4 H5 H6 H7 H8 H9 H10.
  fix IH 1. intros [ |n|z|n|n|b|b|l| |l|l].
  - exact H0. - apply H1. - apply H2. - apply H3. - apply H4. - apply H5. - apply H6.
  - apply H7. induction l as [|x l IHl]; constructor; [apply IH | exact IHl].
  - exact H8.
  - apply H9. induction l as [|x l IHl]; constructor; [apply IH | exact IHl].
  - apply H10. induction l as [|[k x] l IHl]; constructor; [apply IH | exact IHl].
Qed.

Lemma term_fields_pre : forall t, term_ok t = true -> Forall precanonical (term_fields t).
Proof.
  intros t H. destruct t; cbn [term_fields term_ok] in *; repeat constructor; cbn [precanonical];
    try (apply N.ltb_lt in H); try lia.
  - unfold two32, two64 in *. lia.
  - apply of_i64_lt. now apply in_i64z_range.
  - apply of_bool_lt.
Qed.

Lemma mapkey_fields_pre : forall k, mapkey_ok k = true -> Forall precanonical (mapkey_fields k).
Proof.
  intros [|z|n] H; cbn [mapkey_fields mapkey_ok] in *; repeat constructor; cbn [precanonical]; try lia.
  - apply of_i64_lt. now apply in_i64z_range.
  - now apply N.ltb_lt in H.
Qed.

Lemma mapkey_roundtrip : forall k c, mapkey_ok k = true ->
  fold_opt (step_mapkey c) (mapkey_fields k) PKNone = Some k.
Proof.
  intros [|z|n] c H; cbn [mapkey_fields fold_opt step_mapkey mapkey_ok] in *; try reflexivity.
  rewrite to_of_i64 by now apply in_i64z_range. reflexivity.
Qed.

(* unfolding of the recursive decoder at a positive budget *)
Lemma step_term_set : forall c t b,
  step_term (S c) t (7, FLen b) =
  match fields_of_body c b with
  | Some fs => match fold_opt (step_elems step_term c) fs (match t with PTSet l => l | _ => [] end) with
               | Some l => Some (PTSet l) | None => None end
  | None => None
  end.
Proof. reflexivity. Qed.
Lemma step_term_array : forall c t b,
  step_term (S c) t (9, FLen b) =
  match fields_of_body c b with
  | Some fs => match fold_opt (step_elems step_term c) fs (match t with PTArray l => l | _ => [] end) with
               | Some l => Some (PTArray l) | None => None end
  | None => None
  end.
Proof. reflexivity. Qed.
Lemma step_term_map : forall c t b,
  step_term (S c) t (10, FLen b) =
  match fields_of_body c b with
  | Some fs => match fold_opt (step_entries step_term c) fs (match t with PTMap l => l | _ => [] end) with
               | Some l => Some (PTMap l) | None => None end
  | None => None
  end.
Proof. reflexivity. Qed.
Lemma step_term_null : forall c t, step_term (S c) t (8, FLen []) = Some PTNull.
Proof. intros. destruct c; reflexivity. Qed.

Definition term_rt (t : pterm) : Prop :=
  forall c, term_ok t = true -> (term_depth t <= c)%nat -> nlen (enc_fields (term_fields t)) < two64 ->
  fold_opt (step_term c) (term_fields t) PTNone = Some t.

Lemma elems_roundtrip : forall l c acc,
  Forall term_rt l -> forallb term_ok l = true -> (list_maxn (map term_depth l) <= c)%nat ->
  nlen (enc_fields (map (fun x => msg 1 (term_fields x)) l)) < two64 ->
  fold_opt (step_elems step_term (S c)) (map (fun x => msg 1 (term_fields x)) l) acc = Some (acc ++ l).
Proof.
  intros l c acc Hrt Hok Hd Hs.
  rewrite (fold_seg _ _ (fun a x => a ++ [x])); [now rewrite fold_left_snoc|].
  intros a x Hin. unfold msg, step_elems.
  assert (Hsx : nlen (enc_fields (term_fields x)) < two64) by (apply (map_msg_fits term_fields 1 l x Hs Hin)).
  assert (Hox : term_ok x = true) by (rewrite forallb_forall in Hok; now apply Hok).
  rewrite fields_of_enc' by (try assumption; now apply term_fields_pre).
  rewrite Forall_forall in Hrt. rewrite (Hrt x Hin c); try assumption; [reflexivity|].
  pose proof (list_maxn_in (map term_depth l) (term_depth x) ltac:(apply in_map; exact Hin)). lia.
Qed.

Lemma term_roundtrip : forall t, term_rt t.
Proof.
  induction t using pterm_ind'; unfold term_rt; intros c Hok Hd Hs; cbn [term_fields term_ok term_depth] in *.
  - reflexivity.
  - cbn [fold_opt]. destruct c; cbn [step_term]; rewrite to_u32_small by (now apply N.ltb_lt in Hok); reflexivity.
  - cbn [fold_opt]. destruct c; cbn [step_term]; rewrite to_of_i64 by (now apply in_i64z_range); reflexivity.
  - cbn [fold_opt]. destruct c; reflexivity.
  - cbn [fold_opt]. destruct c; reflexivity.
  - cbn [fold_opt]. destruct c; reflexivity.
  - cbn [fold_opt]. destruct c; cbn [step_term]; rewrite to_of_bool; reflexivity.
  - (* set *)
    destruct c as [|[|c]]; [lia | lia |]. cbn [fold_opt]. unfold msg at 1. rewrite step_term_set.
    apply msg1_fits in Hs as Hs'.
    rewrite fields_of_enc' by (try assumption; apply Forall_forall; intros f Hf; apply in_map_iff in Hf as (x & <- & _);
                               unfold msg; cbn [precanonical]; lia).
    rewrite elems_roundtrip; try assumption; [reflexivity | lia].
  - (* null *)
    destruct c as [|c]; [lia|]. cbn [fold_opt]. unfold msg. cbn [enc_fields flat_map]. now rewrite step_term_null.
  - (* array *)
    destruct c as [|[|c]]; [lia | lia |]. cbn [fold_opt]. unfold msg at 1. rewrite step_term_array.
    apply msg1_fits in Hs as Hs'.
    rewrite fields_of_enc' by (try assumption; apply Forall_forall; intros f Hf; apply in_map_iff in Hf as (x & <- & _);
                               unfold msg; cbn [precanonical]; lia).
    rewrite elems_roundtrip; try assumption; [reflexivity | lia].
  - (* map *)
    destruct c as [|[|[|c]]]; [lia | lia | lia |]. cbn [fold_opt]. unfold msg at 1. rewrite step_term_map.
    apply msg1_fits in Hs as Hs'.
    rewrite fields_of_enc' by (try assumption; apply Forall_forall; intros f Hf; apply in_map_iff in Hf as ([k x] & <- & _);
                               unfold msg; cbn [precanonical]; lia).
    rewrite (fold_seg _ _ (fun a x => a ++ [x])); [now rewrite fold_left_snoc|].
    intros a [k x] Hin. unfold msg at 1. unfold step_entries.
    assert (Hse : nlen (enc_fields [msg 1 (mapkey_fields k); msg 2 (term_fields x)]) < two64).
    { apply (msg_fits _ 1 _ Hs'). apply in_map_iff. exists (k, x). split; [reflexivity | exact Hin]. }
    rewrite forallb_forall in Hok. specialize (Hok (k, x) Hin). cbn beta iota in Hok.
    apply andb_true_iff in Hok as [Hk Hx].
    rewrite fields_of_enc' by (try assumption; repeat constructor; unfold msg; cbn [precanonical]; lia).
    cbn [fold_opt]. unfold msg at 1. unfold step_entry at 1. cbn [fst snd].
    assert (Hsk : nlen (enc_fields (mapkey_fields k)) < two64) by (apply (msg_fits _ 1 _ Hse); now left).
    assert (Hsx : nlen (enc_fields (term_fields x)) < two64) by (apply (msg_fits _ 2 _ Hse); right; now left).
    rewrite fields_of_enc' by (try assumption; now apply mapkey_fields_pre).
    rewrite mapkey_roundtrip by exact Hk. unfold msg at 1. unfold step_entry at 1. cbn [fst snd].
    rewrite fields_of_enc' by (try assumption; now apply term_fields_pre).
    rewrite Forall_forall in H. pose proof (H (k, x) Hin) as Hrt. cbn [snd] in Hrt.
    rewrite (Hrt c); try assumption; [reflexivity|].
    pose proof (list_maxn_in (map (fun kv : pmapkey * pterm => let (_, v) := kv in term_depth v) l) (term_depth x)
                  ltac:(apply in_map_iff; exists (k, x); split; [reflexivity | exact Hin])). lia.
Qed.

Lemma merge_term_enc : forall t c, term_ok t = true -> (term_depth t <= c)%nat ->
  nlen (enc_fields (term_fields t)) < two64 ->
  merge_term (S c) PTNone (enc_fields (term_fields t)) = Some t.
Proof.
  intros t c Hok Hd Hs. unfold merge_term. rewrite sub_fields_enc by (try assumption; now apply term_fields_pre).
  now apply term_roundtrip.
Qed.

(* ------------------------------------------------------------------ ops *)
Lemma pop_ind' : forall P : pop -> Prop,
  P PONone -> (forall t, P (POValue t)) -> (forall k n, P (POUnary k n)) -> (forall k n, P (POBinary k n)) ->
  (forall p l, Forall P l -> P (POClosure p l)) -> forall o, P o.
Proof.
  intros P H0 H1 H2 H3 H4. fix IH 1. intros [ |t|k n|k n|p l].
  - exact H0. - apply H1. - apply H2. - apply H3.
  - apply H4. induction l as [|x l IHl]; constructor; [apply IH | exact IHl].
Qed.

Lemma op_fields_pre : forall o, Forall precanonical (op_fields o).
Proof. intros []; cbn [op_fields]; repeat constructor; unfold msg; cbn [precanonical]; lia. Qed.

Lemma opkind_fields_pre : forall k n, in_i32 k = true -> ffi_ok n = true -> Forall precanonical (opkind_fields k n).
Proof.
  intros k n Hk Hn. unfold opkind_fields. destruct n as [x|]; repeat constructor; cbn [precanonical]; try lia;
    try (apply of_i32_lt; now apply in_i32_range). cbn [ffi_ok] in Hn. now apply N.ltb_lt in Hn.
Qed.

Lemma opkind_roundtrip : forall c k n, in_i32 k = true -> ffi_ok n = true ->
  nlen (enc_fields (opkind_fields k n)) < two64 ->
  merge_opkind (S c) (0%Z, None) (enc_fields (opkind_fields k n)) = Some (k, n).
Proof.
  intros c k n Hk Hn Hs. unfold merge_opkind. rewrite sub_fields_enc by (try assumption; now apply opkind_fields_pre).
  unfold opkind_fields. destruct n as [x|]; cbn [fold_opt step_opkind fst snd];
    rewrite to_of_i32 by (now apply in_i32_range); reflexivity.
Qed.

Lemma step_op_value : forall c o b,
  step_op c o (1, FLen b) =
  match merge_term c (match o with POValue t => t | _ => PTNone end) b with Some t => Some (POValue t) | None => None end.
Proof. intros. destruct c; reflexivity. Qed.
Lemma step_op_unary : forall c o b,
  step_op c o (2, FLen b) =
  match merge_opkind c (match o with POUnary k n => (k, n) | _ => (0%Z, None) end) b with
  | Some (k, n) => Some (POUnary k n) | None => None end.
Proof. intros. destruct c; reflexivity. Qed.
Lemma step_op_binary : forall c o b,
  step_op c o (3, FLen b) =
  match merge_opkind c (match o with POBinary k n => (k, n) | _ => (0%Z, None) end) b with
  | Some (k, n) => Some (POBinary k n) | None => None end.
Proof. intros. destruct c; reflexivity. Qed.
Lemma step_op_closure : forall c o b,
  step_op (S c) o (4, FLen b) =
  match fields_of_body c b with
  | Some fs => match fold_opt (step_closure step_op c) fs (match o with POClosure p l => (p, l) | _ => ([], []) end) with
               | Some (p, l) => Some (POClosure p l) | None => None end
  | None => None
  end.
Proof. reflexivity. Qed.

Definition op_rt (o : pop) : Prop :=
  forall c, op_ok o = true -> (op_depth o <= c)%nat -> nlen (enc_fields (op_fields o)) < two64 ->
  fold_opt (step_op c) (op_fields o) PONone = Some o.

Lemma fold_left_params : forall (p : list N) (a : list N) (b : list pop),
  fold_left (fun (cl : list N * list pop) x => (fst cl ++ [x], snd cl)) p (a, b) = (a ++ p, b).
Proof.
  induction p as [|x p IH]; intros a b; cbn [fold_left fst snd]; [now rewrite app_nil_r|].
  rewrite IH, <- app_assoc. reflexivity.
Qed.
Lemma fold_left_ops : forall (l : list pop) (a : list N) (b : list pop),
  fold_left (fun (cl : list N * list pop) x => (fst cl, snd cl ++ [x])) l (a, b) = (a, b ++ l).
Proof.
  induction l as [|x l IH]; intros a b; cbn [fold_left fst snd]; [now rewrite app_nil_r|].
  rewrite IH, <- app_assoc. reflexivity.
Qed.

Lemma op_roundtrip : forall o, op_rt o.
Proof.
  induction o using pop_ind'; unfold op_rt; intros c Hok Hd Hs; cbn [op_fields op_ok op_depth] in *.
  - reflexivity.
  - destruct c as [|c]; [lia|]. cbn [fold_opt]. unfold msg. rewrite step_op_value.
    apply msg1_fits in Hs. rewrite merge_term_enc by (try assumption; lia). reflexivity.
  - destruct c as [|c]; [lia|]. cbn [fold_opt]. unfold msg. rewrite step_op_unary.
    apply msg1_fits in Hs. apply andb_true_iff in Hok as [Hk Hn]. rewrite opkind_roundtrip by assumption. reflexivity.
  - destruct c as [|c]; [lia|]. cbn [fold_opt]. unfold msg. rewrite step_op_binary.
    apply msg1_fits in Hs. apply andb_true_iff in Hok as [Hk Hn]. rewrite opkind_roundtrip by assumption. reflexivity.
  - destruct c as [|[|c]]; [lia | lia |]. cbn [fold_opt]. unfold msg at 1. rewrite step_op_closure.
    apply msg1_fits in Hs. apply andb_true_iff in Hok as [Hp Hl].
    rewrite fields_of_enc'; [|exact Hs|].
    2:{ apply Forall_app. split; apply Forall_forall; intros f Hf; apply in_map_iff in Hf as (x & <- & Hx).
        - cbn [precanonical]. rewrite forallb_forall in Hp. specialize (Hp x Hx). apply N.ltb_lt in Hp.
          unfold two32, two64 in *. lia.
        - unfold msg. cbn [precanonical]. lia. }
    rewrite fold_opt_app.
    rewrite (fold_seg _ _ (fun (cl : list N * list pop) x => (fst cl ++ [x], snd cl))).
    2:{ intros a x Hx. unfold step_closure. rewrite to_u32_small; [reflexivity|].
        rewrite forallb_forall in Hp. specialize (Hp x Hx). now apply N.ltb_lt in Hp. }
    rewrite fold_left_params. cbn [app].
    rewrite (fold_seg _ _ (fun (cl : list N * list pop) x => (fst cl, snd cl ++ [x]))).
    2:{ intros a x Hx. unfold msg, step_closure.
        assert (Hsx : nlen (enc_fields (op_fields x)) < two64).
        { apply app_fits_r in Hs. apply (map_msg_fits op_fields 2 l x Hs Hx). }
        rewrite fields_of_enc' by (try assumption; apply op_fields_pre).
        rewrite Forall_forall in H. rewrite (H x Hx c); [reflexivity | | | exact Hsx].
        - rewrite forallb_forall in Hl. now apply Hl.
        - pose proof (list_maxn_in (map op_depth l) (op_depth x) ltac:(apply in_map; exact Hx)). lia. }
    rewrite fold_left_ops. reflexivity.
Qed.

(* ------------------------------------------------------------------ expressions, scopes, predicates *)
Lemma expr_roundtrip : forall e c acc, expr_ok e = true -> (91 <= c)%nat ->
  nlen (enc_fields (expr_fields e)) < two64 ->
  fold_opt (step_expr c) (expr_fields e) acc = Some (acc ++ e).
Proof.
  intros e c acc Hok Hc Hs. unfold expr_fields.
  rewrite (fold_seg _ _ (fun a x => a ++ [x])); [now rewrite fold_left_snoc|].
  intros a x Hx. unfold msg, step_expr, merge_op.
  assert (Hsx : nlen (enc_fields (op_fields x)) < two64) by (apply (map_msg_fits op_fields 1 e x Hs Hx)).
  destruct c as [|c]; [lia|].
  rewrite sub_fields_enc by (try assumption; apply op_fields_pre).
  unfold expr_ok in Hok. rewrite forallb_forall in Hok. specialize (Hok x Hx). apply andb_true_iff in Hok as [Ho Hd].
  apply Nat.leb_le in Hd. rewrite (op_roundtrip x c); try assumption; [reflexivity | lia].
Qed.

Lemma expr_fields_pre : forall e, Forall precanonical (expr_fields e).
Proof. intros e. apply Forall_forall. intros f Hf. apply in_map_iff in Hf as (x & <- & _). unfold msg. cbn [precanonical]. lia. Qed.

Lemma scope_fields_pre : forall s, scope_ok s = true -> Forall precanonical (scope_fields s).
Proof.
  intros [|z|z] H; cbn [scope_fields scope_ok] in *; repeat constructor; cbn [precanonical]; try lia.
  - apply of_i32_lt. now apply in_i32_range.
  - apply of_i64_lt. now apply in_i64z_range.
Qed.

Lemma scope_roundtrip : forall s c, scope_ok s = true ->
  fold_opt (step_scope c) (scope_fields s) PSNone = Some s.
Proof.
  intros [|z|z] c H; cbn [scope_fields fold_opt step_scope scope_ok] in *; try reflexivity.
  - rewrite to_of_i32 by now apply in_i32_range. reflexivity.
  - rewrite to_of_i64 by now apply in_i64z_range. reflexivity.
Qed.

Lemma merge_scope_enc : forall s c, scope_ok s = true -> nlen (enc_fields (scope_fields s)) < two64 ->
  merge_with step_scope (S c) PSNone (enc_fields (scope_fields s)) = Some s.
Proof.
  intros s c H Hs. unfold merge_with. rewrite sub_fields_enc by (try assumption; now apply scope_fields_pre).
  now apply scope_roundtrip.
Qed.

Lemma pred_fields_pre : forall p, pred_ok p = true -> Forall precanonical (pred_fields p).
Proof.
  intros p H. unfold pred_ok in H. apply andb_true_iff in H as [Hn _]. apply N.ltb_lt in Hn.
  unfold pred_fields. constructor; [cbn [precanonical]; lia|].
  apply Forall_forall. intros f Hf. apply in_map_iff in Hf as (x & <- & _). unfold msg. cbn [precanonical]. lia.
Qed.

Lemma fold_left_terms : forall (l : list pterm) n a,
  fold_left (fun (p : ppred) t => mkppred (pp_name p) (pp_terms p ++ [t])) l (mkppred n a) = mkppred n (a ++ l).
Proof.
  induction l as [|x l IH]; intros n a; cbn [fold_left pp_name pp_terms]; [now rewrite app_nil_r|].
  rewrite IH, <- app_assoc. reflexivity.
Qed.

Lemma pred_roundtrip : forall p c, pred_ok p = true -> (91 <= c)%nat ->
  nlen (enc_fields (pred_fields p)) < two64 ->
  fold_opt (step_pred c) (pred_fields p) ppred0 = Some p.
Proof.
  intros [n ts] c Hok Hc Hs. unfold pred_ok in Hok. cbn [pp_name pp_terms] in Hok.
  apply andb_true_iff in Hok as [Hn Hts]. unfold pred_fields in *. cbn [pp_name pp_terms] in *.
  cbn [fold_opt]. unfold step_pred at 1. cbn [ppred0 pp_terms pp_name].
  rewrite (fold_seg _ _ (fun (p : ppred) t => mkppred (pp_name p) (pp_terms p ++ [t]))); [now rewrite fold_left_terms|].
  intros a x Hx. unfold msg, step_pred.
  assert (Hsx : nlen (enc_fields (term_fields x)) < two64).
  { apply cons_fits in Hs. apply (map_msg_fits term_fields 2 ts x Hs Hx). }
  rewrite forallb_forall in Hts. specialize (Hts x Hx). apply andb_true_iff in Hts as [Ho Hd]. apply Nat.leb_le in Hd.
  destruct c as [|c]; [lia|]. rewrite merge_term_enc by (try assumption; lia). reflexivity.
Qed.

Lemma merge_pred_enc : forall p c, pred_ok p = true -> (91 <= c)%nat ->
  nlen (enc_fields (pred_fields p)) < two64 ->
  merge_with step_pred (S c) ppred0 (enc_fields (pred_fields p)) = Some p.
Proof.
  intros p c H Hc Hs. unfold merge_with. rewrite sub_fields_enc by (try assumption; now apply pred_fields_pre).
  now apply pred_roundtrip.
Qed.

(* ------------------------------------------------------------------ rules *)
Lemma rule_fields_pre : forall r, Forall precanonical (rule_fields r).
Proof.
  intros r. unfold rule_fields. constructor; [unfold msg; cbn [precanonical]; lia|].
  repeat (apply Forall_app; split); apply Forall_forall; intros f Hf; apply in_map_iff in Hf as (x & <- & _);
    unfold msg; cbn [precanonical]; lia.
Qed.

Lemma fold_left_body : forall (l : list ppred) h b e s,
  fold_left (fun (r : prule) p => mkprule (pr_head r) (pr_body r ++ [p]) (pr_exprs r) (pr_scopes r)) l (mkprule h b e s)
  = mkprule h (b ++ l) e s.
Proof.
  induction l as [|x l IH]; intros; cbn [fold_left pr_head pr_body pr_exprs pr_scopes]; [now rewrite app_nil_r|].
  rewrite IH, <- app_assoc. reflexivity.
Qed.
Lemma fold_left_exprs : forall (l : list (list pop)) h b e s,
  fold_left (fun (r : prule) x => mkprule (pr_head r) (pr_body r) (pr_exprs r ++ [x]) (pr_scopes r)) l (mkprule h b e s)
  = mkprule h b (e ++ l) s.
Proof.
  induction l as [|x l IH]; intros; cbn [fold_left pr_head pr_body pr_exprs pr_scopes]; [now rewrite app_nil_r|].
  rewrite IH, <- app_assoc. reflexivity.
Qed.
Lemma fold_left_rscopes : forall (l : list pscope) h b e s,
  fold_left (fun (r : prule) x => mkprule (pr_head r) (pr_body r) (pr_exprs r) (pr_scopes r ++ [x])) l (mkprule h b e s)
  = mkprule h b e (s ++ l).
Proof.
  induction l as [|x l IH]; intros; cbn [fold_left pr_head pr_body pr_exprs pr_scopes]; [now rewrite app_nil_r|].
  rewrite IH, <- app_assoc. reflexivity.
Qed.

Lemma rule_roundtrip : forall r c, rule_ok r = true -> (93 <= c)%nat ->
  nlen (enc_fields (rule_fields r)) < two64 ->
  fold_opt (step_rule c) (rule_fields r) prule0 = Some r.
Proof.
  intros [h b e s] c Hok Hc Hs. unfold rule_ok in Hok. cbn [pr_head pr_body pr_exprs pr_scopes] in Hok.
  apply andb_true_iff in Hok as [Hok Hsc]. apply andb_true_iff in Hok as [Hok He]. apply andb_true_iff in Hok as [Hh Hb].
  unfold rule_fields in *. cbn [pr_head pr_body pr_exprs pr_scopes] in *.
  destruct c as [|c]; [lia|].
  cbn [fold_opt]. unfold msg at 1. unfold step_rule at 1. cbn [prule0 pr_head pr_body pr_exprs pr_scopes].
  assert (Hsh : nlen (enc_fields (pred_fields h)) < two64) by (apply (msg_fits _ 1 _ Hs); now left).
  rewrite merge_pred_enc by (try assumption; lia).
  apply cons_fits in Hs.
  rewrite fold_opt_app.
  rewrite (fold_seg _ _ (fun (r : prule) p => mkprule (pr_head r) (pr_body r ++ [p]) (pr_exprs r) (pr_scopes r))).
  2:{ intros a x Hx. unfold msg, step_rule.
      assert (Hsx : nlen (enc_fields (pred_fields x)) < two64).
      { apply app_fits_l in Hs. apply (map_msg_fits pred_fields 2 b x Hs Hx). }
      rewrite forallb_forall in Hb. rewrite merge_pred_enc by (try assumption; try lia; now apply Hb). reflexivity. }
  rewrite fold_left_body. cbn [app]. apply app_fits_r in Hs.
  rewrite fold_opt_app.
  rewrite (fold_seg _ _ (fun (r : prule) x => mkprule (pr_head r) (pr_body r) (pr_exprs r ++ [x]) (pr_scopes r))).
  2:{ intros a x Hx. unfold msg, step_rule, merge_with.
      assert (Hsx : nlen (enc_fields (expr_fields x)) < two64).
      { apply app_fits_l in Hs. apply (map_msg_fits expr_fields 3 e x Hs Hx). }
      rewrite sub_fields_enc by (try assumption; apply expr_fields_pre).
      rewrite forallb_forall in He. rewrite expr_roundtrip by (try assumption; try lia; now apply He). reflexivity. }
  rewrite fold_left_exprs. cbn [app]. apply app_fits_r in Hs.
  rewrite (fold_seg _ _ (fun (r : prule) x => mkprule (pr_head r) (pr_body r) (pr_exprs r) (pr_scopes r ++ [x]))).
  2:{ intros a x Hx. unfold msg, step_rule.
      assert (Hsx : nlen (enc_fields (scope_fields x)) < two64) by (apply (map_msg_fits scope_fields 4 s x Hs Hx)).
      rewrite forallb_forall in Hsc. rewrite merge_scope_enc by (try assumption; now apply Hsc). reflexivity. }
  rewrite fold_left_rscopes. reflexivity.
Qed.

Lemma merge_rule_enc : forall r c, rule_ok r = true -> (93 <= c)%nat ->
  nlen (enc_fields (rule_fields r)) < two64 ->
  merge_with step_rule (S c) prule0 (enc_fields (rule_fields r)) = Some r.
Proof.
  intros r c H Hc Hs. unfold merge_with. rewrite sub_fields_enc by (try assumption; apply rule_fields_pre).
  now apply rule_roundtrip.
Qed.

(* ------------------------------------------------------------------ checks *)
Lemma check_fields_pre : forall k, check_ok k = true -> Forall precanonical (check_fields k).
Proof.
  intros [qs kind] H. unfold check_ok in H. cbn [pc_queries pc_kind] in H. apply andb_true_iff in H as [_ Hk].
  unfold check_fields. cbn [pc_queries pc_kind]. apply Forall_app. split.
  - apply Forall_forall. intros f Hf. apply in_map_iff in Hf as (x & <- & _). unfold msg. cbn [precanonical]. lia.
  - destruct kind as [z|]; repeat constructor; cbn [precanonical]; try lia. apply of_i32_lt. now apply in_i32_range.
Qed.

Lemma fold_left_queries : forall (l : list prule) q k,
  fold_left (fun (c : pcheck) x => mkpcheck (pc_queries c ++ [x]) (pc_kind c)) l (mkpcheck q k) = mkpcheck (q ++ l) k.
Proof.
  induction l as [|x l IH]; intros; cbn [fold_left pc_queries pc_kind]; [now rewrite app_nil_r|].
  rewrite IH, <- app_assoc. reflexivity.
Qed.

Lemma check_roundtrip : forall k c, check_ok k = true -> (94 <= c)%nat ->
  nlen (enc_fields (check_fields k)) < two64 ->
  fold_opt (step_check c) (check_fields k) pcheck0 = Some k.
Proof.
  intros [qs kind] c Hok Hc Hs. unfold check_ok in Hok. cbn [pc_queries pc_kind] in Hok.
  apply andb_true_iff in Hok as [Hq Hk]. unfold check_fields in *. cbn [pc_queries pc_kind] in *.
  destruct c as [|c]; [lia|].
  rewrite fold_opt_app.
  rewrite (fold_seg _ _ (fun (c : pcheck) x => mkpcheck (pc_queries c ++ [x]) (pc_kind c))).
  2:{ intros a x Hx. unfold msg, step_check.
      assert (Hsx : nlen (enc_fields (rule_fields x)) < two64).
      { apply app_fits_l in Hs. apply (map_msg_fits rule_fields 1 qs x Hs Hx). }
      rewrite forallb_forall in Hq. rewrite merge_rule_enc by (try assumption; try lia; now apply Hq). reflexivity. }
  unfold pcheck0. rewrite fold_left_queries. cbn [app].
  destruct kind as [z|]; cbn [fold_opt step_check pc_queries pc_kind]; [|reflexivity].
  rewrite to_of_i32 by now apply in_i32_range. reflexivity.
Qed.

(* ------------------------------------------------------------------ public keys *)
Lemma key_roundtrip : forall k c, wkey_ok k = true -> nlen (body_key k) < two64 ->
  merge_body step_key (S c) wkey0 (body_key k) = Some k.
Proof.
  intros [a bs] c Hok Hs. unfold merge_body, body_key in *. cbn [wk_alg wk_bytes] in *.
  apply wkey_ok_range in Hok. cbn [wk_alg] in Hok.
  rewrite fields_of_enc' by (try assumption; repeat constructor; cbn [precanonical]; try lia; now apply of_i32_lt).
  cbn [fold_opt step_key wk_alg wk_bytes wkey0]. now rewrite to_of_i32.
Qed.

(* ------------------------------------------------------------------ blocks *)
Lemma fold_left_symbols : forall (l : list bytes) a b c d e f g h,
  fold_left (fun (k : pblock) x => mkpblock (pb_symbols k ++ [x]) (pb_context k) (pb_version k) (pb_facts k) (pb_rules k)
                                            (pb_checks k) (pb_scopes k) (pb_keys k)) l (mkpblock a b c d e f g h)
  = mkpblock (a ++ l) b c d e f g h.
Proof.
  induction l as [|x l IH]; intros; cbn [fold_left pb_symbols pb_context pb_version pb_facts pb_rules pb_checks pb_scopes pb_keys];
    [now rewrite app_nil_r|]. rewrite IH, <- app_assoc. reflexivity.
Qed.
Lemma fold_left_facts : forall (l : list ppred) a b c d e f g h,
  fold_left (fun (k : pblock) x => mkpblock (pb_symbols k) (pb_context k) (pb_version k) (pb_facts k ++ [x]) (pb_rules k)
                                            (pb_checks k) (pb_scopes k) (pb_keys k)) l (mkpblock a b c d e f g h)
  = mkpblock a b c (d ++ l) e f g h.
Proof.
  induction l as [|x l IH]; intros; cbn [fold_left pb_symbols pb_context pb_version pb_facts pb_rules pb_checks pb_scopes pb_keys];
    [now rewrite app_nil_r|]. rewrite IH, <- app_assoc. reflexivity.
Qed.
Lemma fold_left_rules : forall (l : list prule) a b c d e f g h,
  fold_left (fun (k : pblock) x => mkpblock (pb_symbols k) (pb_context k) (pb_version k) (pb_facts k) (pb_rules k ++ [x])
                                            (pb_checks k) (pb_scopes k) (pb_keys k)) l (mkpblock a b c d e f g h)
  = mkpblock a b c d (e ++ l) f g h.
Proof.
  induction l as [|x l IH]; intros; cbn [fold_left pb_symbols pb_context pb_version pb_facts pb_rules pb_checks pb_scopes pb_keys];
    [now rewrite app_nil_r|]. rewrite IH, <- app_assoc. reflexivity.
Qed.
Lemma fold_left_checks : forall (l : list pcheck) a b c d e f g h,
  fold_left (fun (k : pblock) x => mkpblock (pb_symbols k) (pb_context k) (pb_version k) (pb_facts k) (pb_rules k)
                                            (pb_checks k ++ [x]) (pb_scopes k) (pb_keys k)) l (mkpblock a b c d e f g h)
  = mkpblock a b c d e (f ++ l) g h.
Proof.
  induction l as [|x l IH]; intros; cbn [fold_left pb_symbols pb_context pb_version pb_facts pb_rules pb_checks pb_scopes pb_keys];
    [now rewrite app_nil_r|]. rewrite IH, <- app_assoc. reflexivity.
Qed.
Lemma fold_left_bscopes : forall (l : list pscope) a b c d e f g h,
  fold_left (fun (k : pblock) x => mkpblock (pb_symbols k) (pb_context k) (pb_version k) (pb_facts k) (pb_rules k)
                                            (pb_checks k) (pb_scopes k ++ [x]) (pb_keys k)) l (mkpblock a b c d e f g h)
  = mkpblock a b c d e f (g ++ l) h.
Proof.
  induction l as [|x l IH]; intros; cbn [fold_left pb_symbols pb_context pb_version pb_facts pb_rules pb_checks pb_scopes pb_keys];
    [now rewrite app_nil_r|]. rewrite IH, <- app_assoc. reflexivity.
Qed.
Lemma fold_left_keys : forall (l : list wkey) a b c d e f g h,
  fold_left (fun (k : pblock) x => mkpblock (pb_symbols k) (pb_context k) (pb_version k) (pb_facts k) (pb_rules k)
                                            (pb_checks k) (pb_scopes k) (pb_keys k ++ [x])) l (mkpblock a b c d e f g h)
  = mkpblock a b c d e f g (h ++ l).
Proof.
  induction l as [|x l IH]; intros; cbn [fold_left pb_symbols pb_context pb_version pb_facts pb_rules pb_checks pb_scopes pb_keys];
    [now rewrite app_nil_r|]. rewrite IH, <- app_assoc. reflexivity.
Qed.

Lemma pblock_fields_pre : forall k, pblock_ok k = true -> Forall precanonical (pblock_fields k).
Proof.
  intros k H. unfold pblock_ok in H. repeat (apply andb_true_iff in H as [H ?]).
  unfold pblock_fields.
  repeat (apply Forall_app; split);
    try (apply Forall_forall; intros f Hf; apply in_map_iff in Hf as (x & <- & _); unfold msg; cbn [precanonical]; lia).
  - destruct (pb_context k); repeat constructor; cbn [precanonical]; lia.
  - destruct (pb_version k) as [v|]; repeat constructor; cbn [precanonical]; try lia.
    match goal with Hv : (v <? two32) = true |- _ => apply N.ltb_lt in Hv; unfold two32, two64 in *; lia end.
Qed.

Theorem decode_encode_block : forall k, pblock_ok k = true -> nlen (encode_block k) < two64 ->
  decode_block (encode_block k) = Some k.
Proof.
  intros k Hok Hs. unfold decode_block, encode_block in *.
  rewrite fields_of_enc' by (try assumption; now apply pblock_fields_pre).
  destruct k as [sy cx ve fa ru ch sc ke]. unfold pblock_ok in Hok.
  cbn [pb_symbols pb_context pb_version pb_facts pb_rules pb_checks pb_scopes pb_keys] in Hok.
  apply andb_true_iff in Hok as [Hok Hke]. apply andb_true_iff in Hok as [Hok Hsc]. apply andb_true_iff in Hok as [Hok Hch].
  apply andb_true_iff in Hok as [Hok Hru]. apply andb_true_iff in Hok as [Hok Hfa]. apply andb_true_iff in Hok as [Hok Hve].
  apply andb_true_iff in Hok as [Hsy Hcx].
  unfold pblock_fields in *. cbn [pb_symbols pb_context pb_version pb_facts pb_rules pb_checks pb_scopes pb_keys] in *.
  unfold recursion_limit.
  (* symbols *)
  rewrite fold_opt_app.
  rewrite (fold_seg _ _ (fun (k : pblock) x => mkpblock (pb_symbols k ++ [x]) (pb_context k) (pb_version k) (pb_facts k)
                                                     (pb_rules k) (pb_checks k) (pb_scopes k) (pb_keys k))).
  2:{ intros a x Hx. unfold step_pblock. rewrite forallb_forall in Hsy. now rewrite (Hsy x Hx). }
  unfold pblock0. rewrite fold_left_symbols. cbn [app]. apply app_fits_r in Hs.
  (* context *)
  rewrite fold_opt_app.
  match goal with |- match ?X with _ => _ end = _ =>
    assert (Hcx' : X = Some (mkpblock sy cx None [] [] [] [] [])) end.
  { destruct cx as [c|]; [|reflexivity]. cbn [fold_opt]. unfold step_pblock. rewrite Hcx. reflexivity. }
  rewrite Hcx'. clear Hcx'. apply app_fits_r in Hs.
  (* version *)
  rewrite fold_opt_app.
  match goal with |- match ?X with _ => _ end = _ =>
    assert (Hve' : X = Some (mkpblock sy cx ve [] [] [] [] [])) end.
  { destruct ve as [v|]; [|reflexivity]. cbn [fold_opt]. unfold step_pblock.
    cbn [pb_symbols pb_context pb_version pb_facts pb_rules pb_checks pb_scopes pb_keys].
    rewrite to_u32_small by (now apply N.ltb_lt in Hve). reflexivity. }
  rewrite Hve'. clear Hve'. apply app_fits_r in Hs.
  (* facts *)
  rewrite fold_opt_app.
  rewrite (fold_seg _ _ (fun (k : pblock) x => mkpblock (pb_symbols k) (pb_context k) (pb_version k) (pb_facts k ++ [x])
                                                     (pb_rules k) (pb_checks k) (pb_scopes k) (pb_keys k))).
  2:{ intros a x Hx. unfold msg at 1. unfold step_pblock, merge_with.
      assert (Hsf : nlen (enc_fields [msg 1 (pred_fields x)]) < two64).
      { apply app_fits_l in Hs. apply (map_msg_fits (fun p => [msg 1 (pred_fields p)]) 4 fa x Hs Hx). }
      rewrite sub_fields_enc by (try assumption; repeat constructor; unfold msg; cbn [precanonical]; lia).
      cbn [fold_opt]. unfold msg, step_fact.
      assert (Hsx : nlen (enc_fields (pred_fields x)) < two64) by (now apply msg1_fits in Hsf).
      rewrite forallb_forall in Hfa. rewrite merge_pred_enc by (try assumption; try lia; now apply Hfa). reflexivity. }
  rewrite fold_left_facts. cbn [app]. apply app_fits_r in Hs.
  (* rules *)
  rewrite fold_opt_app.
  rewrite (fold_seg _ _ (fun (k : pblock) x => mkpblock (pb_symbols k) (pb_context k) (pb_version k) (pb_facts k)
                                                     (pb_rules k ++ [x]) (pb_checks k) (pb_scopes k) (pb_keys k))).
  2:{ intros a x Hx. unfold msg, step_pblock.
      assert (Hsx : nlen (enc_fields (rule_fields x)) < two64).
      { apply app_fits_l in Hs. apply (map_msg_fits rule_fields 5 ru x Hs Hx). }
      rewrite forallb_forall in Hru. rewrite merge_rule_enc by (try assumption; try lia; now apply Hru). reflexivity. }
  rewrite fold_left_rules. cbn [app]. apply app_fits_r in Hs.
  (* checks *)
  rewrite fold_opt_app.
  rewrite (fold_seg _ _ (fun (k : pblock) x => mkpblock (pb_symbols k) (pb_context k) (pb_version k) (pb_facts k)
                                                     (pb_rules k) (pb_checks k ++ [x]) (pb_scopes k) (pb_keys k))).
  2:{ intros a x Hx. unfold msg, step_pblock, merge_with.
      assert (Hsx : nlen (enc_fields (check_fields x)) < two64).
      { apply app_fits_l in Hs. apply (map_msg_fits check_fields 6 ch x Hs Hx). }
      rewrite forallb_forall in Hch.
      rewrite sub_fields_enc by (try assumption; apply check_fields_pre; now apply Hch).
      rewrite check_roundtrip by (try assumption; try lia; now apply Hch). reflexivity. }
  rewrite fold_left_checks. cbn [app]. apply app_fits_r in Hs.
  (* scopes *)
  rewrite fold_opt_app.
  rewrite (fold_seg _ _ (fun (k : pblock) x => mkpblock (pb_symbols k) (pb_context k) (pb_version k) (pb_facts k)
                                                     (pb_rules k) (pb_checks k) (pb_scopes k ++ [x]) (pb_keys k))).
  2:{ intros a x Hx. unfold msg, step_pblock.
      assert (Hsx : nlen (enc_fields (scope_fields x)) < two64).
      { apply app_fits_l in Hs. apply (map_msg_fits scope_fields 7 sc x Hs Hx). }
      rewrite forallb_forall in Hsc. rewrite merge_scope_enc by (try assumption; now apply Hsc). reflexivity. }
  rewrite fold_left_bscopes. cbn [app]. apply app_fits_r in Hs.
  (* keys *)
  rewrite (fold_seg _ _ (fun (k : pblock) x => mkpblock (pb_symbols k) (pb_context k) (pb_version k) (pb_facts k)
                                                     (pb_rules k) (pb_checks k) (pb_scopes k) (pb_keys k ++ [x]))).
  2:{ intros a x Hx. unfold step_pblock.
      assert (Hsx : nlen (body_key x) < two64).
      { apply (sub_fits _ 8 _ Hs). apply in_map_iff. exists x. split; [reflexivity | exact Hx]. }
      rewrite forallb_forall in Hke. rewrite key_roundtrip by (try assumption; now apply Hke). reflexivity. }
  rewrite fold_left_keys. reflexivity.
Qed.

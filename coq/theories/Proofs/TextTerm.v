(* C14: terms (scalars and nested collections) print and parse back, in each of the three
   term contexts of the grammar. *)
From Biscuit Require Import Model.Text Proofs.TextLeaves Proofs.TextDate.
Local Open Scope N_scope.

(* ------------------------------------------------------------------ what may follow a term *)
(* the characters that end a date token: , space ) ] ; }  (or the end of the input) *)
Definition tstop (rest : text) : Prop := date_stop rest.

Lemma stop_cases : forall c, is_date_char c = false ->
  c = cComma \/ c = cSp \/ c = cRPar \/ c = cRBrk \/ c = cSemi \/ c = cRBrace.
Proof.
  intros c H. unfold is_date_char in H. apply negb_false_iff in H.
  repeat (apply orb_true_iff in H as [H|H]); apply N.eqb_eq in H; auto 10.
Qed.

Ltac stop_char H :=
  destruct (stop_cases _ H) as [->|[->|[->|[->|[->| ->]]]]].

Lemma tstop_no_digit : forall rest, tstop rest -> no_digit_head rest.
Proof. intros [|c r] H; [exact I|]. cbn in *. stop_char H; reflexivity. Qed.
Lemma tstop_no_hex : forall rest, tstop rest -> no_hex_head rest.
Proof. intros [|c r] H; [exact I|]. cbn in *. stop_char H; reflexivity. Qed.
Lemma tstop_no_name : forall rest, tstop rest ->
  match rest with [] => True | c :: _ => is_name_char c = false end.
Proof. intros [|c r] H; [exact I|]. cbn in *. stop_char H; reflexivity. Qed.

(* ------------------------------------------------------------------ failing alternatives *)
Lemma rfc_date_nondigit : forall c t, is_digit c = false -> rfc_date (c :: t) = None.
Proof.
  intros c t H. unfold rfc_date. destruct t as [|y2 [|y3 [|y4 t1]]]; try reflexivity.
  now rewrite H.
Qed.

Lemma parse_date_nondigit : forall c x, is_digit c = false -> parse_date (c :: x) = None.
Proof.
  intros c x H. unfold parse_date, take_while1. cbn [span].
  destruct (is_date_char c); [|reflexivity].
  destruct (span is_date_char x) as [a b]. unfold rfc3339. now rewrite rfc_date_nondigit.
Qed.

Lemma digit_not_minus : forall d, is_digit d = true -> (cMinus =? d) = false.
Proof.
  intros d H. unfold is_digit in H. apply andb_true_iff in H as [H _]. apply N.leb_le in H.
  apply N.eqb_neq. unfold cMinus. lia.
Qed.

Lemma rfc_date_digits : forall ds, forallb is_digit ds = true -> rfc_date ds = None.
Proof.
  intros ds H. unfold rfc_date.
  destruct ds as [|y1 [|y2 [|y3 [|y4 [|y5 t]]]]]; try reflexivity.
  - cbn [forallb] in H. repeat (apply andb_true_iff in H as [? H]).
    now destruct (is_digit y1 && is_digit y2 && is_digit y3 && is_digit y4)%bool.
  - cbn [forallb] in H. repeat (apply andb_true_iff in H as [? H]).
    destruct (is_digit y1 && is_digit y2 && is_digit y3 && is_digit y4)%bool; [|reflexivity].
    cbn [chr]. now rewrite digit_not_minus.
Qed.

Lemma parse_date_digits : forall ds rest, forallb is_digit ds = true -> tstop rest ->
  parse_date (ds ++ rest) = None.
Proof.
  intros ds rest H Hs. unfold parse_date, take_while1.
  assert (Hd : forallb is_date_char ds = true).
  { clear Hs. induction ds as [|d ds IH]; [reflexivity|]. cbn [forallb] in *.
    apply andb_true_iff in H as [H1 H2]. now rewrite (date_chars_digit _ H1), IH. }
  rewrite (span_app_stop is_date_char ds rest Hd Hs).
  destruct ds as [|d ds']; [reflexivity|]. unfold rfc3339. now rewrite rfc_date_digits.
Qed.

(* Everything below is proved for both printers: [esc = true] is the repaired printer
   (every string), [esc = false] the unchanged one (strings without quote and backslash). *)
Section Esc.
Variable esc : bool.

Definition str_okb (s : text) : bool := esc || plain s.

Lemma string_roundtrip_gen : forall s rest, str_okb s = true ->
  parse_string (print_string esc s ++ rest) = Some (s, rest).
Proof.
  intros s rest H. unfold str_okb in H. destruct esc.
  - apply string_roundtrip.
  - apply string_roundtrip_faithful_plain. exact H.
Qed.

Lemma print_string_head : forall s, exists r, print_string esc s = cQuote :: r.
Proof. intro s. unfold print_string. eauto. Qed.

(* ------------------------------------------------------------------ scalars *)
Definition name_okb (s : text) : bool :=
  match s with [] => false | _ => forallb is_name_char s end.
Definition param_okb (s : text) : bool :=
  match s with c :: r => is_name_start c && forallb is_name_char r | [] => false end.

Lemma p_name_ok : forall s rest, name_okb s = true ->
  match rest with [] => True | c :: _ => is_name_char c = false end ->
  p_name (s ++ rest) = Some (s, rest).
Proof.
  intros s rest H Hr. unfold p_name, take_while1. destruct s as [|c s']; [discriminate|].
  cbn [name_okb] in H. rewrite (span_app_stop is_name_char (c :: s') rest H Hr). reflexivity.
Qed.

Lemma p_param_name_ok : forall s rest, param_okb s = true ->
  match rest with [] => True | c :: _ => is_name_char c = false end ->
  p_param_name (s ++ rest) = Some (s, rest).
Proof.
  intros s rest H Hr. destruct s as [|c s']; [discriminate|]. cbn [param_okb] in H.
  apply andb_true_iff in H as [H1 H2]. cbn [app p_param_name]. rewrite H1.
  now rewrite (span_app_stop is_name_char s' rest H2 Hr).
Qed.

Lemma p_braced_param : forall s rest, param_okb s = true ->
  p_braced p_param_name (cLBrace :: s ++ cRBrace :: rest) = Some (s, rest).
Proof.
  intros s rest H. unfold p_braced. cbn [chr]. rewrite N.eqb_refl.
  rewrite (p_param_name_ok s (cRBrace :: rest) H) by reflexivity.
  cbn [chr]. now rewrite N.eqb_refl.
Qed.

Lemma p_braced_other : forall nm c x, (cLBrace =? c) = false -> p_braced nm (c :: x) = None.
Proof. intros. unfold p_braced. cbn [chr]. now rewrite H. Qed.

Lemma parse_string_other : forall c x, (c =? cQuote) = false -> parse_string (c :: x) = None.
Proof. intros. unfold parse_string. now rewrite H. Qed.

Lemma scalar_param : forall b s rest, param_okb s = true ->
  p_scalar b (cLBrace :: s ++ cRBrace :: rest) = Some (TParam s, rest).
Proof. intros. unfold p_scalar. rewrite p_braced_param by assumption. reflexivity. Qed.

Lemma scalar_str : forall b s rest, str_okb s = true ->
  p_scalar b (print_string esc s ++ rest) = Some (TStr s, rest).
Proof.
  intros b s rest H. unfold p_scalar. rewrite string_roundtrip_gen by exact H.
  destruct (print_string_head s) as [r ->]. cbn [app]. rewrite p_braced_other by reflexivity. reflexivity.
Qed.

Lemma print_date_head : forall d, (0 <= d < 253402300800)%Z ->
  exists c r, print_date d = c :: r /\ is_digit c = true.
Proof.
  intros d Hd. unfold print_date.
  destruct (d <? 9223372036854775808)%Z eqn:E1; [|apply Z.ltb_ge in E1; lia].
  assert (E2 : ((d <? date_min)%Z || (date_max <? d)%Z)%bool = false).
  { unfold date_min, date_max. apply orb_false_iff. split; apply Z.ltb_ge; lia. }
  rewrite E2. destruct (civil_from_days (d / 86400)) as [[y m] dd].
  unfold pad4. cbn [app]. eexists _, _. split; [reflexivity|apply dig_digit].
Qed.

Lemma digit_facts : forall c, is_digit c = true ->
  (cLBrace =? c) = false /\ (c =? cQuote) = false /\ (cDollar =? c) = false /\ is_ws c = false.
Proof.
  intros c H. unfold is_digit in H. apply andb_true_iff in H as [H1 H2].
  apply N.leb_le in H1, H2. unfold is_ws, cLBrace, cQuote, cDollar, cSp, cTab, cCR, cLF.
  repeat split; repeat (apply orb_false_iff; split); apply N.eqb_neq; lia.
Qed.

Lemma scalar_date : forall b d rest, (0 <= d < 253402300800)%Z -> tstop rest ->
  p_scalar b (print_date d ++ rest) = Some (TDate d, rest).
Proof.
  intros b d rest Hd Hs. unfold p_scalar. rewrite (date_roundtrip d rest Hd Hs).
  destruct (print_date_head d Hd) as (c & r & -> & Hc). cbn [app].
  destruct (digit_facts c Hc) as (A & B & _).
  rewrite p_braced_other by exact A. rewrite parse_string_other by exact B. reflexivity.
Qed.

Definition name_stop (rest : text) : Prop :=
  match rest with [] => True | c :: _ => is_name_char c = false end.

Lemma scalar_var : forall s rest, name_okb s = true -> name_stop rest ->
  p_scalar true (cDollar :: s ++ rest) = Some (TVar s, rest).
Proof.
  intros s rest H Hs. unfold p_scalar.
  rewrite p_braced_other by reflexivity. rewrite parse_string_other by reflexivity.
  rewrite parse_date_nondigit by reflexivity. cbn [oor opt_map chr]. rewrite N.eqb_refl.
  rewrite (p_name_ok s rest H Hs). reflexivity.
Qed.

Lemma print_int_shape : forall i,
  exists c r, print_int i = c :: r /\ (is_digit c = true \/ c = cMinus) /\
              ((is_digit c = true /\ forallb is_digit r = true) \/ c = cMinus).
Proof.
  intro i. unfold print_int. destruct (i <? 0)%Z eqn:E.
  - eexists _, _. split; [reflexivity|]. split; right; reflexivity.
  - apply Z.ltb_ge in E. destruct (print_natz_spec i E) as (ds & -> & Hd & Hne & _).
    destruct ds as [|c r]; [congruence|]. cbn [forallb] in Hd. apply andb_true_iff in Hd as [H1 H2].
    eexists _, _. split; [reflexivity|]. split; [left; exact H1|left; split; assumption].
Qed.

Lemma scalar_int : forall b i rest, in_i64 i = true -> tstop rest ->
  p_scalar b (print_int i ++ rest) = Some (TInt i, rest).
Proof.
  intros b i rest Hi Hs. unfold p_scalar.
  rewrite (int_roundtrip i rest Hi (tstop_no_digit _ Hs)).
  destruct (print_int_shape i) as (c & r & E & Hc & Hr).
  assert (D : parse_date (print_int i ++ rest) = None).
  { destruct Hr as [[H1 H2]| ->].
    - apply parse_date_digits; [|exact Hs]. rewrite E. cbn [forallb]. now rewrite H1, H2.
    - rewrite E. cbn [app]. apply parse_date_nondigit. reflexivity. }
  rewrite D. rewrite E. cbn [app].
  assert (A : (cLBrace =? c) = false /\ (c =? cQuote) = false /\ (cDollar =? c) = false).
  { destruct Hc as [Hc| ->]; [destruct (digit_facts c Hc) as (?&?&?&?); auto|repeat split; reflexivity]. }
  destruct A as (A1 & A2 & A3).
  rewrite p_braced_other by exact A1. rewrite parse_string_other by exact A2.
  cbn [oor opt_map chr]. rewrite A3. destruct b; reflexivity.
Qed.

Lemma scalar_bytes : forall b bs rest, Forall (fun x => x < 256) bs -> bs <> [] -> no_hex_head rest ->
  p_scalar b (str "hex:" ++ print_hex bs ++ rest) = Some (TBytes bs, rest).
Proof.
  intros b bs rest H1 H2 Hs. unfold p_scalar.
  rewrite (bytes_roundtrip bs rest H1 H2 Hs).
  change (str "hex:" ++ print_hex bs ++ rest) with (104 :: (str "ex:" ++ print_hex bs ++ rest)).
  rewrite p_braced_other by reflexivity. rewrite parse_string_other by reflexivity.
  rewrite parse_date_nondigit by reflexivity. destruct b; reflexivity.
Qed.

Lemma scalar_bool : forall b (v : bool) rest,
  p_scalar b ((if v then str "true" else str "false") ++ rest) = Some (TBool v, rest).
Proof.
  intros b v rest. unfold p_scalar. destruct v.
  - change (str "true" ++ rest) with (116 :: (str "rue" ++ rest)).
    rewrite p_braced_other by reflexivity. rewrite parse_string_other by reflexivity.
    rewrite parse_date_nondigit by reflexivity. destruct b; reflexivity.
  - change (str "false" ++ rest) with (102 :: (str "alse" ++ rest)).
    rewrite p_braced_other by reflexivity. rewrite parse_string_other by reflexivity.
    rewrite parse_date_nondigit by reflexivity. destruct b; reflexivity.
Qed.

Lemma scalar_null : forall b rest, p_scalar b (str "null" ++ rest) = Some (TNull, rest).
Proof.
  intros b rest. unfold p_scalar. change (str "null" ++ rest) with (110 :: (str "ull" ++ rest)).
  rewrite p_braced_other by reflexivity. rewrite parse_string_other by reflexivity.
  rewrite parse_date_nondigit by reflexivity. destruct b; reflexivity.
Qed.

(* no scalar starts with '[' *)
Lemma scalar_lbrk : forall b x, p_scalar b (cLBrk :: x) = None.
Proof.
  intros. unfold p_scalar. rewrite p_braced_other by reflexivity.
  rewrite parse_string_other by reflexivity. rewrite parse_date_nondigit by reflexivity.
  destruct b; reflexivity.
Qed.

(* '{' not followed by a parameter name and '}' starts no scalar *)
Lemma scalar_lbrace : forall b x, p_braced p_param_name (cLBrace :: x) = None ->
  p_scalar b (cLBrace :: x) = None.
Proof.
  intros b x H. unfold p_scalar. rewrite H. rewrite parse_string_other by reflexivity.
  rewrite parse_date_nondigit by reflexivity. destruct b; reflexivity.
Qed.

(* ------------------------------------------------------------------ integers before ':' *)
(* what may follow an integer: nothing, or a character that is neither a digit nor '-' *)
Definition istop (rest : text) : Prop :=
  match rest with [] => True | c :: _ => is_digit c = false /\ (cMinus =? c) = false end.

Lemma tstop_istop : forall rest, tstop rest -> istop rest.
Proof. intros [|c r] H; [exact I|]. cbn in *. stop_char H; split; reflexivity. Qed.

Lemma rfc_date_digits_then : forall ds c x, forallb is_digit ds = true ->
  is_digit c = false -> (cMinus =? c) = false -> rfc_date (ds ++ c :: x) = None.
Proof.
  intros ds c x H Hc Hm. unfold rfc_date.
  destruct ds as [|y1 [|y2 [|y3 [|y4 [|y5 t]]]]]; cbn [app].
  - destruct x as [|? [|? [|? ?]]]; try reflexivity. now rewrite Hc.
  - destruct x as [|? [|? ?]]; try reflexivity. rewrite Hc. now rewrite andb_false_r.
  - destruct x as [|? ?]; try reflexivity. rewrite Hc. now rewrite andb_false_r.
  - rewrite Hc. now rewrite andb_false_r.
  - destruct (is_digit y1 && is_digit y2 && is_digit y3 && is_digit y4)%bool; [|reflexivity].
    cbn [chr]. now rewrite Hm.
  - cbn [forallb] in H. repeat (apply andb_true_iff in H as [? H]).
    destruct (is_digit y1 && is_digit y2 && is_digit y3 && is_digit y4)%bool; [|reflexivity].
    cbn [chr]. now rewrite digit_not_minus.
Qed.

Lemma span_app_true : forall p (a rest : text), forallb p a = true ->
  span p (a ++ rest) = (a ++ fst (span p rest), snd (span p rest)).
Proof.
  induction a as [|x a IH]; cbn [app span forallb]; intros rest Ha.
  - now destruct (span p rest).
  - apply andb_true_iff in Ha as [Hx Ha]. rewrite Hx. rewrite (IH rest Ha). reflexivity.
Qed.

Lemma span_head : forall p c r, fst (span p (c :: r)) = [] \/ exists a, fst (span p (c :: r)) = c :: a.
Proof.
  intros. cbn [span]. destruct (p c); [right|left; reflexivity].
  destruct (span p r) as [a b]. exists a. reflexivity.
Qed.

Lemma parse_date_digits' : forall ds rest, forallb is_digit ds = true -> ds <> [] -> istop rest ->
  parse_date (ds ++ rest) = None.
Proof.
  intros ds rest H Hne Hs. unfold parse_date, take_while1.
  assert (Hd : forallb is_date_char ds = true).
  { clear Hs Hne. induction ds as [|d ds IH]; [reflexivity|]. cbn [forallb] in *.
    apply andb_true_iff in H as [H1 H2]. now rewrite (date_chars_digit _ H1), IH. }
  rewrite (span_app_true is_date_char ds rest Hd). cbn [fst snd].
  assert (R : rfc3339 (ds ++ fst (span is_date_char rest)) = None).
  { unfold rfc3339. destruct rest as [|c r].
    - cbn [span fst]. rewrite app_nil_r. now rewrite rfc_date_digits.
    - destruct Hs as [Hc Hm]. destruct (span_head is_date_char c r) as [->|[a ->]].
      + rewrite app_nil_r. now rewrite rfc_date_digits.
      + now rewrite rfc_date_digits_then. }
  destruct (ds ++ fst (span is_date_char rest)) as [|z zs] eqn:E.
  - destruct ds; [congruence|discriminate].
  - now rewrite R.
Qed.

Lemma istop_no_digit : forall rest, istop rest -> no_digit_head rest.
Proof. intros [|c r] H; [exact I|]. cbn in *. tauto. Qed.

Lemma scalar_int' : forall b i rest, in_i64 i = true -> istop rest ->
  p_scalar b (print_int i ++ rest) = Some (TInt i, rest).
Proof.
  intros b i rest Hi Hs. unfold p_scalar.
  rewrite (int_roundtrip i rest Hi (istop_no_digit _ Hs)).
  destruct (print_int_shape i) as (c & r & E & Hc & Hr).
  assert (D : parse_date (print_int i ++ rest) = None).
  { destruct Hr as [[H1 H2]| ->].
    - apply parse_date_digits'; [| |exact Hs]; rewrite E; [|discriminate]. cbn [forallb]. now rewrite H1, H2.
    - rewrite E. cbn [app]. apply parse_date_nondigit. reflexivity. }
  rewrite D. rewrite E. cbn [app].
  assert (A : (cLBrace =? c) = false /\ (c =? cQuote) = false /\ (cDollar =? c) = false).
  { destruct Hc as [Hc| ->]; [destruct (digit_facts c Hc) as (?&?&?&?); auto|repeat split; reflexivity]. }
  destruct A as (A1 & A2 & A3).
  rewrite p_braced_other by exact A1. rewrite parse_string_other by exact A2.
  cbn [oor opt_map chr]. rewrite A3. destruct b; reflexivity.
Qed.

(* ------------------------------------------------------------------ well-formed terms *)
Definition ctx_is_term (c : tctx) : bool := match c with CTerm => true | _ => false end.
Definition ctx_is_set (c : tctx) : bool := match c with CSet => true | _ => false end.
Definition ctx_is_fact (c : tctx) : bool := match c with CFact => true | _ => false end.

Definition mkey_okb (k : mkey) : bool :=
  match k with MKInt i => in_i64 i | MKStr s => str_okb s | MKParam s => param_okb s end.

Fixpoint distinctb (l acc : list term) : bool :=
  match l with [] => true | x :: r => negb (set_mem x acc) && distinctb r (x :: acc) end.

Fixpoint key_mem (k : mkey) (l : list (mkey * term)) : bool :=
  match l with [] => false | (k', _) :: r => mkey_eqb k k' || key_mem k r end.
Fixpoint keys_distinctb (l acc : list (mkey * term)) : bool :=
  match l with
  | [] => true
  | (k, v) :: r => negb (key_mem k acc) && keys_distinctb r (acc ++ [(k, v)])
  end.

(* a one-element set whose element prints as an identifier is read back as a parameter *)
Definition singleton_ident (l : list term) : bool :=
  match l with [TBool _] | [TNull] | [TBytes _] => true | _ => false end.

Definition is_nil {A} (l : list A) : bool := match l with [] => true | _ => false end.

(* the terms each context of the grammar can produce (and the printer can express) *)
Fixpoint term_okb (c : tctx) (t : term) {struct t} : bool :=
  match t with
  | TVar s => ctx_is_term c && name_okb s
  | TInt i => in_i64 i
  | TStr s => str_okb s
  | TDate d => ((0 <=? d) && (d <? 253402300800))%Z
  | TBytes b => negb (is_nil b) && forallb (fun x => x <? 256) b
  | TBool _ => true
  | TParam s => param_okb s
  | TNull => true
  | TSet l => negb (ctx_is_set c) && forallb (term_okb CSet) l && kinds_ok l && distinctb l []
              && negb (singleton_ident l)
  | TArray l => negb (ctx_is_set c) && forallb (term_okb CFact) l
  | TMap l => negb (ctx_is_fact c && is_nil l)
              && forallb (fun kv => mkey_okb (fst kv) && term_okb CFact (snd kv)) l
              && keys_distinctb l []
  end.

Fixpoint tsize (t : term) : nat :=
  match t with
  | TSet l | TArray l => S (S (list_sum (map (fun e => S (tsize e)) l)))
  | TMap l => S (S (list_sum (map (fun kv => S (tsize (snd kv))) l)))
  | _ => 1%nat
  end.

Lemma term_ind2 (P : term -> Prop) :
  (forall s, P (TVar s)) -> (forall i, P (TInt i)) -> (forall s, P (TStr s)) ->
  (forall d, P (TDate d)) -> (forall b, P (TBytes b)) -> (forall b, P (TBool b)) ->
  (forall l, Forall P l -> P (TSet l)) -> (forall s, P (TParam s)) -> P TNull ->
  (forall l, Forall P l -> P (TArray l)) ->
  (forall l, Forall (fun kv => P (snd kv)) l -> P (TMap l)) ->
  forall t, P t.
Proof.
  intros Hv Hi Hs Hd Hb Hbo Hset Hp Hn Harr Hmap.
  fix IH 1. intro t. destruct t.
  - apply Hv. - apply Hi. - apply Hs. - apply Hd. - apply Hb. - apply Hbo.
  - apply Hset. induction l as [|x l IHl]; constructor; [apply IH|exact IHl].
  - apply Hp. - apply Hn.
  - apply Harr. induction l as [|x l IHl]; constructor; [apply IH|exact IHl].
  - apply Hmap. induction l as [|[k x] l IHl]; constructor; [apply IH|exact IHl].
Qed.

(* ------------------------------------------------------------------ set / map reconstruction *)
Lemma set_of_list_distinct : forall l acc, distinctb l acc = true -> set_of_list l acc = rev acc ++ l.
Proof.
  induction l as [|x l IH]; intros acc H; cbn [set_of_list distinctb] in *.
  - now rewrite app_nil_r.
  - apply andb_true_iff in H as [H1 H2]. apply negb_true_iff in H1. rewrite H1.
    rewrite (IH _ H2). cbn [rev]. now rewrite <- app_assoc.
Qed.

Lemma map_insert_fresh : forall k v acc, key_mem k acc = false -> map_insert k v acc = acc ++ [(k, v)].
Proof.
  induction acc as [|[k' v'] acc IH]; intro H; cbn [map_insert key_mem app] in *; [reflexivity|].
  apply orb_false_iff in H as [H1 H2]. rewrite H1. now rewrite IH.
Qed.

Lemma map_of_list_distinct : forall l acc, keys_distinctb l acc = true ->
  fold_left (fun a kv => map_insert (fst kv) (snd kv) a) l acc = acc ++ l.
Proof.
  induction l as [|[k v] l IH]; intros acc H; cbn [fold_left keys_distinctb] in *.
  - now rewrite app_nil_r.
  - apply andb_true_iff in H as [H1 H2]. apply negb_true_iff in H1. cbn [fst snd].
    rewrite (map_insert_fresh k v acc H1). rewrite (IH _ H2). now rewrite <- app_assoc.
Qed.

(* ------------------------------------------------------------------ heads of printed terms *)
Definition head_is (t : text) (p : N -> Prop) : Prop := exists c r, t = c :: r /\ p c.

Lemma print_head : forall c t, term_okb c t = true ->
  exists ch r, print_term esc t = ch :: r /\ is_ws ch = false.
Proof.
  intros c t H. destruct t; cbn [print_term].
  - eexists _, _; split; reflexivity.
  - destruct (print_int_shape i) as (ch & r & -> & [Hd| ->] & _).
    + eexists _, _; split; [reflexivity|]. now destruct (digit_facts ch Hd) as (_&_&_&?).
    + eexists _, _; split; reflexivity.
  - unfold print_string. eexists _, _; split; reflexivity.
  - cbn [term_okb] in H. apply andb_true_iff in H as [H1 H2].
    apply Z.leb_le in H1. apply Z.ltb_lt in H2.
    destruct (print_date_head d (conj H1 H2)) as (ch & r & -> & Hd).
    eexists _, _; split; [reflexivity|]. now destruct (digit_facts ch Hd) as (_&_&_&?).
  - eexists _, _; split; reflexivity.
  - destruct b; eexists _, _; split; reflexivity.
  - destruct l; eexists _, _; split; reflexivity.
  - eexists _, _; split; reflexivity.
  - eexists _, _; split; reflexivity.
  - eexists _, _; split; reflexivity.
  - eexists _, _; split; reflexivity.
Qed.

Lemma ws_nonws : forall c r, is_ws c = false -> ws (c :: r) = c :: r.
Proof. intros. cbn [ws]. now rewrite H. Qed.

Lemma join_cons : forall x l, join comma_sp (x :: l) = x ++ concat (map (fun e => comma_sp ++ e) l).
Proof.
  intros x l. revert x. induction l as [|y l IH]; intro x.
  - cbn [join map concat]. now rewrite app_nil_r.
  - change (join comma_sp (x :: y :: l)) with (x ++ comma_sp ++ join comma_sp (y :: l)).
    rewrite IH. cbn [map concat]. now rewrite <- app_assoc.
Qed.

(* ------------------------------------------------------------------ the first character of a printed term *)
Definition term_head (c : N) : bool :=
  negb (is_ws c || (c =? cComma) || (c =? cRBrace) || (c =? cRBrk) || (c =? cColon)).

Lemma digit_term_head : forall c, is_digit c = true -> term_head c = true.
Proof.
  intros c H. unfold is_digit in H. apply andb_true_iff in H as [H1 H2]. apply N.leb_le in H1, H2.
  unfold term_head, is_ws, cSp, cTab, cCR, cLF, cComma, cRBrace, cRBrk, cColon.
  apply negb_true_iff. repeat (apply orb_false_iff; split); apply N.eqb_neq; lia.
Qed.

Lemma print_head2 : forall c t, term_okb c t = true ->
  exists ch r, print_term esc t = ch :: r /\ term_head ch = true.
Proof.
  intros c t H. destruct t; cbn [print_term].
  - eexists _, _; split; reflexivity.
  - destruct (print_int_shape i) as (ch & r & -> & [Hd| ->] & _).
    + eexists _, _; split; [reflexivity|]. now apply digit_term_head.
    + eexists _, _; split; reflexivity.
  - unfold print_string. eexists _, _; split; reflexivity.
  - cbn [term_okb] in H. apply andb_true_iff in H as [H1 H2].
    apply Z.leb_le in H1. apply Z.ltb_lt in H2.
    destruct (print_date_head d (conj H1 H2)) as (ch & r & -> & Hd).
    eexists _, _; split; [reflexivity|]. now apply digit_term_head.
  - eexists _, _; split; reflexivity.
  - destruct b; eexists _, _; split; reflexivity.
  - destruct l; eexists _, _; split; reflexivity.
  - eexists _, _; split; reflexivity.
  - eexists _, _; split; reflexivity.
  - eexists _, _; split; reflexivity.
  - eexists _, _; split; reflexivity.
Qed.

Lemma term_head_ws : forall c r, term_head c = true -> ws (c :: r) = c :: r.
Proof.
  intros c r H. apply ws_nonws. unfold term_head in H. apply negb_true_iff in H.
  do 4 (apply orb_false_iff in H as [H ?]). exact H.
Qed.

Lemma term_head_ne : forall c, term_head c = true ->
  (cComma =? c) = false /\ (cRBrace =? c) = false /\ (cRBrk =? c) = false /\ (cColon =? c) = false.
Proof.
  intros c H. unfold term_head in H. apply negb_true_iff in H.
  do 4 (apply orb_false_iff in H as [H ?]). rewrite !(N.eqb_sym _ c). auto.
Qed.

(* leading whitespace before a term is skipped *)
Lemma t_term_ws : forall rec c x, t_term rec c (cSp :: x) = t_term rec c x.
Proof. intros. unfold t_term. reflexivity. Qed.

Lemma p_t_space : forall f c x, p_t f (TT c) (cSp :: x) = p_t f (TT c) x.
Proof. intros [|f] c x; [reflexivity|]. cbn [p_t t_step]. apply t_term_ws. Qed.

(* ------------------------------------------------------------------ closers *)
(* what follows the last element of a bracketed list: ']' or '}' *)
Definition closer (cl : N) : Prop := cl = cRBrk \/ cl = cRBrace.

Lemma closer_facts : forall cl rest, closer cl ->
  sep_comma (cl :: rest) = None /\ tstop (cl :: rest) /\ ws (cl :: rest) = cl :: rest.
Proof. intros cl rest [-> | ->]; repeat split; reflexivity. Qed.

Definition lsize (l : list term) : nat := list_sum (map (fun e => S (tsize e)) l).

Lemma lsize_cons : forall e l, lsize (e :: l) = (S (tsize e) + lsize l)%nat.
Proof. reflexivity. Qed.

(* what may follow each kind of term: a date token runs up to the next , space ) ] ; } ; an
   integer must not be followed by a digit or '-', a variable by a name character, bytes by a
   hex digit; everything else is self-delimiting *)
Definition vstop (t : term) (rest : text) : Prop :=
  match t with
  | TDate _ => tstop rest
  | TInt _ => istop rest
  | TVar _ => name_stop rest
  | TBytes _ => no_hex_head rest
  | _ => True
  end.

Lemma tstop_vstop : forall t rest, tstop rest -> vstop t rest.
Proof.
  intros t rest H. destruct t; cbn [vstop]; auto.
  - now apply tstop_no_name. - now apply tstop_istop. - now apply tstop_no_hex.
Qed.

Definition RT_ok (t : term) : Prop :=
  forall c rest f, term_okb c t = true -> vstop t rest -> (tsize t <= f)%nat ->
    p_t f (TT c) (print_term esc t ++ rest) = POk (RT t) rest.

Definition tail_text (l : list term) : text :=
  concat (map (fun e => comma_sp ++ print_term esc e) l).

Lemma tail_text_stop : forall l cl rest, closer cl -> tstop (tail_text l ++ cl :: rest).
Proof.
  intros [|e l] cl rest H.
  - cbn. destruct H as [-> | ->]; reflexivity.
  - reflexivity.
Qed.

(* the loop of separated_list over the remaining elements *)
Lemma list_loop : forall (c : tctx) (again : list term -> tnt),
  (c = CFact /\ again = TListF) \/ (c = CSet /\ again = TListS) ->
  forall l, Forall RT_ok l -> forallb (term_okb c) l = true ->
  forall acc cl rest g, closer cl -> (lsize l + 1 <= g)%nat ->
    p_t g (again acc) (tail_text l ++ cl :: rest) = POk (RL (rev acc ++ l)) (cl :: rest).
Proof.
  intros c again Hc l HF. induction HF as [|e l He HF IH]; intros Hok acc cl rest g Hcl Hg.
  - destruct g as [|g]; [cbn in Hg; lia|].
    destruct (closer_facts cl rest Hcl) as (S1 & _ & _).
    assert (E : t_list (p_t g) c again acc (cl :: rest) = POk (RL (rev acc)) (cl :: rest)).
    { unfold t_list. now rewrite S1. }
    rewrite app_nil_r. cbn [tail_text map concat app].
    destruct Hc as [[-> ->]|[-> ->]]; cbn [p_t t_step]; exact E.
  - cbn [forallb] in Hok. apply andb_true_iff in Hok as [Hoke Hokl].
    rewrite lsize_cons in Hg.
    destruct g as [|g]; [lia|].
    unfold tail_text. cbn [map concat]. fold (tail_text l).
    set (more := tail_text l ++ cl :: rest).
    assert (Hmore : tstop more) by (apply tail_text_stop; exact Hcl).
    assert (E : t_list (p_t g) c again acc ((comma_sp ++ print_term esc e) ++ more)
                = POk (RL (rev acc ++ e :: l)) (cl :: rest)).
    { unfold t_list. unfold comma_sp. cbn [app]. unfold sep_comma. cbn [ws is_ws].
      change (is_ws cComma) with false. cbv iota. cbn [chr]. rewrite N.eqb_refl.
      rewrite p_t_space. rewrite (He c more g Hoke (tstop_vstop _ _ Hmore) ltac:(lia)). cbn [as_term].
      unfold more. rewrite (IH Hokl (e :: acc) cl rest g Hcl ltac:(lia)). cbn [rev]. now rewrite <- app_assoc. }
    rewrite <- app_assoc in E. rewrite <- app_assoc.
    destruct Hc as [[-> ->]|[-> ->]]; cbn [p_t t_step]; exact E.
Qed.

(* ------------------------------------------------------------------ map keys *)
Lemma mkey_roundtrip : forall k x, mkey_okb k = true ->
  p_mkey (print_mkey esc k ++ cColon :: x) = Some (k, cColon :: x).
Proof.
  intros k x H. unfold p_mkey. destruct k as [i|s|s]; cbn [print_mkey mkey_okb] in *.
  - destruct (print_int_shape i) as (ch & r & E & Hc & _).
    assert (W : ws (print_int i ++ cColon :: x) = print_int i ++ cColon :: x).
    { rewrite E. cbn [app]. apply ws_nonws. destruct Hc as [Hc| ->]; [|reflexivity].
      now destruct (digit_facts ch Hc) as (_&_&_&?). }
    rewrite W. rewrite (int_roundtrip i (cColon :: x) H) by reflexivity.
    rewrite E. cbn [app].
    assert (A : (cLBrace =? ch) = false /\ (ch =? cQuote) = false).
    { destruct Hc as [Hc| ->]; [destruct (digit_facts ch Hc) as (?&?&?&?); auto|split; reflexivity]. }
    destruct A as [A1 A2]. rewrite p_braced_other by exact A1.
    rewrite parse_string_other by exact A2. reflexivity.
  - assert (W : ws (print_string esc s ++ cColon :: x) = print_string esc s ++ cColon :: x) by reflexivity.
    rewrite W. rewrite string_roundtrip_gen by exact H. destruct (print_string_head s) as [r0 ->]. cbn [app].
    rewrite p_braced_other by reflexivity. reflexivity.
  - cbn [app ws is_ws]. change (is_ws cLBrace) with false. cbv iota.
    rewrite <- app_assoc. cbn [app]. rewrite p_braced_param by exact H. reflexivity.
Qed.

Definition entry_text (kv : mkey * term) : text :=
  print_mkey esc (fst kv) ++ [cColon; cSp] ++ print_term esc (snd kv).

Definition mtail_text (l : list (mkey * term)) : text :=
  concat (map (fun kv => comma_sp ++ entry_text kv) l).

Definition msize (l : list (mkey * term)) : nat := list_sum (map (fun kv => S (tsize (snd kv))) l).

Lemma msize_cons : forall k v l, msize ((k, v) :: l) = (S (tsize v) + msize l)%nat.
Proof. reflexivity. Qed.

Lemma mtail_text_stop : forall l rest, tstop (mtail_text l ++ cRBrace :: rest).
Proof. intros [|e l] rest; reflexivity. Qed.

Lemma mkey_head : forall k, mkey_okb k = true ->
  exists ch r, print_mkey esc k = ch :: r /\ term_head ch = true /\ is_name_start ch = false.
Proof.
  intros [i|s|s] H; cbn [print_mkey].
  - destruct (print_int_shape i) as (ch & r & -> & [Hd| ->] & _).
    + eexists _, _; split; [reflexivity|]. split; [now apply digit_term_head|].
      unfold is_digit in Hd. apply andb_true_iff in Hd as [H1 H2]. apply N.leb_le in H1, H2.
      unfold is_name_start, is_alpha, low8. rewrite N.mod_small by lia.
      apply orb_false_iff; split; apply andb_false_iff; [left|left]; apply N.leb_gt; lia.
    + eexists _, _; split; [reflexivity|split; reflexivity].
  - unfold print_string. eexists _, _; split; [reflexivity|split; reflexivity].
  - eexists _, _; split; [reflexivity|split; reflexivity].
Qed.

Lemma map_loop : forall l, Forall (fun kv => RT_ok (snd kv)) l ->
  forallb (fun kv => mkey_okb (fst kv) && term_okb CFact (snd kv)) l = true ->
  forall acc rest g, (msize l + 1 <= g)%nat ->
    p_t g (TMapL acc) (mtail_text l ++ cRBrace :: rest) = POk (RM (rev acc ++ l)) (cRBrace :: rest).
Proof.
  intros l HF. induction HF as [|[k v] l He HF IH]; intros Hok acc rest g Hg.
  - destruct g as [|g]; [cbn in Hg; lia|]. cbn [mtail_text map concat app p_t t_step].
    unfold t_mapl. rewrite app_nil_r. reflexivity.
  - cbn [forallb fst snd] in Hok. apply andb_true_iff in Hok as [Hoke Hokl].
    apply andb_true_iff in Hoke as [Hk Hv]. cbn [snd] in He.
    rewrite msize_cons in Hg.
    destruct g as [|g]; [lia|].
    unfold mtail_text. cbn [map concat]. fold (mtail_text l).
    set (more := mtail_text l ++ cRBrace :: rest).
    assert (Hmore : tstop more) by apply mtail_text_stop.
    cbn [p_t t_step]. unfold t_mapl, entry_text. cbn [fst snd].
    rewrite <- !app_assoc. unfold comma_sp at 1. cbn [app]. unfold sep_comma. cbn [ws is_ws].
    change (is_ws cComma) with false. cbv iota. cbn [chr]. rewrite N.eqb_refl.
    destruct (mkey_head k Hk) as (ch & r & Ek & Hh & _).
    assert (P : p_mkey (cSp :: print_mkey esc k ++ cColon :: cSp :: print_term esc v ++ more)
                = Some (k, cColon :: cSp :: print_term esc v ++ more)).
    { rewrite <- (mkey_roundtrip k (cSp :: print_term esc v ++ more) Hk). unfold p_mkey. reflexivity. }
    unfold more in P. rewrite P. cbn [ws is_ws]. change (is_ws cColon) with false. cbv iota. cbn [chr]. rewrite N.eqb_refl.
    rewrite p_t_space. fold more. rewrite (He CFact more g Hv (tstop_vstop _ _ Hmore) ltac:(lia)). cbn [as_term].
    unfold more. rewrite (IH Hokl ((k, v) :: acc) rest g ltac:(lia)). cbn [rev]. now rewrite <- app_assoc.
Qed.

(* ------------------------------------------------------------------ alternatives that do not apply *)
Lemma t_array_other : forall rec c x, is_ws c = false -> (cLBrk =? c) = false ->
  t_array rec (c :: x) = PErr.
Proof. intros. unfold t_array. rewrite ws_nonws by assumption. cbn [chr]. now rewrite H0. Qed.

Lemma t_map_other : forall rec c x, is_ws c = false -> (cLBrace =? c) = false ->
  t_map rec (c :: x) = PErr.
Proof. intros. unfold t_map. rewrite ws_nonws by assumption. cbn [chr]. now rewrite H0. Qed.

Lemma t_set_other : forall rec c x, is_ws c = false -> (cLBrace =? c) = false ->
  t_set rec (c :: x) = PErr.
Proof.
  intros. unfold t_set. cbn [tag str]. change (N_of_ascii "{") with cLBrace. rewrite H0.
  rewrite ws_nonws by assumption. cbn [chr]. now rewrite H0.
Qed.

(* no term starts with a closing bracket or brace *)
Lemma term_on_closer : forall g c cl x, closer cl -> p_t (S g) (TT c) (cl :: x) = PErr.
Proof.
  intros g c cl x Hcl. cbn [p_t t_step]. unfold t_term.
  assert (W : ws (cl :: x) = cl :: x) by (destruct Hcl as [-> | ->]; reflexivity).
  rewrite W.
  assert (S0 : forall b, p_scalar b (cl :: x) = None).
  { intro b. unfold p_scalar.
    rewrite p_braced_other by (destruct Hcl as [-> | ->]; reflexivity).
    rewrite parse_string_other by (destruct Hcl as [-> | ->]; reflexivity).
    rewrite parse_date_nondigit by (destruct Hcl as [-> | ->]; reflexivity).
    destruct Hcl as [-> | ->]; destruct b; reflexivity. }
  rewrite S0.
  assert (A : t_array (p_t g) (cl :: x) = PErr) by (destruct Hcl as [-> | ->]; apply t_array_other; reflexivity).
  assert (M : t_map (p_t g) (cl :: x) = PErr) by (destruct Hcl as [-> | ->]; apply t_map_other; reflexivity).
  assert (S1 : t_set (p_t g) (cl :: x) = PErr) by (destruct Hcl as [-> | ->]; apply t_set_other; reflexivity).
  destruct c; unfold por; rewrite ?A, ?M, ?S1; reflexivity.
Qed.

(* '{' followed by something that is not <parameter name> '}' *)
Lemma braced_none_head : forall ch x, is_name_start ch = false ->
  p_braced p_param_name (cLBrace :: ch :: x) = None.
Proof. intros. unfold p_braced. cbn [chr]. rewrite N.eqb_refl. cbn [p_param_name]. now rewrite H. Qed.

Lemma braced_none_comma : forall s x, forallb is_name_char s = true ->
  p_braced p_param_name (cLBrace :: s ++ cComma :: x) = None.
Proof.
  intros s x H. unfold p_braced. cbn [chr]. rewrite N.eqb_refl.
  destruct s as [|c r]; [reflexivity|]. cbn [app p_param_name].
  destruct (is_name_start c); [|reflexivity].
  cbn [forallb] in H. apply andb_true_iff in H as [_ H].
  rewrite (span_app_stop is_name_char r (cComma :: x) H) by reflexivity. reflexivity.
Qed.

Lemma hexdigit_name : forall n, n < 16 -> is_name_char (hexdigit n) = true.
Proof.
  intros n Hn.
  assert (H : n = 0 \/ n = 1 \/ n = 2 \/ n = 3 \/ n = 4 \/ n = 5 \/ n = 6 \/ n = 7 \/ n = 8 \/ n = 9
              \/ n = 10 \/ n = 11 \/ n = 12 \/ n = 13 \/ n = 14 \/ n = 15) by lia.
  repeat (destruct H as [-> | H]; [reflexivity|]). subst; reflexivity.
Qed.

Lemma print_hex_name : forall b, forallb (fun x => x <? 256) b = true ->
  forallb is_name_char (print_hex b) = true.
Proof.
  induction b as [|x b IH]; intro H; [reflexivity|]. cbn [forallb print_hex] in *.
  apply andb_true_iff in H as [Hx H]. apply N.ltb_lt in Hx.
  rewrite !hexdigit_name; [now rewrite IH| apply N.mod_lt; lia | apply N.div_lt_upper_bound; lia].
Qed.

(* a non-empty, well-formed set text does not start like a parameter *)
Lemma set_not_param : forall l rest, forallb (term_okb CSet) l = true -> singleton_ident l = false ->
  l <> [] ->
  p_braced p_param_name (cLBrace :: join comma_sp (map (print_term esc) l) ++ cRBrace :: rest) = None.
Proof.
  intros l rest Hok Hs Hne. destruct l as [|e l]; [congruence|].
  cbn [map]. rewrite join_cons. cbn [forallb] in Hok. apply andb_true_iff in Hok as [He Hl].
  destruct e; cbn [term_okb ctx_is_term andb] in He; try discriminate.
  - (* int *) cbn [print_term]. destruct (print_int_shape i) as (ch & r & -> & [Hd| ->] & _);
      cbn [app]; apply braced_none_head; [|reflexivity].
    unfold is_digit in Hd. apply andb_true_iff in Hd as [H1 H2]. apply N.leb_le in H1, H2.
    unfold is_name_start, is_alpha, low8. rewrite N.mod_small by lia.
    apply orb_false_iff; split; apply andb_false_iff; left; apply N.leb_gt; lia.
  - (* str *) cbn [print_term]. unfold print_string. cbn [app]. now apply braced_none_head.
  - (* date *) cbn [print_term]. apply andb_true_iff in He as [H1 H2].
    apply Z.leb_le in H1. apply Z.ltb_lt in H2.
    destruct (print_date_head d (conj H1 H2)) as (ch & r & -> & Hd). cbn [app]. apply braced_none_head.
    unfold is_digit in Hd. apply andb_true_iff in Hd as [H3 H4]. apply N.leb_le in H3, H4.
    unfold is_name_start, is_alpha, low8. rewrite N.mod_small by lia.
    apply orb_false_iff; split; apply andb_false_iff; left; apply N.leb_gt; lia.
  - (* bytes: needs a second element *)
    destruct l as [|e2 l]; [discriminate|]. cbn [print_term map concat].
    apply andb_true_iff in He as [_ Hb].
    unfold comma_sp at 1. rewrite <- !app_assoc. cbn [app].
    rewrite (app_assoc (str "hex:") (print_hex b)).
    apply braced_none_comma. rewrite forallb_app. rewrite print_hex_name by exact Hb. reflexivity.
  - (* bool *)
    destruct l as [|e2 l]; [discriminate|]. cbn [print_term map concat].
    unfold comma_sp at 1. rewrite <- !app_assoc. cbn [app].
    destruct b.
    + apply (braced_none_comma (str "true")). reflexivity.
    + apply (braced_none_comma (str "false")). reflexivity.
  - (* param *) cbn [print_term app]. now apply braced_none_head.
  - (* null *)
    destruct l as [|e2 l]; [discriminate|]. cbn [print_term map concat].
    unfold comma_sp at 1. rewrite <- !app_assoc. cbn [app].
    apply (braced_none_comma (str "null")). reflexivity.
  - (* map *) cbn [print_term app]. now apply braced_none_head.
Qed.

Lemma parse_integer_other : forall c x, is_digit c = false -> (c =? cMinus) = false ->
  parse_integer (c :: x) = None.
Proof. intros c x H1 H2. unfold parse_integer. rewrite H2. cbn [span]. now rewrite H1. Qed.

Lemma print_date_form : forall d, (0 <= d < 253402300800)%Z ->
  exists y tail, (0 <= y <= 9999)%Z /\ print_date d = pad4 y ++ cMinus :: tail.
Proof.
  intros d Hd. unfold print_date.
  destruct (d <? 9223372036854775808)%Z eqn:E1; [|apply Z.ltb_ge in E1; lia].
  assert (E2 : ((d <? date_min)%Z || (date_max <? d)%Z)%bool = false).
  { unfold date_min, date_max. apply orb_false_iff. split; apply Z.ltb_ge; lia. }
  rewrite E2.
  assert (Hdays : (0 <= d / 86400 < 2932897)%Z).
  { split; [apply Z.div_pos; lia|apply Z.div_lt_upper_bound; lia]. }
  pose proof (civil_year_range (d / 86400) Hdays) as Y.
  destruct (civil_from_days (d / 86400)) as [[y m] dd].
  exists y. eexists. split; [exact Y|]. cbn [app]. reflexivity.
Qed.

Lemma parse_integer_pad4 : forall y x, (0 <= y <= 9999)%Z ->
  parse_integer (pad4 y ++ cMinus :: x) = Some (y, cMinus :: x).
Proof.
  intros y x Hy. unfold parse_integer.
  assert (D : forallb is_digit (pad4 y) = true).
  { unfold pad4. cbn [forallb]. now rewrite !dig_digit. }
  unfold pad4 at 1. cbn [app]. rewrite (proj2 (N.eqb_neq _ _)).
  2:{ pose proof (dig_digit (y / 1000)) as H. unfold is_digit in H. apply andb_true_iff in H as [H _].
      apply N.leb_le in H. unfold cMinus. lia. }
  change (dig (y / 1000) :: dig (y / 100) :: dig (y / 10) :: dig y :: cMinus :: x)
    with (pad4 y ++ cMinus :: x).
  rewrite (span_app_stop is_digit (pad4 y) (cMinus :: x) D) by reflexivity.
  unfold pad4 at 1. fold (pad4 y). rewrite pad4_val by lia.
  assert (I : in_i64 y = true).
  { unfold in_i64. apply andb_true_iff; split; apply Z.leb_le; lia. }
  now rewrite I.
Qed.

Definition sep_or_close (more : text) : Prop :=
  exists x, more = cComma :: x \/ more = cRBrace :: x.

Lemma sep_or_close_facts : forall more, sep_or_close more ->
  ws more = more /\ chr cColon more = None /\ no_digit_head more /\ tstop more.
Proof. intros more [x [-> | ->]]; repeat split; reflexivity. Qed.

(* in `term`, the map alternative is tried before the set: on a set it gives up *)
Lemma t_map_on_set : forall rec e more, term_okb CSet e = true -> sep_or_close more ->
  t_map rec (cLBrace :: print_term esc e ++ more) = PErr.
Proof.
  intros rec e more He Hm. destruct (sep_or_close_facts more Hm) as (W & C & ND & TS).
  unfold t_map. rewrite ws_nonws by reflexivity. cbn [chr]. rewrite N.eqb_refl.
  destruct (print_head2 CSet e He) as (ch & r & Eh & Hh).
  destruct (term_head_ne ch Hh) as (_ & Hb & _ & _).
  assert (Fin : forall l0, pbind (POk l0 (print_term esc e ++ more))
                  (fun (l : list (mkey * term)) i5 =>
                     match chr cRBrace (ws i5) with
                     | Some i6 => POk (RT (TMap (map_of_list l))) i6
                     | None => PErr
                     end) = PErr).
  { intro l0. cbn [pbind]. rewrite Eh. cbn [app]. rewrite (term_head_ws ch _ Hh). cbn [chr]. now rewrite Hb. }
  assert (K : forall k, p_mkey (print_term esc e ++ more) = Some (k, more) ->
              match p_mkey (print_term esc e ++ more) with
              | Some (key, i2) =>
                  match chr cColon (ws i2) with
                  | Some i3 =>
                      match as_term (rec (TT CFact) i3) with
                      | POk t i4 => as_map (rec (TMapL [(key, t)]) i4)
                      | PErr => POk [] (print_term esc e ++ more)
                      | PFail => PFail
                      | PFuel => PFuel
                      end
                  | None => POk [] (print_term esc e ++ more)
                  end
              | None => POk [] (print_term esc e ++ more)
              end = POk [] (print_term esc e ++ more)).
  { intros k Hk. rewrite Hk, W, C. reflexivity. }
  assert (Nn : p_mkey (print_term esc e ++ more) = None ->
              match p_mkey (print_term esc e ++ more) with
              | Some (key, i2) =>
                  match chr cColon (ws i2) with
                  | Some i3 =>
                      match as_term (rec (TT CFact) i3) with
                      | POk t i4 => as_map (rec (TMapL [(key, t)]) i4)
                      | PErr => POk [] (print_term esc e ++ more)
                      | PFail => PFail
                      | PFuel => PFuel
                      end
                  | None => POk [] (print_term esc e ++ more)
                  end
              | None => POk [] (print_term esc e ++ more)
              end = POk [] (print_term esc e ++ more)).
  { intros Hk. now rewrite Hk. }
  assert (Wt : ws (print_term esc e ++ more) = print_term esc e ++ more).
  { rewrite Eh. cbn [app]. apply (term_head_ws ch _ Hh). }
  destruct e; cbn [term_okb ctx_is_term ctx_is_set negb andb] in He; try discriminate.
  - (* int *) rewrite (K (MKInt i)); [apply Fin|].
    unfold p_mkey. rewrite Wt. cbn [print_term] in *.
    rewrite (int_roundtrip i more He ND). rewrite Eh. cbn [app].
    destruct (print_int_shape i) as (c2 & r2 & E2 & Hc & _). rewrite Eh in E2. inversion E2; subst c2 r2.
    assert (A : (cLBrace =? ch) = false /\ (ch =? cQuote) = false).
    { destruct Hc as [Hc| ->]; [destruct (digit_facts ch Hc) as (?&?&?&?); auto|split; reflexivity]. }
    destruct A as [A1 A2]. rewrite p_braced_other by exact A1. rewrite parse_string_other by exact A2.
    reflexivity.
  - (* str *) rewrite (K (MKStr s)); [apply Fin|].
    unfold p_mkey. rewrite Wt. cbn [print_term]. rewrite string_roundtrip_gen by exact He.
    destruct (print_string_head s) as [r0 ->]. cbn [app]. rewrite p_braced_other by reflexivity. reflexivity.
  - (* date *)
    apply andb_true_iff in He as [H1 H2]. apply Z.leb_le in H1. apply Z.ltb_lt in H2.
    destruct (print_date_form d (conj H1 H2)) as (y & tail & Hy & Ed).
    cbn [print_term] in *. rewrite Ed in *. rewrite <- app_assoc. cbn [app].
    assert (P : p_mkey (pad4 y ++ cMinus :: tail ++ more) = Some (MKInt y, cMinus :: tail ++ more)).
    { unfold p_mkey. rewrite <- app_assoc in Wt. cbn [app] in Wt. rewrite Wt.
      rewrite parse_integer_pad4 by exact Hy. unfold pad4. cbn [app].
      pose proof (dig_digit (y / 1000)) as Hd. destruct (digit_facts _ Hd) as (A1 & A2 & _).
      rewrite p_braced_other by exact A1. rewrite parse_string_other by exact A2. reflexivity. }
    rewrite P. cbn [ws is_ws chr]. change (is_ws cMinus) with false. cbv iota. cbn [chr].
    change (cColon =? cMinus) with false. cbv iota.
    rewrite <- app_assoc in Fin. cbn [app] in Fin. apply Fin.
  - (* bytes *) rewrite Nn; [apply Fin|]. unfold p_mkey. rewrite Wt. cbn [print_term].
    change (str "hex:" ++ print_hex b) with (104 :: (str "ex:" ++ print_hex b)). cbn [app].
    rewrite p_braced_other by reflexivity. rewrite parse_string_other by reflexivity.
    rewrite parse_integer_other by reflexivity. reflexivity.
  - (* bool *) rewrite Nn; [apply Fin|]. unfold p_mkey. rewrite Wt. cbn [print_term].
    destruct b.
    + change (str "true") with (116 :: str "rue"). cbn [app].
      rewrite p_braced_other by reflexivity. rewrite parse_string_other by reflexivity.
      rewrite parse_integer_other by reflexivity. reflexivity.
    + change (str "false") with (102 :: str "alse"). cbn [app].
      rewrite p_braced_other by reflexivity. rewrite parse_string_other by reflexivity.
      rewrite parse_integer_other by reflexivity. reflexivity.
  - (* param *) rewrite (K (MKParam s)); [apply Fin|].
    unfold p_mkey. rewrite Wt. cbn [print_term app]. rewrite <- app_assoc. cbn [app].
    rewrite p_braced_param by exact He. reflexivity.
  - (* null *) rewrite Nn; [apply Fin|]. unfold p_mkey. rewrite Wt. cbn [print_term].
    change (str "null") with (110 :: str "ull"). cbn [app].
    rewrite p_braced_other by reflexivity. rewrite parse_string_other by reflexivity.
    rewrite parse_integer_other by reflexivity. reflexivity.
  - (* map *) rewrite Nn; [apply Fin|]. unfold p_mkey. rewrite Wt.
    assert (B : p_braced p_param_name (print_term esc (TMap l) ++ more) = None).
    { cbn [print_term app]. destruct l as [|[k v] l].
      - cbn [map join app]. now apply braced_none_head.
      - apply andb_true_iff in He as [He _]. apply andb_true_iff in He as [_ He].
        cbn [forallb fst] in He.
        apply andb_true_iff in He as [He _]. apply andb_true_iff in He as [Hk _].
        destruct (mkey_head k Hk) as (c2 & r2 & Ek & _ & Hns).
        cbn [map fst snd]. rewrite join_cons. rewrite Ek. cbn [app]. now apply braced_none_head. }
    rewrite B.
    assert (E0 : exists x, print_term esc (TMap l) ++ more = cLBrace :: x) by (cbn [print_term app]; eauto).
    destruct E0 as [x ->].
    rewrite parse_string_other by reflexivity. rewrite parse_integer_other by reflexivity.
reflexivity.
Qed.

Definition term_of_key (k : mkey) : term :=
  match k with MKInt i => TInt i | MKStr s => TStr s | MKParam s => TParam s end.

Lemma scalar_key : forall k x, mkey_okb k = true ->
  p_scalar false (print_mkey esc k ++ cColon :: x) = Some (term_of_key k, cColon :: x).
Proof.
  intros [i|s|s] x H; cbn [print_mkey term_of_key mkey_okb] in *.
  - apply scalar_int'; [exact H|]. split; reflexivity.
  - apply scalar_str. exact H.
  - cbn [app]. rewrite <- app_assoc. cbn [app]. now apply scalar_param.
Qed.

(* in `term_in_fact`, the set alternative is tried before the map: on a non-empty map it
   reads the first key as an element and gives up at the ':' (no Failure) *)
Lemma t_set_on_map : forall g k x, mkey_okb k = true ->
  t_set (p_t (S g)) (cLBrace :: print_mkey esc k ++ cColon :: x) = PErr.
Proof.
  intros g k x Hk. destruct (mkey_head k Hk) as (ch & r & Ek & Hh & _).
  destruct (term_head_ne ch Hh) as (Hc & _ & _ & _).
  unfold t_set. rewrite Ek. cbn [tag str app]. change (N_of_ascii "{") with cLBrace.
  change (N_of_ascii ",") with cComma. rewrite N.eqb_refl. rewrite Hc.
  rewrite ws_nonws by reflexivity. cbn [chr]. rewrite N.eqb_refl.
  change (ch :: r ++ cColon :: x) with ((ch :: r) ++ cColon :: x). rewrite <- Ek.
  cbn [p_t t_step]. unfold t_term at 1.
  assert (W : ws (print_mkey esc k ++ cColon :: x) = print_mkey esc k ++ cColon :: x).
  { rewrite Ek. cbn [app]. apply (term_head_ws ch _ Hh). }
  rewrite W. rewrite (scalar_key k x Hk). cbn [as_term].
  unfold t_list. unfold sep_comma. rewrite ws_nonws by reflexivity. cbn [chr].
  change (cComma =? cColon) with false. cbv iota. cbn [as_list pbind rev app].
  assert (KO : kinds_ok [term_of_key k] = true) by (destruct k; reflexivity).
  rewrite KO. rewrite ws_nonws by reflexivity. cbn [chr]. reflexivity.
Qed.

(* ------------------------------------------------------------------ the collection alternatives succeed *)
Lemma tail_text_eq : forall l,
  concat (map (fun e => comma_sp ++ e) (map (print_term esc) l)) = tail_text l.
Proof. intro l. unfold tail_text. now rewrite map_map. Qed.

Lemma t_set_ok : forall f e l rest, RT_ok e -> Forall RT_ok l ->
  forallb (term_okb CSet) (e :: l) = true -> kinds_ok (e :: l) = true -> distinctb (e :: l) [] = true ->
  (lsize (e :: l) + 1 <= f)%nat ->
  t_set (p_t f) (cLBrace :: print_term esc e ++ tail_text l ++ cRBrace :: rest)
  = POk (RT (TSet (e :: l))) rest.
Proof.
  intros f e l rest He Hl Hok Hk Hd Hf. rewrite lsize_cons in Hf.
  cbn [forallb] in Hok. apply andb_true_iff in Hok as [Hoke Hokl].
  destruct (print_head2 CSet e Hoke) as (ch & r & Eh & Hh).
  destruct (term_head_ne ch Hh) as (Hc & _ & _ & _).
  unfold t_set. rewrite Eh. cbn [tag str app]. change (N_of_ascii "{") with cLBrace.
  change (N_of_ascii ",") with cComma. rewrite N.eqb_refl. rewrite Hc.
  rewrite ws_nonws by reflexivity. cbn [chr]. rewrite N.eqb_refl.
  change (ch :: r ++ tail_text l ++ cRBrace :: rest) with ((ch :: r) ++ tail_text l ++ cRBrace :: rest).
  rewrite <- Eh.
  rewrite (He CSet (tail_text l ++ cRBrace :: rest) f Hoke
             (tstop_vstop _ _ (tail_text_stop l cRBrace rest (or_intror eq_refl))) ltac:(lia)).
  cbn [as_term].
  rewrite (list_loop CSet TListS (or_intror (conj eq_refl eq_refl)) l Hl Hokl [e] cRBrace rest f
             (or_intror eq_refl) ltac:(lia)).
  cbn [as_list pbind rev app]. rewrite Hk. rewrite ws_nonws by reflexivity. cbn [chr]. rewrite N.eqb_refl.
  rewrite (set_of_list_distinct _ _ Hd). reflexivity.
Qed.

Lemma t_array_ok : forall f l rest, Forall RT_ok l -> forallb (term_okb CFact) l = true ->
  (lsize l + 1 <= f)%nat ->
  t_array (p_t f) (cLBrk :: join comma_sp (map (print_term esc) l) ++ cRBrk :: rest)
  = POk (RT (TArray l)) rest.
Proof.
  intros f l rest Hl Hok Hf. unfold t_array. rewrite ws_nonws by reflexivity. cbn [chr]. rewrite N.eqb_refl.
  destruct l as [|e l].
  - cbn [map join app]. destruct f as [|f]; [cbn in Hf; lia|].
    rewrite (term_on_closer f CFact cRBrk rest (or_introl eq_refl)). cbn [as_term pbind].
    rewrite ws_nonws by reflexivity. cbn [chr]. now rewrite N.eqb_refl.
  - inversion Hl as [|? ? He Hl']; subst. rewrite lsize_cons in Hf.
    cbn [forallb] in Hok. apply andb_true_iff in Hok as [Hoke Hokl].
    cbn [map]. rewrite join_cons, tail_text_eq. rewrite <- app_assoc.
    rewrite (He CFact (tail_text l ++ cRBrk :: rest) f Hoke
               (tstop_vstop _ _ (tail_text_stop l cRBrk rest (or_introl eq_refl))) ltac:(lia)).
    cbn [as_term].
    rewrite (list_loop CFact TListF (or_introl (conj eq_refl eq_refl)) l Hl' Hokl [e] cRBrk rest f
               (or_introl eq_refl) ltac:(lia)).
    cbn [as_list pbind rev app]. rewrite ws_nonws by reflexivity. cbn [chr]. now rewrite N.eqb_refl.
Qed.

Lemma mtail_text_eq : forall l,
  concat (map (fun e => comma_sp ++ e)
              (map (fun kv => print_mkey esc (fst kv) ++ [cColon; cSp] ++ print_term esc (snd kv)) l))
  = mtail_text l.
Proof. intro l. unfold mtail_text, entry_text. now rewrite map_map. Qed.

Lemma t_map_ok : forall f l rest, Forall (fun kv => RT_ok (snd kv)) l ->
  forallb (fun kv => mkey_okb (fst kv) && term_okb CFact (snd kv)) l = true ->
  keys_distinctb l [] = true -> (msize l + 1 <= f)%nat ->
  t_map (p_t f)
    (cLBrace :: join comma_sp (map (fun kv => print_mkey esc (fst kv) ++ [cColon; cSp] ++
                                              print_term esc (snd kv)) l) ++ cRBrace :: rest)
  = POk (RT (TMap l)) rest.
Proof.
  intros f l rest Hl Hok Hd Hf. unfold t_map. rewrite ws_nonws by reflexivity. cbn [chr]. rewrite N.eqb_refl.
  destruct l as [|[k v] l].
  - cbn [map join app]. unfold p_mkey. rewrite ws_nonws by reflexivity.
    rewrite p_braced_other by reflexivity. rewrite parse_string_other by reflexivity.
    rewrite parse_integer_other by reflexivity. cbn [oor opt_map pbind].
    rewrite ws_nonws by reflexivity. cbn [chr]. now rewrite N.eqb_refl.
  - inversion Hl as [|? ? He Hl']; subst. cbn [snd] in He. rewrite msize_cons in Hf.
    cbn [forallb fst snd] in Hok. apply andb_true_iff in Hok as [Hoke Hokl].
    apply andb_true_iff in Hoke as [Hk Hv].
    cbn [map fst snd]. rewrite join_cons, mtail_text_eq. rewrite <- !app_assoc. cbn [app].
    rewrite (mkey_roundtrip k _ Hk). rewrite ws_nonws by reflexivity. cbn [chr]. rewrite N.eqb_refl.
    rewrite p_t_space.
    rewrite (He CFact (mtail_text l ++ cRBrace :: rest) f Hv (tstop_vstop _ _ (mtail_text_stop l rest)) ltac:(lia)).
    cbn [as_term].
    rewrite (map_loop l Hl' Hokl [(k, v)] rest f ltac:(lia)).
    cbn [as_map pbind rev app]. rewrite ws_nonws by reflexivity. cbn [chr]. rewrite N.eqb_refl.
    unfold map_of_list. rewrite (map_of_list_distinct _ _ Hd). reflexivity.
Qed.

(* ------------------------------------------------------------------ the theorem *)
Lemma scalar_done : forall f c t P rest, (1 <= f)%nat ->
  (exists ch r, P = ch :: r /\ is_ws ch = false) ->
  p_scalar (match c with CTerm => true | _ => false end) (P ++ rest) = Some (t, rest) ->
  p_t f (TT c) (P ++ rest) = POk (RT t) rest.
Proof.
  intros f c t P rest Hf (ch & r & -> & Hw) H. destruct f as [|f]; [lia|].
  cbn [p_t t_step]. unfold t_term. cbn [app] in *. rewrite ws_nonws by exact Hw. now rewrite H.
Qed.

Lemma tsize_pos : forall t, (1 <= tsize t)%nat.
Proof. destruct t; cbn [tsize]; lia. Qed.

Lemma sep_or_close_tail : forall l rest, sep_or_close (tail_text l ++ cRBrace :: rest).
Proof. intros [|e l] rest; eexists; [right|left]; reflexivity. Qed.

Theorem term_roundtrip : forall t, RT_ok t.
Proof.
  induction t using term_ind2; unfold RT_ok; intros c rest f Hok Hs Hf.
  - (* var *) cbn [term_okb] in Hok. apply andb_true_iff in Hok as [Hc Hn].
    destruct c; try discriminate. cbn [print_term].
    apply scalar_done; [pose proof (tsize_pos (TVar s)); lia|eexists _, _; split; reflexivity|].
    cbn [app]. now apply scalar_var.
  - (* int *) cbn [term_okb print_term] in *.
    apply scalar_done; [cbn in Hf; lia| |apply scalar_int'; assumption].
    destruct (print_head c (TInt i) Hok) as (ch & r & E & Hw). cbn [print_term] in E. eauto.
  - (* str *) cbn [print_term term_okb] in *.
    apply scalar_done; [cbn in Hf; lia|unfold print_string; eexists _, _; split; reflexivity|now apply scalar_str].
  - (* date *) pose proof Hok as Hok'. cbn [term_okb] in Hok. apply andb_true_iff in Hok as [H1 H2].
    apply Z.leb_le in H1. apply Z.ltb_lt in H2. cbn [print_term].
    apply scalar_done; [cbn in Hf; lia| |apply scalar_date; [lia|assumption]].
    destruct (print_head c (TDate d) Hok') as (ch & r & E & Hw). cbn [print_term] in E. eauto.
  - (* bytes *) cbn [term_okb] in Hok. apply andb_true_iff in Hok as [H1 H2]. cbn [print_term].
    rewrite <- app_assoc.
    assert (Hb : Forall (fun x => x < 256) b).
    { apply Forall_forall. intros x Hx. rewrite forallb_forall in H2. apply N.ltb_lt. now apply H2. }
    assert (Hne : b <> []) by (destruct b; [discriminate|congruence]).
    destruct f as [|f]; [cbn in Hf; lia|]. cbn [p_t t_step]. unfold t_term.
    change (ws (str "hex:" ++ print_hex b ++ rest)) with (str "hex:" ++ print_hex b ++ rest).
    now rewrite (scalar_bytes _ b rest Hb Hne Hs).
  - (* bool *) cbn [print_term].
    apply scalar_done; [cbn in Hf; lia|destruct b; eexists _, _; split; reflexivity|apply scalar_bool].
  - (* set *)
    cbn [term_okb] in Hok. repeat (apply andb_true_iff in Hok as [Hok ?]).
    rename H0 into Hsing, H1 into Hdist, H2 into Hkinds, H3 into Hall.
    apply negb_true_iff in Hok, Hsing.
    cbn [tsize] in Hf. fold (lsize l) in Hf. destruct f as [|f]; [lia|].
    destruct l as [|e l].
    + (* {,} *)
      cbn [print_term]. cbn [p_t t_step]. unfold t_term.
      change (ws (str "{,}" ++ rest)) with (str "{,}" ++ rest).
      assert (S0 : forall b, p_scalar b (str "{,}" ++ rest) = None).
      { intro b. apply scalar_lbrace. now apply braced_none_head. }
      rewrite S0.
      assert (TS : t_set (p_t f) (str "{,}" ++ rest) = POk (RT (TSet [])) rest).
      { unfold t_set. now rewrite tag_app. }
      assert (TA : t_array (p_t f) (str "{,}" ++ rest) = PErr) by (now apply t_array_other).
      assert (TM : t_map (p_t f) (str "{,}" ++ rest) = PErr).
      { unfold t_map. cbn. reflexivity. }
      destruct c; try discriminate; unfold por; rewrite ?TA, ?TM, ?TS; reflexivity.
    + (* non-empty *)
      inversion H as [|? ? He Hl]; subst.
      assert (S0 : forall b, p_scalar b (print_term esc (TSet (e :: l)) ++ rest) = None).
      { intro b. cbn [print_term app]. rewrite <- app_assoc. cbn [app].
        apply scalar_lbrace. apply set_not_param; [exact Hall|exact Hsing|discriminate]. }
      assert (E : print_term esc (TSet (e :: l)) ++ rest
                  = cLBrace :: print_term esc e ++ tail_text l ++ cRBrace :: rest).
      { cbn [print_term app map]. rewrite join_cons, tail_text_eq. now rewrite <- !app_assoc. }
      cbn [p_t t_step]. unfold t_term.
      assert (W : ws (print_term esc (TSet (e :: l)) ++ rest) = print_term esc (TSet (e :: l)) ++ rest)
        by reflexivity.
      rewrite W, S0. rewrite E.
      assert (TS : t_set (p_t f) (cLBrace :: print_term esc e ++ tail_text l ++ cRBrace :: rest)
                   = POk (RT (TSet (e :: l))) rest).
      { apply t_set_ok; try assumption. lia. }
      assert (TA : t_array (p_t f) (cLBrace :: print_term esc e ++ tail_text l ++ cRBrace :: rest) = PErr)
        by (now apply t_array_other).
      assert (TM : t_map (p_t f) (cLBrace :: print_term esc e ++ tail_text l ++ cRBrace :: rest) = PErr).
      { apply t_map_on_set; [|apply sep_or_close_tail].
        cbn [forallb] in Hall. now apply andb_true_iff in Hall as [? _]. }
      destruct c; try discriminate; unfold por; rewrite ?TA, ?TM, ?TS; reflexivity.
  - (* param *) cbn [term_okb print_term] in *.
    destruct f as [|f]; [cbn in Hf; lia|]. cbn [p_t t_step]. unfold t_term.
    cbn [app]. rewrite ws_nonws by reflexivity. rewrite <- app_assoc. cbn [app].
    now rewrite (scalar_param _ s rest Hok).
  - (* null *) cbn [print_term].
    apply scalar_done; [cbn in Hf; lia|eexists _, _; split; reflexivity|apply scalar_null].
  - (* array *)
    cbn [term_okb] in Hok. apply andb_true_iff in Hok as [Hc Hall]. apply negb_true_iff in Hc.
    cbn [tsize] in Hf. fold (lsize l) in Hf. destruct f as [|f]; [lia|].
    assert (E : print_term esc (TArray l) ++ rest
                = cLBrk :: join comma_sp (map (print_term esc) l) ++ cRBrk :: rest).
    { cbn [print_term app]. now rewrite <- app_assoc. }
    cbn [p_t t_step]. unfold t_term. rewrite E. rewrite ws_nonws by reflexivity.
    rewrite scalar_lbrk.
    assert (TA : t_array (p_t f) (cLBrk :: join comma_sp (map (print_term esc) l) ++ cRBrk :: rest)
                 = POk (RT (TArray l)) rest) by (apply t_array_ok; [assumption|assumption|lia]).
    assert (TS : t_set (p_t f) (cLBrk :: join comma_sp (map (print_term esc) l) ++ cRBrk :: rest) = PErr)
      by (now apply t_set_other).
    destruct c; try discriminate; unfold por; rewrite ?TS, ?TA; reflexivity.
  - (* map *)
    cbn [term_okb] in Hok. apply andb_true_iff in Hok as [Hok Hdist]. apply andb_true_iff in Hok as [Hc Hall].
    apply negb_true_iff in Hc.
    cbn [tsize] in Hf. fold (msize l) in Hf. destruct f as [|f]; [lia|].
    set (body := join comma_sp (map (fun kv => print_mkey esc (fst kv) ++ [cColon; cSp] ++
                                               print_term esc (snd kv)) l)).
    assert (E : print_term esc (TMap l) ++ rest = cLBrace :: body ++ cRBrace :: rest).
    { cbn [print_term app]. now rewrite <- app_assoc. }
    cbn [p_t t_step]. unfold t_term. rewrite E. rewrite ws_nonws by reflexivity.
    assert (S0 : forall b, p_scalar b (cLBrace :: body ++ cRBrace :: rest) = None).
    { intro b. apply scalar_lbrace. unfold body. destruct l as [|[k v] l].
      - cbn [map join app]. now apply braced_none_head.
      - cbn [forallb fst] in Hall. apply andb_true_iff in Hall as [Hkv _].
        apply andb_true_iff in Hkv as [Hk _].
        destruct (mkey_head k Hk) as (c2 & r2 & Ek & _ & Hns).
        cbn [map fst snd]. rewrite join_cons. rewrite Ek. rewrite <- !app_assoc. cbn [app].
        now apply braced_none_head. }
    rewrite S0.
    assert (TM : t_map (p_t f) (cLBrace :: body ++ cRBrace :: rest) = POk (RT (TMap l)) rest)
      by (apply t_map_ok; [assumption|assumption|assumption|lia]).
    assert (TA : t_array (p_t f) (cLBrace :: body ++ cRBrace :: rest) = PErr) by (now apply t_array_other).
    destruct c; unfold por; rewrite ?TA, ?TM; try reflexivity.
    (* term_in_fact: the set alternative first *)
    destruct l as [|[k v] l]; [discriminate|].
    destruct f as [|f]; [rewrite msize_cons in Hf; lia|].
    assert (TS : t_set (p_t (S f)) (cLBrace :: body ++ cRBrace :: rest) = PErr).
    { unfold body. cbn [map fst snd]. rewrite join_cons. rewrite <- !app_assoc. cbn [app].
      cbn [forallb fst] in Hall. apply andb_true_iff in Hall as [Hkv _].
      apply andb_true_iff in Hkv as [Hk _]. now apply t_set_on_map. }
    rewrite TS. reflexivity.
Qed.

End Esc.

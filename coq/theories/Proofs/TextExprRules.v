(* C14, expressions: "eventually" semantics of the fuelled expression parser and one rule
   per production (derived from e_step), so that the round-trip proof never mentions fuel. *)
From Biscuit Require Import Model.Text Proofs.TextLeaves Proofs.TextDate Proofs.TextTerm Proofs.TextItems.
Local Open Scope N_scope.

(* the parser gives [res] for every sufficiently large fuel *)
Definition Ev (k : ent) (i : text) (res : pr expr) : Prop :=
  exists g0, forall g, (g0 <= g)%nat -> p_e g k i = res.
Definition EvT (i : text) (res : pr term) : Prop :=
  exists g0, forall g, (g0 <= g)%nat -> p_term g CTerm i = res.

Ltac ev_intro g0 :=
  exists (S g0); intros g Hg; destruct g as [|g]; [lia|]; cbn [p_e].

Lemma R_NL : forall k i l i1 res, k <> 2%nat ->
  Ev (next_level k) i (POk l i1) -> Ev (NLoop k l) i1 res -> Ev (NL k) i res.
Proof.
  intros k i l i1 res Hk [g1 H1] [g2 H2]. ev_intro (max g1 g2).
  assert (E : e_step (p_e g) (p_term g CTerm) (NL k) i
              = pbind (p_e g (next_level k) i) (fun l i1 => p_e g (NLoop k l) i1)).
  { destruct k as [|[|[|k]]]; try reflexivity. congruence. }
  rewrite E. rewrite H1 by lia. cbn [pbind]. apply H2. lia.
Qed.

Lemma R_NL_err : forall k i, k <> 2%nat -> Ev (next_level k) i PErr -> Ev (NL k) i PErr.
Proof.
  intros k i Hk [g1 H1]. ev_intro g1.
  assert (E : e_step (p_e g) (p_term g CTerm) (NL k) i
              = pbind (p_e g (next_level k) i) (fun l i1 => p_e g (NLoop k l) i1)).
  { destruct k as [|[|[|k]]]; try reflexivity. congruence. }
  rewrite E. rewrite H1 by lia. reflexivity.
Qed.

Lemma R_NL2_none : forall i l i1,
  Ev (NL 3) i (POk l i1) -> binop_at 2 (ws i1) = None -> Ev (NL 2) i (POk l i1).
Proof.
  intros i l i1 [g1 H1] Hb. ev_intro g1. cbn [e_step]. unfold e_cmp. rewrite H1 by lia. cbn [pbind]. now rewrite Hb.
Qed.

Lemma R_NL2_cmp : forall i l i1 b i2 r i3,
  Ev (NL 3) i (POk l i1) -> binop_at 2 (ws i1) = Some (b, i2) -> Ev (NL 3) i2 (POk r i3) ->
  Ev (NL 2) i (POk (EBinary b l r) i3).
Proof.
  intros i l i1 b i2 r i3 [g1 H1] Hb [g2 H2]. ev_intro (max g1 g2). cbn [e_step]. unfold e_cmp.
  rewrite H1 by lia. cbn [pbind]. rewrite Hb. rewrite H2 by lia. reflexivity.
Qed.

Lemma R_NL2_err : forall i, Ev (NL 3) i PErr -> Ev (NL 2) i PErr.
Proof. intros i [g1 H1]. ev_intro g1. cbn [e_step]. unfold e_cmp. rewrite H1 by lia. reflexivity. Qed.

Lemma R_Loop_stop : forall k acc i, binop_at k (ws i) = None -> Ev (NLoop k acc) i (POk acc i).
Proof. intros k acc i Hb. ev_intro 0%nat. cbn [e_step]. unfold e_loop. now rewrite Hb. Qed.

Lemma R_Loop_step : forall k acc i b i1 r i2 res,
  binop_at k (ws i) = Some (b, i1) -> Ev (next_level k) i1 (POk r i2) ->
  Ev (NLoop k (mk_binary b acc r)) i2 res -> Ev (NLoop k acc) i res.
Proof.
  intros k acc i b i1 r i2 res Hb [g1 H1] [g2 H2]. ev_intro (max g1 g2). cbn [e_step]. unfold e_loop.
  rewrite Hb. rewrite H1 by lia. apply H2. lia.
Qed.

Lemma R_Loop_fail : forall k acc i b i1,
  binop_at k (ws i) = Some (b, i1) -> Ev (next_level k) i1 PErr -> Ev (NLoop k acc) i (POk acc i).
Proof.
  intros k acc i b i1 Hb [g1 H1]. ev_intro g1. cbn [e_step]. unfold e_loop. rewrite Hb. now rewrite H1 by lia.
Qed.

Lemma R_N8_neg : forall i i1 a i2,
  chr cBang (ws i) = Some i1 -> Ev (NL 6) (ws i1) (POk a i2) -> Ev N8 i (POk (EUnary UNegate a) i2).
Proof.
  intros i i1 a i2 Hc [g1 H1]. ev_intro g1. cbn [e_step]. unfold e_neg. rewrite Hc. rewrite H1 by lia. reflexivity.
Qed.

Lemma R_N8_other : forall i res, chr cBang (ws i) = None -> Ev N9 i res -> Ev N8 i res.
Proof.
  intros i res Hc [g1 H1]. ev_intro g1. cbn [e_step]. unfold e_neg. rewrite Hc. cbn [por]. apply H1. lia.
Qed.

Lemma R_N9 : forall i t i1 res, Ev NTerm i (POk t i1) -> Ev (NMeth t) i1 res -> Ev N9 i res.
Proof.
  intros i t i1 res [g1 H1] [g2 H2]. ev_intro (max g1 g2). cbn [e_step]. rewrite H1 by lia. cbn [pbind]. apply H2. lia.
Qed.

Lemma R_N9_err : forall i, Ev NTerm i PErr -> Ev N9 i PErr.
Proof. intros i [g1 H1]. ev_intro g1. cbn [e_step]. rewrite H1 by lia. reflexivity. Qed.

Lemma R_Meth_stop : forall acc i, chr cDot i = None -> Ev (NMeth acc) i (POk acc i).
Proof. intros acc i Hc. ev_intro 0%nat. cbn [e_step]. unfold e_meth. now rewrite Hc. Qed.

Lemma R_Term_par : forall i i1 a i2 i3,
  chr cLPar (ws i) = Some i1 -> Ev (NL 0) (ws i1) (POk a i2) -> chr cRPar (ws i2) = Some i3 ->
  Ev NTerm i (POk (EUnary UParens a) i3).
Proof.
  intros i i1 a i2 i3 Hc [g1 H1] Hr. ev_intro g1. cbn [e_step]. unfold e_term. rewrite Hc. rewrite H1 by lia.
  cbn [pbind]. rewrite Hr. reflexivity.
Qed.

Lemma R_Term_val : forall i t r, chr cLPar (ws i) = None -> EvT i (POk t r) -> Ev NTerm i (POk (EValue t) r).
Proof.
  intros i t r Hc [g1 H1]. ev_intro g1. cbn [e_step]. unfold e_term. rewrite Hc. cbn [por]. now rewrite H1 by lia.
Qed.

Lemma R_Term_err : forall i, chr cLPar (ws i) = None -> EvT i PErr -> Ev NTerm i PErr.
Proof.
  intros i Hc [g1 H1]. ev_intro g1. cbn [e_step]. unfold e_term. rewrite Hc. cbn [por]. now rewrite H1 by lia.
Qed.

Lemma Ev_det : forall k i r1 r2, Ev k i r1 -> Ev k i r2 -> r1 = r2.
Proof.
  intros k i r1 r2 [g1 H1] [g2 H2]. rewrite <- (H1 (max g1 g2)) by lia. apply H2. lia.
Qed.

(* ------------------------------------------------------------------ levels *)
(* the non-terminal of precedence level k: expr (0) .. expr7, expr8, expr9 *)
Definition NLk (k : nat) : ent :=
  match k with 8%nat => N8 | 9%nat => N9 | _ => NL k end.

Lemma next_level_NLk : forall k, (k <= 7)%nat -> next_level k = NLk (S k).
Proof. intros k H. do 8 (destruct k as [|k]; [reflexivity|]). lia. Qed.

(* the loop of level m does not continue on r (level 2: no comparison operator follows) *)
Definition StopL (m : nat) (r : text) : Prop :=
  if Nat.eqb m 2 then binop_at 2 (ws r) = None else forall acc, Ev (NLoop m acc) r (POk acc r).

Definition StopFrom (k : nat) (r : text) : Prop := forall m, (k <= m <= 7)%nat -> StopL m r.

Lemma stop_none : forall m r, binop_at m (ws r) = None -> StopL m r.
Proof.
  intros m r H. unfold StopL. destruct (Nat.eqb m 2) eqn:E.
  - apply Nat.eqb_eq in E. now subst.
  - intro acc. now apply R_Loop_stop.
Qed.

(* from level j down to level k through loops that stop *)
Lemma pass_down : forall d j k i e r, (k + d = j)%nat -> (j <= 8)%nat ->
  Ev (NLk j) i (POk e r) -> (forall m, (k <= m < j)%nat -> StopL m r) -> Ev (NLk k) i (POk e r).
Proof.
  induction d as [|d IH]; intros j k i e r Hkj Hj H Hs.
  - replace k with j by lia. exact H.
  - assert (Hk : (k <= 7)%nat) by lia.
    assert (Hn : Ev (NLk (S k)) i (POk e r)).
    { apply (IH j (S k)); [lia|lia|exact H|]. intros m Hm. apply Hs. lia. }
    pose proof (Hs k ltac:(lia)) as Sk. unfold StopL in Sk.
    destruct (Nat.eqb k 2) eqn:E.
    + apply Nat.eqb_eq in E. subst k. cbn [NLk] in *. now apply R_NL2_none.
    + apply Nat.eqb_neq in E.
      assert (NLk k = NL k) by (do 8 (destruct k as [|k]; [reflexivity|]); lia).
      rewrite H0. apply (R_NL k i e r); [exact E| |apply Sk].
      now rewrite next_level_NLk by lia.
Qed.

(* leading blanks are invisible to every entry point *)
Definition blank (pre : text) : Prop := forallb is_ws pre = true.

Lemma ws_blank : forall pre x, blank pre -> ws (pre ++ x) = ws x.
Proof.
  induction pre as [|c pre IH]; intros x H; [reflexivity|].
  unfold blank in H. cbn [forallb] in H. apply andb_true_iff in H as [H1 H2].
  cbn [app ws]. rewrite H1. now apply IH.
Qed.

(* ------------------------------------------------------------------ methods (level expr9) *)
Definition EvBM (acc : expr) (i1 : text) (res : pr expr) : Prop :=
  exists g0, forall g, (g0 <= g)%nat -> e_binary_method (p_e g) acc i1 = res.

Lemma R_Meth_bin : forall acc i i1 e i' res,
  chr cDot i = Some i1 -> EvBM acc i1 (POk e i') -> Ev (NMeth e) i' res -> Ev (NMeth acc) i res.
Proof.
  intros acc i i1 e i' res Hc [g1 H1] [g2 H2]. ev_intro (max g1 g2). cbn [e_step]. unfold e_meth.
  rewrite Hc. rewrite H1 by lia. apply H2. lia.
Qed.

Lemma R_Meth_un : forall acc i i1 u i' res,
  chr cDot i = Some i1 -> EvBM acc i1 PErr -> unary_method i1 = Some (u, i') ->
  Ev (NMeth (EUnary u acc)) i' res -> Ev (NMeth acc) i res.
Proof.
  intros acc i i1 u i' res Hc [g1 H1] Hu [g2 H2]. ev_intro (max g1 g2). cbn [e_step]. unfold e_meth.
  rewrite Hc. rewrite H1 by lia. rewrite Hu. apply H2. lia.
Qed.

Lemma BM_none : forall acc i1, method_op i1 = None -> EvBM acc i1 PErr.
Proof. intros acc i1 H. exists 0%nat. intros g _. unfold e_binary_method. now rewrite H. Qed.

Definition takes_closure (b : binop) : bool := match b with BAll | BAny => true | _ => false end.

Lemma BM_plain : forall acc i1 b i2 i3 a i5 i6,
  method_op i1 = Some (b, i2) -> takes_closure b = false -> chr cLPar i2 = Some i3 ->
  Ev (NL 0) (ws i3) (POk a i5) -> chr cRPar (ws i5) = Some i6 ->
  EvBM acc i1 (POk (EBinary b acc a) i6).
Proof.
  intros acc i1 b i2 i3 a i5 i6 Hm Hb Hp [g1 H1] Hr. exists g1. intros g Hg.
  unfold e_binary_method. rewrite Hm, Hp.
  destruct b; try discriminate; rewrite H1 by lia; cbn [pbind]; now rewrite Hr.
Qed.

(* `.extern::f()` is first tried as a binary method: its argument fails on ')' *)
Lemma BM_arg_fails : forall acc i1 b i2 i3,
  method_op i1 = Some (b, i2) -> takes_closure b = false -> chr cLPar i2 = Some i3 ->
  Ev (NL 0) (ws i3) PErr -> EvBM acc i1 PErr.
Proof.
  intros acc i1 b i2 i3 Hm Hb Hp [g1 H1]. exists g1. intros g Hg.
  unfold e_binary_method. rewrite Hm, Hp.
  destruct b; try discriminate; rewrite H1 by lia; reflexivity.
Qed.

Lemma BM_closure : forall acc i1 b i2 i3 i5 p i6 i7 a i8 i9,
  method_op i1 = Some (b, i2) -> takes_closure b = true -> chr cLPar i2 = Some i3 ->
  chr cDollar (ws i3) = Some i5 -> p_name i5 = Some (p, i6) -> tag (str "->") (ws i6) = Some i7 ->
  Ev (NL 0) (ws i7) (POk a i8) -> chr cRPar (ws i8) = Some i9 ->
  EvBM acc i1 (POk (EBinary b acc (EClosure [p] a)) i9).
Proof.
  intros acc i1 b i2 i3 i5 p i6 i7 a i8 i9 Hm Hb Hp Hd Hn Ht [g1 H1] Hr. exists g1. intros g Hg.
  unfold e_binary_method. rewrite Hm, Hp.
  destruct b; try discriminate; rewrite Hd, Hn, Ht; rewrite H1 by lia; cbn [pbind]; now rewrite Hr.
Qed.

(* C14, dates: civil-date arithmetic round trip by reflection over one 400-year era plus
   era periodicity, then the RFC 3339 text layer. *)
From Coq Require Import Znumtheory.
From Biscuit Require Import Model.Text Proofs.TextLeaves.
Local Open Scope Z_scope.

(* ---- the part of civil_from_days that depends on the day-of-era only *)
Definition parts (doe : Z) : Z * Z * Z * Z :=   (* yoe, year-of-era adjusted for Jan/Feb, month, day *)
  let yoe := (doe - doe / 1460 + doe / 36524 - doe / 146096) / 365 in
  let doy := doe - (365 * yoe + yoe / 4 - yoe / 100) in
  let mp := (5 * doy + 2) / 153 in
  let d := doy - (153 * mp + 2) / 5 + 1 in
  let m := if mp <? 10 then mp + 3 else mp - 9 in
  (yoe, (if m <=? 2 then yoe + 1 else yoe), m, d).

Definition doe_of (yoe m d : Z) : Z :=
  let doy := (153 * (if 2 <? m then m - 3 else m + 9) + 2) / 5 + d - 1 in
  yoe * 365 + yoe / 4 - yoe / 100 + doy.

Definition check_doe (doe : Z) : bool :=
  let '(yoe, yadj, m, d) := parts doe in
  (0 <=? yoe) && (yoe <? 400) && (doe_of yoe m d =? doe)
  && (1 <=? m) && (m <=? 12) && (1 <=? d) && (d <=? days_in_month yadj m)
  && (if doe <? 146037 then yadj <=? 399 else true).

Fixpoint forall_range (n : nat) (base : Z) (f : Z -> bool) : bool :=
  match n with O => true | S k => f base && forall_range k (base + 1) f end.

Lemma forall_range_spec : forall n base f, forall_range n base f = true ->
  forall z, base <= z < base + Z.of_nat n -> f z = true.
Proof.
  induction n as [|k IH]; intros base f H z Hz; [lia|].
  cbn [forall_range] in H. apply andb_true_iff in H as [H0 H1].
  destruct (Z.eq_dec z base) as [->|Hne]; [exact H0|].
  apply (IH (base + 1) f H1). lia.
Qed.

Definition era_chunks : list Z := map Z.of_nat (seq 0 147).

Definition check_doe_g (doe : Z) : bool := (146097 <=? doe) || check_doe doe.

Lemma era_checked :
  forallb (fun c => forall_range 1000 (1000 * c) check_doe_g) era_chunks = true.
Proof. vm_compute. reflexivity. Qed.

Lemma check_doe_all : forall doe, 0 <= doe < 146097 -> check_doe doe = true.
Proof.
  intros doe H.
  pose proof era_checked as E. rewrite forallb_forall in E.
  assert (Hin : In (doe / 1000) era_chunks).
  { unfold era_chunks. apply in_map_iff. exists (Z.to_nat (doe / 1000)). split.
    - rewrite Z2Nat.id; [reflexivity|]. apply Z.div_pos; lia.
    - apply in_seq. assert (doe / 1000 < 147) by (apply Z.div_lt_upper_bound; lia).
      assert (0 <= doe / 1000) by (apply Z.div_pos; lia). lia. }
  specialize (E _ Hin).
  assert (G : check_doe_g doe = true).
  { apply (forall_range_spec _ _ _ E).
    pose proof (Z.div_mod doe 1000 ltac:(lia)). pose proof (Z.mod_pos_bound doe 1000 ltac:(lia)).
    change (Z.of_nat 1000) with 1000. lia. }
  unfold check_doe_g in G. apply orb_true_iff in G as [G|G]; [apply Z.leb_le in G; lia|exact G].
Qed.

(* ---- era periodicity *)
Lemma civil_from_days_era : forall z0,
  let z := z0 + 719468 in
  let era := z / 146097 in
  let doe := z - era * 146097 in
  let '(yoe, yadj, m, d) := parts doe in
  civil_from_days z0 = (yadj + era * 400, m, d).
Proof.
  intros z0. cbv zeta. unfold civil_from_days, parts. cbv zeta.
  set (doe := z0 + 719468 - (z0 + 719468) / 146097 * 146097).
  set (yoe := (doe - doe / 1460 + doe / 36524 - doe / 146096) / 365).
  set (mp := (5 * (doe - (365 * yoe + yoe / 4 - yoe / 100)) + 2) / 153).
  destruct (mp <? 10); destruct (_ <=? 2); f_equal; f_equal; lia.
Qed.

Lemma leap_period : forall y e, is_leap (y + e * 400) = is_leap y.
Proof.
  intros y e. unfold is_leap.
  replace (y + e * 400) with (y + (e * 100) * 4) at 1 by lia. rewrite Z.mod_add by lia.
  replace (y + e * 400) with (y + (e * 4) * 100) at 1 by lia. rewrite Z.mod_add by lia.
  rewrite Z.mod_add by lia. reflexivity.
Qed.

Lemma dim_period : forall y e m, days_in_month (y + e * 400) m = days_in_month y m.
Proof. intros. unfold days_in_month. now rewrite leap_period. Qed.

Lemma days_from_civil_era : forall yoe m d era, 0 <= yoe < 400 ->
  days_from_civil ((if m <=? 2 then yoe + 1 else yoe) + era * 400) m d
  = era * 146097 + doe_of yoe m d - 719468.
Proof.
  intros yoe m d era H. unfold days_from_civil, doe_of. cbv zeta.
  assert (Hy : (if m <=? 2 then (if m <=? 2 then yoe + 1 else yoe) + era * 400 - 1
                else (if m <=? 2 then yoe + 1 else yoe) + era * 400) = yoe + era * 400)
    by (destruct (m <=? 2); lia).
  rewrite Hy.
  rewrite Z.div_add by lia. rewrite (Z.div_small yoe 400) by lia.
  replace (yoe + era * 400 - (0 + era) * 400) with yoe by lia. lia.
Qed.

Definition valid_ymd (y m d : Z) : Prop := 1 <= m <= 12 /\ 1 <= d <= days_in_month y m.

Theorem civil_roundtrip : forall z0,
  let '(y, m, d) := civil_from_days z0 in
  valid_ymd y m d /\ days_from_civil y m d = z0.
Proof.
  intros z0. pose proof (civil_from_days_era z0) as E. cbv zeta in E.
  set (z := z0 + 719468) in *. set (era := z / 146097) in *. set (doe := z - era * 146097) in *.
  assert (Hdoe : 0 <= doe < 146097).
  { pose proof (Z.div_mod z 146097 ltac:(lia)). pose proof (Z.mod_pos_bound z 146097 ltac:(lia)).
    unfold doe, era. lia. }
  pose proof (check_doe_all doe Hdoe) as C. unfold check_doe in C.
  destruct (parts doe) as [[[yoe yadj] m] d] eqn:P. rewrite E.
  assert (Hyadj : yadj = if m <=? 2 then yoe + 1 else yoe).
  { unfold parts in P. cbv zeta in P. inversion P. reflexivity. }
  repeat (apply andb_true_iff in C as [C ?]).
  split.
  - unfold valid_ymd. rewrite dim_period. lia.
  - rewrite Hyadj. rewrite days_from_civil_era by lia.
    assert (doe_of yoe m d = doe) by lia. unfold doe, z in *. lia.
Qed.

(* year range: 0 <= z0 < 2932897 (1970-01-01 .. 9999-12-31) gives 1600 <= y <= 9999 *)
Lemma civil_year_range : forall z0, 0 <= z0 < 2932897 ->
  let '(y, m, d) := civil_from_days z0 in 0 <= y <= 9999.
Proof.
  intros z0 H. pose proof (civil_from_days_era z0) as E. cbv zeta in E.
  set (z := z0 + 719468) in *. set (era := z / 146097) in *. set (doe := z - era * 146097) in *.
  assert (Hdoe : 0 <= doe < 146097).
  { pose proof (Z.div_mod z 146097 ltac:(lia)). pose proof (Z.mod_pos_bound z 146097 ltac:(lia)).
    unfold doe, era. lia. }
  assert (Hera : 4 <= era <= 24).
  { unfold era, z. split; [apply Z.div_le_lower_bound; lia|].
    assert ((z0 + 719468) / 146097 < 25) by (apply Z.div_lt_upper_bound; lia). lia. }
  pose proof (check_doe_all doe Hdoe) as C. unfold check_doe in C.
  destruct (parts doe) as [[[yoe yadj] m] d] eqn:P. rewrite E.
  assert (Hyadj : yadj = if m <=? 2 then yoe + 1 else yoe).
  { unfold parts in P. cbv zeta in P. inversion P. reflexivity. }
  repeat (apply andb_true_iff in C as [C ?]).
  assert (0 <= yadj <= 400) by (destruct (m <=? 2); lia).
  destruct (Z.eq_dec era 24) as [He|He].
  - assert (doe < 146037) by (unfold doe, z in *; lia).
    destruct (doe <? 146037) eqn:L; [|lia]. lia.
  - lia.
Qed.

(* ---- the text layer *)

Lemma dig_digit : forall n, is_digit (dig n) = true.
Proof.
  intro n. unfold dig. apply is_digit_dig. apply Z.mod_pos_bound. lia.
Qed.

Lemma dig_val : forall n, Z.of_N (dig n - 48)%N = (n mod 10)%Z.
Proof. intro n. unfold dig. pose proof (Z.mod_pos_bound n 10 ltac:(lia)). lia. Qed.

Lemma dig2_pad2 : forall n t, (0 <= n < 100)%Z -> dig2 (pad2 n ++ t) = Some (n, t).
Proof.
  intros n t H. unfold pad2. cbn [app dig2]. rewrite !dig_digit. cbn [andb].
  rewrite !dig_val. f_equal. f_equal.
  rewrite (Z.mod_small (n / 10) 10).
  - pose proof (Z.div_mod n 10 ltac:(lia)). lia.
  - split; [apply Z.div_pos; lia|apply Z.div_lt_upper_bound; lia].
Qed.

Lemma pad4_val : forall y, (0 <= y < 10000)%Z ->
  digits_val (pad4 y) 0%Z = y.
Proof.
  intros y H. unfold pad4. cbn [digits_val]. rewrite !dig_val.
  assert (E2 : (y / 100 = y / 10 / 10)%Z) by (rewrite Zdiv.Zdiv_Zdiv by lia; reflexivity).
  assert (E3 : (y / 1000 = y / 10 / 10 / 10)%Z) by (rewrite !Zdiv.Zdiv_Zdiv by lia; reflexivity).
  rewrite E2, E3.
  pose proof (Z.div_mod y 10 ltac:(lia)).
  pose proof (Z.div_mod (y / 10) 10 ltac:(lia)).
  pose proof (Z.div_mod (y / 10 / 10) 10 ltac:(lia)).
  assert (0 <= y / 10 / 10 / 10 < 10)%Z.
  { rewrite <- E3. split; [apply Z.div_pos; lia|apply Z.div_lt_upper_bound; lia]. }
  rewrite (Z.mod_small (y / 10 / 10 / 10) 10) by lia.
  lia.
Qed.

Definition date_stop (rest : text) : Prop :=
  match rest with [] => True | c :: _ => is_date_char c = false end.

Lemma date_chars_digit : forall c, is_digit c = true -> is_date_char c = true.
Proof.
  intros c H. unfold is_digit in H. apply andb_true_iff in H as [H1 H2].
  apply N.leb_le in H1, H2. unfold is_date_char.
  assert (E : forall k, (k < 48 \/ 57 < k)%N -> (c =? k)%N = false) by (intros; apply N.eqb_neq; lia).
  unfold cComma, cSp, cRPar, cRBrk, cSemi, cRBrace.
  rewrite !E by lia. reflexivity.
Qed.

Theorem date_roundtrip : forall d rest, (0 <= d < 253402300800)%Z -> date_stop rest ->
  parse_date (print_date d ++ rest) = Some (d, rest).
Proof.
  intros d rest Hd Hs. unfold print_date.
  destruct (d <? 9223372036854775808)%Z eqn:E1; [|apply Z.ltb_ge in E1; lia].
  assert (E2 : ((d <? date_min)%Z || (date_max <? d)%Z)%bool = false).
  { unfold date_min, date_max. apply orb_false_iff. split; apply Z.ltb_ge; lia. }
  rewrite E2.
  assert (Hdays : (0 <= d / 86400 < 2932897)%Z).
  { split; [apply Z.div_pos; lia|apply Z.div_lt_upper_bound; lia]. }
  pose proof (civil_roundtrip (d / 86400)) as R. pose proof (civil_year_range (d / 86400) Hdays) as Y.
  destruct (civil_from_days (d / 86400)) as [[y m] dd]. destruct R as [[Hm Hdd] R].
  set (sod := (d mod 86400)%Z).
  assert (Hsod : (0 <= sod < 86400)%Z) by (apply Z.mod_pos_bound; lia).
  assert (Hh : (0 <= sod / 3600 < 24)%Z) by (split; [apply Z.div_pos; lia|apply Z.div_lt_upper_bound; lia]).
  assert (Hmi : (0 <= sod mod 3600 / 60 < 60)%Z).
  { pose proof (Z.mod_pos_bound sod 3600 ltac:(lia)).
    split; [apply Z.div_pos; lia|apply Z.div_lt_upper_bound; lia]. }
  assert (Hss : (0 <= sod mod 60 < 60)%Z) by (apply Z.mod_pos_bound; lia).
  assert (Hdim : (days_in_month y m <= 31)%Z).
  { unfold days_in_month. destruct (m =? 2)%Z; [destruct (is_leap y); lia|].
    destruct ((m =? 4) || (m =? 6) || (m =? 9) || (m =? 11))%bool; lia. }
  (* the token is the whole printed date *)
  set (txt := pad4 y ++ [cMinus] ++ pad2 m ++ [cMinus] ++ pad2 dd ++ [cT] ++
              pad2 (sod / 3600) ++ [cColon] ++ pad2 (sod mod 3600 / 60) ++ [cColon] ++
              pad2 (sod mod 60) ++ [cZ]).
  assert (Hall : forallb is_date_char txt = true).
  { unfold txt, pad4, pad2. cbn [app forallb].
    rewrite !(date_chars_digit _ (dig_digit _)). reflexivity. }
  unfold parse_date, take_while1. rewrite (span_app_stop is_date_char txt rest Hall Hs).
  assert (Hne : exists c t, txt = c :: t) by (unfold txt, pad4; cbn [app]; eauto).
  destruct Hne as (c0 & t0 & Htxt). rewrite Htxt. rewrite <- Htxt. clear c0 t0 Htxt.
  (* evaluate the RFC 3339 parser on it *)
  assert (Hrfc : rfc3339 txt = Some d).
  { unfold txt, rfc3339.
    assert (D : forall t, rfc_date (pad4 y ++ [cMinus] ++ pad2 m ++ [cMinus] ++ pad2 dd ++ t)
                          = Some (y, m, dd, t)).
    { intro t. unfold rfc_date. unfold pad4 at 1. cbn [app]. rewrite !dig_digit. cbn [andb chr].
      rewrite N.eqb_refl. rewrite dig2_pad2 by lia. cbn [chr]. rewrite N.eqb_refl.
      rewrite dig2_pad2 by lia. fold (pad4 y). now rewrite pad4_val by lia. }
    assert (T : forall t, rfc_time (pad2 (sod / 3600) ++ [cColon] ++ pad2 (sod mod 3600 / 60) ++ [cColon]
                                     ++ pad2 (sod mod 60) ++ t)
                          = Some (sod / 3600, sod mod 3600 / 60, sod mod 60, t)).
    { intro t. unfold rfc_time. rewrite dig2_pad2 by lia. cbn [app chr]. rewrite N.eqb_refl.
      rewrite dig2_pad2 by lia. cbn [app chr]. rewrite N.eqb_refl. now rewrite dig2_pad2 by lia. }
    repeat rewrite <- app_assoc in D. repeat rewrite <- app_assoc.
    rewrite D. cbn [app]. change (128 <=? cT)%N with false. cbv iota.
    repeat rewrite <- app_assoc in T. specialize (T [cZ]). cbn [app] in T |- *. rewrite T.
    cbn [skip_subsec]. change (cZ =? cDot)%N with false. cbv iota.
    cbn [parse_offset]. rewrite N.eqb_refl. cbn [orb].
    unfold rfc_finish.
    assert (L : (sod mod 60 =? 60) = false) by (apply Z.eqb_neq; lia). rewrite L.
    assert (V : ((1 <=? m) && (m <=? 12) && (1 <=? dd) && (dd <=? days_in_month y m)
                 && (sod / 3600 <? 24) && (sod mod 3600 / 60 <? 60) && (sod mod 60 <? 60))%bool = true).
    { repeat (apply andb_true_iff; split); try apply Z.leb_le; try apply Z.ltb_lt; lia. }
    rewrite V. rewrite R. f_equal.
    pose proof (Z.div_mod d 86400 ltac:(lia)) as Q1.
    pose proof (Z.div_mod sod 3600 ltac:(lia)).
    pose proof (Z.div_mod (sod mod 3600) 60 ltac:(lia)).
    assert ((sod mod 3600) mod 60 = sod mod 60).
    { symmetry. apply (Zmod_div_mod 60 3600 sod); try lia. exists 60. lia. }
    fold sod in Q1. lia. }
  rewrite Hrfc.
  assert (B : ((0 <=? d)%Z && (d <? 18446744073709551616)%Z)%bool = true).
  { apply andb_true_iff. split; [apply Z.leb_le|apply Z.ltb_lt]; lia. }
  rewrite B. destruct txt; [discriminate|reflexivity].
Qed.

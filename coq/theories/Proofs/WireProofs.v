(* Protobuf wire format of the container: varints, fields, messages; decode (encode t) = t and
   length (encode t) = encoded_len t. *)
From Biscuit Require Import Model.Wire Proofs.ChainLayout.
Local Open Scope N_scope.

(* ------------------------------------------------------------------ varints *)
Fixpoint p128 (j : nat) : N := match j with O => 1 | S j' => 128 * p128 j' end.

(* values that fit [k] bytes when the last byte may only be 0 or 1 *)
Definition vb (k : nat) : N := match k with O => 0 | S k' => 2 * p128 k' end.

Lemma p128_pos : forall j, 0 < p128 j.
Proof. induction j; cbn [p128]; lia. Qed.

Lemma vb_10 : vb 10 = two64.
Proof. reflexivity. Qed.

Lemma enc_varint_fuel_nonempty : forall k n, enc_varint_fuel (S k) n <> [].
Proof. intros k n. cbn [enc_varint_fuel]. destruct (n <? 128); discriminate. Qed.

Lemma dec_enc_varint_fuel : forall k n sh acc r,
  n < vb k ->
  dec_varint_fuel k sh acc (enc_varint_fuel k n ++ r) = Some (acc + n * 2 ^ sh, r).
Proof.
  induction k as [|k IH]; intros n sh acc r Hn; [cbn [vb] in Hn; lia|].
  cbn [enc_varint_fuel]. destruct (n <? 128) eqn:E.
  - apply N.ltb_lt in E. cbn [app dec_varint_fuel]. apply N.ltb_lt in E as E'. rewrite E'.
    destruct k as [|k'].
    + cbn [vb p128] in Hn. cbn [Nat.eqb andb]. assert (H2 : (2 <=? n) = false) by (apply N.leb_gt; lia).
      now rewrite H2.
    + reflexivity.
  - apply N.ltb_ge in E. cbn [app dec_varint_fuel].
    pose proof (N.mod_lt n 128 ltac:(lia)) as Hm. pose proof (N.div_mod n 128 ltac:(lia)) as Hdm.
    set (q := n / 128) in *. set (m := n mod 128) in *. clearbody q m.
    assert (Hx : (128 + m <? 128) = false) by (apply N.ltb_ge; lia). rewrite Hx.
    destruct k as [|k'].
    + cbn [vb p128] in Hn. lia.
    + rewrite IH.
      * f_equal. f_equal. replace (128 + m - 128) with m by lia.
        rewrite N.pow_add_r. change (2 ^ 7) with 128. subst n. ring.
      * cbn [vb p128] in *. lia.
Qed.

Theorem dec_enc_varint : forall n r, n < two64 ->
  dec_varint (enc_varint n ++ r) = Some (n, r).
Proof.
  intros n r Hn. unfold dec_varint, enc_varint. rewrite dec_enc_varint_fuel by (rewrite vb_10; exact Hn).
  f_equal. f_equal. cbn. lia.
Qed.

Lemma enc_varint_fuel_len : forall k n j,
  (1 <= j <= k)%nat -> n < p128 j -> (j = 1%nat \/ p128 (j - 1) <= n) ->
  length (enc_varint_fuel k n) = j.
Proof.
  induction k as [|k IH]; intros n j Hj Hn Hlow; [lia|].
  cbn [enc_varint_fuel]. destruct (n <? 128) eqn:E.
  - apply N.ltb_lt in E. destruct Hlow as [-> | Hlow]; [reflexivity|].
    destruct j as [|[|j']]; [lia | reflexivity |].
    cbn [Nat.sub p128] in Hlow. replace (S j' - 0)%nat with (S j') in Hlow by lia. cbn [p128] in Hlow.
    pose proof (p128_pos j'). lia.
  - apply N.ltb_ge in E. cbn [length].
    destruct j as [|[|j']]; [lia | cbn [p128] in Hn; lia |].
    f_equal. apply IH.
    + lia.
    + apply N.div_lt_upper_bound; [lia | cbn [p128] in *; lia].
    + destruct j' as [|j'']; [left; reflexivity|]. right.
      destruct Hlow as [Hlow | Hlow]; [discriminate|].
      replace (S (S (S j'')) - 1)%nat with (S (S j'')) in Hlow by lia.
      replace (S (S j'') - 1)%nat with (S j'') by lia.
      apply N.div_le_lower_bound; [lia | cbn [p128] in *; lia].
Qed.

Theorem enc_varint_len : forall n, n < two64 -> nlen (enc_varint n) = varint_len n.
Proof.
  intros n Hn. unfold nlen, enc_varint, varint_len.
  assert (T : forall j, (1 <= j <= 10)%nat -> n < p128 j -> (j = 1%nat \/ p128 (j - 1) <= n) ->
              N.of_nat (length (enc_varint_fuel 10 n)) = N.of_nat j).
  { intros j H1 H2 H3. now rewrite (enc_varint_fuel_len 10 n j H1 H2 H3). }
  destruct (n <? 128) eqn:E1; [apply N.ltb_lt in E1; apply (T 1%nat); [lia | exact E1 | now left]|].
  apply N.ltb_ge in E1.
  destruct (n <? 16384) eqn:E2; [apply N.ltb_lt in E2; apply (T 2%nat); [lia | exact E2 | right; exact E1]|].
  apply N.ltb_ge in E2.
  destruct (n <? 2097152) eqn:E3; [apply N.ltb_lt in E3; apply (T 3%nat); [lia | exact E3 | right; exact E2]|].
  apply N.ltb_ge in E3.
  destruct (n <? 268435456) eqn:E4; [apply N.ltb_lt in E4; apply (T 4%nat); [lia | exact E4 | right; exact E3]|].
  apply N.ltb_ge in E4.
  destruct (n <? 34359738368) eqn:E5; [apply N.ltb_lt in E5; apply (T 5%nat); [lia | exact E5 | right; exact E4]|].
  apply N.ltb_ge in E5.
  destruct (n <? 4398046511104) eqn:E6; [apply N.ltb_lt in E6; apply (T 6%nat); [lia | exact E6 | right; exact E5]|].
  apply N.ltb_ge in E6.
  destruct (n <? 562949953421312) eqn:E7; [apply N.ltb_lt in E7; apply (T 7%nat); [lia | exact E7 | right; exact E6]|].
  apply N.ltb_ge in E7.
  destruct (n <? 72057594037927936) eqn:E8; [apply N.ltb_lt in E8; apply (T 8%nat); [lia | exact E8 | right; exact E7]|].
  apply N.ltb_ge in E8.
  destruct (n <? 9223372036854775808) eqn:E9; [apply N.ltb_lt in E9; apply (T 9%nat); [lia | exact E9 | right; exact E8]|].
  apply N.ltb_ge in E9.
  apply (T 10%nat); [lia | | right; exact E9].
  change (p128 10) with 1180591620717411303424. unfold two64 in Hn. lia.
Qed.

Lemma varint_len_bounds : forall n, 1 <= varint_len n <= 10.
Proof.
  intros n. unfold varint_len.
  repeat match goal with |- context [if ?c then _ else _] => destruct c end; lia.
Qed.

(* ------------------------------------------------------------------ casts *)
Lemma of_i32_lt : forall z, (-2147483648 <= z < 2147483648)%Z -> of_i32 z < two64.
Proof.
  intros z Hz. unfold of_i32, two64. destruct (z <? 0)%Z eqn:E.
  - apply Z.ltb_lt in E. lia.
  - apply Z.ltb_ge in E. lia.
Qed.

Lemma to_of_i32 : forall z, (-2147483648 <= z < 2147483648)%Z -> to_i32 (of_i32 z) = z.
Proof.
  intros z Hz. unfold to_i32, of_i32, two32. destruct (z <? 0)%Z eqn:E.
  - apply Z.ltb_lt in E.
    assert (Hm : Z.to_N (z + 18446744073709551616) mod 4294967296 = Z.to_N (z + 4294967296)).
    { replace (Z.to_N (z + 18446744073709551616)) with (Z.to_N (z + 4294967296) + 4294967295 * 4294967296) by lia.
      rewrite N.mod_add by lia. apply N.mod_small. lia. }
    rewrite Hm. assert (Hb : (Z.to_N (z + 4294967296) <? 2147483648) = false) by (apply N.ltb_ge; lia).
    rewrite Hb. lia.
  - apply Z.ltb_ge in E. rewrite N.mod_small by lia.
    assert (Hb : (Z.to_N z <? 2147483648) = true) by (apply N.ltb_lt; lia). rewrite Hb. lia.
Qed.

Lemma to_u32_small : forall n, n < two32 -> to_u32 n = n.
Proof. intros n H. unfold to_u32. now apply N.mod_small. Qed.

(* ------------------------------------------------------------------ keys and fields *)
Lemma enc_key_nonempty : forall t w, enc_key t w <> [].
Proof. intros. unfold enc_key, enc_varint. apply enc_varint_fuel_nonempty. Qed.

Lemma dec_enc_key : forall t w r, 1 <= t -> t < 536870912 -> w <= 5 ->
  dec_key (enc_key t w ++ r) = Some (t, w, r).
Proof.
  intros t w r H1 H2 Hw. unfold dec_key, enc_key.
  rewrite dec_enc_varint by (unfold two64; lia).
  assert (Hd : (t * 8 + w) / 8 = t) by (rewrite N.div_add_l by lia; rewrite (N.div_small w 8) by lia; lia).
  assert (Hm : (t * 8 + w) mod 8 = w).
  { rewrite N.add_comm, N.mod_add by lia. apply N.mod_small. lia. }
  rewrite Hd, Hm.
  assert (E1 : (two32 <=? t * 8 + w) = false) by (apply N.leb_gt; unfold two32; lia). rewrite E1.
  assert (E2 : (5 <? w) = false) by (apply N.ltb_ge; lia). rewrite E2.
  assert (E3 : (t =? 0) = false) by (apply N.eqb_neq; lia). now rewrite E3.
Qed.

(* fields as the encoder writes them *)
Definition canonical (f : field) : Prop :=
  match f with
  | (t, FVar n) => 1 <= t /\ t < 536870912 /\ n < two64
  | (t, FLen b) => 1 <= t /\ t < 536870912 /\ nlen b < two64
  | (_, FSkip _) => False
  end.

Lemma skipn_nlen : forall (b r : bytes), skipn (N.to_nat (nlen b)) (b ++ r) = r.
Proof.
  intros. unfold nlen. rewrite Nat2N.id. rewrite skipn_app, skipn_all, Nat.sub_diag. reflexivity.
Qed.

Lemma firstn_nlen : forall (b r : bytes), firstn (N.to_nat (nlen b)) (b ++ r) = b.
Proof.
  intros. unfold nlen. rewrite Nat2N.id. rewrite firstn_app, firstn_all, Nat.sub_diag. cbn [firstn].
  apply app_nil_r.
Qed.

Lemma nlen_app : forall a b : bytes, nlen (a ++ b) = nlen a + nlen b.
Proof. intros. unfold nlen. rewrite app_length. lia. Qed.

Lemma parse_fields_step : forall fuel ctx x b,
  parse_fields (S fuel) ctx (x :: b) =
  match dec_key (x :: b) with
  | None => None
  | Some (t, w, r) =>
      match w with
      | 0 => match dec_varint r with
             | Some (n, r') => match parse_fields fuel ctx r' with
                               | Some fs => Some ((t, FVar n) :: fs)
                               | None => None
                               end
             | None => None
             end
      | 2 => match dec_varint r with
             | Some (n, r') =>
                 if n <=? nlen r' then
                   match parse_fields fuel ctx (skipn (N.to_nat n) r') with
                   | Some fs => Some ((t, FLen (firstn (N.to_nat n) r')) :: fs)
                   | None => None
                   end
                 else None
             | None => None
             end
      | _ => match skip_value (fuel_for r) ctx w t r with
             | Some r' => match parse_fields fuel ctx r' with
                          | Some fs => Some ((t, FSkip w) :: fs)
                          | None => None
                          end
             | None => None
             end
      end
  end.
Proof. reflexivity. Qed.

Theorem parse_enc_fields : forall fs fuel ctx,
  Forall canonical fs -> (length fs <= fuel)%nat ->
  parse_fields fuel ctx (enc_fields fs) = Some fs.
Proof.
  induction fs as [|f fs IH]; intros fuel ctx Hc Hf.
  - destruct fuel; reflexivity.
  - inversion Hc as [|f' fs' Hcf Hcs]; subst. destruct fuel as [|fuel]; [cbn [length] in Hf; lia|].
    cbn [length] in Hf. unfold enc_fields. cbn [flat_map]. fold (enc_fields fs).
    destruct f as [t [n | b | w]]; cbn [canonical] in Hcf; [| |destruct Hcf].
    + destruct Hcf as (H1 & H2 & H3). cbn [enc_field]. rewrite <- !app_assoc.
      destruct (enc_key t 0 ++ enc_varint n ++ enc_fields fs) as [|x l] eqn:El.
      { exfalso. destruct (enc_key t 0) eqn:Ek; [now apply (enc_key_nonempty t 0) | discriminate El]. }
      rewrite parse_fields_step, <- El, dec_enc_key by lia.
      rewrite dec_enc_varint by exact H3. rewrite IH by (try assumption; lia). reflexivity.
    + destruct Hcf as (H1 & H2 & H3). cbn [enc_field]. rewrite <- !app_assoc.
      destruct (enc_key t 2 ++ enc_varint (nlen b) ++ b ++ enc_fields fs) as [|x l] eqn:El.
      { exfalso. destruct (enc_key t 2) eqn:Ek; [now apply (enc_key_nonempty t 2) | discriminate El]. }
      rewrite parse_fields_step, <- El, dec_enc_key by lia.
      rewrite dec_enc_varint by exact H3.
      assert (Hle : (nlen b <=? nlen (b ++ enc_fields fs)) = true) by (apply N.leb_le; rewrite nlen_app; lia).
      rewrite Hle, skipn_nlen, firstn_nlen. rewrite IH by (try assumption; lia). reflexivity.
Qed.

(* every encoded field has at least two bytes, so the fuel of [fields_of_body] suffices *)
Lemma enc_field_len : forall f, canonical f -> (2 <= length (enc_field f))%nat.
Proof.
  intros [t [n | b | w]] Hc; cbn [canonical] in Hc; [| |destruct Hc]; cbn [enc_field]; rewrite !app_length.
  - assert (H1 : (1 <= length (enc_key t 0))%nat).
    { destruct (enc_key t 0) eqn:E; [now apply enc_key_nonempty in E | cbn; lia]. }
    assert (H2 : (1 <= length (enc_varint n))%nat).
    { unfold enc_varint. destruct (enc_varint_fuel 10 n) eqn:E; [now apply enc_varint_fuel_nonempty in E | cbn; lia]. }
    lia.
  - assert (H1 : (1 <= length (enc_key t 2))%nat).
    { destruct (enc_key t 2) eqn:E; [now apply enc_key_nonempty in E | cbn; lia]. }
    assert (H2 : (1 <= length (enc_varint (nlen b)))%nat).
    { unfold enc_varint. destruct (enc_varint_fuel 10 (nlen b)) eqn:E; [now apply enc_varint_fuel_nonempty in E | cbn; lia]. }
    lia.
Qed.

Lemma enc_fields_len : forall fs, Forall canonical fs -> (length fs <= length (enc_fields fs))%nat.
Proof.
  induction fs as [|f fs IH]; intros Hc; [cbn; lia|].
  inversion Hc; subst. unfold enc_fields. cbn [flat_map length]. rewrite app_length.
  pose proof (enc_field_len f H1). fold (enc_fields fs). specialize (IH H2). lia.
Qed.

Theorem fields_of_enc : forall fs ctx, Forall canonical fs -> fields_of_body ctx (enc_fields fs) = Some fs.
Proof.
  intros fs ctx Hc. unfold fields_of_body. apply parse_enc_fields; [exact Hc|].
  pose proof (enc_fields_len fs Hc). lia.
Qed.

(* ------------------------------------------------------------------ lengths *)
Lemma enc_key_len1 : forall t w, t < 16 -> w <= 5 -> nlen (enc_key t w) = 1.
Proof.
  intros t w Ht Hw. unfold enc_key. rewrite enc_varint_len by (unfold two64; lia).
  unfold varint_len. assert (E : (t * 8 + w <? 128) = true) by (apply N.ltb_lt; lia). now rewrite E.
Qed.

Lemma nlen_var_field : forall t n, t < 16 -> n < two64 -> nlen (enc_field (t, FVar n)) = 1 + varint_len n.
Proof.
  intros. cbn [enc_field]. rewrite nlen_app, enc_key_len1, enc_varint_len by (assumption || lia). reflexivity.
Qed.

Lemma nlen_len_field : forall t b, t < 16 -> nlen b < two64 ->
  nlen (enc_field (t, FLen b)) = len_bytes_field b.
Proof.
  intros. cbn [enc_field]. rewrite !nlen_app, enc_key_len1, enc_varint_len by (assumption || lia).
  unfold len_bytes_field. lia.
Qed.

Lemma nlen_nil : nlen [] = 0. Proof. reflexivity. Qed.

Lemma enc_fields_cons : forall f fs, enc_fields (f :: fs) = enc_field f ++ enc_fields fs.
Proof. reflexivity. Qed.
Lemma enc_fields_app : forall a b, enc_fields (a ++ b) = enc_fields a ++ enc_fields b.
Proof. intros. unfold enc_fields. apply flat_map_app. Qed.

(* the structural length bounds that [wtoken_ok] provides *)
Definition key_fits (k : wkey) : Prop :=
  (-2147483648 <= wk_alg k < 2147483648)%Z /\ len_key k < two64.
Definition ext_fits (e : bytes * wkey) : Prop := key_fits (snd e) /\ len_ext e < two64.
Definition block_fits (w : wblock) : Prop :=
  key_fits (w_next w) /\
  match w_ext w with Some e => ext_fits e | None => True end /\
  match w_version w with Some v => v < two32 | None => True end /\
  len_block w < two64.

Lemma varint_len_pos : forall n, 1 <= varint_len n.
Proof. intros. apply varint_len_bounds. Qed.

Lemma body_key_len : forall k, key_fits k -> nlen (body_key k) = len_key k.
Proof.
  intros k [Ha Hl]. unfold body_key. rewrite !enc_fields_cons. cbn [enc_fields flat_map]. rewrite app_nil_r.
  unfold len_key, len_bytes_field in *. pose proof (varint_len_pos (of_i32 (wk_alg k))).
  pose proof (varint_len_pos (nlen (wk_bytes k))).
  rewrite nlen_app, nlen_var_field, nlen_len_field by (try apply of_i32_lt; try lia).
  unfold len_bytes_field. lia.
Qed.

Lemma body_ext_len : forall e, ext_fits e -> nlen (body_ext e) = len_ext e.
Proof.
  intros e [Hk Hl]. unfold body_ext. rewrite !enc_fields_cons. cbn [enc_fields flat_map]. rewrite app_nil_r.
  unfold len_ext, len_msg_field, len_bytes_field in *.
  pose proof (varint_len_pos (nlen (fst e))). pose proof (varint_len_pos (len_key (snd e))).
  rewrite nlen_app, !nlen_len_field by (rewrite ?body_key_len by exact Hk; lia).
  unfold len_bytes_field. rewrite body_key_len by exact Hk. lia.
Qed.

Lemma body_block_len : forall w, block_fits w -> nlen (body_block w) = len_block w.
Proof.
  intros [d nk s e v] (Hk & He & Hv & Hl). cbn [w_next w_ext w_version] in *.
  unfold body_block. cbn [w_data w_next w_sig w_ext w_version].
  unfold len_block, len_msg_field, len_bytes_field in *. cbn [w_data w_next w_sig w_ext w_version] in *.
  pose proof (varint_len_pos (nlen d)). pose proof (varint_len_pos (len_key nk)).
  pose proof (varint_len_pos (nlen s)).
  destruct e as [e|], v as [v|]; cbn [app]; rewrite !enc_fields_cons; cbn [enc_fields flat_map];
    rewrite !nlen_app, nlen_nil;
    try pose proof (varint_len_pos (len_ext e)); try pose proof (varint_len_pos v);
    rewrite ?nlen_var_field by (try lia; unfold two32, two64 in *; lia);
    rewrite !nlen_len_field by (rewrite ?body_key_len, ?body_ext_len by assumption; lia);
    unfold len_bytes_field; rewrite ?body_key_len, ?body_ext_len by assumption; lia.
Qed.

Lemma body_proof_len : forall p, len_proof p < two64 -> nlen (body_proof p) = len_proof p.
Proof.
  intros [|s|s] H; unfold body_proof; cbn [len_proof] in *; [reflexivity| |];
    rewrite enc_fields_cons; cbn [enc_fields flat_map]; rewrite app_nil_r;
    (apply nlen_len_field; [lia | unfold len_bytes_field in H; pose proof (varint_len_pos (nlen s)); lia]).
Qed.

(* ------------------------------------------------------------------ from wtoken_ok to the bounds *)
Lemma wkey_ok_range : forall k, wkey_ok k = true -> (-2147483648 <= wk_alg k < 2147483648)%Z.
Proof. intros k H. unfold wkey_ok in H. apply andb_true_iff in H as [H1 H2]. apply Z.leb_le in H1. apply Z.ltb_lt in H2. lia. Qed.

Lemma block_fits_of : forall w, wblock_ok w = true -> len_block w < two64 -> block_fits w.
Proof.
  intros w H Hl. unfold wblock_ok in H. apply andb_true_iff in H as [H Hv]. apply andb_true_iff in H as [Hk He].
  unfold len_block, len_msg_field, len_bytes_field in Hl.
  pose proof (varint_len_pos (nlen (w_data w))). pose proof (varint_len_pos (len_key (w_next w))).
  pose proof (varint_len_pos (nlen (w_sig w))).
  assert (Hz : 0 <= match w_version w with Some v => 1 + varint_len v | None => 0 end) by lia.
  repeat split.
  - apply wkey_ok_range in Hk. lia.
  - apply wkey_ok_range in Hk. lia.
  - lia.
  - destruct (w_ext w) as [e|]; [|exact I]. pose proof (varint_len_pos (len_ext e)).
    unfold ext_fits, key_fits. unfold len_ext, len_msg_field, len_bytes_field in *.
    pose proof (varint_len_pos (nlen (fst e))). pose proof (varint_len_pos (len_key (snd e))).
    apply wkey_ok_range in He. repeat split; lia.
  - destruct (w_version w) as [v|]; [now apply N.ltb_lt in Hv | exact I].
  - exact Hl.
Qed.

Lemma sum_N_in : forall l x, In x l -> x <= sum_N l.
Proof.
  induction l as [|y l IH]; intros x H; [destruct H|]. cbn [sum_N]. destruct H as [-> | H]; [lia|].
  specialize (IH x H). lia.
Qed.

Lemma wtoken_ok_parts : forall t, wtoken_ok t = true ->
  match w_root_key_id t with Some v => v < two32 | None => True end /\
  block_fits (w_authority t) /\
  (forall b, In b (w_blocks t) -> block_fits b) /\
  len_proof (w_proof t) < two64.
Proof.
  intros t H. unfold wtoken_ok in H. apply andb_true_iff in H as [H Hl]. apply andb_true_iff in H as [Hid Hb].
  apply N.ltb_lt in Hl. cbn [forallb] in Hb. apply andb_true_iff in Hb as [Ha Hbs].
  unfold encoded_len, len_msg_field in Hl.
  pose proof (varint_len_pos (len_block (w_authority t))). pose proof (varint_len_pos (len_proof (w_proof t))).
  assert (Hz : 0 <= match w_root_key_id t with Some v => 1 + varint_len v | None => 0 end) by lia.
  split; [destruct (w_root_key_id t); [now apply N.ltb_lt in Hid | exact I]|].
  split; [apply block_fits_of; [exact Ha | lia]|].
  split; [|lia].
  intros b Hin. apply block_fits_of.
  - rewrite forallb_forall in Hbs. now apply Hbs.
  - assert (Hs := sum_N_in (map (fun b => 1 + varint_len (len_block b) + len_block b) (w_blocks t))
                    (1 + varint_len (len_block b) + len_block b)).
    assert (Hi : In (1 + varint_len (len_block b) + len_block b)
                    (map (fun b => 1 + varint_len (len_block b) + len_block b) (w_blocks t))).
    { apply in_map_iff. exists b. split; [reflexivity | exact Hin]. }
    specialize (Hs Hi). pose proof (varint_len_pos (len_block b)). lia.
Qed.

(* ------------------------------------------------------------------ encoded_len *)
Lemma blocks_fields_len : forall bs, (forall b, In b bs -> block_fits b) ->
  nlen (enc_fields (map (fun b => (3, FLen (body_block b))) bs)) =
  sum_N (map (fun b => len_msg_field (len_block b)) bs).
Proof.
  induction bs as [|b bs IH]; intros H; [reflexivity|].
  cbn [map sum_N]. rewrite enc_fields_cons, nlen_app, IH by (intros; apply H; now right).
  assert (Hb := H b (or_introl eq_refl)). assert (Hl : len_block b < two64) by apply Hb.
  rewrite nlen_len_field by (rewrite ?body_block_len by exact Hb; lia).
  unfold len_bytes_field, len_msg_field. now rewrite body_block_len by exact Hb.
Qed.

Theorem encoded_len_correct : forall t, wtoken_ok t = true -> nlen (encode t) = encoded_len t.
Proof.
  intros t H. destruct (wtoken_ok_parts t H) as (Hid & Ha & Hbs & Hp).
  destruct t as [kid a bs p]. cbn [w_root_key_id w_authority w_blocks w_proof] in *.
  unfold encode, token_fields, encoded_len. cbn [w_root_key_id w_authority w_blocks w_proof].
  rewrite !enc_fields_app, !nlen_app. rewrite blocks_fields_len by exact Hbs.
  assert (Hl : len_block a < two64) by apply Ha.
  unfold len_msg_field in *.
  pose proof (varint_len_pos (len_block a)). pose proof (varint_len_pos (len_proof p)).
  destruct kid as [v|]; rewrite !enc_fields_cons; cbn [enc_fields flat_map]; rewrite !app_nil_r, ?nlen_nil;
    rewrite ?nlen_var_field by (try lia; unfold two32, two64 in *; lia);
    rewrite !nlen_len_field by (rewrite ?body_block_len, ?body_proof_len by assumption; lia);
    unfold len_bytes_field; rewrite body_block_len, body_proof_len by assumption; lia.
Qed.

(* ------------------------------------------------------------------ round trip *)
Lemma merge_key_body : forall k k0 ctx, key_fits k ->
  merge_body step_key (S ctx) k0 (body_key k) = Some k.
Proof.
  intros [a bs] k0 ctx [Ha Hl]. cbn [wk_alg wk_bytes] in *. unfold merge_body, body_key.
  cbn [wk_alg wk_bytes].
  unfold len_key, len_bytes_field in Hl. cbn [wk_alg wk_bytes] in Hl.
  pose proof (varint_len_pos (of_i32 a)). pose proof (varint_len_pos (nlen bs)).
  rewrite fields_of_enc.
  - cbn [fold_opt step_key wk_alg wk_bytes]. now rewrite to_of_i32.
  - repeat constructor; cbn [canonical]; try lia. now apply of_i32_lt.
Qed.

Lemma merge_ext_body : forall e e0 ctx, ext_fits e ->
  merge_body step_ext (S (S ctx)) e0 (body_ext e) = Some e.
Proof.
  intros [s k] e0 ctx [Hk Hl]. cbn [fst snd] in *. unfold merge_body, body_ext. cbn [fst snd].
  unfold len_ext, len_msg_field, len_bytes_field in Hl. cbn [fst snd] in Hl.
  pose proof (varint_len_pos (nlen s)). pose proof (varint_len_pos (len_key k)).
  rewrite fields_of_enc.
  - cbn [fold_opt step_ext fst snd]. now rewrite merge_key_body.
  - repeat constructor; cbn [canonical]; try lia. rewrite body_key_len by exact Hk. lia.
Qed.

Lemma fold_opt_app : forall A B (f : A -> B -> option A) l1 l2 a,
  fold_opt f (l1 ++ l2) a = match fold_opt f l1 a with Some a' => fold_opt f l2 a' | None => None end.
Proof.
  induction l1 as [|x l1 IH]; intros l2 a; [reflexivity|]. cbn [app fold_opt].
  destruct (f a x); [apply IH | reflexivity].
Qed.

Lemma merge_block_body : forall w ctx, block_fits w ->
  merge_body step_block (S (S (S ctx))) wblock0 (body_block w) = Some w.
Proof.
  intros [d nk s e v] ctx (Hk & He & Hv & Hl). cbn [w_next w_ext w_version] in *.
  unfold merge_body, body_block. cbn [w_data w_next w_sig w_ext w_version].
  assert (Hl' := Hl). unfold len_block, len_msg_field, len_bytes_field in Hl'. cbn [w_data w_next w_sig w_ext w_version] in Hl'.
  pose proof (varint_len_pos (nlen d)). pose proof (varint_len_pos (len_key nk)). pose proof (varint_len_pos (nlen s)).
  destruct e as [e|], v as [v|]; cbn [app];
    try pose proof (varint_len_pos (len_ext e)); try pose proof (varint_len_pos v);
    (rewrite fields_of_enc;
     [ cbn [fold_opt step_block w_data w_next w_sig w_ext w_version wblock0];
       rewrite merge_key_body by exact Hk; cbn [w_data w_next w_sig w_ext w_version];
       rewrite ?merge_ext_body by exact He; cbn [w_data w_next w_sig w_ext w_version];
       rewrite ?to_u32_small by exact Hv; reflexivity
     | repeat constructor; cbn [canonical]; try lia;
       rewrite ?body_key_len, ?body_ext_len by assumption; unfold two32, two64 in *; lia ]).
Qed.

Lemma merge_proof_body : forall p ctx, len_proof p < two64 ->
  merge_body step_proof (S ctx) WNone (body_proof p) = Some p.
Proof.
  intros [|s|s] ctx H; unfold merge_body, body_proof; cbn [len_proof] in H.
  - reflexivity.
  - unfold len_bytes_field in H. pose proof (varint_len_pos (nlen s)).
    rewrite fields_of_enc; [reflexivity|]. repeat constructor; cbn [canonical]; lia.
  - unfold len_bytes_field in H. pose proof (varint_len_pos (nlen s)).
    rewrite fields_of_enc; [reflexivity|]. repeat constructor; cbn [canonical]; lia.
Qed.

Lemma fold_blocks : forall bs ctx t0,
  (forall b, In b bs -> block_fits b) ->
  fold_opt (step_token (S (S (S (S ctx))))) (map (fun b => (3, FLen (body_block b))) bs) t0 =
  Some (mkwtoken (w_root_key_id t0) (w_authority t0) (w_blocks t0 ++ bs) (w_proof t0)).
Proof.
  induction bs as [|b bs IH]; intros ctx t0 H.
  - cbn [map fold_opt]. rewrite app_nil_r. now destruct t0.
  - cbn [map fold_opt step_token]. rewrite merge_block_body by (apply H; now left).
    rewrite IH by (intros; apply H; now right). cbn [w_root_key_id w_authority w_blocks w_proof].
    now rewrite <- app_assoc.
Qed.

Lemma token_fields_canonical : forall t, wtoken_ok t = true -> Forall canonical (token_fields t).
Proof.
  intros t H. destruct (wtoken_ok_parts t H) as (Hid & Ha & Hbs & Hp).
  assert (Hl : encoded_len t < two64) by (unfold wtoken_ok in H; apply andb_true_iff in H as [_ H]; now apply N.ltb_lt in H).
  unfold token_fields. apply Forall_app. split; [|apply Forall_app; split; [|apply Forall_app; split]].
  - destruct (w_root_key_id t) as [v|]; [|constructor]. repeat constructor; cbn [canonical]; try lia.
    unfold two32, two64 in *. lia.
  - repeat constructor; cbn [canonical]; try lia. rewrite body_block_len by exact Ha.
    destruct Ha as (_ & _ & _ & Hx). exact Hx.
  - apply Forall_forall. intros f Hf. apply in_map_iff in Hf as (b & <- & Hb). cbn [canonical].
    repeat split; try lia. rewrite body_block_len by (now apply Hbs). destruct (Hbs b Hb) as (_ & _ & _ & Hx). exact Hx.
  - repeat constructor; cbn [canonical]; try lia. now rewrite body_proof_len.
Qed.

Theorem decode_encode : forall t, wtoken_ok t = true -> decode (encode t) = Some t.
Proof.
  intros t H. destruct (wtoken_ok_parts t H) as (Hid & Ha & Hbs & Hp).
  unfold decode, encode. rewrite fields_of_enc by (now apply token_fields_canonical).
  destruct t as [kid a bs p]. cbn [w_root_key_id w_authority w_blocks w_proof] in *.
  unfold token_fields, recursion_limit. cbn [w_root_key_id w_authority w_blocks w_proof].
  destruct kid as [v|]; cbn [app fold_opt step_token wtoken0 w_root_key_id w_authority w_blocks w_proof];
    rewrite (merge_block_body a 97 Ha); cbn [w_root_key_id w_authority w_blocks w_proof];
    rewrite fold_opt_app, (fold_blocks bs 96 _ Hbs);
    cbn [fold_opt step_token w_root_key_id w_authority w_blocks w_proof app];
    rewrite (merge_proof_body p 99 Hp); rewrite ?to_u32_small by exact Hid; reflexivity.
Qed.

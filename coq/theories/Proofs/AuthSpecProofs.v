(* Exec refines Spec for checks and policies (C04): on a saturated world the list-based,
   first-match evaluation computes the declarative reading of Spec/AuthSpec.v. *)
From Biscuit Require Import Spec.AuthSpec Proofs.ValueProofs Proofs.DatalogProofs Proofs.AuthProofs.

Section Refine.
Variable orc : oracles.
Variables (W : world) (m : nat) (fs : list ofact).
Hypothesis Hs : saturate orc m (w_rules W) (w_facts W) = Ok (Some fs).

Lemma in_fs_visible tr p : In p fs -> osubset (fst p) tr = true -> Visible orc W tr (snd p).
Proof.
  intros I V. destruct (saturate_exact orc _ _ _ Hs) as [S _]. destruct p as [o f].
  exists o. split; [apply S; assumption|]. apply osubset_spec. assumption.
Qed.

Lemma visible_in_fs tr f : Visible orc W tr f -> exists o, In (o, f) fs /\ osubset o tr = true.
Proof.
  intros [o [D V]]. destruct (saturate_exact orc _ _ _ Hs) as [_ C].
  destruct (C _ _ D) as [o' [I E]]. exists o'. split; [assumption|].
  apply osubset_spec. intros x Hx. apply V. apply E. assumption.
Qed.

(* bindings over the fact list = bindings over the derivable facts *)
Lemma binding_iff tr q s : holds_binding fs tr q s <-> Binding orc W tr q s.
Proof.
  split.
  - intros [picks [Hp Hm]]. exists (map snd picks). split; [|assumption].
    apply Forall_forall. intros f Hf. apply in_map_iff in Hf. destruct Hf as [p [<- Ip]].
    destruct (Hp p Ip) as [I V]. apply in_fs_visible; assumption.
  - intros [facts [Hv Hm]].
    assert (exists picks, map snd picks = facts /\ forall p, In p picks -> In p fs /\ osubset (fst p) tr = true)
      as [picks [E Hp]].
    { clear Hm. induction Hv as [|f l Hf _ IH]; [exists []; split; [reflexivity|intros ? []]|].
      destruct IH as [picks [E Hp]]. destruct (visible_in_fs _ _ Hf) as [o [I V]].
      exists ((o, f) :: picks). split; [cbn; congruence|]. intros p [<-|Ip]; [split; assumption|apply Hp; assumption]. }
    exists picks. split; [assumption|rewrite E; assumption].
Qed.

Theorem find_match_refines tr q b :
  find_match orc fs tr q = Ok b -> (b = true <-> Matches orc W tr q).
Proof.
  intro H. rewrite (find_match_spec _ _ _ _ _ H). unfold Matches. split.
  - intros [s [vs [A B]]]. exists s, vs. split; [apply binding_iff; assumption|assumption].
  - intros [s [vs [A B]]]. exists s, vs. split; [apply binding_iff; assumption|assumption].
Qed.

Theorem check_match_all_refines tr q b :
  check_match_all orc fs tr q = Ok b -> (b = true <-> MatchesAll orc W tr q).
Proof.
  intro H. rewrite (check_match_all_spec _ _ _ _ _ H). unfold MatchesAll. split.
  - intros [[s A] B]. split; [exists s; apply binding_iff; assumption|].
    intros s0 A0. apply B. apply binding_iff. assumption.
  - intros [[s A] B]. split; [exists s; apply binding_iff; assumption|].
    intros s0 A0. apply B. apply binding_iff. assumption.
Qed.

(* CHECKS: whatever the order of evaluation, an error-free check evaluation returns the
   declarative truth value *)
Theorem check_refines default cur km c b :
  check_passes orc true fs default cur km c = Ok b ->
  (b = true <-> CheckHolds orc W default cur km c).
Proof.
  intro H. unfold CheckHolds. destruct (ckind c) eqn:K.
  - (* check if *)
    assert (ckind c <> CkReject) as N by congruence.
    rewrite (check_one_all_spec _ _ _ _ _ _ _ N H). rewrite K. cbn [query_holds].
    unfold check_passes in H. rewrite K in H.
    split.
    + intros [q [I Q]]. exists q. split; [assumption|]. apply (find_match_refines _ _ true Q). reflexivity.
    + intros [q [I Q]].
      (* the alternative that matches declaratively either was evaluated (then it returned
         true) or an earlier one already succeeded *)
      revert H I Q. generalize (cqueries c) as qs. induction qs as [|q0 qs IH]; intros H I Q; [destruct I|].
      cbn [any_query] in H. cbn [query_holds] in H.
      destruct (find_match orc fs (from_scopes (rscopes q0) default cur km) q0) as [[|]|] eqn:F; try discriminate.
      * exists q0. split; [left; reflexivity|assumption].
      * destruct I as [<-|I].
        -- apply (find_match_refines _ _ false F) in Q. discriminate.
        -- destruct (IH H I Q) as [q1 [I1 Q1]]. exists q1. split; [right; assumption|assumption].
  - (* check all *)
    assert (ckind c <> CkReject) as N by congruence.
    rewrite (check_one_all_spec _ _ _ _ _ _ _ N H). rewrite K. cbn [query_holds].
    unfold check_passes in H. rewrite K in H.
    split.
    + intros [q [I Q]]. exists q. split; [assumption|]. apply (check_match_all_refines _ _ true Q). reflexivity.
    + intros [q [I Q]].
      revert H I Q. generalize (cqueries c) as qs. induction qs as [|q0 qs IH]; intros H I Q; [destruct I|].
      cbn [any_query] in H. cbn [query_holds] in H.
      destruct (check_match_all orc fs (from_scopes (rscopes q0) default cur km) q0) as [[|]|] eqn:F; try discriminate.
      * exists q0. split; [left; reflexivity|assumption].
      * destruct I as [<-|I].
        -- apply (check_match_all_refines _ _ false F) in Q. discriminate.
        -- destruct (IH H I Q) as [q1 [I1 Q1]]. exists q1. split; [right; assumption|assumption].
  - (* reject if *)
    rewrite (reject_spec _ _ _ _ _ _ _ K H). split.
    + intros [Ne A]. split; [assumption|]. intros q I Q. specialize (A q I).
      apply (find_match_refines _ _ false A) in Q. discriminate.
    + intros [Ne A]. split; [assumption|]. intros q I.
      (* every alternative was evaluated: an error-free reject check visits all of them
         unless one matches, which the declarative side excludes *)
      unfold check_passes in H. rewrite K in H.
      destruct (cqueries c) as [|q0 qs0] eqn:Q0; [contradiction|]. rewrite <- Q0 in *. clear Q0 Ne.
      revert H I A. generalize (cqueries c) as qs. induction qs as [|q1 qs IH]; intros H I A; [destruct I|].
      cbn [all_queries] in H. cbn [query_holds] in H.
      destruct (find_match orc fs (from_scopes (rscopes q1) default cur km) q1) as [[|]|] eqn:F; try discriminate.
      * exfalso. apply (A q1 (or_introl eq_refl)). apply (find_match_refines _ _ true F). reflexivity.
      * destruct I as [<-|I]; [assumption|]. cbn [negb] in H.
        apply (IH H I). intros q2 I2. apply A. right; assumption.
Qed.

(* POLICIES *)
Theorem policy_refines default km p b :
  any_query orc CkOne fs default auth_id km (pqueries p) = Ok b ->
  (b = true <-> PolicyMatches orc W default km p).
Proof.
  intro H. unfold PolicyMatches.
  revert b H. generalize (pqueries p) as qs. induction qs as [|q0 qs IH]; intros b H; cbn [any_query] in H.
  - inversion H; subst. split; [discriminate|intros [q [[] _]]].
  - cbn [query_holds] in H.
    destruct (find_match orc fs (from_scopes (rscopes q0) default auth_id km) q0) as [[|]|] eqn:F; try discriminate.
    + inversion H; subst. split; [|reflexivity]. intros _. exists q0. split; [left; reflexivity|].
      apply (find_match_refines _ _ true F). reflexivity.
    + rewrite (IH _ H). split.
      * intros [q [I Q]]. exists q. split; [right; assumption|assumption].
      * intros [q [[<-|I] Q]]; [apply (find_match_refines _ _ false F) in Q; discriminate|].
        exists q. split; assumption.
Qed.

End Refine.

(* Proofs about the key codec model (C17). *)
From Biscuit Require Import Model.KeyCodec.
Local Open Scope N_scope.

(* ------------------------------------------------------------------ vocabulary *)

Definition byte_ok (x : N) : Prop := x < 256.
Definition all_bytes (b : bytes) : Prop := Forall byte_ok b.

(* '0'..'9' | 'a'..'f' *)
Definition is_lower_hex (c : N) : bool :=
  ((48 <=? c) && (c <=? 57)) || ((97 <=? c) && (c <=? 102)).

(* ASCII lower-casing of 'A'..'F' (the only upper-case characters hex accepts) *)
Definition hex_lower (c : N) : N := if (65 <=? c) && (c <=? 70) then c + 32 else c.

(* a public key the decoder itself produces: decoding its bytes gives it back *)
Definition wf_pub (O : oracles) (k : pubkey) : Prop :=
  pub_from_bytes O (pub_alg k) (pub_to_bytes k) = KOk k /\ all_bytes (pub_to_bytes k).

Definition wf_priv (O : oracles) (k : privkey) : Prop :=
  priv_from_bytes O (priv_alg k) (priv_to_bytes k) = KOk k /\ all_bytes (priv_to_bytes k).

(* ------------------------------------------------------------------ hex digits *)

Lemma lt16_cases n : n < 16 ->
  n = 0 \/ n = 1 \/ n = 2 \/ n = 3 \/ n = 4 \/ n = 5 \/ n = 6 \/ n = 7 \/ n = 8 \/ n = 9 \/
  n = 10 \/ n = 11 \/ n = 12 \/ n = 13 \/ n = 14 \/ n = 15.
Proof. lia. Qed.

Lemma hex_val_digit n : n < 16 -> hex_val (hex_digit n) = Some n.
Proof.
  intro H. apply lt16_cases in H.
  repeat (destruct H as [H | H]; [subst n; reflexivity|]). subst n; reflexivity.
Qed.

Lemma hex_digit_lower n : n < 16 -> is_lower_hex (hex_digit n) = true.
Proof.
  intro H. apply lt16_cases in H.
  repeat (destruct H as [H | H]; [subst n; reflexivity|]). subst n; reflexivity.
Qed.

Lemma hex_val_inv c v : hex_val c = Some v ->
  v < 16 /\ hex_digit v = hex_lower c.
Proof.
  unfold hex_val, hex_lower.
  destruct ((65 <=? c) && (c <=? 70)) eqn:E1.
  { apply andb_prop in E1 as [A B]. apply N.leb_le in A, B. intro H; inversion H; subst v.
    split; [lia|]. unfold hex_digit. destruct (c - 55 <? 10) eqn:L; [apply N.ltb_lt in L; lia | lia]. }
  destruct ((97 <=? c) && (c <=? 102)) eqn:E2.
  { apply andb_prop in E2 as [A B]. apply N.leb_le in A, B. intro H; inversion H; subst v.
    split; [lia|]. unfold hex_digit. destruct (c - 87 <? 10) eqn:L; [apply N.ltb_lt in L; lia | lia]. }
  destruct ((48 <=? c) && (c <=? 57)) eqn:E3.
  { apply andb_prop in E3 as [A B]. apply N.leb_le in A, B. intro H; inversion H; subst v.
    split; [lia|]. unfold hex_digit. destruct (c - 48 <? 10) eqn:L; [lia | apply N.ltb_ge in L; lia]. }
  discriminate.
Qed.

Lemma hex_val_lt c v : hex_val c = Some v -> v < 16.
Proof. intro H. apply hex_val_inv in H. tauto. Qed.

Lemma lower_hex_is_hex c : is_lower_hex c = true -> is_hex_char c = true.
Proof.
  unfold is_lower_hex, is_hex_char, hex_val. intro H.
  apply orb_prop in H as [H | H]; apply andb_prop in H as [A B]; apply N.leb_le in A, B.
  - replace ((65 <=? c) && (c <=? 70)) with false
      by (symmetry; apply andb_false_iff; left; apply N.leb_gt; lia).
    replace ((97 <=? c) && (c <=? 102)) with false
      by (symmetry; apply andb_false_iff; left; apply N.leb_gt; lia).
    replace ((48 <=? c) && (c <=? 57)) with true
      by (symmetry; apply andb_true_iff; split; apply N.leb_le; lia).
    reflexivity.
  - replace ((65 <=? c) && (c <=? 70)) with false
      by (symmetry; apply andb_false_iff; right; apply N.leb_gt; lia).
    replace ((97 <=? c) && (c <=? 102)) with true
      by (symmetry; apply andb_true_iff; split; apply N.leb_le; lia).
    reflexivity.
Qed.

Lemma byte_div16 x : byte_ok x -> x / 16 < 16.
Proof. unfold byte_ok. intro H. apply N.div_lt_upper_bound; lia. Qed.

Lemma byte_mod16 x : x mod 16 < 16.
Proof. apply N.mod_lt. lia. Qed.

(* ------------------------------------------------------------------ induction two by two *)

Lemma pair_ind (P : bytes -> Prop) :
  P [] -> (forall a, P [a]) -> (forall a b r, P r -> P (a :: b :: r)) -> forall l, P l.
Proof.
  intros H0 H1 H2.
  assert (G : forall l, P l /\ forall a, P (a :: l)).
  { induction l as [|x l [IH1 IH2]]; split; auto. }
  intro l. apply G.
Qed.

(* ------------------------------------------------------------------ encode *)

Lemma hex_encode_length b : length (hex_encode b) = (2 * length b)%nat.
Proof. induction b as [|x r IH]; cbn [hex_encode length]; [reflexivity | rewrite IH; lia]. Qed.

Lemma odd_double n : Nat.odd (2 * n) = false.
Proof.
  rewrite <- Nat.negb_even. rewrite Nat.even_mul. reflexivity.
Qed.

Lemma hex_encode_lower b : all_bytes b -> Forall (fun c => is_lower_hex c = true) (hex_encode b).
Proof.
  induction 1 as [|x r Hx _ IH]; cbn [hex_encode]; [constructor|].
  constructor; [apply hex_digit_lower, byte_div16, Hx|].
  constructor; [apply hex_digit_lower, byte_mod16 | exact IH].
Qed.

Lemma hex_encode_all_hex b : all_bytes b -> forallb is_hex_char (hex_encode b) = true.
Proof.
  intro H. apply forallb_forall. intros c Hc.
  apply lower_hex_is_hex. pose proof (hex_encode_lower b H) as F.
  rewrite Forall_forall in F. apply F, Hc.
Qed.

Lemma hex_encode_nonempty b : b <> [] -> hex_encode b <> [].
Proof. destruct b; [congruence | cbn [hex_encode]; discriminate]. Qed.

(* ------------------------------------------------------------------ decode (encode b) = b *)

Lemma hex_decode_from_encode b : all_bytes b -> forall idx, hex_decode_from idx (hex_encode b) = HOk b.
Proof.
  induction 1 as [|x r Hx _ IH]; intro idx; [reflexivity|].
  cbn [hex_encode hex_decode_from].
  rewrite (hex_val_digit _ (byte_div16 x Hx)), (hex_val_digit _ (byte_mod16 x)), IH.
  f_equal. f_equal. rewrite (N.div_mod' x 16) at 3. reflexivity.
Qed.

Lemma hex_roundtrip b : all_bytes b -> hex_decode (hex_encode b) = HOk b.
Proof.
  intro H. unfold hex_decode. rewrite hex_encode_length, odd_double.
  apply hex_decode_from_encode, H.
Qed.

(* ------------------------------------------------------------------ what decode accepts *)

Lemma hex_decode_odd s : Nat.odd (length s) = true -> hex_decode s = HErr HexOdd.
Proof. intro H. unfold hex_decode. rewrite H. reflexivity. Qed.

Lemma hex_decode_from_ok : forall (s : bytes) idx b, hex_decode_from idx s = HOk b ->
  length s = (2 * length b)%nat /\ forallb is_hex_char s = true /\ all_bytes b /\
  hex_encode b = map hex_lower s.
Proof.
  intro s. induction s as [| a | a c r IH] using pair_ind; intros idx b H.
  - cbn in H. inversion H. repeat split; constructor.
  - cbn in H. discriminate.
  - cbn [hex_decode_from] in H.
    destruct (hex_val a) as [x|] eqn:Ea; [|discriminate].
    destruct (hex_val c) as [y|] eqn:Ec; [|discriminate].
    destruct (hex_decode_from (idx + 2) r) as [l|e] eqn:Er; [|discriminate].
    assert (Hb : b = 16 * x + y :: l) by (injection H; auto). subst b. clear H.
    destruct (IH _ _ Er) as (L & F & B & E).
    apply hex_val_inv in Ea as Ia. apply hex_val_inv in Ec as Ic.
    destruct Ia as [Xlt Xd], Ic as [Ylt Yd].
    split; [cbn [length]; lia|].
    split; [cbn [forallb]; unfold is_hex_char at 1 2; rewrite Ea, Ec; exact F|].
    split; [constructor; [unfold byte_ok; lia | exact B]|].
    cbn [hex_encode map]. rewrite E.
    replace ((16 * x + y) / 16) with x
      by (symmetry; rewrite N.mul_comm, N.div_add_l by lia; rewrite (N.div_small y 16) by lia; lia).
    replace ((16 * x + y) mod 16) with y
      by (symmetry; rewrite N.add_comm, N.mul_comm, N.mod_add by lia; apply N.mod_small; lia).
    rewrite Xd, Yd. reflexivity.
Qed.

Lemma hex_decode_ok s b : hex_decode s = HOk b ->
  length s = (2 * length b)%nat /\ forallb is_hex_char s = true /\ all_bytes b /\
  hex_encode b = map hex_lower s.
Proof.
  unfold hex_decode. destruct (Nat.odd (length s)); [discriminate|]. apply hex_decode_from_ok.
Qed.

Lemma hex_decode_from_total : forall (s : bytes) idx, Nat.odd (length s) = false ->
  forallb is_hex_char s = true -> exists b, hex_decode_from idx s = HOk b.
Proof.
  intro s. induction s as [| a | a c r IH] using pair_ind; intros idx Ho Hf.
  - exists []. reflexivity.
  - cbn in Ho. discriminate.
  - cbn [forallb] in Hf. apply andb_prop in Hf as [Ha Hf]. apply andb_prop in Hf as [Hc Hf].
    cbn [hex_decode_from]. unfold is_hex_char in Ha, Hc.
    destruct (hex_val a) as [x|]; [|discriminate]. destruct (hex_val c) as [y|]; [|discriminate].
    assert (Ho' : Nat.odd (length r) = false).
    { cbn [length] in Ho. rewrite Nat.odd_succ, Nat.even_succ in Ho. exact Ho. }
    destruct (IH (idx + 2) Ho' Hf) as [l El]. rewrite El. eexists; reflexivity.
Qed.

Lemma hex_decode_nonhex s c : In c s -> is_hex_char c = false -> exists e, hex_decode s = HErr e.
Proof.
  intros Hin Hc. destruct (hex_decode s) as [b|e] eqn:E; [|eexists; reflexivity].
  apply hex_decode_ok in E as (_ & F & _). rewrite forallb_forall in F.
  rewrite (F c Hin) in Hc. discriminate.
Qed.

(* decoding a concatenation whose first part decodes *)
Lemma hex_decode_from_app : forall (h : bytes) idx kb t, hex_decode_from idx h = HOk kb ->
  hex_decode_from idx (h ++ t) =
  match hex_decode_from (idx + N.of_nat (length h)) t with
  | HOk l => HOk (kb ++ l)
  | HErr e => HErr e
  end.
Proof.
  intro h. induction h as [| a | a c r IH] using pair_ind; intros idx kb t H.
  - cbn in H. inversion H. cbn [app length N.of_nat]. rewrite N.add_0_r.
    destruct (hex_decode_from idx t); reflexivity.
  - cbn in H. discriminate.
  - cbn [hex_decode_from] in H. cbn [app hex_decode_from].
    destruct (hex_val a) as [x|]; [|discriminate]. destruct (hex_val c) as [y|]; [|discriminate].
    destruct (hex_decode_from (idx + 2) r) as [l|e] eqn:Er; [|discriminate].
    assert (Hb : kb = 16 * x + y :: l) by (injection H; auto). subst kb. clear H.
    rewrite (IH _ _ t Er).
    replace (idx + N.of_nat (length (a :: c :: r))) with (idx + 2 + N.of_nat (length r))
      by (cbn [length]; lia).
    destruct (hex_decode_from (idx + 2 + N.of_nat (length r)) t); reflexivity.
Qed.

Lemma odd_add_even n m : Nat.odd n = false -> Nat.odd (n + m) = Nat.odd m.
Proof. intro H. rewrite Nat.odd_add, H. apply xorb_false_l. Qed.

(* an accepted hex string followed by more input: refused, or decodes to strictly more bytes *)
Lemma hex_decode_extend h kb t : hex_decode h = HOk kb -> t <> [] ->
  (exists e, hex_decode (h ++ t) = HErr e) \/
  (exists l, l <> [] /\ hex_decode (h ++ t) = HOk (kb ++ l)).
Proof.
  intros H Ht. unfold hex_decode in *.
  destruct (Nat.odd (length h)) eqn:Oh; [discriminate|].
  rewrite app_length, (odd_add_even _ _ Oh).
  destruct (Nat.odd (length t)) eqn:Ot; [left; eexists; reflexivity|].
  rewrite (hex_decode_from_app _ _ _ t H).
  destruct (hex_decode_from (0 + N.of_nat (length h)) t) as [l|e] eqn:El; [|left; eexists; reflexivity].
  right. exists l. split; [|reflexivity].
  apply hex_decode_from_ok in El as (L & _). intro; subst l. cbn in L.
  destruct t; [congruence | discriminate].
Qed.

(* ------------------------------------------------------------------ prefixes and spans *)

Lemma strip_prefix_app p s : strip_prefix p (p ++ s) = Some s.
Proof. induction p as [|x p IH]; cbn; [reflexivity | rewrite N.eqb_refl; exact IH]. Qed.

Lemma strip_prefix_some : forall p s r, strip_prefix p s = Some r -> s = p ++ r.
Proof.
  induction p as [|x p IH]; intros s r H; cbn in H.
  - inversion H. reflexivity.
  - destruct s as [|y s]; [discriminate|].
    destruct (x =? y) eqn:E; [|discriminate]. apply N.eqb_eq in E. subst y.
    cbn. f_equal. apply IH, H.
Qed.

Lemma strip_prefix_is_prefix : forall p s, strip_prefix p s = None <-> is_prefix p s = false.
Proof.
  induction p as [|x p IH]; intros s; cbn.
  - split; discriminate.
  - destruct s as [|y s]; [tauto|].
    destruct (x =? y); cbn; [apply IH | tauto].
Qed.

Lemma span_hex_spec : forall s h t, span_hex s = (h, t) ->
  s = h ++ t /\ forallb is_hex_char h = true /\
  (t = [] \/ exists c r, t = c :: r /\ is_hex_char c = false).
Proof.
  induction s as [|c r IH]; intros h t H; cbn in H.
  - inversion H. repeat split. left; reflexivity.
  - destruct (is_hex_char c) eqn:E.
    + destruct (span_hex r) as [h' t'] eqn:S. inversion H; subst h t.
      destruct (IH _ _ eq_refl) as (A & B & C). subst r.
      repeat split; [cbn; rewrite E; exact B | exact C].
    + inversion H; subst h t. repeat split. right. exists c, r. auto.
Qed.

Lemma span_hex_app : forall h t, forallb is_hex_char h = true ->
  span_hex (h ++ t) = (h ++ fst (span_hex t), snd (span_hex t)).
Proof.
  induction h as [|c h IH]; intros t H; cbn [app].
  - destruct (span_hex t); reflexivity.
  - cbn [forallb] in H. apply andb_prop in H as [Hc Hh].
    cbn [span_hex]. rewrite Hc, (IH t Hh). reflexivity.
Qed.

Lemma span_hex_all h : forallb is_hex_char h = true -> span_hex h = (h, []).
Proof.
  intro H. rewrite <- (app_nil_r h) at 1. rewrite (span_hex_app h [] H). cbn. rewrite app_nil_r. reflexivity.
Qed.

(* ------------------------------------------------------------------ algorithms *)

Lemma alg_of_name_name a : alg_of_name (alg_name a) = Some a.
Proof. destruct a; reflexivity. Qed.

Lemma bytes_eqb_eq : forall a b, bytes_eqb a b = true -> a = b.
Proof.
  induction a as [|x a IH]; destruct b as [|y b]; cbn; intro H; try discriminate; [reflexivity|].
  apply andb_prop in H as [E H]. apply N.eqb_eq in E. subst y. f_equal. apply IH, H.
Qed.

Lemma alg_of_name_inv s a : alg_of_name s = Some a -> s = alg_name a.
Proof.
  unfold alg_of_name.
  destruct (bytes_eqb s (alg_name Ed25519)) eqn:E1.
  { intro H; inversion H. apply bytes_eqb_eq, E1. }
  destruct (bytes_eqb s (alg_name Secp256r1)) eqn:E2; [|discriminate].
  intro H; inversion H. apply bytes_eqb_eq, E2.
Qed.

Lemma alg_of_num_num a : alg_of_num (alg_num a) = Some a.
Proof. destruct a; reflexivity. Qed.

Lemma alg_of_num_inv n a : alg_of_num n = Some a -> n = alg_num a.
Proof.
  unfold alg_of_num. destruct (n =? 0)%Z eqn:E0.
  { intro H; inversion H. apply Z.eqb_eq in E0. subst; reflexivity. }
  destruct (n =? 1)%Z eqn:E1; [|discriminate].
  intro H; inversion H. apply Z.eqb_eq in E1. subst; reflexivity.
Qed.

Lemma alg_of_num_unknown n : n <> 0%Z -> n <> 1%Z -> alg_of_num n = None.
Proof.
  intros H0 H1. unfold alg_of_num.
  destruct (n =? 0)%Z eqn:E0; [apply Z.eqb_eq in E0; contradiction|].
  destruct (n =? 1)%Z eqn:E1; [apply Z.eqb_eq in E1; contradiction|]. reflexivity.
Qed.

(* the textual prefixes exclude each other, whatever follows *)
Lemma parse_ed_on_secp x : parse_key_with Ed25519 (alg_name Secp256r1 ++ x) = None.
Proof. reflexivity. Qed.

Lemma parse_secp_on_ed x : parse_key_with Secp256r1 (alg_name Ed25519 ++ x) = None.
Proof. reflexivity. Qed.

(* ------------------------------------------------------------------ raw bytes *)

Lemma len_is_true b n : len_is b n = true <-> length b = n.
Proof. unfold len_is. apply Nat.eqb_eq. Qed.

Lemma len_is_false b n : length b <> n -> len_is b n = false.
Proof. unfold len_is. apply Nat.eqb_neq. Qed.

Lemma sec1_shape_length b : sec1_shape_ok b = true -> length b = 33%nat \/ length b = 65%nat.
Proof.
  destruct b as [|t r]; cbn [sec1_shape_ok]; [discriminate|]. intro H.
  apply orb_prop in H as [H | H]; apply andb_prop in H as [_ L]; apply len_is_true in L;
    cbn [length]; lia.
Qed.

Lemma sec1_shape_extend b l : sec1_shape_ok b = true -> l <> [] -> sec1_shape_ok (b ++ l) = false.
Proof.
  destruct b as [|t r]; cbn [sec1_shape_ok app]; [discriminate|]. intros H Hl.
  assert (Ll : (length l > 0)%nat) by (destruct l; [congruence | cbn; lia]).
  apply orb_prop in H as [H | H]; apply andb_prop in H as [T L]; apply len_is_true in L.
  - rewrite (len_is_false (r ++ l) 32) by (rewrite app_length; lia).
    rewrite andb_false_r. cbn [orb].
    apply andb_false_iff. destruct (t =? 4) eqn:E4; [|left; reflexivity].
    apply N.eqb_eq in E4. subst t. cbn in T. discriminate.
  - rewrite (len_is_false (r ++ l) 64) by (rewrite app_length; lia).
    rewrite andb_false_r, orb_false_r.
    apply N.eqb_eq in T. subst t. reflexivity.
Qed.

Lemma pub_from_bytes_alg O a b k : pub_from_bytes O a b = KOk k -> pub_alg k = a.
Proof.
  destruct a; cbn [pub_from_bytes].
  - destruct (len_is b 32); [|discriminate]. destruct (point_decode O Ed25519 b); [|discriminate].
    intro H; inversion H; reflexivity.
  - destruct (sec1_shape_ok b); [|discriminate]. destruct (point_decode O Secp256r1 b); [|discriminate].
    intro H; inversion H; reflexivity.
Qed.

Lemma pub_from_bytes_ok_length O a b k : pub_from_bytes O a b = KOk k ->
  match a with
  | Ed25519 => length b = 32%nat
  | Secp256r1 => sec1_shape_ok b = true /\ (length b = 33%nat \/ length b = 65%nat)
  end.
Proof.
  destruct a; cbn [pub_from_bytes].
  - destruct (len_is b 32) eqn:L; [|discriminate]. intros _. apply len_is_true, L.
  - destruct (sec1_shape_ok b) eqn:S; [|discriminate]. intros _. split; [reflexivity|].
    apply sec1_shape_length, S.
Qed.

Lemma pub_from_bytes_ed_wrong_length O b : length b <> 32%nat ->
  pub_from_bytes O Ed25519 b = KErr (KInvalidKeySize (N.of_nat (length b))).
Proof. intro H. cbn [pub_from_bytes]. rewrite (len_is_false _ _ H). reflexivity. Qed.

Lemma pub_from_bytes_secp_wrong_length O b : length b <> 33%nat -> length b <> 65%nat ->
  pub_from_bytes O Secp256r1 b = KErr KInvalidKey.
Proof.
  intros H1 H2. cbn [pub_from_bytes]. destruct (sec1_shape_ok b) eqn:S; [|reflexivity].
  apply sec1_shape_length in S. lia.
Qed.

Lemma pub_from_bytes_extend O a b k l : pub_from_bytes O a b = KOk k -> l <> [] ->
  exists e, pub_from_bytes O a (b ++ l) = KErr e.
Proof.
  intros H Hl. pose proof (pub_from_bytes_ok_length _ _ _ _ H) as L.
  assert (Ll : (length l > 0)%nat) by (destruct l; [congruence | cbn; lia]).
  destruct a.
  - rewrite pub_from_bytes_ed_wrong_length by (rewrite app_length; lia). eexists; reflexivity.
  - destruct L as [S _]. cbn [pub_from_bytes]. rewrite (sec1_shape_extend _ _ S Hl). eexists; reflexivity.
Qed.

Lemma pub_cross_algorithm O a a' b k : pub_from_bytes O a b = KOk k -> a' <> a ->
  exists e, pub_from_bytes O a' b = KErr e.
Proof.
  intros H Hne. pose proof (pub_from_bytes_ok_length _ _ _ _ H) as L.
  destruct a, a'; try congruence.
  - rewrite pub_from_bytes_secp_wrong_length by lia. eexists; reflexivity.
  - destruct L as [_ L]. rewrite pub_from_bytes_ed_wrong_length by lia. eexists; reflexivity.
Qed.

(* ------------------------------------------------------------------ the parser *)

Lemma parse_key_with_inv a s a' k rest : parse_key_with a s = Some (a', k, rest) ->
  a' = a /\ exists h, s = alg_name a ++ slash :: h ++ rest /\ h <> [] /\ hex_decode h = HOk k /\
    forallb is_hex_char h = true /\ (rest = [] \/ exists c r, rest = c :: r /\ is_hex_char c = false).
Proof.
  unfold parse_key_with.
  destruct (strip_prefix (alg_name a ++ [slash]) s) as [r|] eqn:P; [|discriminate].
  destruct (span_hex r) as [h t] eqn:S.
  destruct h as [|c h]; [discriminate|].
  destruct (hex_decode (c :: h)) as [kb|] eqn:D; [|discriminate].
  intro H; inversion H; subst a' k rest. split; [reflexivity|].
  apply strip_prefix_some in P. apply span_hex_spec in S as (A & B & C).
  exists (c :: h). subst r. rewrite P, <- app_assoc. cbn [app].
  split; [reflexivity|]. split; [discriminate|]. split; [exact D|]. split; [exact B | exact C].
Qed.

Lemma parse_public_key_inv s a k rest : parse_public_key s = Some (a, k, rest) ->
  exists h, s = alg_name a ++ slash :: h ++ rest /\ h <> [] /\ hex_decode h = HOk k /\
    forallb is_hex_char h = true /\ (rest = [] \/ exists c r, rest = c :: r /\ is_hex_char c = false).
Proof.
  unfold parse_public_key.
  destruct (parse_key_with Ed25519 s) as [[[a1 k1] r1]|] eqn:E.
  - intro H; inversion H; subst a1 k1 r1. apply parse_key_with_inv in E as [-> E]. exact E.
  - intro H. apply parse_key_with_inv in H as [-> H]. exact H.
Qed.

Lemma parse_key_with_build a h rest kb : h <> [] -> forallb is_hex_char h = true ->
  hex_decode h = HOk kb -> (rest = [] \/ exists c r, rest = c :: r /\ is_hex_char c = false) ->
  parse_key_with a (alg_name a ++ slash :: h ++ rest) = Some (a, kb, rest).
Proof.
  intros Hne Hh Hd Hr. unfold parse_key_with.
  replace (alg_name a ++ slash :: h ++ rest) with ((alg_name a ++ [slash]) ++ h ++ rest)
    by (rewrite <- app_assoc; reflexivity).
  rewrite strip_prefix_app, (span_hex_app h rest Hh).
  assert (S : span_hex rest = ([], rest)).
  { destruct Hr as [-> | (c & r & -> & Hc)]; [reflexivity | cbn; rewrite Hc; reflexivity]. }
  rewrite S. cbn [fst snd]. rewrite app_nil_r.
  destruct h as [|c h]; [congruence|]. rewrite Hd. reflexivity.
Qed.

Lemma parse_public_key_build a h rest kb : h <> [] -> forallb is_hex_char h = true ->
  hex_decode h = HOk kb -> (rest = [] \/ exists c r, rest = c :: r /\ is_hex_char c = false) ->
  parse_public_key (alg_name a ++ slash :: h ++ rest) = Some (a, kb, rest).
Proof.
  intros Hne Hh Hd Hr. unfold parse_public_key. destruct a.
  - rewrite (parse_key_with_build Ed25519 h rest kb Hne Hh Hd Hr). reflexivity.
  - rewrite parse_ed_on_secp. apply parse_key_with_build; assumption.
Qed.

Lemma parse_public_key_other_prefix s :
  is_prefix (alg_name Ed25519 ++ [slash]) s = false ->
  is_prefix (alg_name Secp256r1 ++ [slash]) s = false -> parse_public_key s = None.
Proof.
  intros H1 H2. apply strip_prefix_is_prefix in H1, H2.
  unfold parse_public_key, parse_key_with. rewrite H1, H2. reflexivity.
Qed.

Lemma parse_print k : all_bytes (pub_to_bytes k) -> pub_to_bytes k <> [] ->
  parse_public_key (print_prefixed k) = Some (pub_alg k, pub_to_bytes k, []).
Proof.
  intros Hb Hne. unfold print_prefixed.
  rewrite <- (app_nil_r (hex_encode (pub_to_bytes k))).
  apply parse_public_key_build.
  - apply hex_encode_nonempty, Hne.
  - apply hex_encode_all_hex, Hb.
  - apply hex_roundtrip, Hb.
  - left; reflexivity.
Qed.

(* ------------------------------------------------------------------ prefixed strings of public keys *)

Lemma wf_pub_nonempty O k : wf_pub O k -> pub_to_bytes k <> [].
Proof.
  intros [H _]. apply pub_from_bytes_ok_length in H. destruct (pub_alg k).
  - intro E. rewrite E in H. discriminate.
  - destruct H as [_ [H | H]]; intro E; rewrite E in H; discriminate.
Qed.

Lemma prefixed_roundtrip_gen strict O k : wf_pub O k -> pub_from_str_gen strict O (print_prefixed k) = KOk k.
Proof.
  intro W. unfold pub_from_str_gen.
  rewrite (parse_print k (proj2 W) (wf_pub_nonempty O k W)).
  cbn [is_nil negb]. rewrite andb_false_r. exact (proj1 W).
Qed.

Lemma prefixed_other_prefix strict O s :
  is_prefix (alg_name Ed25519 ++ [slash]) s = false ->
  is_prefix (alg_name Secp256r1 ++ [slash]) s = false ->
  pub_from_str_gen strict O s = KErr KInvalidKey.
Proof.
  intros H1 H2. unfold pub_from_str_gen. rewrite (parse_public_key_other_prefix s H1 H2). reflexivity.
Qed.

(* what the strict decoder accepts: exactly "<algorithm>/<hex of an accepted byte string>" *)
Lemma prefixed_accepts O s k : parse_prefixed O s = KOk k ->
  exists h kb, s = alg_name (pub_alg k) ++ slash :: h /\ hex_decode h = HOk kb /\
               pub_from_bytes O (pub_alg k) kb = KOk k.
Proof.
  unfold parse_prefixed, pub_from_str_gen.
  destruct (parse_public_key s) as [[[a kb] rest]|] eqn:P; [|discriminate].
  destruct rest as [|c r]; cbn [is_nil negb andb]; [|discriminate].
  intro H. apply parse_public_key_inv in P as (h & E & _ & D & _).
  rewrite app_nil_r in E. pose proof (pub_from_bytes_alg _ _ _ _ H) as A. rewrite A.
  exists h, kb. auto.
Qed.

Lemma impl_accepts O s k : pub_from_str_impl O s = KOk k ->
  exists h kb rest, s = alg_name (pub_alg k) ++ slash :: h ++ rest /\ hex_decode h = HOk kb /\
    h <> [] /\ forallb is_hex_char h = true /\ pub_from_bytes O (pub_alg k) kb = KOk k.
Proof.
  unfold pub_from_str_impl, pub_from_str_gen.
  destruct (parse_public_key s) as [[[a kb] rest]|] eqn:P; [|discriminate].
  cbn [andb]. intro H. apply parse_public_key_inv in P as (h & E & Hne & D & F & _).
  pose proof (pub_from_bytes_alg _ _ _ _ H) as A. rewrite A.
  exists h, kb, rest. auto.
Qed.

Lemma prefixed_wrong_length strict O s a kb rest : parse_public_key s = Some (a, kb, rest) ->
  match a with
  | Ed25519 => length kb <> 32%nat
  | Secp256r1 => length kb <> 33%nat /\ length kb <> 65%nat
  end ->
  exists e, pub_from_str_gen strict O s = KErr e.
Proof.
  intros P L. unfold pub_from_str_gen. rewrite P.
  destruct (strict && negb (is_nil rest)); [eexists; reflexivity|].
  destruct a.
  - rewrite (pub_from_bytes_ed_wrong_length O kb L). eexists; reflexivity.
  - destruct L as [L1 L2]. rewrite (pub_from_bytes_secp_wrong_length O kb L1 L2). eexists; reflexivity.
Qed.

(* the strict decoder refuses every proper extension of a string it accepts *)
Lemma prefixed_trailing O s k t : parse_prefixed O s = KOk k -> t <> [] ->
  exists e, parse_prefixed O (s ++ t) = KErr e.
Proof.
  intros H Ht. apply prefixed_accepts in H as (h & kb & Es & D & B).
  set (a := pub_alg k) in *.
  pose proof (hex_decode_ok _ _ D) as (Lh & Fh & _ & _).
  assert (Hne : h <> []).
  { intro; subst h. cbn in Lh. destruct kb; [|discriminate].
    apply pub_from_bytes_ok_length in B. destruct a; [discriminate | destruct B as [_ [? | ?]]; discriminate]. }
  subst s. rewrite <- app_assoc. cbn [app].
  unfold parse_prefixed, pub_from_str_gen.
  destruct (span_hex t) as [t1 t2] eqn:St.
  apply span_hex_spec in St as (Et & Ft1 & Ct2).
  destruct (parse_public_key (alg_name a ++ slash :: h ++ t)) as [[[a' kb'] rest']|] eqn:P;
    [|eexists; reflexivity].
  destruct rest' as [|c r]; cbn [is_nil negb andb]; [|eexists; reflexivity].
  (* the whole of h ++ t was consumed: it decodes to strictly more bytes *)
  apply parse_public_key_inv in P as (h' & E' & _ & D' & F' & _).
  rewrite app_nil_r in E'.
  assert (Ea : a' = a /\ h' = h ++ t).
  { destruct a, a'.
    - apply app_inv_head in E'. inversion E'. auto.
    - cbn in E'. discriminate.
    - cbn in E'. discriminate.
    - apply app_inv_head in E'. inversion E'. auto. }
  destruct Ea as [-> ->].
  destruct (hex_decode_extend h kb t D Ht) as [[e He] | (l & Hl & He)]; [congruence|].
  rewrite He in D'. inversion D'; subst kb'.
  apply (pub_from_bytes_extend O a kb k l B Hl).
Qed.

(* ------------------------------------------------------------------ faithful vs demanded decoder *)

Lemma strict_implies_impl O s k : parse_prefixed O s = KOk k -> pub_from_str_impl O s = KOk k.
Proof.
  unfold parse_prefixed, pub_from_str_impl, pub_from_str_gen.
  destruct (parse_public_key s) as [[[a kb] rest]|]; [|discriminate].
  destruct rest; cbn [is_nil negb andb]; [tauto | discriminate].
Qed.

Lemma impl_error_implies_strict O s e : pub_from_str_impl O s = KErr e -> exists e', parse_prefixed O s = KErr e'.
Proof.
  unfold parse_prefixed, pub_from_str_impl, pub_from_str_gen.
  destruct (parse_public_key s) as [[[a kb] rest]|]; [|eexists; reflexivity].
  destruct rest; cbn [is_nil negb andb]; intro H; eexists; [exact H | reflexivity].
Qed.

(* whatever the unchanged decoder accepts is an accepted string followed by a remainder
   that does not start with a hexadecimal character *)
Lemma impl_accepts_prefix O s k : pub_from_str_impl O s = KOk k ->
  exists s' t, s = s' ++ t /\ parse_prefixed O s' = KOk k /\
               (t = [] \/ exists c r, t = c :: r /\ is_hex_char c = false).
Proof.
  unfold pub_from_str_impl, pub_from_str_gen.
  destruct (parse_public_key s) as [[[a kb] rest]|] eqn:P; [|discriminate].
  cbn [andb]. intro H. apply parse_public_key_inv in P as (h & E & Hne & D & F & C).
  exists (alg_name a ++ slash :: h), rest. split.
  { rewrite E, <- app_assoc. reflexivity. }
  split; [|exact C].
  unfold parse_prefixed, pub_from_str_gen.
  rewrite <- (app_nil_r h).
  rewrite (parse_public_key_build a h [] kb Hne F D (or_introl eq_refl)).
  cbn [is_nil negb]. rewrite andb_false_r. exact H.
Qed.

(* ------------------------------------------------------------------ protobuf *)

Lemma proto_roundtrip O k : wf_pub O k -> pub_from_proto O (fst (pub_to_proto k)) (snd (pub_to_proto k)) = KOk k.
Proof.
  intros [H _]. unfold pub_from_proto, pub_to_proto. cbn [fst snd]. rewrite alg_of_num_num. exact H.
Qed.

Lemma proto_unknown_algorithm O n key : n <> 0%Z -> n <> 1%Z -> pub_from_proto O n key = KErr KDeserialization.
Proof. intros H0 H1. unfold pub_from_proto. rewrite (alg_of_num_unknown n H0 H1). reflexivity. Qed.

Lemma proto_dispatch O n key k : pub_from_proto O n key = KOk k ->
  n = alg_num (pub_alg k) /\ pub_from_bytes O (pub_alg k) key = KOk k.
Proof.
  unfold pub_from_proto. destruct (alg_of_num n) as [a|] eqn:E; [|discriminate].
  intro H. pose proof (pub_from_bytes_alg _ _ _ _ H) as A. rewrite A.
  split; [apply alg_of_num_inv; exact E | exact H].
Qed.

Lemma proto_cross_algorithm O k a' : wf_pub O k -> a' <> pub_alg k ->
  exists e, pub_from_proto O (alg_num a') (pub_to_bytes k) = KErr e.
Proof.
  intros [H _] Hne. unfold pub_from_proto. rewrite alg_of_num_num.
  apply (pub_cross_algorithm O _ a' _ _ H Hne).
Qed.

Lemma varint_small f n : n < 128 -> varint (S f) n = [n].
Proof. intro H. cbn [varint]. apply N.ltb_lt in H. rewrite H. reflexivity. Qed.

Lemma proto_wire_shape O k : wf_pub O k ->
  proto_wire (pub_to_proto k) =
  [8; Z.to_N (alg_num (pub_alg k)); 18; N.of_nat (length (pub_to_bytes k))] ++ pub_to_bytes k.
Proof.
  intros [H _]. apply pub_from_bytes_ok_length in H.
  unfold proto_wire, pub_to_proto.
  assert (L : N.of_nat (length (pub_to_bytes k)) < 128).
  { destruct (pub_alg k); [lia | destruct H as [_ [? | ?]]; lia]. }
  rewrite (varint_small 8 _ L).
  rewrite (varint_small 8) by (destruct (pub_alg k); cbn; lia).
  reflexivity.
Qed.

(* ------------------------------------------------------------------ private keys *)

Lemma split_once_name a x : split_once slash (alg_name a ++ slash :: x) = Some (alg_name a, x).
Proof. destruct a; reflexivity. Qed.

Lemma split_once_some : forall s c p r, split_once c s = Some (p, r) -> s = p ++ c :: r.
Proof.
  induction s as [|x s IH]; intros c p r H; cbn in H; [discriminate|].
  destruct (x =? c) eqn:E.
  - inversion H. apply N.eqb_eq in E. subst. reflexivity.
  - destruct (split_once c s) as [[p' q']|] eqn:S; [|discriminate].
    inversion H; subst. cbn. f_equal. apply IH, S.
Qed.

Lemma split_once_app : forall s c p r t, split_once c s = Some (p, r) ->
  split_once c (s ++ t) = Some (p, r ++ t).
Proof.
  induction s as [|x s IH]; intros c p r t H; cbn in H; [discriminate|].
  cbn [app split_once]. destruct (x =? c).
  - inversion H. reflexivity.
  - destruct (split_once c s) as [[p' q']|] eqn:S; [|discriminate].
    inversion H; subst. rewrite (IH _ _ _ t S). reflexivity.
Qed.

Lemma priv_from_bytes_ok O a b k : priv_from_bytes O a b = KOk k -> k = Priv a b /\ length b = 32%nat.
Proof.
  unfold priv_from_bytes. destruct (len_is b 32) eqn:L; [|discriminate].
  apply len_is_true in L. destruct a.
  - intro H; inversion H; auto.
  - destruct (scalar_ok O b); [|discriminate]. intro H; inversion H; auto.
Qed.

Lemma priv_from_bytes_wrong_length O a b : length b <> 32%nat ->
  priv_from_bytes O a b = KErr (KInvalidKeySize (N.of_nat (length b))).
Proof. intro H. unfold priv_from_bytes. rewrite (len_is_false _ _ H). reflexivity. Qed.

Lemma priv_roundtrip O k : wf_priv O k -> priv_from_str O (priv_print k) = KOk k.
Proof.
  intros [H B]. unfold priv_from_str, priv_print.
  rewrite split_once_name, alg_of_name_name. unfold priv_from_hex.
  rewrite (hex_roundtrip _ B). exact H.
Qed.

Lemma priv_accepts O s k : priv_from_str O s = KOk k ->
  exists h, s = alg_name (priv_alg k) ++ slash :: h /\ hex_decode h = HOk (priv_to_bytes k) /\
            length (priv_to_bytes k) = 32%nat /\ priv_from_bytes O (priv_alg k) (priv_to_bytes k) = KOk k.
Proof.
  unfold priv_from_str. destruct (split_once slash s) as [[p r]|] eqn:S; [|discriminate].
  destruct (alg_of_name p) as [a|] eqn:A; [|discriminate].
  unfold priv_from_hex. destruct (hex_decode r) as [b|] eqn:D; [|discriminate].
  intro H. destruct (priv_from_bytes_ok _ _ _ _ H) as [-> L]. cbn [priv_alg priv_to_bytes].
  apply split_once_some in S. apply alg_of_name_inv in A. subst p.
  exists r. auto.
Qed.

Lemma priv_trailing O s k t : priv_from_str O s = KOk k -> t <> [] ->
  exists e, priv_from_str O (s ++ t) = KErr e.
Proof.
  intros H Ht. unfold priv_from_str in *.
  destruct (split_once slash s) as [[p r]|] eqn:S; [|discriminate].
  rewrite (split_once_app _ _ _ _ t S).
  destruct (alg_of_name p) as [a|]; [|discriminate].
  unfold priv_from_hex in *. destruct (hex_decode r) as [b|] eqn:D; [|discriminate].
  destruct (priv_from_bytes_ok _ _ _ _ H) as [_ L].
  destruct (hex_decode_extend r b t D Ht) as [[e He] | (l & Hl & He)]; rewrite He.
  - eexists; reflexivity.
  - rewrite priv_from_bytes_wrong_length; [eexists; reflexivity|].
    rewrite app_length. destruct l; [congruence | cbn [length]; lia].
Qed.

Lemma priv_unknown_prefix O s : (forall a x, s <> alg_name a ++ slash :: x) ->
  priv_from_str O s = KErr KInvalidKey.
Proof.
  intro H. unfold priv_from_str.
  destruct (split_once slash s) as [[p r]|] eqn:S; [|reflexivity].
  destruct (alg_of_name p) as [a|] eqn:A; [|reflexivity].
  apply split_once_some in S. apply alg_of_name_inv in A. subst p. exfalso. apply (H a r S).
Qed.

(* ------------------------------------------------------------------ signatures *)

Lemma verify_ok_inv O k msg sg : verify_signature O k msg sg = KOk tt ->
  sig_valid O (pub_alg k) (pub_to_bytes k) msg sg = true /\
  match pub_alg k with Ed25519 => length sg = 64%nat | Secp256r1 => der_sig_ok O sg = true end.
Proof.
  destruct k as [[|] kb]; cbn [verify_signature pub_alg pub_to_bytes].
  - destruct (len_is sg 64) eqn:L; [|discriminate].
    destruct (sig_valid O Ed25519 kb msg sg); [|discriminate]. intros _. split; [reflexivity|].
    apply len_is_true, L.
  - destruct (der_sig_ok O sg); [|discriminate].
    destruct (sig_valid O Secp256r1 kb msg sg); [|discriminate]. auto.
Qed.

Lemma verify_ed_wrong_length O kb msg sg : length sg <> 64%nat ->
  verify_signature O (Pub Ed25519 kb) msg sg = KErr KSigDeserialization.
Proof. intro H. cbn [verify_signature]. rewrite (len_is_false _ _ H). reflexivity. Qed.

Lemma verify_secp_not_der O kb msg sg : der_sig_ok O sg = false ->
  verify_signature O (Pub Secp256r1 kb) msg sg = KErr KSigDeserialization.
Proof. intro H. cbn [verify_signature]. rewrite H. reflexivity. Qed.

(* ------------------------------------------------------------------ concrete instances *)

(* an oracle that accepts every point and scalar (enough to exercise the codec logic) *)
Definition demo_oracles : oracles :=
  mk_oracles (fun _ b => Some b) (fun _ => true) (fun _ b => b) (fun _ => true) (fun _ _ _ _ => true).

Definition demo_ed : pubkey :=
  Pub Ed25519 (hx "eb396fa7a681c614fefc5bd8d1fa0383f30a8c562a99d8e8a830286e844be074").
Definition demo_p256 : pubkey :=
  Pub Secp256r1 (hx "03b6d94743381d3452f11a1aec8d73b0a899827d48be2e4387112e4d2faacfcc29").
Definition demo_priv : privkey :=
  Priv Secp256r1 (hx "4e85237ab258ca7d53051073dd6c1e501ea4699f2fed6b0f5d399dc2a5f7d38f").

Fixpoint all_bytesb (b : bytes) : bool :=
  match b with [] => true | x :: r => (x <? 256) && all_bytesb r end.

Lemma all_bytesb_ok b : all_bytesb b = true -> all_bytes b.
Proof.
  induction b as [|x r IH]; cbn; intro H; [constructor|].
  apply andb_prop in H as [A B]. constructor; [apply N.ltb_lt, A | apply IH, B].
Qed.

Lemma demo_ed_wf : wf_pub demo_oracles demo_ed.
Proof. split; [vm_compute; reflexivity | apply all_bytesb_ok; vm_compute; reflexivity]. Qed.
Lemma demo_p256_wf : wf_pub demo_oracles demo_p256.
Proof. split; [vm_compute; reflexivity | apply all_bytesb_ok; vm_compute; reflexivity]. Qed.
Lemma demo_priv_wf : wf_priv demo_oracles demo_priv.
Proof. split; [vm_compute; reflexivity | apply all_bytesb_ok; vm_compute; reflexivity]. Qed.

(* the unchanged decoder accepts "ed25519/<64 hex>zz" *)
Lemma trailing_refuted :
  exists (O : oracles) (k : pubkey) (t : bytes),
    wf_pub O k /\ t <> [] /\ pub_from_str_impl O (print_prefixed k ++ t) = KOk k.
Proof.
  exists demo_oracles, demo_ed, [122; 122].
  split; [exact demo_ed_wf|]. split; [discriminate|]. vm_compute. reflexivity.
Qed.

(* ------------------------------------------------------------------ cross-algorithm decoding *)

Lemma is_prefix_app p x : is_prefix p (p ++ x) = true.
Proof. induction p as [|c p IH]; cbn; [reflexivity | rewrite N.eqb_refl; exact IH]. Qed.

Lemma cross_algorithm (O : oracles) (a a' : alg) : a' <> a ->
  (forall b k, pub_from_bytes O a b = KOk k -> exists e, pub_from_bytes O a' b = KErr e) /\
  (forall k, wf_pub O k -> pub_alg k = a ->
     exists e, parse_prefixed O (alg_name a' ++ slash :: pub_to_hex k) = KErr e) /\
  (forall k, wf_pub O k -> pub_alg k = a ->
     exists e, pub_from_proto O (alg_num a') (pub_to_bytes k) = KErr e) /\
  (forall s k, parse_prefixed O s = KOk k -> pub_alg k = a ->
     is_prefix (alg_name a ++ [slash]) s = true /\ is_prefix (alg_name a' ++ [slash]) s = false).
Proof.
  intro Hne. split; [|split; [|split]].
  - intros b k H. apply (pub_cross_algorithm O a a' b k H Hne).
  - intros k W Ha. unfold parse_prefixed, pub_from_str_gen, pub_to_hex.
    rewrite <- (app_nil_r (hex_encode (pub_to_bytes k))).
    rewrite (parse_public_key_build a' (hex_encode (pub_to_bytes k)) [] (pub_to_bytes k)).
    + cbn [is_nil negb]. rewrite andb_false_r.
      destruct W as [W _]. rewrite Ha in W. apply (pub_cross_algorithm O a a' _ _ W Hne).
    + apply hex_encode_nonempty, (wf_pub_nonempty O k W).
    + apply hex_encode_all_hex, (proj2 W).
    + apply hex_roundtrip, (proj2 W).
    + left; reflexivity.
  - intros k W Ha. apply proto_cross_algorithm; [exact W | rewrite Ha; exact Hne].
  - intros s k H Ha. apply prefixed_accepts in H as (h & kb & -> & _ & _). rewrite Ha.
    split.
    + replace (alg_name a ++ slash :: h) with ((alg_name a ++ [slash]) ++ h)
        by (rewrite <- app_assoc; reflexivity).
      apply is_prefix_app.
    + destruct a, a'; try congruence; reflexivity.
Qed.

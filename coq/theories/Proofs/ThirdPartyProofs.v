(* Third-party blocks: what append_third_party checks, what verification re-checks, binding of
   an external signature to one payload and one position, attribution to the signer's key under
   exclusive ownership and its failure without. *)
From Biscuit Require Import Model.Token Model.Readings Model.Wire Model.ThirdParty.
From Biscuit Require Import Proofs.ChainLayout Proofs.ChainProofs Proofs.ChainOps.
Local Open Scope N_scope.

(* ------------------------------------------------------------------ the external payload determines payload and position *)
Lemma is_prefix_app : forall q b, is_prefix q (q ++ b) = true.
Proof. induction q as [|x q IH]; intros b; [reflexivity|]. cbn [app is_prefix]. now rewrite N.eqb_refl, IH. Qed.

Lemma is_infix_app : forall q a b, is_infix q (a ++ q ++ b) = true.
Proof.
  intros q a b. induction a as [|x a IH]; cbn [app].
  - destruct (q ++ b) eqn:E; cbn [is_infix]; rewrite <- E, is_prefix_app; reflexivity.
  - cbn [is_infix]. rewrite IH. apply orb_true_r.
Qed.

Lemma tag_prevsig_split : tag_prevsig = 0 :: prevsig_fragment.
Proof. reflexivity. Qed.

(* if  d ++ TAG = d' ++ TAG ++ l  then l is empty or starts a fragment *)
Lemma tag_overlap : forall d d' l p,
  d ++ tag_prevsig = d' ++ tag_prevsig ++ l -> l = [] \/ is_infix prevsig_fragment (l ++ p) = true.
Proof.
  intros d d' l p H. apply (f_equal (@rev N)) in H. rewrite !rev_app_distr in H.
  assert (Hl : l = rev (rev l)) by now rewrite rev_involutive. remember (rev l) as v eqn:Ev. clear Ev.
  change (rev tag_prevsig) with [0; 71; 73; 83; 86; 69; 82; 80; 0] in H. cbn [app] in H.
  destruct v as [|a1 v]; [left; now subst|]. right.
  destruct v as [|a2 v]; [cbn [app] in H; inversion H|].
  destruct v as [|a3 v]; [cbn [app] in H; inversion H|].
  destruct v as [|a4 v]; [cbn [app] in H; inversion H|].
  destruct v as [|a5 v]; [cbn [app] in H; inversion H|].
  destruct v as [|a6 v]; [cbn [app] in H; inversion H|].
  destruct v as [|a7 v]; [cbn [app] in H; inversion H|].
  destruct v as [|a8 v]; [cbn [app] in H; inversion H|].
  destruct v as [|a9 v].
  - cbn [app] in H. inversion H. subst. cbn [rev app].
    change [80; 82; 69; 86; 83; 73; 71; 0] with prevsig_fragment.
    exact (is_infix_app prevsig_fragment [] p).
  - cbn [app] in H. inversion H. subst. cbn [rev]. rewrite <- !app_assoc. cbn [app].
    change (rev v ++ 0 :: 80 :: 82 :: 69 :: 86 :: 83 :: 73 :: 71 :: 0 :: p)
      with (rev v ++ [0] ++ prevsig_fragment ++ p).
    rewrite (app_assoc (rev v) [0]). apply is_infix_app.
Qed.

Theorem payload_external_v1_inj_frag : forall d d' p p',
  frag_free p = true -> frag_free p' = true ->
  payload_external_v1 d p 1 = payload_external_v1 d' p' 1 -> d = d' /\ p = p'.
Proof.
  intros d d' p p' Hp Hp' H. unfold payload_external_v1 in H.
  apply app_inv_head in H. apply app_inv_head in H. apply app_inv_head in H.
  rewrite !app_assoc in H. apply app_eq_app in H as [l [[H1 H2] | [H1 H2]]].
  - rewrite <- app_assoc in H1. destruct (tag_overlap d d' l p H1) as [-> | Hi].
    + rewrite app_nil_r in H1. apply app_inv_tail in H1. cbn [app] in H2. now subst.
    + rewrite <- H2 in Hi. unfold frag_free in Hp'. rewrite Hi in Hp'. discriminate.
  - rewrite <- app_assoc in H1. destruct (tag_overlap d' d l p' H1) as [-> | Hi].
    + rewrite app_nil_r in H1. apply app_inv_tail in H1. cbn [app] in H2. now subst.
    + rewrite <- H2 in Hi. unfold frag_free in Hp. rewrite Hi in Hp. discriminate.
Qed.

Section TP.
Variable verify_sig : pubkey -> bytes -> bytes -> bool.
Variable pub : alg -> bytes -> option pubkey.
Variable sign : alg -> bytes -> bytes -> bytes.
Variable key_canon : alg -> bytes -> option bytes.

(* ------------------------------------------------------------------ what append checks *)
Theorem append_checks : forall t K payload ek es next t',
  append_third_party verify_sig pub sign t K (payload, ek, es) next = TOk t' ->
  ek = K /\
  verify_sig K (payload_external_v1 payload (b_sig (last_block t)) 1) es = true /\
  exists b, t_blocks t' = t_blocks t ++ [b] /\ t_authority t' = t_authority t /\
            b_data b = payload /\ b_ext b = Some (K, es) /\ b_version b = 1.
Proof.
  intros t K payload ek es next t' H. unfold append_third_party in H.
  destruct (negb (pubkey_eqb K ek)) eqn:Ek; [discriminate|]. apply negb_false_iff, pubkey_eqb_eq in Ek. subst ek.
  destruct (negb (verify_sig K _ es)) eqn:Es; [discriminate|]. apply negb_false_iff in Es.
  destruct (proof_keypair t) as [kp|e]; [|discriminate].
  destruct (append_signed_blocks pub sign _ _ _ _ _ _ _ H) as (b & Hb & Ha & Hd & He & Hv & _).
  split; [reflexivity|]. split; [exact Es|]. exists b. repeat split; try assumption.
Qed.

Theorem checked_checks : forall t K r c next t',
  append_third_party_checked verify_sig pub sign key_canon t K r c next = TPOk t' ->
  parse_wkey key_canon (r_key r) = Some K /\ c = true /\
  verify_sig K (payload_external_v1 (r_payload r) (b_sig (last_block t)) 1) (r_sig r) = true /\
  exists b, t_blocks t' = t_blocks t ++ [b] /\ b_data b = r_payload r /\ b_ext b = Some (K, r_sig r).
Proof.
  intros t K r c next t' H. unfold append_third_party_checked in H.
  destruct (parse_wkey key_canon (r_key r)) as [ek|]; [|discriminate].
  destruct (append_third_party verify_sig pub sign t K (r_payload r, ek, r_sig r) next) as [t''|e] eqn:Ea.
  - destruct c; cbn [negb] in H; [|discriminate]. inversion H. subst t''.
    destruct (append_checks _ _ _ _ _ _ _ Ea) as (-> & Hs & b & Hb & _ & Hd & He & _).
    repeat split; try assumption. exists b. repeat split; assumption.
  - destruct e; try discriminate; destruct (negb c); discriminate.
Qed.

(* every other outcome of the verified path is an error: the block is not accepted *)
Theorem checked_refuses : forall t K r c next,
  (forall ek, parse_wkey key_canon (r_key r) = Some ek ->
     ek <> K \/ verify_sig ek (payload_external_v1 (r_payload r) (b_sig (last_block t)) 1) (r_sig r) = false) ->
  exists e, append_third_party_checked verify_sig pub sign key_canon t K r c next = TPErr e.
Proof.
  intros t K r c next H.
  destruct (append_third_party_checked verify_sig pub sign key_canon t K r c next) as [t'|e] eqn:E; [|eauto].
  destruct (checked_checks _ _ _ _ _ _ E) as (Hk & _ & Hs & _). destruct (H K Hk) as [Hne | Hf]; [congruence|].
  rewrite Hs in Hf. discriminate.
Qed.

(* ------------------------------------------------------------------ what verification re-checks *)
Lemma in_with_prev_queries : forall bs k p prev b ek es,
  In (prev, b) (with_prev p bs) -> b_ext b = Some (ek, es) ->
  In (ek, msg_external prev b, es) (chain_queries k p bs).
Proof.
  induction bs as [|c bs IH]; intros k p prev b ek es Hin He; [destruct Hin|].
  cbn [with_prev] in Hin. cbn [chain_queries]. apply in_or_app. destruct Hin as [E | Hin].
  - inversion E. subst. left. unfold block_queries. rewrite He. right. left. reflexivity.
  - right. exact (IH _ _ _ _ _ _ Hin He).
Qed.

Lemma with_prev_blocks : forall bs p prev b, In (prev, b) (with_prev p bs) -> In b bs.
Proof.
  induction bs as [|c bs IH]; intros p prev b H; [destruct H|]. cbn [with_prev] in H.
  destruct H as [E | H]; [inversion E; now left | right; exact (IH _ _ _ H)].
Qed.

Theorem verified_third_party_blocks : forall root t k d p s,
  verify verify_sig pub root t = true ->
  In (k, d, p, s) (third_party_blocks t) ->
  verify_sig k (payload_external_v1 d p 1) s = true.
Proof.
  intros root t k d p s Hv Hin. unfold third_party_blocks in Hin. apply in_flat_map in Hin as ((prev & b) & Hpb & Hx).
  cbn [fst snd] in Hx. destruct (b_ext b) as [[ek es]|] eqn:He; [|destruct Hx].
  destruct Hx as [E | []]. inversion E. subst k d p s. clear E.
  unfold verify in Hv. apply andb_true_iff in Hv as [Hst Hq].
  assert (Hver : b_version b = 1).
  { unfold structural_ok in Hst. apply andb_true_iff in Hst as [Hst _]. apply andb_true_iff in Hst as [_ Hev].
    rewrite forallb_forall in Hev. specialize (Hev b (with_prev_blocks _ _ _ _ Hpb)).
    unfold ext_version_ok in Hev. rewrite He in Hev. now apply N.eqb_eq in Hev. }
  rewrite forallb_forall in Hq.
  assert (Hi : In (ek, msg_external prev b, es) (queries root t)).
  { unfold queries. right. apply in_or_app. left. unfold positions in Hpb.
    exact (in_with_prev_queries _ _ _ _ _ _ _ Hpb He). }
  specialize (Hq _ Hi). unfold verify_triple, msg_external in Hq. now rewrite Hver in Hq.
Qed.

(* the unverified path accepts anything well-formed; verification afterwards checks it *)
Lemma with_prev_last : forall bs p b, In (end_sig p bs, b) (with_prev p (bs ++ [b])).
Proof.
  induction bs as [|c bs IH]; intros p b; cbn [app with_prev end_sig]; [now left | right; apply IH].
Qed.

Theorem unverified_then_verify : forall root t r c next t',
  append_third_party_unverified pub sign key_canon t r c next = TPOk t' ->
  verify verify_sig pub root t' = true ->
  exists ek, parse_wkey key_canon (r_key r) = Some ek /\
             verify_sig ek (payload_external_v1 (r_payload r) (b_sig (last_block t)) 1) (r_sig r) = true.
Proof.
  intros root t r c next t' H Hv. unfold append_third_party_unverified in H.
  destruct (parse_wkey key_canon (r_key r)) as [ek|]; [|discriminate]. exists ek. split; [reflexivity|].
  destruct (negb c); [discriminate|]. destruct (proof_keypair t) as [kp|e]; [|discriminate].
  destruct (append_signed pub sign t kp next (r_payload r) (Some (ek, r_sig r)) _) as [t''|e] eqn:Ea; [|discriminate].
  inversion H. subst t''. destruct (append_signed_blocks pub sign _ _ _ _ _ _ _ Ea) as (b & Hb & Ha & Hd & He & _).
  apply (verified_third_party_blocks root t' ek (r_payload r) (b_sig (last_block t)) (r_sig r) Hv).
  unfold third_party_blocks, positions. apply in_flat_map. exists (b_sig (last_block t), b). split.
  - rewrite Hb, Ha. unfold last_block. rewrite last_end_sig. apply with_prev_last.
  - cbn [fst snd]. rewrite He, Hd. now left.
Qed.

(* ------------------------------------------------------------------ binding to one payload and one position *)
(* unforgeability of the third party's key K, in the shape used for the chain keys: whatever
   verifies under K is the external-signature message of one of the (payload, previous
   signature) pairs K answered *)
Definition euf_external (K : pubkey) (issued : list (bytes * bytes)) : Prop :=
  forall m s, verify_sig K m s = true -> exists d p, In (d, p) issued /\ m = payload_external_v1 d p 1.

(* two previous signatures can be told apart inside an external payload: same length, or
   both free of the tag fragment *)
Definition comparable (p p' : bytes) : Prop :=
  length p = length p' \/ (frag_free p = true /\ frag_free p' = true).

Lemma euf_binds : forall K issued d p s,
  euf_external K issued -> (forall d' p', In (d', p') issued -> comparable p p') ->
  verify_sig K (payload_external_v1 d p 1) s = true -> In (d, p) issued.
Proof.
  intros K issued d p s Heuf Hcmp Hv. destruct (Heuf _ _ Hv) as (d' & p' & Hin & Hm).
  destruct (Hcmp _ _ Hin) as [Hl | [Hf Hf']].
  - assert (H1 : 1 < 4294967296) by lia.
    destruct (payload_external_v1_inj d d' p p' 1 1 H1 H1 Hl Hm) as (-> & -> & _). exact Hin.
  - destruct (payload_external_v1_inj_frag d d' p p' Hf Hf' Hm) as (-> & ->). exact Hin.
Qed.

Theorem position_binding : forall K issued,
  euf_external K issued ->
  (* a response is accepted on a token only at a position it was made for *)
  (forall t expected payload es next t',
     (forall d p, In (d, p) issued -> comparable (b_sig (last_block t)) p) ->
     append_third_party verify_sig pub sign t expected (payload, K, es) next = TOk t' ->
     In (payload, b_sig (last_block t)) issued) /\
  (* on the unverified path the same holds once the result verifies *)
  (forall root t r c next t',
     (forall d p, In (d, p) issued -> comparable (b_sig (last_block t)) p) ->
     parse_wkey key_canon (r_key r) = Some K ->
     append_third_party_unverified pub sign key_canon t r c next = TPOk t' ->
     verify verify_sig pub root t' = true ->
     In (r_payload r, b_sig (last_block t)) issued) /\
  (* and every block an accepted token attributes to K sits where K signed it *)
  (forall root t d p s,
     verify verify_sig pub root t = true -> In (K, d, p, s) (third_party_blocks t) ->
     (forall d' p', In (d', p') issued -> comparable p p') ->
     In (d, p) issued).
Proof.
  intros K issued Heuf. split; [|split].
  - intros t expected payload es next t' Hc H.
    destruct (append_checks _ _ _ _ _ _ _ H) as (-> & Hs & _). exact (euf_binds _ _ _ _ _ Heuf Hc Hs).
  - intros root t r c next t' Hc Hk H Hv.
    destruct (unverified_then_verify root t r c next t' H Hv) as (ek & Hk' & Hs).
    rewrite Hk in Hk'. inversion Hk'. subst ek. exact (euf_binds _ _ _ _ _ Heuf Hc Hs).
  - intros root t d p s Hv Hin Hc.
    exact (euf_binds _ _ _ _ _ Heuf Hc (verified_third_party_blocks root t K d p s Hv Hin)).
Qed.

(* ------------------------------------------------------------------ attribution *)
Definition ext_key (b : sblock) : option pubkey :=
  match b_ext b with Some (k, _) => Some k | None => None end.

(* a signature value verifies under one key only *)
Definition exclusive_ownership : Prop :=
  forall K K' m s, verify_sig K m s = true -> verify_sig K' m s = true -> K = K'.

Lemma same_chain_ext_keys : forall h l k k' p,
  exclusive_ownership ->
  Forall2 block_same h l ->
  forallb (verify_triple verify_sig) (chain_queries k p h) = true ->
  forallb (verify_triple verify_sig) (chain_queries k' p l) = true ->
  map ext_key l = map ext_key h.
Proof.
  intros h l k k' p Hex H. revert k k' p. induction H as [|b b' h l [Hf Hs] _ IH]; intros k k' p H1 H2; [reflexivity|].
  cbn [chain_queries] in H1, H2. apply forallb_app_inv in H1 as [Hb1 Hr1]. apply forallb_app_inv in H2 as [Hb2 Hr2].
  cbn [map]. rewrite Hs in Hr2. f_equal; [|exact (IH _ _ _ Hr1 Hr2)].
  unfold fields_of in Hf. inversion Hf as [[Hv Hd Hn He]]. unfold ext_key, ext_sig in *.
  unfold block_queries in Hb1, Hb2.
  destruct (b_ext b) as [[K s]|] eqn:E1, (b_ext b') as [[K' s']|] eqn:E2; try discriminate; [|reflexivity].
  inversion He. subst s'. cbn [forallb verify_triple] in Hb1, Hb2.
  apply andb_true_iff in Hb1 as [_ Hx1]. apply andb_true_iff in Hb2 as [_ Hx2].
  rewrite andb_true_r in Hx1, Hx2. unfold msg_external in Hx1, Hx2. rewrite Hd, Hv in Hx2.
  f_equal. exact (Hex _ _ _ _ Hx2 Hx1).
Qed.

Theorem attribution : forall root tok tok',
  exclusive_ownership ->
  verify verify_sig pub root tok = true ->
  layout_ok tok = true ->
  NoDup (map qkey (queries root tok)) ->
  (forall k m s, In k (map qkey (queries root tok)) -> verify_sig k m s = true ->
                 In (k, m, s) (queries root tok)) ->
  (forall sk k, t_proof tok' = Secret sk ->
     pub (pk_alg (b_next (last_block tok'))) sk = Some k -> ~ In k (map qkey (queries root tok))) ->
  keys_ok tok' = true ->
  verify verify_sig pub root tok' = true ->
  firstn (length (all_blocks tok)) (external_keys tok') = external_keys tok.
Proof.
  intros root tok tok' Hex H1 H2 H3 H4 H5 H6 H7.
  destruct (accepted_is_honest_prefix _ _ _ _ _ H1 H2 H3 H4 H5 H6 H7) as (l1 & l2 & El & Hl & _).
  assert (Hk : forall t, external_keys t = map ext_key (all_blocks t)) by reflexivity.
  rewrite !Hk, El, map_app.
  assert (Hlen : length (all_blocks tok) = length (map ext_key l1)).
  { rewrite map_length. exact (Forall2_length_ _ _ _ _ _ Hl). }
  rewrite Hlen, firstn_app, firstn_all, Nat.sub_diag. cbn [firstn]. rewrite app_nil_r.
  unfold all_blocks in Hl, El. inversion Hl as [|a a' bs l1t Ha Hbs]. subst.
  cbn [app] in El. inversion El as [[Ea Eb]]. cbn [map].
  assert (Hq : forall t, verify verify_sig pub root t = true ->
            negb (has_ext (t_authority t)) = true /\
            forallb (verify_triple verify_sig) (chain_queries (b_next (t_authority t)) (b_sig (t_authority t)) (t_blocks t)) = true).
  { intros t Hv. unfold verify in Hv. apply andb_true_iff in Hv as [Hs Hq]. split.
    - unfold structural_ok in Hs. apply andb_true_iff in Hs as [Hs _]. apply andb_true_iff in Hs as [Hs _].
      now apply andb_true_iff in Hs as [Hs _].
    - unfold queries in Hq. cbn [forallb] in Hq. apply andb_true_iff in Hq as [_ Hq].
      now apply forallb_app_inv in Hq as [Hq _]. }
  destruct (Hq tok H1) as [Hx1 Hc1]. destruct (Hq tok' H7) as [Hx2 Hc2].
  unfold all_blocks. cbn [map]. rewrite <- Ea in Ha. f_equal.
  - unfold ext_key, has_ext in *.
    destruct (b_ext (t_authority tok)), (b_ext (t_authority tok')); try discriminate. reflexivity.
  - rewrite Eb, chain_queries_app in Hc2. apply forallb_app_inv in Hc2 as [Hc2 _].
    destruct Ha as [Hfa Hsa]. rewrite Hsa in Hc2.
    exact (same_chain_ext_keys _ _ _ _ _ Hex Hbs Hc1 Hc2).
Qed.

End TP.

(* ------------------------------------------------------------------ without exclusive ownership *)
(* a correct scheme in which two keys accept the same signatures: the signature depends on the
   first byte of the key only.  (For ECDSA the second key is computed from the signature.) *)
Definition tw_pub (a : alg) (sk : bytes) : option pubkey := Some (mkpub a sk).
Definition tw_class (k : bytes) : bytes := match k with x :: _ => [x] | [] => [] end.
Definition tw_sign (a : alg) (sk m : bytes) : bytes := tw_class sk ++ m.
Definition tw_verify (k : pubkey) (m s : bytes) : bool := bytes_eqb s (tw_class (pk_bytes k) ++ m).
Definition tw_canon (a : alg) (b : bytes) : option bytes := Some b.

Definition tw_root : keypair := mkkp Ed25519 [1; 1].
Definition tw_signer : keypair := mkkp Secp256r1 [3; 7].     (* the third party *)
Definition tw_other : pubkey := mkpub Secp256r1 [3; 8].      (* another key accepting the same signatures *)

Definition tw_tok : token :=
  match run_history tw_verify tw_pub tw_sign tw_canon false
          (mkbuild None tw_root (mkkp Ed25519 [2; 2]) [24; 3] 3)
          [HThird tw_signer [18; 1; 120; 24; 5] (mkkp Ed25519 [4; 4])] with
  | TOk t => t
  | TErr _ => mktoken None (mkblock [] (mkpub Ed25519 []) [] None 0) [] (Seal [])
  end.

Definition reattribute (k : pubkey) (b : sblock) : sblock :=
  mkblock (b_data b) (b_next b) (b_sig b) (match b_ext b with Some (_, s) => Some (k, s) | None => None end) (b_version b).

Definition tw_tok' : token :=
  mktoken (t_root_key_id tw_tok) (t_authority tw_tok) (map (reattribute tw_other) (t_blocks tw_tok)) (t_proof tw_tok).

Theorem attribution_refuted :
  (forall a sk k m, tw_pub a sk = Some k -> tw_verify k m (tw_sign a sk m) = true) /\
  verify tw_verify tw_pub (mkpub Ed25519 [1; 1]) tw_tok = true /\
  verify tw_verify tw_pub (mkpub Ed25519 [1; 1]) tw_tok' = true /\
  Forall2 block_same (all_blocks tw_tok) (all_blocks tw_tok') /\
  t_proof tw_tok' = t_proof tw_tok /\
  revocation_ids tw_tok' = revocation_ids tw_tok /\
  external_keys tw_tok = [None; Some (mkpub Secp256r1 [3; 7])] /\
  external_keys tw_tok' = [None; Some tw_other].
Proof.
  split.
  - intros a sk k m H. inversion H. unfold tw_verify, tw_sign. cbn [pk_bytes]. apply bytes_eqb_refl.
  - split; [vm_compute; reflexivity|]. split; [vm_compute; reflexivity|].
    split; [|split; [reflexivity | split; [reflexivity | split; reflexivity]]].
    vm_compute. repeat constructor.
Qed.

(* Proofs about Model/Robust.v: the block-index gate, the symbol gate and the printers'
   stack discipline. *)
From Biscuit Require Import Model.Robust Proofs.ExprProofs.

(* ------------------------------------------------------------------ nthN *)

Lemma nthN_ge {A} (l : list A) : forall i, (N.of_nat (length l) <= i)%N -> nthN l i = None.
Proof.
  induction l as [|x l IH]; intros i Hi; cbn [nthN]; [reflexivity|].
  cbn [length] in Hi. rewrite Nat2N.inj_succ in Hi.
  destruct (N.eqb_spec i 0) as [E|E]; [lia|].
  apply IH. lia.
Qed.

Lemma nthN_lt {A} (l : list A) : forall i, (i < N.of_nat (length l))%N -> exists x, nthN l i = Some x.
Proof.
  induction l as [|x l IH]; intros i Hi; cbn [length] in Hi.
  - cbn in Hi. lia.
  - rewrite Nat2N.inj_succ in Hi. cbn [nthN].
    destruct (N.eqb_spec i 0) as [E|E]; [eexists; reflexivity|].
    apply IH. lia.
Qed.

Lemma nthN_none_iff {A} (l : list A) i : nthN l i = None <-> (N.of_nat (length l) <= i)%N.
Proof.
  split; [|apply nthN_ge].
  intro H. destruct (N.lt_ge_cases i (N.of_nat (length l))) as [Hlt|Hge]; [|assumption].
  destruct (nthN_lt l i Hlt) as [x Hx]. congruence.
Qed.

Lemma nthN_nth_error {A} (l : list A) : forall i, nthN l i = nth_error l (N.to_nat i).
Proof.
  induction l as [|x l IH]; intro i; cbn [nthN].
  - destruct (N.to_nat i); reflexivity.
  - destruct (N.eqb_spec i 0) as [E|E]; [subst; reflexivity|].
    rewrite IH. replace (N.to_nat i) with (S (N.to_nat (i - 1))) by lia. reflexivity.
Qed.

(* ------------------------------------------------------------------ block index gate *)

Lemma load_not_crash {B} (b : option B) : load b <> ACrash.
Proof. destruct b; discriminate. Qed.

Lemma repaired_checked {B} (t : tok B) i :
  (block_count t <= i)%N -> block_at_repaired t i = AErr EInvalidIndex.
Proof.
  unfold block_count, block_at_repaired. intro H.
  destruct (N.eqb_spec i 0) as [E|E]; [lia|].
  destruct (N.ltb_spec (N.of_nat (length (snd t))) i) as [L|L]; [reflexivity|lia].
Qed.

Lemma repaired_never_crashes {B} (t : tok B) i : block_at_repaired t i <> ACrash.
Proof.
  unfold block_at_repaired.
  destruct (i =? 0)%N; [apply load_not_crash|].
  destruct (N.of_nat (length (snd t)) <? i)%N; [discriminate|].
  destruct (nthN (snd t) (i - 1)); [apply load_not_crash|discriminate].
Qed.

(* in range: the loader's verdict on the i-th block of [authority :: blocks] *)
Lemma repaired_in_range {B} (t : tok B) i :
  (i < block_count t)%N ->
  exists b, nthN (fst t :: snd t) i = Some b /\ block_at_repaired t i = load b.
Proof.
  unfold block_count, block_at_repaired. intro H. cbn [nthN].
  destruct (N.eqb_spec i 0) as [E|E]; [eexists; split; reflexivity|].
  destruct (N.ltb_spec (N.of_nat (length (snd t))) i) as [L|L]; [lia|].
  destruct (nthN_lt (snd t) (i - 1)) as [b Hb]; [lia|].
  exists b. rewrite Hb. split; reflexivity.
Qed.

Lemma faithful_crash_iff {B} (t : tok B) i :
  block_at_faithful t i = ACrash <-> i = block_count t.
Proof.
  unfold block_at_faithful, block_count. split.
  - destruct (N.eqb_spec i 0) as [E|E]; [intro H; exfalso; exact (load_not_crash _ H)|].
    destruct (N.ltb_spec (N.of_nat (length (snd t)) + 1) i) as [L|L]; [discriminate|].
    destruct (nthN (snd t) (i - 1)) eqn:Hn; [intro H; exfalso; exact (load_not_crash _ H)|].
    intros _. apply nthN_none_iff in Hn. lia.
  - intros ->.
    destruct (N.eqb_spec (1 + N.of_nat (length (snd t))) 0) as [E|E]; [lia|].
    destruct (N.ltb_spec (N.of_nat (length (snd t)) + 1) (1 + N.of_nat (length (snd t)))) as [L|L]; [lia|].
    rewrite nthN_ge; [reflexivity|lia].
Qed.

Lemma faithful_eq_repaired {B} (t : tok B) i :
  i <> block_count t -> block_at_faithful t i = block_at_repaired t i.
Proof.
  unfold block_at_faithful, block_at_repaired, block_count. intro H.
  destruct (N.eqb_spec i 0) as [E|E]; [reflexivity|].
  destruct (N.ltb_spec (N.of_nat (length (snd t)) + 1) i) as [L|L];
    destruct (N.ltb_spec (N.of_nat (length (snd t))) i) as [L'|L']; try reflexivity; try lia.
  destruct (nthN (snd t) (i - 1)) eqn:Hn; [reflexivity|].
  apply nthN_none_iff in Hn. lia.
Qed.

Lemma raw_at_spec {B} (t : tok B) i :
  ((block_count t <= i)%N -> raw_at t i = AErr EInvalidIndex) /\
  ((i < block_count t)%N -> exists b, nthN (fst t :: snd t) i = Some b /\ raw_at t i = AOk b).
Proof.
  unfold raw_at, block_count. split; intro H.
  - destruct (N.eqb_spec i 0) as [E|E]; [lia|]. rewrite nthN_ge; [reflexivity|lia].
  - cbn [nthN]. destruct (N.eqb_spec i 0) as [E|E]; [eexists; split; reflexivity|].
    destruct (nthN_lt (snd t) (i - 1)) as [b Hb]; [lia|]. exists b. rewrite Hb. split; reflexivity.
Qed.

(* ------------------------------------------------------------------ symbol gate *)

Lemma default_symbols_length : length default_symbols = 28%nat.
Proof. reflexivity. Qed.

Lemma get_symbol_none_iff (tab : list bytes) i :
  get_symbol tab i = None <->
  ((28 <= i)%N /\ (i < OFFSET)%N) \/ (OFFSET + N.of_nat (length tab) <= i)%N.
Proof.
  unfold get_symbol, OFFSET.
  destruct (N.leb_spec 1024 i) as [L|L]; rewrite nthN_none_iff.
  - split; [intro H; right; lia|intros [[_ H]|H]; lia].
  - rewrite default_symbols_length. change (N.of_nat 28) with 28%N.
    split; [intro H; left; lia|intros [[H _]|H]; lia].
Qed.

(* ------------------------------------------------------------------ printers *)

Section OpInd.
  Variable P : op -> Prop.
  Hypothesis Hval : forall v, P (OVal v).
  Hypothesis Hvar : forall x, P (OVar x).
  Hypothesis Hun : forall u, P (OUn u).
  Hypothesis Hbin : forall b, P (OBin b).
  Hypothesis Hclo : forall ps body, Forall P body -> P (OClo ps body).

  Fixpoint op_ind_nested (o : op) : P o :=
    match o with
    | OVal v => Hval v
    | OVar x => Hvar x
    | OUn u => Hun u
    | OBin b => Hbin b
    | OClo ps body =>
        Hclo ps body
          ((fix go (l : list op) : Forall P l :=
              match l with
              | [] => Forall_nil P
              | x :: r => Forall_cons x (op_ind_nested x) (go r)
              end) body)
    end.
End OpInd.

Lemma print_step_clo tab ps body st :
  print_step tab (OClo ps body) st =
  match print_run tab body [] with
  | Some [b] => Some (closure_text tab ps b :: st)
  | _ => None
  end.
Proof.
  cbn [print_step].
  assert (E : forall l acc,
    (fix run (l : list op) (acc : list bytes) : option (list bytes) :=
       match l with
       | [] => Some acc
       | x :: r => match print_step tab x acc with Some a => run r a | None => None end
       end) l acc = print_run tab l acc).
  { induction l as [|x r IH]; intro acc; cbn [print_run]; [reflexivity|].
    destruct (print_step tab x acc); [apply IH|reflexivity]. }
  rewrite E. reflexivity.
Qed.

Lemma depth_step_clo ps body d :
  depth_step (OClo ps body) d =
  match depth_run body O with
  | Some (S O) => Some (S d)
  | _ => None
  end.
Proof.
  cbn [depth_step].
  assert (E : forall l acc,
    (fix run (l : list op) (acc : nat) : option nat :=
       match l with
       | [] => Some acc
       | x :: r => match depth_step x acc with Some a => run r a | None => None end
       end) l acc = depth_run l acc).
  { induction l as [|x r IH]; intro acc; cbn [depth_run]; [reflexivity|].
    destruct (depth_step x acc); [apply IH|reflexivity]. }
  rewrite E. reflexivity.
Qed.

Lemma run_depth_of_steps tab (l : list op) :
  Forall (fun o => forall st, option_map (@length bytes) (print_step tab o st) = depth_step o (length st)) l ->
  forall st, option_map (@length bytes) (print_run tab l st) = depth_run l (length st).
Proof.
  induction 1 as [|x r Hx _ IH]; intro st; cbn [print_run depth_run]; [reflexivity|].
  specialize (Hx st). destruct (print_step tab x st) as [a|]; cbn [option_map] in Hx; rewrite <- Hx.
  - apply IH.
  - reflexivity.
Qed.

Lemma step_depth tab (o : op) :
  forall st, option_map (@length bytes) (print_step tab o st) = depth_step o (length st).
Proof.
  induction o as [v|x|u|b|ps body IH] using op_ind_nested; intro st.
  - reflexivity.
  - reflexivity.
  - cbn [print_step depth_step]. destruct st; reflexivity.
  - cbn [print_step depth_step]. destruct st as [|r [|l st]]; reflexivity.
  - rewrite print_step_clo, depth_step_clo.
    pose proof (run_depth_of_steps tab body IH []) as H. cbn [length] in H.
    destruct (print_run tab body []) as [[|b1 [|b2 rest]]|]; cbn [option_map length] in H; rewrite <- H; reflexivity.
Qed.

Lemma run_depth tab (l : list op) :
  forall st, option_map (@length bytes) (print_run tab l st) = depth_run l (length st).
Proof.
  apply run_depth_of_steps. apply Forall_forall. intros o _. apply step_depth.
Qed.

(* the printer answers None exactly when the stack discipline fails *)
Theorem print_none_iff tab ops : print_expr tab ops = None <-> printable ops = false.
Proof.
  unfold print_expr, printable.
  pose proof (run_depth tab ops []) as H. cbn [length] in H.
  destruct (print_run tab ops []) as [[|s [|s2 rest]]|]; cbn [option_map length] in H; rewrite <- H;
    split; intro; try reflexivity; discriminate.
Qed.

Theorem print_some_iff tab ops : (exists t, print_expr tab ops = Some t) <-> printable ops = true.
Proof.
  pose proof (print_none_iff tab ops) as [H1 H2].
  split.
  - intros [t Ht]. destruct (printable ops) eqn:E; [reflexivity|].
    rewrite (H2 eq_refl) in Ht. discriminate.
  - intro E. destruct (print_expr tab ops) as [t|] eqn:P; [eexists; reflexivity|].
    rewrite (H1 eq_refl) in E. discriminate.
Qed.

(* printable does not depend on the symbol table: unknown symbol, variable and extern ids
   never make the printer fail *)
Lemma print_table_irrelevant tab tab' ops :
  (print_expr tab ops = None <-> print_expr tab' ops = None).
Proof. rewrite !print_none_iff. reflexivity. Qed.

Theorem display_repaired_total tab ops :
  (printable ops = true -> exists t, display Repaired tab ops = DText t /\ print_expr tab ops = Some t) /\
  (printable ops = false -> display Repaired tab ops = DInvalid) /\
  display Repaired tab ops <> DCrash.
Proof.
  unfold display, fallback_print. repeat split.
  - intro H. destruct (proj2 (print_some_iff tab ops) H) as [t Ht]. rewrite Ht. eexists; split; reflexivity.
  - intro H. rewrite (proj2 (print_none_iff tab ops) H). reflexivity.
  - destruct (print_expr tab ops); discriminate.
Qed.

Theorem display_faithful_crash_iff tab ops :
  display Faithful tab ops = DCrash <-> printable ops = false.
Proof.
  unfold display. split.
  - intro H. apply (proj1 (print_none_iff tab ops)).
    destruct (print_expr tab ops); [discriminate H|reflexivity].
  - intro H. rewrite (proj2 (print_none_iff tab ops) H). reflexivity.
Qed.

Lemma display_agree_on_printable tab ops :
  printable ops = true -> display Faithful tab ops = display Repaired tab ops.
Proof.
  intro H. destruct (proj2 (print_some_iff tab ops) H) as [t Ht].
  unfold display, fallback_print. rewrite Ht. reflexivity.
Qed.

Theorem dump_repaired_never_crashes tab exprs : dump_crashes Repaired tab exprs = false.
Proof.
  unfold dump_crashes. induction exprs as [|e r IH]; [reflexivity|].
  cbn [existsb]. rewrite IH.
  destruct (display_repaired_total tab e) as [_ [_ H]].
  destruct (display Repaired tab e); try reflexivity. congruence.
Qed.

Theorem dump_faithful_crashes_iff tab exprs :
  dump_crashes Faithful tab exprs = true <-> exists ops, In ops exprs /\ printable ops = false.
Proof.
  unfold dump_crashes. rewrite existsb_exists. split; intros [ops [Hin H]]; exists ops; split; try assumption.
  - apply (proj1 (display_faithful_crash_iff tab ops)). destruct (display Faithful tab ops); try discriminate. reflexivity.
  - rewrite (proj2 (display_faithful_crash_iff tab ops) H). reflexivity.
Qed.

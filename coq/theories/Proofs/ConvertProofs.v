(* Proofs about Model/Convert.v: the conversion reads back what the way back writes
   (conv_block (unconv_block b) = COk b for every well-formed index-level block), composed with
   the byte-level round trip of Model/BlockWire.v; and what the conversion accepts declares a
   supported version that is at least what its content requires (the C16 gate, stated over the
   decoded protobuf structure). *)
From Biscuit Require Import Model.Convert Proofs.BlockWireProofs.
From Biscuit Require Proofs.SchemaProofs.
Local Open Scope N_scope.

(* ------------------------------------------------------------------ induction principles *)
Section ITermInd.
  Variable P : iterm -> Prop.
  Hypothesis HVar : forall n, P (ITVar n).
  Hypothesis HInt : forall z, P (ITInt z).
  Hypothesis HStr : forall n, P (ITStr n).
  Hypothesis HDate : forall n, P (ITDate n).
  Hypothesis HBytes : forall b, P (ITBytes b).
  Hypothesis HBool : forall b, P (ITBool b).
  Hypothesis HSet : forall l, all_with P l -> P (ITSet l).
  Hypothesis HNull : P ITNull.
  Hypothesis HArray : forall l, all_with P l -> P (ITArray l).
  Hypothesis HMap : forall l, all_with (fun kv => match kv with (_, v) => P v end) l -> P (ITMap l).

  Fixpoint iterm_ind' (t : iterm) : P t :=
    match t with
    | ITVar n => HVar n
    | ITInt z => HInt z
    | ITStr n => HStr n
    | ITDate n => HDate n
    | ITBytes b => HBytes b
    | ITBool b => HBool b
    | ITSet l => HSet l ((fix go (l : list iterm) : all_with P l :=
                            match l with [] => I | x :: l' => conj (iterm_ind' x) (go l') end) l)
    | ITNull => HNull
    | ITArray l => HArray l ((fix go (l : list iterm) : all_with P l :=
                                match l with [] => I | x :: l' => conj (iterm_ind' x) (go l') end) l)
    | ITMap l => HMap l ((fix go (l : list (ikey * iterm))
                           : all_with (fun kv => match kv with (_, v) => P v end) l :=
                            match l with
                            | [] => I
                            | (k, v) :: l' => conj (iterm_ind' v) (go l')
                            end) l)
    end.
End ITermInd.

Section IOpInd.
  Variable P : iop -> Prop.
  Hypothesis HVal : forall t, P (IOVal t).
  Hypothesis HUn : forall u, P (IOUn u).
  Hypothesis HBin : forall b, P (IOBin b).
  Hypothesis HClo : forall ps body, all_with P body -> P (IOClo ps body).
  Fixpoint iop_ind' (o : iop) : P o :=
    match o with
    | IOVal t => HVal t
    | IOUn u => HUn u
    | IOBin b => HBin b
    | IOClo ps body => HClo ps body ((fix go (l : list iop) : all_with P l :=
                                        match l with [] => I | x :: l' => conj (iop_ind' x) (go l') end) body)
    end.
End IOpInd.

Lemma all_with_and {A} (P Q : A -> Prop) l :
  all_with (fun x => P x -> Q x) l -> all_with P l -> all_with Q l.
Proof.
  induction l as [|x l IH]; cbn [all_with]; [trivial|].
  intros [H1 H2] [H3 H4]. split; [apply H1, H3 | apply IH; assumption].
Qed.

Lemma all_with_Forall {A} (P : A -> Prop) l : all_with P l <-> Forall P l.
Proof.
  induction l as [|x l IH]; cbn [all_with]; split; intros H.
  - constructor.
  - exact I.
  - destruct H as [H1 H2]. constructor; [exact H1 | apply IH, H2].
  - inversion H; subst. split; [assumption | apply IH; assumption].
Qed.

(* ------------------------------------------------------------------ terms *)
Definition rt (t : iterm) : Prop := conv_term (unconv_term t) = Some t.

Lemma conv_list_rt l : all_with rt l -> conv_list_with conv_term (map unconv_term l) = Some l.
Proof.
  induction l as [|x l IH]; cbn [all_with map conv_list_with]; [reflexivity|].
  intros [Hx Hl]. unfold rt in Hx. rewrite Hx, (IH Hl). reflexivity.
Qed.

Lemma conv_set_rt k l : forall kind acc,
  all_with rt l ->
  Forall (fun x => elem_kind x = Some k) l ->
  (kind = None \/ kind = Some k) ->
  conv_set_with conv_term (map unconv_term l) kind acc
  = Some (fold_left (fun acc x => iinsert x acc) l acc).
Proof.
  induction l as [|x l IH]; intros kind acc Hrt Hk Hkind; cbn [map conv_set_with fold_left]; [reflexivity|].
  destruct Hrt as [Hx Hl]. inversion Hk as [|? ? Hxk Hlk]; subst.
  unfold elem_kind in Hxk. rewrite Hxk.
  assert (Hc : match kind with Some k0 => negb (k0 =? k) | None => false end = false).
  { destruct Hkind as [-> | ->]; [reflexivity|]. now rewrite N.eqb_refl. }
  rewrite Hc. unfold rt in Hx. rewrite Hx. apply IH; [assumption | assumption | now right].
Qed.

Lemma same_kind_forall l :
  same_kind l = true -> l = [] \/ exists k, Forall (fun x => elem_kind x = Some k) l.
Proof.
  destruct l as [|x l]; [now left|]. cbn [same_kind]. intros H. right.
  destruct (elem_kind x) as [k|] eqn:Hx; [|discriminate]. exists k. constructor; [exact Hx|].
  apply Forall_forall. intros y Hy. rewrite forallb_forall in H. specialize (H y Hy).
  destruct (elem_kind y) as [k'|]; [|discriminate]. apply N.eqb_eq in H. now subst.
Qed.

Lemma conv_key_rt k : conv_key (unconv_key k) = Some k.
Proof. destruct k; reflexivity. Qed.

Lemma conv_map_rt l : forall acc,
  all_with (fun kv => match kv with (_, v) => rt v end) l ->
  conv_map_with conv_term (map (fun kv => (unconv_key (fst kv), unconv_term (snd kv))) l) acc
  = Some (fold_left (fun acc kv => minsert (fst kv) (snd kv) acc) l acc).
Proof.
  induction l as [|[k v] l IH]; intros acc H; cbn [map conv_map_with fold_left fst snd]; [reflexivity|].
  destruct H as [Hv Hl]. rewrite conv_key_rt. unfold rt in Hv. rewrite Hv. apply IH, Hl.
Qed.

Theorem conv_unconv_term : forall t, iterm_wf t -> conv_term (unconv_term t) = Some t.
Proof.
  apply (iterm_ind' (fun t => iterm_wf t -> rt t)); unfold rt; try (intros; reflexivity).
  - (* set *)
    intros l IH [Hs [Hk Hw]]. cbn [unconv_term conv_term].
    pose proof (all_with_and _ _ _ IH Hw) as Hrt.
    destruct (same_kind_forall _ Hk) as [-> | [k Hf]]; [reflexivity|].
    rewrite (conv_set_rt k l None [] Hrt Hf) by now left.
    unfold isort in Hs. now rewrite Hs.
  - (* array *)
    intros l IH Hw. cbn [unconv_term conv_term iterm_wf] in *.
    now rewrite (conv_list_rt l (all_with_and _ _ _ IH Hw)).
  - (* map *)
    intros l IH [Hs Hw]. cbn [unconv_term conv_term].
    assert (Hrt : all_with (fun kv => match kv with (_, v) => rt v end) l).
    { clear Hs. induction l as [|[k v] l IHl]; cbn [all_with] in *; [exact I|].
      destruct IH as [H1 H2]. destruct Hw as [H3 H4]. split; [apply H1, H3 | apply IHl; assumption]. }
    rewrite (conv_map_rt l [] Hrt). unfold msort in Hs. now rewrite Hs.
Qed.

Lemma conv_unconv_terms l : Forall iterm_wf l -> conv_terms (map unconv_term l) = Some l.
Proof.
  intros H. unfold conv_terms. apply conv_list_rt. apply all_with_Forall.
  eapply Forall_impl; [|exact H]. intros t Ht. now apply conv_unconv_term.
Qed.

(* ------------------------------------------------------------------ operations *)
Lemma unary_rt u : unary_wf u -> let '(k, f) := unary_kind u in unary_of_kind k f = Some u.
Proof. destruct u; cbn; intros H; try reflexivity; contradiction. Qed.

Lemma binary_rt b : binary_wf b -> let '(k, f) := binary_kind b in binary_of_kind k f = Some b.
Proof. destruct b; cbn; intros H; try reflexivity; contradiction. Qed.

Definition rto (o : iop) : Prop := conv_op (unconv_op o) = Some o.

Lemma conv_ops_rt l : all_with rto l -> conv_ops_with conv_op (map unconv_op l) = Some l.
Proof.
  induction l as [|x l IH]; cbn [all_with map conv_ops_with]; [reflexivity|].
  intros [Hx Hl]. unfold rto in Hx. rewrite Hx, (IH Hl). reflexivity.
Qed.

Theorem conv_unconv_op : forall o, iop_wf o -> conv_op (unconv_op o) = Some o.
Proof.
  apply (iop_ind' (fun o => iop_wf o -> rto o)); unfold rto.
  - intros t Ht. cbn [unconv_op conv_op iop_wf] in *. now rewrite conv_unconv_term.
  - intros u Hu. cbn [unconv_op iop_wf] in *. pose proof (unary_rt u Hu) as H.
    destruct (unary_kind u) as [k f]. cbn [conv_op]. now rewrite H.
  - intros b Hb. cbn [unconv_op iop_wf] in *. pose proof (binary_rt b Hb) as H.
    destruct (binary_kind b) as [k f]. cbn [conv_op]. now rewrite H.
  - intros ps body IH Hw. cbn [unconv_op conv_op iop_wf] in *.
    now rewrite (conv_ops_rt body (all_with_and _ _ _ IH Hw)).
Qed.

Lemma conv_unconv_ops l : Forall iop_wf l -> conv_ops (map unconv_op l) = Some l.
Proof.
  intros H. unfold conv_ops. apply conv_ops_rt. apply all_with_Forall.
  eapply Forall_impl; [|exact H]. intros o Ho. now apply conv_unconv_op.
Qed.

Lemma conv_unconv_exprs l : Forall (Forall iop_wf) l -> conv_exprs (map (map unconv_op) l) = Some l.
Proof.
  induction l as [|e l IH]; cbn [map conv_exprs]; intros H; [reflexivity|].
  inversion H; subst. rewrite conv_unconv_ops by assumption. now rewrite IH.
Qed.

(* ------------------------------------------------------------------ scopes, predicates, rules, checks *)
Lemma of_to_i64 k : k < two64 -> of_i64 (to_i64 k) = k.
Proof.
  intros H. unfold of_i64, to_i64. rewrite N.mod_small by exact H.
  unfold two64, two63 in *. destruct (k <? 9223372036854775808) eqn:E.
  - apply N.ltb_lt in E. destruct (Z.of_N k <? 0)%Z eqn:E2; [apply Z.ltb_lt in E2; lia|]. lia.
  - apply N.ltb_ge in E.
    destruct (Z.of_N k - 18446744073709551616 <? 0)%Z eqn:E2; [|apply Z.ltb_ge in E2; lia]. lia.
Qed.

Lemma conv_unconv_scope s : scope_wf s -> conv_scope (unconv_scope s) = Some s.
Proof. destruct s; cbn; intros H; try reflexivity. now rewrite of_to_i64. Qed.

Lemma conv_unconv_scopes l : Forall scope_wf l -> conv_scopes (map unconv_scope l) = Some l.
Proof.
  induction l as [|s l IH]; cbn [map conv_scopes]; intros H; [reflexivity|].
  inversion H; subst. rewrite conv_unconv_scope by assumption. now rewrite IH.
Qed.

Lemma conv_unconv_pred p : ipred_wf p -> conv_pred (unconv_pred p) = Some p.
Proof.
  intros H. unfold conv_pred, unconv_pred. cbn [pp_terms pp_name].
  rewrite conv_unconv_terms by exact H. now destruct p.
Qed.

Lemma conv_unconv_preds l : Forall ipred_wf l -> conv_preds (map unconv_pred l) = Some l.
Proof.
  induction l as [|p l IH]; cbn [map conv_preds]; intros H; [reflexivity|].
  inversion H; subst. rewrite conv_unconv_pred by assumption. now rewrite IH.
Qed.

Lemma nonempty_map {A B} (f : A -> B) l : Schema.nonempty (map f l) = Schema.nonempty l.
Proof. now destruct l. Qed.

Lemma conv_unconv_rule v r :
  irule_wf r -> rule_scopes_ok v r = true -> conv_rule v (unconv_rule r) = Some r.
Proof.
  intros (Hh & Hb & He & Hs) Hg. unfold conv_rule, unconv_rule.
  cbn [pr_body pr_exprs pr_scopes pr_head].
  rewrite conv_unconv_preds by exact Hb. rewrite conv_unconv_exprs by exact He.
  rewrite nonempty_map. unfold rule_scopes_ok in Hg. apply negb_true_iff in Hg. rewrite Hg.
  rewrite conv_unconv_scopes by exact Hs. rewrite conv_unconv_pred by exact Hh. now destruct r.
Qed.

Lemma conv_unconv_rules v l :
  Forall irule_wf l -> forallb (rule_scopes_ok v) l = true -> conv_rules v (map unconv_rule l) = Some l.
Proof.
  induction l as [|r l IH]; cbn [map conv_rules forallb]; intros H Hg; [reflexivity|].
  inversion H; subst. apply andb_true_iff in Hg as [Hg1 Hg2].
  rewrite conv_unconv_rule by assumption. now rewrite IH.
Qed.

Lemma kind_rt k : kind_of_wire (kind_to_wire k) = Some k.
Proof. now destruct k. Qed.

Lemma conv_unconv_check v c :
  icheck_wf c -> forallb (rule_scopes_ok v) (ic_queries c) = true -> conv_check v (unconv_check c) = Some c.
Proof.
  intros H Hg. unfold conv_check, unconv_check. cbn [pc_queries pc_kind].
  rewrite conv_unconv_rules by assumption. rewrite kind_rt. now destruct c.
Qed.

Lemma conv_unconv_checks v l :
  Forall icheck_wf l -> forallb (fun c => forallb (rule_scopes_ok v) (ic_queries c)) l = true ->
  conv_checks v (map unconv_check l) = Some l.
Proof.
  induction l as [|c l IH]; cbn [map conv_checks forallb]; intros H Hg; [reflexivity|].
  inversion H; subst. apply andb_true_iff in Hg as [Hg1 Hg2].
  rewrite conv_unconv_check by assumption. now rewrite IH.
Qed.

(* ------------------------------------------------------------------ the block *)
Lemma forallb_map' {A B} (f : A -> B) (g : B -> bool) l : forallb g (map f l) = forallb (fun x => g (f x)) l.
Proof. induction l as [|x l IH]; cbn [map forallb]; [reflexivity | now rewrite IH]. Qed.

Theorem conv_unconv_block canon b :
  iblock_wf canon b -> conv_block canon (unconv_block b) (ib_external b) = COk b.
Proof.
  intros (Hf & Hr & Hc & Hs & Hk & Hg). unfold iblock_gates in Hg.
  repeat (apply andb_true_iff in Hg; destruct Hg as [Hg ?]).
  match goal with H : Schema.check_compatibility _ _ _ = true |- _ => rename H into Hcompat end.
  match goal with H : negb (Symbols.has_common _ _) = true |- _ => apply negb_true_iff in H; rename H into Hsym end.
  match goal with H : negb (_ && ib_external b) = true |- _ => apply negb_true_iff in H; rename H into Hext end.
  match goal with H : (_ || forallb _ (ib_checks b)) = true |- _ => rename H into Hkinds end.
  match goal with H : forallb (fun c => forallb _ (ic_queries c)) (ib_checks b) = true |- _ => rename H into Hcq end.
  match goal with H : forallb (rule_scopes_ok _) (ib_rules b) = true |- _ => rename H into Hrq end.
  match goal with H : (ib_version b <=? _) = true |- _ => rename H into Hmax end.
  unfold conv_block, unconv_block.
  cbn [pb_version pb_facts pb_rules pb_checks pb_scopes pb_keys pb_symbols pb_context].
  rewrite Hg, Hmax. cbn [andb negb].
  rewrite conv_unconv_preds by exact Hf.
  rewrite conv_unconv_rules by assumption.
  assert (Hkg : (ib_version b <? Schema.MAX_SCHEMA_VERSION)
                && negb (forallb (kind_gate (ib_version b)) (map unconv_check (ib_checks b))) = false).
  { apply orb_true_iff in Hkinds as [Hv | Hv].
    - apply N.leb_le in Hv. apply andb_false_iff. left. apply N.ltb_ge. exact Hv.
    - apply andb_false_iff. right. apply negb_false_iff. rewrite forallb_map'. exact Hv. }
  rewrite Hkg, Hext.
  rewrite conv_unconv_checks by assumption.
  rewrite conv_unconv_scopes by exact Hs.
  unfold keys_wf in Hk. rewrite Hk. rewrite Hsym, Hcompat. now destruct b.
Qed.

(* bytes -> decoded structure -> token block: the written form of a block reads back *)
Theorem block_bytes_roundtrip canon b :
  iblock_wf canon b ->
  pblock_ok (unconv_block b) = true ->
  nlen (encode_block (unconv_block b)) < two64 ->
  exists p, decode_block (encode_block (unconv_block b)) = Some p
            /\ conv_block canon p (ib_external b) = COk b.
Proof.
  intros Hw Hok Hlen. exists (unconv_block b). split.
  - now apply decode_encode_block.
  - now apply conv_unconv_block.
Qed.

(* ------------------------------------------------------------------ the gate *)
Definition shape_block (b : iblock) : Schema.block :=
  Schema.mkblock (map shape_fact (ib_facts b)) (map shape_rule (ib_rules b))
                 (map shape_check (ib_checks b)) (map shape_scope (ib_scopes b))
                 (ib_version b) (ib_external b).

(* what a successful conversion went through *)
Lemma conv_block_ok_inv canon p ext b :
  conv_block canon p ext = COk b ->
  let v := match pb_version p with Some v => v | None => 0 end in
  (Schema.MIN_SCHEMA_VERSION <=? v) && (v <=? Schema.MAX_SCHEMA_VERSION) = true /\
  (v <? Schema.DATALOG_3_2) && ext = false /\
  Symbols.has_common (pb_symbols p) Symbols.default_symbols = false /\
  conv_preds (pb_facts p) = Some (ib_facts b) /\
  conv_rules v (pb_rules p) = Some (ib_rules b) /\
  conv_checks v (pb_checks p) = Some (ib_checks b) /\
  conv_scopes (pb_scopes p) = Some (ib_scopes b) /\
  conv_keys canon (pb_keys p) [] = inr (ib_keys b) /\
  Schema.check_compatibility Schema.repaired
     (shape_version (ib_facts b) (ib_rules b) (ib_checks b) (ib_scopes b)) v = true /\
  ib_version b = v /\ ib_external b = ext /\ ib_symbols b = pb_symbols p /\ ib_context b = pb_context p.
Proof.
  unfold conv_block. cbv zeta.
  set (v := match pb_version p with Some v => v | None => 0 end).
  destruct ((Schema.MIN_SCHEMA_VERSION <=? v) && (v <=? Schema.MAX_SCHEMA_VERSION)) eqn:H1; cbn [negb]; [|discriminate].
  destruct (conv_preds (pb_facts p)) as [facts|]; [|discriminate].
  destruct (conv_rules v (pb_rules p)) as [rules|]; [|discriminate].
  destruct ((v <? Schema.MAX_SCHEMA_VERSION) && negb (forallb (kind_gate v) (pb_checks p))); [discriminate|].
  destruct ((v <? Schema.DATALOG_3_2) && ext) eqn:H4; [discriminate|].
  destruct (conv_checks v (pb_checks p)) as [checks|]; [|discriminate].
  destruct (conv_scopes (pb_scopes p)) as [scopes|]; [|discriminate].
  destruct (conv_keys canon (pb_keys p) []) as [e|keys]; [discriminate|].
  destruct (Symbols.has_common (pb_symbols p) Symbols.default_symbols) eqn:H7; [discriminate|].
  destruct (Schema.check_compatibility _ _ v) eqn:H8; [|discriminate].
  intros H. injection H as <-. cbn. repeat split; try reflexivity. exact H8.
Qed.

(* a block the conversion accepts declares a supported version, at least 3.2 when it is
   third-party, and at least what its content requires *)
Theorem conv_gate_sound canon p ext b :
  conv_block canon p ext = COk b ->
  3 <= ib_version b <= 6 /\ ib_external b = ext /\ (ext = true -> 5 <= ib_version b)
  /\ Schema.required (shape_block b) <= ib_version b.
Proof.
  intros H. apply conv_block_ok_inv in H. cbv zeta in H.
  destruct H as (H1 & H4 & _ & _ & _ & _ & _ & _ & H8 & Hv & He & _).
  rewrite <- Hv in H1, H4, H8.
  apply andb_true_iff in H1 as [Ha Hb]. apply N.leb_le in Ha. apply N.leb_le in Hb.
  unfold Schema.MIN_SCHEMA_VERSION in Ha. unfold Schema.MAX_SCHEMA_VERSION in Hb.
  split; [lia|]. split; [exact He|].
  assert (Hext : ext = true -> 5 <= ib_version b).
  { intros ->. rewrite andb_true_r in H4. apply N.ltb_ge in H4. exact H4. }
  split; [exact Hext|].
  rewrite SchemaProofs.required_level. cbn [shape_block Schema.bthird].
  apply SchemaProofs.compat_repaired_iff in H8; [|exact Ha].
  pose proof (SchemaProofs.detected_level (shape_block b)) as Hd.
  unfold Schema.detect in Hd. cbn [shape_block Schema.bfacts Schema.brules Schema.bchecks Schema.bscopes] in Hd.
  unfold shape_version in H8. rewrite Hd in H8.
  rewrite He. destruct ext; [specialize (Hext eq_refl)|]; lia.
Qed.

(* out of range: refused with the version error, whatever else the block holds *)
Theorem conv_out_of_range canon p ext :
  (let v := match pb_version p with Some v => v | None => 0 end in v < 3 \/ 6 < v) ->
  conv_block canon p ext = CErr CVersion.
Proof.
  cbv zeta. intros H. unfold conv_block.
  set (v := match pb_version p with Some v => v | None => 0 end) in *.
  assert (E : (Schema.MIN_SCHEMA_VERSION <=? v) && (v <=? Schema.MAX_SCHEMA_VERSION) = false).
  { unfold Schema.MIN_SCHEMA_VERSION, Schema.MAX_SCHEMA_VERSION. apply andb_false_iff.
    destruct H as [H | H]; [left; apply N.leb_gt; exact H | right; apply N.leb_gt; exact H]. }
  now rewrite E.
Qed.

(* the conversion is a total function of the decoded structure: a block or one of six refusals
   (this is all [cres] can be; stated for the record of C09's validation contract) *)
Theorem conv_total canon p ext :
  (exists b, conv_block canon p ext = COk b) \/ (exists e, conv_block canon p ext = CErr e).
Proof. destruct (conv_block canon p ext); [left | right]; eauto. Qed.

(* sets and maps of an accepted block are in BTreeSet / BTreeMap form: non-vacuity of [iterm_wf]
   is shown by examples in Properties/C02.v *)

(* ------------------------------------------------------------------ snapshot blocks *)
(* what proto_snapshot_block_to_token_block accepts declares a supported version that is at least
   what its *content* requires; the 3.2 floor of third-party blocks is not part of this gate *)
Theorem conv_snapshot_gate_sound canon p b ext :
  conv_snapshot_block canon p = SOk b ext ->
  3 <= ib_version b <= 6 /\
  Schema.required (Schema.mkblock (map shape_fact (ib_facts b)) (map shape_rule (ib_rules b))
                                  (map shape_check (ib_checks b)) (map shape_scope (ib_scopes b))
                                  (ib_version b) false) <= ib_version b.
Proof.
  unfold conv_snapshot_block. cbv zeta.
  set (v := match ps_version p with Some v => v | None => 0 end).
  destruct ((Schema.MIN_SCHEMA_VERSION <=? v) && (v <=? Schema.MAX_SCHEMA_VERSION)) eqn:H1; cbn [negb]; [|discriminate].
  destruct (conv_preds (ps_facts p)) as [facts|]; [|discriminate].
  destruct (conv_rules v (ps_rules p)) as [rules|]; [|discriminate].
  destruct ((v =? Schema.MIN_SCHEMA_VERSION) && _); [discriminate|].
  destruct (conv_checks v (ps_checks p)) as [checks|]; [|discriminate].
  destruct (conv_scopes (ps_scopes p)) as [scopes|]; [|discriminate].
  destruct (Schema.check_compatibility Schema.repaired (shape_version facts rules checks scopes) v) eqn:H8; cbn [negb]; [|discriminate].
  assert (G : 3 <= v <= 6 /\
              Schema.required (Schema.mkblock (map shape_fact facts) (map shape_rule rules) (map shape_check checks)
                                              (map shape_scope scopes) v false) <= v).
  { apply andb_true_iff in H1 as [Ha Hb]. apply N.leb_le in Ha. apply N.leb_le in Hb.
    unfold Schema.MIN_SCHEMA_VERSION in Ha. unfold Schema.MAX_SCHEMA_VERSION in Hb. split; [lia|].
    rewrite SchemaProofs.required_level. cbn [Schema.bthird].
    apply SchemaProofs.compat_repaired_iff in H8; [|exact Ha].
    pose proof (SchemaProofs.detected_level (Schema.mkblock (map shape_fact facts) (map shape_rule rules)
                 (map shape_check checks) (map shape_scope scopes) v false)) as Hd.
    unfold Schema.detect in Hd. cbn [Schema.bfacts Schema.brules Schema.bchecks Schema.bscopes] in Hd.
    unfold shape_version in H8. rewrite Hd in H8. lia. }
  destruct (ps_external p) as [k|].
  - destruct (conv_key_proto canon k) as [e|k']; [discriminate|]. intros H. injection H as <- <-. exact G.
  - intros H. injection H as <- <-. exact G.
Qed.

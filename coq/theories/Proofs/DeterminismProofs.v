(* C11: the decision does not depend on the order in which facts are stored or inserted
   (error-free programs); with erroring bindings the outcome set is exactly what the
   set-valued evaluator computes at the level of one query. *)
From Biscuit Require Import Model.Determinism Spec.DatalogSpec Proofs.ValueProofs Proofs.DatalogProofs
     Proofs.AuthProofs.
From Coq Require Import Permutation.

Section Invariance.
Variable orc : oracles.

Definition any_tr : origin -> Prop := fun _ => True.

(* two fact lists holding the same facts up to set-equal origins *)
Definition facts_equiv (fs fs' : list ofact) : Prop :=
  (forall o f, In (o, f) fs -> exists o', In (o', f) fs' /\ oeq o o') /\
  (forall o f, In (o, f) fs' -> exists o', In (o', f) fs /\ oeq o o').

Lemma same_view_of_equiv fs fs' : facts_equiv fs fs' -> same_view fs fs' any_tr.
Proof.
  intros [H1 H2] tr tr' E _. split.
  - intros [o f] I V. destruct (H2 o f I) as [o' [I' E']]. exists (o', f). cbn [fst snd] in *.
    split; [assumption|split; [reflexivity|]]. apply osubset_spec. intros x Hx. apply E.
    rewrite osubset_spec in V. apply V. apply E'. assumption.
  - intros [o f] I V. destruct (H1 o f I) as [o' [I' E']]. exists (o', f). cbn [fst snd] in *.
    split; [assumption|split; [reflexivity|]]. apply osubset_spec. intros x Hx. apply E.
    rewrite osubset_spec in V. apply V. apply E'. assumption.
Qed.

Lemma facts_equiv_perm fs fs' : Permutation fs fs' -> facts_equiv fs fs'.
Proof.
  intro P. split; intros o f I; exists o; (split; [|apply oeq_refl]).
  - eapply Permutation_in; eauto.
  - eapply Permutation_in; [apply Permutation_sym|]; eauto.
Qed.

(* two successful runs from permuted facts and rules end in equivalent fact sets *)
Lemma facts_equiv_runs facts facts' rules rules' n m fs fs' :
  Permutation facts facts' -> Permutation rules rules' ->
  saturate orc n rules facts = Ok (Some fs) ->
  saturate orc m rules' facts' = Ok (Some fs') ->
  facts_equiv fs fs'.
Proof.
  intros Pf Pr H H'. split; intros o f I.
  - eapply order_independent; eauto.
  - eapply order_independent; [apply Permutation_sym; exact Pf|apply Permutation_sym; exact Pr| | |]; eauto.
Qed.

Lemma alt_ok_refl default cur km qs : alt_ok any_tr default default cur km km qs.
Proof. intros q _. split; [apply oeq_refl|exact I]. Qed.

Lemma run_block_checks_same fs fs' km bs : forall i l l',
  same_view fs fs' any_tr ->
  run_block_checks orc true fs km i bs = Ok l ->
  run_block_checks orc true fs' km i bs = Ok l' -> l' = l.
Proof.
  induction bs as [|b bs IH]; intros i l l' SV H H'; cbn [run_block_checks] in *; [congruence|].
  destruct (run_checks orc true fs (block_trust km i b) i km (FBlock i) 0 (bchecks b)) as [x|] eqn:R; [|discriminate].
  destruct (run_checks orc true fs' (block_trust km i b) i km (FBlock i) 0 (bchecks b)) as [x'|] eqn:R'; [|discriminate].
  destruct (run_block_checks orc true fs km (N.succ i) bs) as [y|] eqn:B; [|discriminate].
  destruct (run_block_checks orc true fs' km (N.succ i) bs) as [y'|] eqn:B'; [|discriminate].
  assert (x' = x) as ->.
  { eapply (run_checks_agree orc fs fs' any_tr SV); [|exact R|exact R']. intros c _. apply alt_ok_refl. }
  assert (y' = y) as -> by (eapply IH; eauto).
  congruence.
Qed.

(* THE DECISION IS A FUNCTION OF THE FACT SET, not of its order *)
Theorem decide_invariant fs fs' t a :
  facts_equiv fs fs' ->
  no_exec (decide orc true fs t a) -> no_exec (decide orc true fs' t a) ->
  decide orc true fs' t a = decide orc true fs t a.
Proof.
  intros E. pose proof (same_view_of_equiv _ _ E) as SV. unfold decide.
  set (km := token_keymap t).
  destruct (run_checks orc true fs (auth_trust km a) auth_id km FAuth 0 (achecks a)) as [f1|] eqn:A1; [|intros []].
  destruct (run_block_checks orc true fs km 0 (firstn 1 t)) as [f2|] eqn:A2; [|intros []].
  destruct (run_policies orc fs (auth_trust km a) km 0 (apolicies a)) as [pol|] eqn:A3; [|intros []].
  destruct (run_block_checks orc true fs km 1 (skipn 1 t)) as [f3|] eqn:A4; [|intros []].
  destruct (run_checks orc true fs' (auth_trust km a) auth_id km FAuth 0 (achecks a)) as [f1'|] eqn:B1; [|intros _ []].
  destruct (run_block_checks orc true fs' km 0 (firstn 1 t)) as [f2'|] eqn:B2; [|intros _ []].
  destruct (run_policies orc fs' (auth_trust km a) km 0 (apolicies a)) as [pol'|] eqn:B3; [|intros _ []].
  destruct (run_block_checks orc true fs' km 1 (skipn 1 t)) as [f3'|] eqn:B4; [|intros _ []].
  intros _ _.
  assert (f1' = f1) as ->.
  { eapply (run_checks_agree orc fs fs' any_tr SV); [|exact A1|exact B1]. intros c _. apply alt_ok_refl. }
  assert (f2' = f2) as -> by (eapply run_block_checks_same; eauto).
  assert (pol' = pol) as ->.
  { eapply (run_policies_agree orc fs fs' any_tr SV); [|exact A3|exact B3]. intros p _. apply alt_ok_refl. }
  assert (f3' = f3) as -> by (eapply run_block_checks_same; eauto).
  reflexivity.
Qed.

(* ---- one query: the result over any order of its bindings lies in the computed set ---- *)
Definition qout_of (r : res bool) : qout :=
  match r with Ok true => QTrue | Ok false => QFalse | Err _ => QErr end.

Lemma qmem_In x l : qmem x l = true <-> In x l.
Proof.
  unfold qmem. rewrite existsb_exists. split.
  - intros [y [I E]]. destruct x, y; try discriminate; assumption.
  - intro I. exists x. split; [assumption|destruct x; reflexivity].
Qed.

Lemma first_produced_cases r ms :
  match first_produced orc r ms with
  | Ok true => exists o s, In (o, s) ms /\ binding_find orc r s = QTrue
  | Err _ => exists o s, In (o, s) ms /\ binding_find orc r s = QErr
  | Ok false => forall o s, In (o, s) ms -> binding_find orc r s = QFalse
  end.
Proof.
  induction ms as [|[o s] ms IH]; cbn [first_produced]; [intros ? ? []|].
  unfold binding_find at 1 2 3.
  destruct (eval_exprs orc s (rexprs r)) as [[|]|e] eqn:E.
  - destruct (inst_terms s (pargs (rhead r))) as [vs|] eqn:I.
    + exists o, s. split; [left; reflexivity|]. unfold binding_find. rewrite E, I. reflexivity.
    + destruct (first_produced orc r ms) as [[|]|e'].
      * destruct IH as [o1 [s1 [A B]]]. exists o1, s1. split; [right; assumption|assumption].
      * intros o1 s1 [A|A]; [inversion A; subst; unfold binding_find; rewrite E, I; reflexivity|eapply IH; eauto].
      * destruct IH as [o1 [s1 [A B]]]. exists o1, s1. split; [right; assumption|assumption].
  - destruct (first_produced orc r ms) as [[|]|e'].
    + destruct IH as [o1 [s1 [A B]]]. exists o1, s1. split; [right; assumption|assumption].
    + intros o1 s1 [A|A]; [inversion A; subst; unfold binding_find; rewrite E; reflexivity|eapply IH; eauto].
    + destruct IH as [o1 [s1 [A B]]]. exists o1, s1. split; [right; assumption|assumption].
  - exists o, s. split; [left; reflexivity|]. unfold binding_find. rewrite E. reflexivity.
Qed.

Theorem find_match_any_order r (ms ms' : list (origin * env)) :
  Permutation ms ms' ->
  In (qout_of (first_produced orc r ms'))
     (find_set_of (map (fun os => binding_find orc r (snd os)) ms)).
Proof.
  intro P. pose proof (first_produced_cases r ms') as C.
  set (outs := map (fun os => binding_find orc r (snd os)) ms).
  assert (M : forall o s, In (o, s) ms' -> In (binding_find orc r s) outs).
  { intros o s I. unfold outs. apply in_map_iff. exists (o, s). split; [reflexivity|].
    eapply Permutation_in; [apply Permutation_sym|]; eauto. }
  unfold find_set_of.
  destruct (first_produced orc r ms') as [[|]|e]; cbn [qout_of].
  - destruct C as [o [s [I B]]]. specialize (M o s I). rewrite B in M. apply qmem_In in M. rewrite M.
    left. reflexivity.
  - assert (qmem QTrue outs = false) as T.
    { destruct (qmem QTrue outs) eqn:Q; [|reflexivity]. apply qmem_In in Q. unfold outs in Q.
      apply in_map_iff in Q. destruct Q as [[o s] [B I]]. cbn [snd] in B.
      rewrite (C o s (Permutation_in _ P I)) in B. discriminate. }
    assert (qmem QErr outs = false) as Er.
    { destruct (qmem QErr outs) eqn:Q; [|reflexivity]. apply qmem_In in Q. unfold outs in Q.
      apply in_map_iff in Q. destruct Q as [[o s] [B I]]. cbn [snd] in B.
      rewrite (C o s (Permutation_in _ P I)) in B. discriminate. }
    rewrite T, Er. cbn. left. reflexivity.
  - destruct C as [o [s [I B]]]. specialize (M o s I). rewrite B in M. apply qmem_In in M. rewrite M.
    apply in_or_app. right. left. reflexivity.
Qed.

Lemma all_match_cases es ms : forall found,
  match all_match orc es ms found with
  | Ok false => (exists o s, In (o, s) ms /\ eval_exprs orc s es = Ok false) \/
                (found = false /\ ms = [])
  | Err _ => exists o s, In (o, s) ms /\ exists e, eval_exprs orc s es = Err e
  | Ok true => (forall o s, In (o, s) ms -> eval_exprs orc s es = Ok true) /\ (found = true \/ ms <> [])
  end.
Proof.
  induction ms as [|[o s] ms IH]; intro found; cbn [all_match].
  - destruct found; [split; [intros ? ? []|left; reflexivity]|right; split; reflexivity].
  - destruct (eval_exprs orc s es) as [[|]|e] eqn:E.
    + specialize (IH true). destruct (all_match orc es ms true) as [[|]|e'].
      * destruct IH as [A _]. split; [|right; discriminate].
        intros o1 s1 [X|X]; [inversion X; subst; assumption|eapply A; eauto].
      * destruct IH as [[o1 [s1 [A B]]]|[X _]]; [|discriminate]. left. exists o1, s1. split; [right; assumption|assumption].
      * destruct IH as [o1 [s1 [A B]]]. exists o1, s1. split; [right; assumption|assumption].
    + left. exists o, s. split; [left; reflexivity|assumption].
    + exists o, s. split; [left; reflexivity|exists e; assumption].
Qed.

Theorem check_all_any_order r (ms ms' : list (origin * env)) :
  Permutation ms ms' ->
  In (qout_of (all_match orc (rexprs r) ms' false))
     (all_set_of (map (fun os => binding_all orc r (snd os)) ms)).
Proof.
  intro P. pose proof (all_match_cases (rexprs r) ms' false) as C.
  set (outs := map (fun os => binding_all orc r (snd os)) ms).
  assert (M : forall o s, In (o, s) ms' -> In (binding_all orc r s) outs).
  { intros o s I. unfold outs. apply in_map_iff. exists (o, s). split; [reflexivity|].
    eapply Permutation_in; [apply Permutation_sym|]; eauto. }
  assert (Mi : forall x, In x outs -> exists o s, In (o, s) ms' /\ binding_all orc r s = x).
  { intros x I. unfold outs in I. apply in_map_iff in I. destruct I as [[o s] [B I]].
    exists o, s. split; [eapply Permutation_in; eauto|assumption]. }
  unfold all_set_of.
  destruct (all_match orc (rexprs r) ms' false) as [[|]|e]; cbn [qout_of].
  - destruct C as [A B].
    assert (qmem QFalse outs = false) as F.
    { destruct (qmem QFalse outs) eqn:Q; [|reflexivity]. apply qmem_In in Q.
      destruct (Mi _ Q) as [o [s [I X]]]. unfold binding_all in X. rewrite (A o s I) in X. discriminate. }
    assert (qmem QErr outs = false) as Er.
    { destruct (qmem QErr outs) eqn:Q; [|reflexivity]. apply qmem_In in Q.
      destruct (Mi _ Q) as [o [s [I X]]]. unfold binding_all in X. rewrite (A o s I) in X. discriminate. }
    rewrite F, Er. cbn. left.
    destruct outs as [|x outs'] eqn:O; [|reflexivity].
    destruct B as [B|B]; [discriminate|]. exfalso. apply B.
    destruct ms' as [|p ms'']; [reflexivity|]. destruct p as [o s].
    specialize (M o s (or_introl eq_refl)). destruct M.
  - destruct C as [[o [s [I E]]]|[_ E]].
    + specialize (M o s I). unfold binding_all in M. rewrite E in M. apply qmem_In in M. rewrite M.
      left. reflexivity.
    + subst ms'. apply Permutation_sym in P. apply Permutation_nil in P. subst ms. cbn. left. reflexivity.
  - destruct C as [o [s [I [e' E]]]]. specialize (M o s I). unfold binding_all in M. rewrite E in M.
    apply qmem_In in M. rewrite M. apply in_or_app. right. left. reflexivity.
Qed.

End Invariance.

(* ---- the refutation: one check, one matching and one erroring binding, two orders ---- *)
Definition nd_orc : oracles :=
  {| regex_match := fun _ _ => Ok false; extern_call := fun _ _ _ => Err EUndefinedExtern |}.
Definition nd_check : check :=
  mkcheck CkOne [mkrule (mkpred (Sym (str "query")) []) [mkpred (Sym (str "f")) [TVar 0]]
                        [[OVal (VInt 10); OVar 0; OBin BDiv; OVal (VInt 0); OBin BGreaterThan]] []].
Definition nd_token : token := [mkblock [] [] [nd_check] [] None].
Definition nd_auth : authorizer :=
  mkauth [] [] [] [mkpolicy PAllow [mkrule (mkpred (Sym (str "query")) []) [] [[OVal (VBool true)]] []]] [].
Definition nd_f (i : Z) : ofact := ([0%N], mkfact (Sym (str "f")) [VInt i]).

Lemma first_match_refuted :
  Permutation [nd_f 1; nd_f 0] [nd_f 0; nd_f 1] /\
  decide nd_orc true [nd_f 1; nd_f 0] nd_token nd_auth = OAllow 0 /\
  decide nd_orc true [nd_f 0; nd_f 1] nd_token nd_auth = OExec EDivZero /\
  decide_set nd_orc [nd_f 1; nd_f 0] nd_token nd_auth = [OAllow 0; OExec EInvalidType].
Proof.
  split; [apply perm_swap|]. repeat split; vm_compute; reflexivity.
Qed.

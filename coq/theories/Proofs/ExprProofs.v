(* Proofs about the expression evaluator (C06). *)
From Biscuit Require Import Model.Expr.

(* ---------- value type tags and the operator type table ---------- *)
Inductive tag := TInt | TStr | TDate | TBytes | TBool | TSet | TNull | TArray | TMap.

Definition tag_of (v : value) : tag :=
  match v with
  | VInt _ => TInt | VStr _ | VUnk _ => TStr | VDate _ => TDate | VBytes _ => TBytes
  | VBool _ => TBool | VSet _ => TSet | VNull => TNull | VArray _ => TArray | VMap _ => TMap
  end.

Definition tag_eqb (a b : tag) : bool :=
  match a, b with
  | TInt, TInt | TStr, TStr | TDate, TDate | TBytes, TBytes | TBool, TBool
  | TSet, TSet | TNull, TNull | TArray, TArray | TMap, TMap => true
  | _, _ => false
  end.

(* The specification's table of accepted operand types (DESIGN Appendix D.4). *)
Definition type_ok (b : binary) (l r : tag) : bool :=
  match b with
  | BLessThan | BGreaterThan | BLessOrEqual | BGreaterOrEqual =>
      match l, r with TInt, TInt | TDate, TDate => true | _, _ => false end
  | BEqual | BNotEqual => tag_eqb l r
  | BHeterogeneousEqual | BHeterogeneousNotEqual => true
  | BContains =>
      match l, r with
      | TStr, TStr => true
      | TSet, (TSet | TInt | TDate | TBool | TStr | TBytes) => true
      | TArray, _ | TMap, _ => true
      | _, _ => false
      end
  | BPrefix | BSuffix => match l, r with TStr, TStr | TArray, TArray => true | _, _ => false end
  | BRegex => match l, r with TStr, TStr => true | _, _ => false end
  | BAdd => match l, r with TInt, TInt | TStr, TStr => true | _, _ => false end
  | BSub | BMul | BDiv | BBitwiseAnd | BBitwiseOr | BBitwiseXor =>
      match l, r with TInt, TInt => true | _, _ => false end
  | BAnd | BOr => match l, r with TBool, TBool => true | _, _ => false end
  | BIntersection | BUnion => match l, r with TSet, TSet => true | _, _ => false end
  | BGet => match l, r with TArray, TInt | TMap, TInt | TMap, TStr => true | _, _ => false end
  | BLazyAnd | BLazyOr | BAll | BAny => false   (* a term on the right is never accepted *)
  | BFfi _ | BFfiUnk _ => true                  (* typing is the extern function's business *)
  end.

Lemma same_type_eq_tags l r :
  same_type_eq l r = None <-> tag_eqb (tag_of l) (tag_of r) = false.
Proof. destruct l, r; simpl; split; intro H; try reflexivity; try discriminate. Qed.

Lemma type_strict (O : oracles) b l r :
  type_ok b (tag_of l) (tag_of r) = false -> eval_binary O b l r = Err EInvalidType.
Proof.
  destruct b; simpl; intro H;
    try (destruct (same_type_eq l r) eqn:E;
         [ assert (same_type_eq l r <> None) as N by congruence;
           rewrite same_type_eq_tags in N; congruence
         | reflexivity ]);
    try discriminate;
    destruct l, r; simpl in *; try reflexivity; try discriminate.
Qed.

Lemma hetero_total (O : oracles) l r :
  (tag_eqb (tag_of l) (tag_of r) = false ->
     eval_binary O BHeterogeneousEqual l r = Ok (VBool false) /\
     eval_binary O BHeterogeneousNotEqual l r = Ok (VBool true)) /\
  (exists x, eval_binary O BHeterogeneousEqual l r = Ok (VBool x) /\
             eval_binary O BHeterogeneousNotEqual l r = Ok (VBool (negb x))).
Proof.
  split.
  - intro H. apply same_type_eq_tags in H. simpl. rewrite H. auto.
  - simpl. destruct (same_type_eq l r) as [x|]; [exists x | exists false]; auto.
Qed.

(* strict equality is the same relation as the heterogeneous one on same-type operands *)
Lemma strict_eq_same_type (O : oracles) l r :
  tag_eqb (tag_of l) (tag_of r) = true ->
  eval_binary O BEqual l r = eval_binary O BHeterogeneousEqual l r /\
  eval_binary O BNotEqual l r = eval_binary O BHeterogeneousNotEqual l r.
Proof.
  intro H. simpl. destruct (same_type_eq l r) eqn:E; auto.
  apply same_type_eq_tags in E. congruence.
Qed.

(* ---------- checked arithmetic ---------- *)
Lemma checked_spec z : (in_i64 z = true /\ checked z = Ok (VInt z)) \/
                       (in_i64 z = false /\ checked z = Err EOverflow).
Proof. unfold checked. destruct (in_i64 z); auto. Qed.

Lemma arith_checked (O : oracles) i j :
  let ops := [(BAdd, i + j); (BSub, i - j); (BMul, i * j)] in
  forall b z, In (b, z) ops ->
    (in_i64 z = true -> eval_binary O b (VInt i) (VInt j) = Ok (VInt z)) /\
    (in_i64 z = false -> eval_binary O b (VInt i) (VInt j) = Err EOverflow).
Proof.
  intros ops b z H. simpl in H.
  destruct H as [H|[H|[H|[]]]]; inversion H; subst; simpl; unfold checked;
    split; intro E; rewrite E; reflexivity.
Qed.

Lemma div_checked (O : oracles) i j :
  (j = 0 -> eval_binary O BDiv (VInt i) (VInt j) = Err EDivZero) /\
  (j <> 0 -> in_i64 (Z.quot i j) = true -> eval_binary O BDiv (VInt i) (VInt j) = Ok (VInt (Z.quot i j))) /\
  (j <> 0 -> in_i64 (Z.quot i j) = false -> eval_binary O BDiv (VInt i) (VInt j) = Err EDivZero).
Proof.
  simpl. repeat split.
  - intros ->. reflexivity.
  - intros Hj E. destruct (Z.eqb_spec j 0); [contradiction|]. rewrite E. reflexivity.
  - intros Hj E. destruct (Z.eqb_spec j 0); [contradiction|]. rewrite E. reflexivity.
Qed.

Lemma div_min_neg1 (O : oracles) :
  eval_binary O BDiv (VInt i64_min) (VInt (-1)) = Err EDivZero.
Proof. reflexivity. Qed.

(* an integer result of the four arithmetic operators is always inside i64 *)
Lemma arith_result_in_range (O : oracles) b i j k :
  In b [BAdd; BSub; BMul; BDiv] ->
  eval_binary O b (VInt i) (VInt j) = Ok (VInt k) -> in_i64 k = true.
Proof.
  intros Hb. simpl in Hb.
  destruct Hb as [<-|[<-|[<-|[<-|[]]]]]; simpl; unfold checked.
  - destruct (in_i64 (i + j)) eqn:E; intro H; inversion H; subst; assumption.
  - destruct (in_i64 (i - j)) eqn:E; intro H; inversion H; subst; assumption.
  - destruct (in_i64 (i * j)) eqn:E; intro H; inversion H; subst; assumption.
  - destruct (Z.eqb j 0); [discriminate|].
    destruct (in_i64 (Z.quot i j)) eqn:E; intro H; inversion H; subst; assumption.
Qed.

(* ---------- laziness ---------- *)
Lemma lazy_or_true (O : oracles) f e body rest st :
  eval O (S f) e (OBin BLazyOr :: rest) (SClo [] body :: STerm (VBool true) :: st)
  = eval O f e rest (STerm (VBool true) :: st).
Proof. reflexivity. Qed.

Lemma lazy_and_false (O : oracles) f e body rest st :
  eval O (S f) e (OBin BLazyAnd :: rest) (SClo [] body :: STerm (VBool false) :: st)
  = eval O f e rest (STerm (VBool false) :: st).
Proof. reflexivity. Qed.

Lemma lazy_or_false (O : oracles) f e body rest st :
  eval O (S f) e (OBin BLazyOr :: rest) (SClo [] body :: STerm (VBool false) :: st)
  = do w <- eval O f e body []; eval O f e rest (STerm w :: st).
Proof. reflexivity. Qed.

Lemma lazy_and_true (O : oracles) f e body rest st :
  eval O (S f) e (OBin BLazyAnd :: rest) (SClo [] body :: STerm (VBool true) :: st)
  = do w <- eval O f e body []; eval O f e rest (STerm w :: st).
Proof. reflexivity. Qed.

(* whole-expression form: the right side can be anything, even ill-formed or erroneous *)
Lemma lazy_whole (O : oracles) e body :
  evaluate O e [OVal (VBool true); OClo [] body; OBin BLazyOr] = Ok (VBool true) /\
  evaluate O e [OVal (VBool false); OClo [] body; OBin BLazyAnd] = Ok (VBool false).
Proof.
  assert (F : forall b, exists m,
            S (ops_size [OVal (VBool b); OClo [] body; OBin (if b then BLazyOr else BLazyAnd)])
            = S (S (S (S m)))).
  { intro b. exists (ops_size body). unfold ops_size. cbn [op_size]. destruct b; lia. }
  split; unfold evaluate.
  - destruct (F true) as [m ->]. reflexivity.
  - destruct (F false) as [m ->]. reflexivity.
Qed.

(* ---------- closures: binding, restoration, shadowing ---------- *)
Fixpoint all_fold (run : value -> res value) (xs : list value) : res value :=
  match xs with
  | [] => Ok (VBool true)
  | x :: xs' => do w <- run x;
                match w with
                | VBool true => all_fold run xs'
                | VBool false => Ok (VBool false)
                | _ => Err EInvalidType
                end
  end.

Fixpoint any_fold (run : value -> res value) (xs : list value) : res value :=
  match xs with
  | [] => Ok (VBool false)
  | x :: xs' => do w <- run x;
                match w with
                | VBool false => any_fold run xs'
                | VBool true => Ok (VBool true)
                | _ => Err EInvalidType
                end
  end.

Lemma shadow_rejected (O : oracles) f e b ps body l rest st :
  shadows e ps = true ->
  eval O (S f) e (OBin b :: rest) (SClo ps body :: STerm l :: st) = Err EShadowed.
Proof. intro H. simpl. rewrite H. reflexivity. Qed.

Lemma all_spec (O : oracles) f e p body l xs rest st :
  closure_domain l = Some xs -> shadows e [p] = false ->
  eval O (S f) e (OBin BAll :: rest) (SClo [p] body :: STerm l :: st)
  = do w <- all_fold (fun x => eval O f ((p, x) :: e) body []) xs;
    eval O f e rest (STerm w :: st).
Proof.
  intros Hd Hs. cbn [eval]. rewrite Hs, Hd.
  match goal with |- bind ?a _ = bind ?b _ => assert (a = b) as -> end; [|reflexivity].
  clear Hd. induction xs as [|x xs IH]; [reflexivity|].
  cbn [all_fold]. destruct (eval O f ((p, x) :: e) body []) as [w|er]; [|reflexivity].
  cbn [bind]. destruct w; try reflexivity. destruct b; [apply IH|reflexivity].
Qed.

Lemma any_spec (O : oracles) f e p body l xs rest st :
  closure_domain l = Some xs -> shadows e [p] = false ->
  eval O (S f) e (OBin BAny :: rest) (SClo [p] body :: STerm l :: st)
  = do w <- any_fold (fun x => eval O f ((p, x) :: e) body []) xs;
    eval O f e rest (STerm w :: st).
Proof.
  intros Hd Hs. cbn [eval]. rewrite Hs, Hd.
  match goal with |- bind ?a _ = bind ?b _ => assert (a = b) as -> end; [|reflexivity].
  clear Hd. induction xs as [|x xs IH]; [reflexivity|].
  cbn [any_fold]. destruct (eval O f ((p, x) :: e) body []) as [w|er]; [|reflexivity].
  cbn [bind]. destruct w; try reflexivity. destruct b; [reflexivity|apply IH].
Qed.

Lemma lookup_bound p x e q :
  lookup q ((p, x) :: e) = if N.eqb q p then Some x else lookup q e.
Proof. reflexivity. Qed.

Lemma shadows_spec e ps :
  shadows e ps = true <-> exists p v, In p ps /\ lookup p e = Some v.
Proof.
  unfold shadows. rewrite existsb_exists. split.
  - intros [p [Hin H]]. destruct (lookup p e) as [v|] eqn:E; [|discriminate]. eauto.
  - intros [p [v [Hin H]]]. exists p. rewrite H. auto.
Qed.

(* closures with the wrong number of parameters, or on non-collections, are type errors *)
Lemma closure_arity (O : oracles) f e b ps body l rest st :
  shadows e ps = false ->
  match b, ps with
  | (BLazyAnd | BLazyOr), [] => False
  | (BAll | BAny), [_] => False
  | _, _ => True
  end ->
  eval O (S f) e (OBin b :: rest) (SClo ps body :: STerm l :: st) = Err EInvalidType.
Proof.
  intros Hs H. cbn [eval]. rewrite Hs.
  destruct b; try reflexivity; destruct ps as [|p [|q ps]]; try contradiction; try reflexivity;
    destruct l; try reflexivity; destruct b; reflexivity.
Qed.

(* ---------- stack discipline ---------- *)
Lemma stack_underflow (O : oracles) f e rest :
  (forall u, eval O (S f) e (OUn u :: rest) [] = Err EInvalidStack) /\
  (forall b, eval O (S f) e (OBin b :: rest) [] = Err EInvalidStack) /\
  (forall b x, eval O (S f) e (OBin b :: rest) [x] = Err EInvalidStack) /\
  (forall u ps body st, eval O (S f) e (OUn u :: rest) (SClo ps body :: st) = Err EInvalidStack) /\
  (forall b x ps body st, eval O (S f) e (OBin b :: rest) (x :: SClo ps body :: st) = Err EInvalidStack).
Proof.
  repeat split; intros; cbn [eval]; try reflexivity.
  - destruct x; reflexivity.
  - destruct x; reflexivity.
Qed.

Lemma final_stack (O : oracles) f e st :
  eval O (S f) e [] st = match st with [STerm v] => Ok v | _ => Err EInvalidStack end.
Proof. reflexivity. Qed.

(* ---------- fuel: [evaluate] never runs out ---------- *)
Definition oracles_no_fuel (O : oracles) : Prop :=
  (forall s p, regex_match O s p <> Err EOutOfFuel) /\
  (forall n l r, extern_call O n l r <> Err EOutOfFuel).

Lemma str2_no_fuel l r f :
  (forall a b, f a b <> Err EOutOfFuel) -> str2 l r f <> Err EOutOfFuel.
Proof. intros H. destruct l, r; simpl; try discriminate; apply H. Qed.

Lemma eval_unary_no_fuel O u v : oracles_no_fuel O -> eval_unary O u v <> Err EOutOfFuel.
Proof.
  intros [_ He]. destruct u, v; simpl; try discriminate; apply He.
Qed.

Lemma eval_binary_no_fuel O b l r : oracles_no_fuel O -> eval_binary O b l r <> Err EOutOfFuel.
Proof.
  intros [Hr He].
  destruct b; simpl; try discriminate; try apply He;
    try (destruct (same_type_eq l r); discriminate);
    try (destruct l, r; simpl; try discriminate; unfold checked;
         match goal with
         | |- context [if ?c then _ else _] => destruct c; try discriminate
         | _ => idtac
         end;
         try (match goal with
              | |- context [if ?c then _ else _] => destruct c; discriminate
              end);
         try (match goal with
              | |- context [regex_match ?O ?a ?b] =>
                  specialize (Hr a b); destruct (regex_match O a b) as [x|er]; [discriminate|congruence]
              end); fail).
Qed.

Fixpoint clo_size (st : list selem) : nat :=
  match st with
  | [] => 0%nat
  | SClo _ body :: r => (ops_size body + clo_size r)%nat
  | STerm _ :: r => clo_size r
  end.

Lemma ops_size_cons o r : ops_size (o :: r) = (op_size o + ops_size r)%nat.
Proof. reflexivity. Qed.

Lemma op_size_clo ps body : op_size (OClo ps body) = S (ops_size body).
Proof. reflexivity. Qed.

Lemma bind_no_fuel {A} (r : res A) (k : A -> res value) :
  r <> Err EOutOfFuel -> (forall a, k a <> Err EOutOfFuel) -> bind r k <> Err EOutOfFuel.
Proof. intros H1 H2. destruct r as [a|er]; simpl; [apply H2|]. intro E; apply H1; inversion E; reflexivity. Qed.

Lemma eval_no_fuel O : oracles_no_fuel O ->
  forall f e ops st, (ops_size ops + clo_size st < f)%nat -> eval O f e ops st <> Err EOutOfFuel.
Proof.
  intros HO. induction f as [|f IH]; intros e ops st Hf; [lia|].
  destruct ops as [|o rest].
  - cbn [eval]. destruct st as [|[v|ps b] [|? ?]]; discriminate.
  - rewrite ops_size_cons in Hf. destruct o as [v|x|u|b|ps body].
    + cbn [eval]. apply IH. cbn [clo_size op_size] in *. lia.
    + cbn [eval]. destruct (lookup x e); [|discriminate]. apply IH. cbn [clo_size op_size] in *. lia.
    + cbn [eval]. destruct st as [|[v|ps b] st]; try discriminate.
      apply bind_no_fuel; [apply eval_unary_no_fuel; assumption|].
      intro a. apply IH. cbn [clo_size op_size] in *. lia.
    + destruct st as [|[r|ps body] st]; [discriminate| |].
      * destruct st as [|[l|ps body] st]; try discriminate.
        cbn [eval]. apply bind_no_fuel; [apply eval_binary_no_fuel; assumption|].
        intro a. apply IH. cbn [clo_size op_size] in *. lia.
      * destruct st as [|[l|ps' body'] st]; try discriminate.
        cbn [eval]. destruct (shadows e ps); [discriminate|].
        cbn [clo_size op_size] in Hf.
        assert (Hbody : forall e', eval O f e' body [] <> Err EOutOfFuel).
        { intro e'. apply IH. cbn [clo_size]. lia. }
        apply bind_no_fuel; [|intro a; apply IH; cbn [clo_size]; lia].
        destruct b; try discriminate.
        -- destruct l; try discriminate. destruct b; destruct ps; try discriminate. apply Hbody.
        -- destruct l; try discriminate. destruct b; destruct ps; try discriminate. apply Hbody.
        -- destruct ps as [|p [|? ?]]; try (destruct l; discriminate).
           destruct (closure_domain l) as [xs|]; [|destruct l; discriminate].
           assert (G : forall xs, (fix all_loop (xs : list value) (p : N) : res value :=
                       match xs with
                       | [] => Ok (VBool true)
                       | x :: xs' => do w <- eval O f ((p, x) :: e) body [];
                           match w with
                           | VBool true => all_loop xs' p
                           | VBool false => Ok (VBool false)
                           | _ => Err EInvalidType
                           end
                       end) xs p <> Err EOutOfFuel).
           { induction xs0 as [|x xs0 IHx]; [discriminate|].
             apply bind_no_fuel; [apply Hbody|]. intros [] ; try discriminate.
             destruct b; [apply IHx|discriminate]. }
           destruct l; try discriminate; apply G.
        -- destruct ps as [|p [|? ?]]; try (destruct l; discriminate).
           destruct (closure_domain l) as [xs|]; [|destruct l; discriminate].
           assert (G : forall xs, (fix any_loop (xs : list value) (p : N) : res value :=
                       match xs with
                       | [] => Ok (VBool false)
                       | x :: xs' => do w <- eval O f ((p, x) :: e) body [];
                           match w with
                           | VBool false => any_loop xs' p
                           | VBool true => Ok (VBool true)
                           | _ => Err EInvalidType
                           end
                       end) xs p <> Err EOutOfFuel).
           { induction xs0 as [|x xs0 IHx]; [discriminate|].
             apply bind_no_fuel; [apply Hbody|]. intros [] ; try discriminate.
             destruct b; [discriminate|apply IHx]. }
           destruct l; try discriminate; apply G.
    + cbn [eval]. apply IH. rewrite op_size_clo in Hf. cbn [clo_size]. lia.
Qed.

Theorem evaluate_total O e ops :
  oracles_no_fuel O -> evaluate O e ops <> Err EOutOfFuel.
Proof. intro H. unfold evaluate. apply eval_no_fuel; [assumption|]. cbn [clo_size]. lia. Qed.

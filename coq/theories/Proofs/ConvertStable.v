(* A block the conversion accepted is a well-formed token block ([iblock_wf]), so writing it
   back and reading it again gives the same block: tokens are stable under load / save cycles
   at the level of block contents. *)
From Coq Require Import Sorted.
From Biscuit Require Import Model.Convert Proofs.BlockWireProofs Proofs.ConvertProofs Proofs.ConvertOrder.
Local Open Scope N_scope.

(* ------------------------------------------------------------------ operations *)
Lemma unary_of_kind_wf k f u : unary_of_kind k f = Some u -> unary_wf u.
Proof.
  unfold unary_of_kind. intros H.
  destruct k as [|p|p]; [| |discriminate H].
  - destruct f; [discriminate|]. injection H as <-. exact I.
  - destruct p as [[[|p|]|[|p|]|]|[[|p|]|[|p|]|]|]; destruct f; try discriminate H; injection H as <-; exact I.
Qed.

Lemma plain_binaries_wf : Forall binary_wf plain_binaries.
Proof. unfold plain_binaries. repeat constructor. Qed.

Lemma binary_of_kind_wf k f b : binary_of_kind k f = Some b -> binary_wf b.
Proof.
  unfold binary_of_kind. destruct (k <? 0)%Z; [discriminate|].
  destruct (k =? 28)%Z.
  - destruct f; [|discriminate]. intros H. injection H as <-. exact I.
  - destruct f; [discriminate|]. intros H. apply nth_error_In in H.
    pose proof plain_binaries_wf as W. rewrite Forall_forall in W. now apply W.
Qed.

Section POpInd.
  Variable P : pop -> Prop.
  Hypothesis HNone : P PONone.
  Hypothesis HVal : forall t, P (POValue t).
  Hypothesis HUn : forall k f, P (POUnary k f).
  Hypothesis HBin : forall k f, P (POBinary k f).
  Hypothesis HClo : forall ps body, Forall P body -> P (POClosure ps body).
  Fixpoint pop_ind' (o : pop) : P o :=
    match o with
    | PONone => HNone
    | POValue t => HVal t
    | POUnary k f => HUn k f
    | POBinary k f => HBin k f
    | POClosure ps body => HClo ps body ((fix go (l : list pop) : Forall P l :=
        match l with [] => Forall_nil _ | x :: l' => Forall_cons _ (pop_ind' x) (go l') end) body)
    end.
End POpInd.

Lemma conv_ops_with_wf l : Forall (fun o => forall i, conv_op o = Some i -> iop_wf i) l ->
  forall res, conv_ops_with conv_op l = Some res -> all_with iop_wf res.
Proof.
  induction l as [|x l IH]; intros Hl res; cbn [conv_ops_with]; intros H.
  - injection H as <-. exact I.
  - inversion Hl as [|? ? Hx Hl']; subst. destruct (conv_op x) as [y|] eqn:Ey; [|discriminate].
    destruct (conv_ops_with conv_op l) as [r|] eqn:Er; [|discriminate]. injection H as <-.
    split; [now apply Hx | now apply IH].
Qed.

Theorem conv_op_wf : forall o i, conv_op o = Some i -> iop_wf i.
Proof.
  apply (pop_ind' (fun o => forall i, conv_op o = Some i -> iop_wf i)); cbn [conv_op]; intros; try discriminate.
  - destruct (conv_term t) as [t'|] eqn:Et; [|discriminate].
    match goal with H : Some _ = Some _ |- _ => injection H as <- end. cbn [iop_wf]. now apply (conv_term_wf t).
  - destruct (unary_of_kind k f) as [u|] eqn:Eu; [|discriminate].
    match goal with H : Some _ = Some _ |- _ => injection H as <- end. cbn [iop_wf]. now apply (unary_of_kind_wf k f).
  - destruct (binary_of_kind k f) as [b|] eqn:Eb; [|discriminate].
    match goal with H : Some _ = Some _ |- _ => injection H as <- end. cbn [iop_wf]. now apply (binary_of_kind_wf k f).
  - destruct (conv_ops_with conv_op body) as [b|] eqn:Eb; [|discriminate].
    match goal with H : Some _ = Some _ |- _ => injection H as <- end. cbn [iop_wf]. now apply (conv_ops_with_wf body).
Qed.

Lemma conv_ops_wf l : forall res, conv_ops l = Some res -> Forall iop_wf res.
Proof.
  unfold conv_ops. intros res H. apply all_with_Forall. apply (conv_ops_with_wf l); [|exact H].
  apply Forall_forall. intros o _. apply conv_op_wf.
Qed.

Lemma conv_exprs_wf l : forall res, conv_exprs l = Some res -> Forall (Forall iop_wf) res.
Proof.
  induction l as [|e l IH]; intros res; cbn [conv_exprs]; intros H.
  - injection H as <-. constructor.
  - destruct (conv_ops e) as [e'|] eqn:Ee; [|discriminate]. destruct (conv_exprs l) as [r|] eqn:Er; [|discriminate].
    injection H as <-. constructor; [now apply (conv_ops_wf e) | now apply IH].
Qed.

(* ------------------------------------------------------------------ predicates, scopes, rules, checks *)
Lemma conv_terms_wf l : forall res, conv_terms l = Some res -> Forall iterm_wf res.
Proof.
  unfold conv_terms. intros res H. apply all_with_Forall. apply (conv_list_wf l); [|exact H].
  apply Forall_forall. intros t _ i. apply conv_term_wf.
Qed.

Lemma conv_pred_wf p i : conv_pred p = Some i -> ipred_wf i.
Proof.
  unfold conv_pred. destruct (conv_terms (pp_terms p)) as [ts|] eqn:E; [|discriminate].
  intros H. injection H as <-. unfold ipred_wf. cbn [ip_terms]. now apply (conv_terms_wf (pp_terms p)).
Qed.

Lemma conv_preds_wf l : forall res, conv_preds l = Some res -> Forall ipred_wf res.
Proof.
  induction l as [|p l IH]; intros res; cbn [conv_preds]; intros H.
  - injection H as <-. constructor.
  - destruct (conv_pred p) as [p'|] eqn:Ep; [|discriminate]. destruct (conv_preds l) as [r|] eqn:Er; [|discriminate].
    injection H as <-. constructor; [now apply (conv_pred_wf p) | now apply IH].
Qed.

Lemma conv_scope_wf s i : scope_ok s = true -> conv_scope s = Some i -> scope_wf i.
Proof.
  destruct s as [|z|z]; cbn [conv_scope scope_ok]; intros Hok H; try discriminate.
  - destruct z as [|[| |]|]; try discriminate H; injection H as <-; exact I.
  - injection H as <-. cbn [scope_wf]. apply of_i64_lt. now apply in_i64z_range.
Qed.

Lemma conv_scopes_wf l : forallb scope_ok l = true -> forall res, conv_scopes l = Some res -> Forall scope_wf res.
Proof.
  induction l as [|s l IH]; intros Hok res; cbn [conv_scopes]; intros H.
  - injection H as <-. constructor.
  - cbn [forallb] in Hok. apply andb_true_iff in Hok as [H1 H2].
    destruct (conv_scope s) as [s'|] eqn:Es; [|discriminate]. destruct (conv_scopes l) as [r|] eqn:Er; [|discriminate].
    injection H as <-. constructor; [now apply (conv_scope_wf s) | now apply IH].
Qed.

Lemma conv_scopes_nonempty l res : conv_scopes l = Some res -> Schema.nonempty res = Schema.nonempty l.
Proof.
  destruct l as [|s l]; cbn [conv_scopes]; intros H; [injection H as <-; reflexivity|].
  destruct (conv_scope s); [|discriminate]. destruct (conv_scopes l); [|discriminate]. injection H as <-. reflexivity.
Qed.

Definition rule_scopes_in_range (r : prule) : bool := forallb scope_ok (pr_scopes r).
Definition scopes_in_range (p : pblock) : bool :=
  forallb scope_ok (pb_scopes p) && forallb rule_scopes_in_range (pb_rules p)
  && forallb (fun c => forallb rule_scopes_in_range (pc_queries c)) (pb_checks p).

Lemma conv_rule_wf v r i : rule_scopes_in_range r = true -> conv_rule v r = Some i ->
  irule_wf i /\ rule_scopes_ok v i = true.
Proof.
  unfold conv_rule. intros Hok.
  destruct (conv_preds (pr_body r)) as [body|] eqn:Eb; [|discriminate].
  destruct (conv_exprs (pr_exprs r)) as [exprs|] eqn:Ee; [|discriminate].
  destruct ((v <? Schema.DATALOG_3_1) && Schema.nonempty (pr_scopes r)) eqn:Eg; [discriminate|].
  destruct (conv_scopes (pr_scopes r)) as [scopes|] eqn:Es; [|discriminate].
  destruct (conv_pred (pr_head r)) as [head|] eqn:Eh; [|discriminate].
  intros H. injection H as <-. split.
  - unfold irule_wf. cbn [ir_head ir_body ir_exprs ir_scopes].
    repeat split; [now apply (conv_pred_wf (pr_head r)) | now apply (conv_preds_wf (pr_body r))
                   | now apply (conv_exprs_wf (pr_exprs r)) | now apply (conv_scopes_wf (pr_scopes r))].
  - unfold rule_scopes_ok. cbn [ir_scopes]. rewrite (conv_scopes_nonempty _ _ Es). now rewrite Eg.
Qed.

Lemma conv_rules_wf v l : forallb rule_scopes_in_range l = true -> forall res, conv_rules v l = Some res ->
  Forall irule_wf res /\ forallb (rule_scopes_ok v) res = true.
Proof.
  induction l as [|r l IH]; intros Hok res; cbn [conv_rules]; intros H.
  - injection H as <-. split; [constructor | reflexivity].
  - cbn [forallb] in Hok. apply andb_true_iff in Hok as [H1 H2].
    destruct (conv_rule v r) as [r'|] eqn:Er; [|discriminate]. destruct (conv_rules v l) as [rs|] eqn:Ers; [|discriminate].
    injection H as <-. destruct (conv_rule_wf v r r' H1 Er) as [Ha Hb]. destruct (IH H2 rs eq_refl) as [Hc Hd].
    split; [constructor; assumption | cbn [forallb]; now rewrite Hb, Hd].
Qed.

(* the kind gate passed by the wire form is passed by the written-back form *)
Lemma kind_gate_back v c k :
  kind_of_wire (pc_kind c) = Some k -> kind_gate v c = true ->
  forall qs, kind_gate v (unconv_check (mkicheck qs k)) = true.
Proof.
  intros Hk Hg qs. unfold kind_gate in *. cbn [unconv_check pc_kind ic_kind] in *.
  destruct (pc_kind c) as [z|]; cbn [kind_of_wire] in Hk.
  - destruct (v <? Schema.DATALOG_3_1); cbn [andb] in *; [discriminate|].
    destruct z as [|[[|p|]|[|p|]|]|]; try discriminate Hk; injection Hk as <-; cbn [kind_to_wire] in *; try reflexivity; exact Hg.
  - injection Hk as <-. cbn [kind_to_wire]. now rewrite !andb_false_r.
Qed.

Lemma conv_checks_wf v l :
  forallb (fun c => forallb rule_scopes_in_range (pc_queries c)) l = true ->
  forall res, conv_checks v l = Some res ->
  Forall icheck_wf res /\ forallb (fun c => forallb (rule_scopes_ok v) (ic_queries c)) res = true
  /\ (forallb (kind_gate v) l = true -> forallb (fun c => kind_gate v (unconv_check c)) res = true).
Proof.
  induction l as [|c l IH]; intros Hok res; cbn [conv_checks]; intros H.
  - injection H as <-. split; [constructor|]. split; [reflexivity|]. intros _. reflexivity.
  - cbn [forallb] in Hok. apply andb_true_iff in Hok as [H1 H2].
    destruct (conv_check v c) as [c'|] eqn:Ec; [|discriminate]. destruct (conv_checks v l) as [cs|] eqn:Ecs; [|discriminate].
    injection H as <-. destruct (IH H2 cs eq_refl) as (Ha & Hb & Hc).
    unfold conv_check in Ec. destruct (conv_rules v (pc_queries c)) as [qs|] eqn:Eq; [|discriminate].
    destruct (kind_of_wire (pc_kind c)) as [k|] eqn:Ek; [|discriminate]. injection Ec as <-.
    destruct (conv_rules_wf v (pc_queries c) H1 qs Eq) as [Hq1 Hq2].
    split; [constructor; [exact Hq1 | exact Ha]|]. split; [cbn [forallb ic_queries]; now rewrite Hq2, Hb|].
    cbn [forallb]. intros Hg. apply andb_true_iff in Hg as [Hg1 Hg2].
    rewrite (kind_gate_back v c k Ek Hg1 qs). now apply Hc.
Qed.

(* ------------------------------------------------------------------ keys *)
(* what is assumed of the oracle: a canonical encoding is itself valid and canonical, and an
   ed25519 key is 32 bytes long in canonical form *)
Definition canon_ok (canon : Z -> bytes -> option bytes) : Prop :=
  (forall a k c, canon a k = Some c -> canon a c = Some c) /\
  (forall k c, canon 0%Z k = Some c -> length c = 32%nat).

Lemma wkey_eqb_refl k : Convert.wkey_eqb k k = true.
Proof.
  unfold Convert.wkey_eqb. rewrite Z.eqb_refl. cbn [andb].
  induction (wk_bytes k) as [|x b IH]; cbn [bytes_eqb]; [reflexivity|]. now rewrite N.eqb_refl.
Qed.

Lemma bytes_eqb_true a : forall b, bytes_eqb a b = true -> a = b.
Proof.
  induction a as [|x a IH]; intros [|y b]; cbn [bytes_eqb]; intros H; try discriminate; [reflexivity|].
  apply andb_true_iff in H as [H1 H2]. apply N.eqb_eq in H1. subst. f_equal. now apply IH.
Qed.

Lemma wkey_eqb_true a b : Convert.wkey_eqb a b = true -> a = b.
Proof.
  unfold Convert.wkey_eqb. intros H. apply andb_true_iff in H as [H1 H2]. apply Z.eqb_eq in H1.
  apply bytes_eqb_true in H2. destruct a, b. cbn in *. now subst.
Qed.

(* a key of the accepted table converts to itself *)
Definition key_fixed (canon : Z -> bytes -> option bytes) (k : wkey) : Prop := conv_key_proto canon k = inr k.

Lemma conv_key_proto_fixed canon k k' : canon_ok canon -> conv_key_proto canon k = inr k' -> key_fixed canon k'.
Proof.
  intros [Hid Hlen]. unfold key_fixed, conv_key_proto.
  destruct (wk_alg k =? 0)%Z eqn:E0.
  - destruct (negb (Nat.eqb (length (wk_bytes k)) 32)); [discriminate|].
    destruct (canon 0%Z (wk_bytes k)) as [c|] eqn:Ec; [|discriminate]. intros H. injection H as <-.
    cbn [wk_alg wk_bytes]. cbn [Z.eqb]. rewrite (Hlen _ _ Ec). cbn [Nat.eqb negb]. now rewrite (Hid _ _ _ Ec).
  - destruct (wk_alg k =? 1)%Z eqn:E1; [|discriminate].
    destruct (canon 1%Z (wk_bytes k)) as [c|] eqn:Ec; [|discriminate]. intros H. injection H as <-.
    cbn [wk_alg wk_bytes]. cbn [Z.eqb]. now rewrite (Hid _ _ _ Ec).
Qed.

(* invariant of the key loop: the accumulator holds fixed, pairwise different keys *)
Definition keys_inv (canon : Z -> bytes -> option bytes) (acc : list wkey) : Prop :=
  Forall (key_fixed canon) acc /\ NoDup acc.

Lemma nodup_snoc {A} (l : list A) x : NoDup l -> ~ In x l -> NoDup (l ++ [x]).
Proof.
  induction l as [|a l IH]; cbn [app]; intros Hn Hx.
  - constructor; [intros [] | constructor].
  - inversion Hn as [|? ? Ha Hl]; subst. constructor.
    + intros Hin. apply in_app_or in Hin as [Hin|[->|[]]]; [contradiction | apply Hx; now left].
    + apply IH; [assumption | intros Hc; apply Hx; now right].
Qed.

Lemma conv_keys_inv canon l : canon_ok canon -> forall acc res,
  keys_inv canon acc -> conv_keys canon l acc = inr res -> keys_inv canon res.
Proof.
  intros Hc. induction l as [|k l IH]; intros acc res Hinv; cbn [conv_keys]; intros H.
  - injection H as <-. exact Hinv.
  - destruct (conv_key_proto canon k) as [e|k'] eqn:Ek; [discriminate|].
    destruct (existsb (Convert.wkey_eqb k') acc) eqn:Ex; [discriminate|].
    apply (IH (acc ++ [k']) res); [|exact H]. destruct Hinv as [Hf Hn]. split.
    + apply Forall_app. split; [exact Hf|]. constructor; [|constructor]. now apply (conv_key_proto_fixed canon k).
    + apply nodup_snoc; [exact Hn|]. intros Hx.
      assert (existsb (Convert.wkey_eqb k') acc = true); [|congruence].
      apply existsb_exists. exists k'. split; [exact Hx | apply wkey_eqb_refl].
Qed.

Lemma conv_keys_fixed canon l : forall acc,
  Forall (key_fixed canon) l -> NoDup (acc ++ l) -> conv_keys canon l acc = inr (acc ++ l).
Proof.
  induction l as [|k l IH]; intros acc Hf Hn; cbn [conv_keys]; [now rewrite app_nil_r|].
  inversion Hf as [|? ? Hk Hl]; subst. unfold key_fixed in Hk. rewrite Hk.
  assert (Ex : existsb (Convert.wkey_eqb k) acc = false).
  { destruct (existsb (Convert.wkey_eqb k) acc) eqn:E; [|reflexivity]. exfalso.
    apply existsb_exists in E as (x & Hx & He). apply wkey_eqb_true in He. subst x.
    apply NoDup_remove_2 in Hn. apply Hn. apply in_or_app. now left. }
  rewrite Ex. rewrite IH; [now rewrite <- app_assoc | exact Hl | now rewrite <- app_assoc].
Qed.

Lemma conv_keys_wf canon l res : canon_ok canon -> conv_keys canon l [] = inr res -> keys_wf canon res.
Proof.
  intros Hc H. destruct (conv_keys_inv canon l Hc [] res) as [Hf Hn]; [split; constructor | exact H |].
  unfold keys_wf. now apply (conv_keys_fixed canon res []).
Qed.

(* ------------------------------------------------------------------ the block *)
Theorem conv_block_wf canon p ext b :
  canon_ok canon -> scopes_in_range p = true ->
  conv_block canon p ext = COk b -> iblock_wf canon b.
Proof.
  intros Hc Hr H. pose proof (conv_block_ok_inv canon p ext b H) as Hi. cbv zeta in Hi.
  destruct Hi as (H1 & H4 & H7 & Hf & Hru & Hch & Hs & Hk & H8 & Hv & He & Hsy & _).
  unfold scopes_in_range in Hr. apply andb_true_iff in Hr as [Hr Hr3]. apply andb_true_iff in Hr as [Hr1 Hr2].
  rewrite <- Hv in *.
  destruct (conv_rules_wf _ _ Hr2 _ Hru) as [Hrw Hrg].
  destruct (conv_checks_wf _ _ Hr3 _ Hch) as (Hcw & Hcg & Hkg).
  unfold iblock_wf. repeat split.
  - now apply (conv_preds_wf (pb_facts p)).
  - exact Hrw.
  - exact Hcw.
  - now apply (conv_scopes_wf (pb_scopes p)).
  - now apply (conv_keys_wf canon (pb_keys p)).
  - unfold iblock_gates. rewrite H1, Hrg, Hcg, He, H4, Hsy, H7, H8. cbn [andb negb].
    rewrite ?andb_true_r.
    destruct (Schema.MAX_SCHEMA_VERSION <=? ib_version b) eqn:Em; [reflexivity|]. cbn [orb]. rewrite ?andb_true_r.
    apply Hkg.
    (* the kind loop ran, since the version is below the maximum *)
    unfold conv_block in H. cbv zeta in H. rewrite <- Hv in H.
    destruct (negb ((Schema.MIN_SCHEMA_VERSION <=? ib_version b) && (ib_version b <=? Schema.MAX_SCHEMA_VERSION))); [discriminate|].
    destruct (conv_preds (pb_facts p)); [|discriminate].
    destruct (conv_rules (ib_version b) (pb_rules p)); [|discriminate].
    apply N.leb_gt in Em. apply N.ltb_lt in Em. rewrite Em in H. cbn [andb] in H.
    destruct (forallb (kind_gate (ib_version b)) (pb_checks p)); [reflexivity | discriminate].
Qed.

(* a loaded block is stable: written back and read again, it is the same block *)
Theorem conv_block_stable canon p ext b :
  canon_ok canon -> scopes_in_range p = true ->
  conv_block canon p ext = COk b ->
  conv_block canon (unconv_block b) ext = COk b.
Proof.
  intros Hc Hr H. pose proof (conv_block_wf canon p ext b Hc Hr H) as Hw.
  pose proof (conv_block_ok_inv canon p ext b H) as Hi. cbv zeta in Hi.
  destruct Hi as (_ & _ & _ & _ & _ & _ & _ & _ & _ & _ & He & _).
  rewrite <- He. now apply conv_unconv_block.
Qed.

(* values of the Rust types have their scope numbers in range *)
Lemma pblock_ok_scopes p : pblock_ok p = true -> scopes_in_range p = true.
Proof.
  unfold pblock_ok, scopes_in_range. intros H.
  repeat (apply andb_true_iff in H; destruct H as [H ?]).
  match goal with Hs : forallb scope_ok (pb_scopes p) = true |- _ => rewrite Hs end.
  match goal with Hr : forallb rule_ok (pb_rules p) = true, Hc : forallb check_ok (pb_checks p) = true |- _ =>
    rename Hr into Hrules; rename Hc into Hchecks end.
  cbn [andb]. apply andb_true_iff. split.
  - apply forallb_forall. intros r Hr. rewrite forallb_forall in Hrules. specialize (Hrules r Hr).
    unfold rule_ok in Hrules. apply andb_true_iff in Hrules as [_ Hs]. exact Hs.
  - apply forallb_forall. intros c Hcin. rewrite forallb_forall in Hchecks. specialize (Hchecks c Hcin).
    unfold check_ok in Hchecks. apply andb_true_iff in Hchecks as [Hq _].
    apply forallb_forall. intros r Hr. rewrite forallb_forall in Hq. specialize (Hq r Hr).
    unfold rule_ok in Hq. apply andb_true_iff in Hq as [_ Hs]. exact Hs.
Qed.

(* Chain soundness: under the unforgeability premise, an accepted token carries the honest
   token's signed blocks as a prefix (and exactly them, with the same proof, when the honest
   token is sealed). *)
From Biscuit Require Import Model.Token Model.Readings Proofs.ChainLayout.
From Coq Require Import Permutation.
Local Open Scope N_scope.

Definition qkey (q : triple) : pubkey := fst (fst q).

(* same signed content and same signature bytes; the external *public key* is not part of
   any chain message (only the external signature bytes are): see C07 *)
Definition block_same (b b' : sblock) : Prop :=
  fields_of b' = fields_of b /\ b_sig b' = b_sig b.

Fixpoint end_key (k : pubkey) (bs : list sblock) : pubkey :=
  match bs with [] => k | b :: r => end_key (b_next b) r end.
Fixpoint end_sig (p : bytes) (bs : list sblock) : bytes :=
  match bs with [] => p | b :: r => end_sig (b_sig b) r end.

Fixpoint chain_layout (prev : bytes) (bs : list sblock) : Prop :=
  match bs with
  | [] => True
  | b :: r => readings_block prev (msg_block prev b) = [fields_of b] /\ chain_layout (b_sig b) r
  end.

Definition functional (Q : list triple) (k : pubkey) : Prop :=
  forall m s m' s', In (k, m, s) Q -> In (k, m', s') Q -> m = m' /\ s = s'.

(* ------------------------------------------------------------------ small facts *)
Lemma fields_next : forall b b', fields_of b' = fields_of b -> b_next b' = b_next b.
Proof. unfold fields_of. intros b b' H. congruence. Qed.
Lemma fields_data : forall b b', fields_of b' = fields_of b -> b_data b' = b_data b.
Proof. unfold fields_of. intros b b' H. congruence. Qed.

Lemma same_msg_seal : forall b b', block_same b b' -> msg_seal b' = msg_seal b.
Proof.
  intros b b' [Hf Hs]. unfold msg_seal. now rewrite (fields_next _ _ Hf), (fields_data _ _ Hf), Hs.
Qed.

Lemma last_cons : forall (bs : list sblock) b a, last (b :: bs) a = last bs b.
Proof.
  induction bs as [|c bs IH]; intros b a; [reflexivity|].
  change (last (b :: c :: bs) a) with (last (c :: bs) a). rewrite (IH c a), (IH c b). reflexivity.
Qed.

Lemma last_end_key : forall bs a, b_next (last bs a) = end_key (b_next a) bs.
Proof. induction bs as [|b bs IH]; intros a; [reflexivity|]. cbn [end_key]. rewrite <- IH. now rewrite last_cons. Qed.
Lemma last_end_sig : forall bs a, b_sig (last bs a) = end_sig (b_sig a) bs.
Proof. induction bs as [|b bs IH]; intros a; [reflexivity|]. cbn [end_sig]. rewrite <- IH. now rewrite last_cons. Qed.

Lemma same_end_key : forall h l k, Forall2 block_same h l -> end_key k l = end_key k h.
Proof.
  intros h l k H. revert k. induction H as [|b b' h l [Hf Hs] _ IH]; intros k; [reflexivity|].
  cbn [end_key]. rewrite (fields_next _ _ Hf). apply IH.
Qed.
Lemma same_end_sig : forall h l p, Forall2 block_same h l -> end_sig p l = end_sig p h.
Proof.
  intros h l p H. revert p. induction H as [|b b' h l [Hf Hs] _ IH]; intros p; [reflexivity|].
  cbn [end_sig]. rewrite Hs. apply IH.
Qed.

Lemma same_last : forall h l a a', block_same a a' -> Forall2 block_same h l ->
  block_same (last h a) (last l a').
Proof.
  intros h l a a' Ha H. revert a a' Ha. induction H as [|b b' h l Hb _ IH]; intros a a' Ha; [exact Ha|].
  rewrite !last_cons.
  now apply IH.
Qed.

Lemma chain_queries_app : forall l1 l2 k p,
  chain_queries k p (l1 ++ l2) = chain_queries k p l1 ++ chain_queries (end_key k l1) (end_sig p l1) l2.
Proof.
  induction l1 as [|b l1 IH]; intros l2 k p; [reflexivity|].
  cbn [app chain_queries end_key end_sig]. now rewrite IH, app_assoc.
Qed.

Lemma forallb_app_inv : forall A (f : A -> bool) l1 l2,
  forallb f (l1 ++ l2) = true -> forallb f l1 = true /\ forallb f l2 = true.
Proof. intros A f l1 l2 H. rewrite forallb_app in H. now apply andb_true_iff in H. Qed.

Lemma nodup_functional : forall (Q : list triple) k, NoDup (map qkey Q) -> functional Q k.
Proof.
  intros Q k Hnd m s m' s' H1 H2.
  assert (E : (k, m, s) = (k, m', s')).
  { revert Hnd H1 H2. induction Q as [|q Q IH]; intros Hnd H1 H2; [destruct H1|].
    cbn [map] in Hnd. inversion Hnd as [|x l Hni Hnd']. subst.
    destruct H1 as [H1 | H1], H2 as [H2 | H2].
    - congruence.
    - exfalso. apply Hni. subst q. apply (in_map qkey) in H2. exact H2.
    - exfalso. apply Hni. subst q. apply (in_map qkey) in H1. exact H1.
    - now apply IH. }
  inversion E. auto.
Qed.

(* what structural_ok and key validity give for every block *)
Lemma structural_wf : forall verify_sig pub root t,
  verify verify_sig pub root t = true -> keys_ok t = true ->
  block_wf (t_authority t) = true /\ b_ext (t_authority t) = None /\
  forallb block_wf (t_blocks t) = true.
Proof.
  intros vs pub root t Hv Hk. unfold verify in Hv. apply andb_true_iff in Hv as [Hs _].
  unfold structural_ok in Hs. apply andb_true_iff in Hs as [Hs _].
  apply andb_true_iff in Hs as [Hs He]. apply andb_true_iff in Hs as [Ha Hvs].
  unfold keys_ok, all_blocks in Hk, Hvs. cbn [forallb] in Hk, Hvs.
  apply andb_true_iff in Hk as [Hka Hkb]. apply andb_true_iff in Hvs as [Hva Hvb].
  assert (Hext : b_ext (t_authority t) = None).
  { unfold has_ext in Ha. destruct (b_ext (t_authority t)); [discriminate | reflexivity]. }
  split; [|split; [exact Hext|]].
  - unfold block_wf. rewrite Hext. unfold version_ok in Hva. now rewrite Hva, Hka.
  - apply forallb_forall. intros b Hb.
    rewrite forallb_forall in Hkb, Hvb, He. unfold block_wf.
    specialize (Hkb b Hb). specialize (Hvb b Hb). specialize (He b Hb).
    unfold version_ok in Hvb. unfold ext_version_ok in He. cbn beta in Hkb. now rewrite Hvb, He, Hkb.
Qed.

Section Soundness.

Variable verify_sig : pubkey -> bytes -> bytes -> bool.
Variable pub : alg -> bytes -> option pubkey.

(* the triples the honest parties issued, and the keys whose secrets the adversary lacks *)
Variable Q : list triple.
Variable hk : pubkey -> Prop.

(* unforgeability, as a premise: what verifies under an honest key was issued *)
Hypothesis EUF : forall k m s, hk k -> verify_sig k m s = true -> In (k, m, s) Q.

Lemma chain_follows : forall hon k prev l',
  incl (chain_queries k prev hon) Q ->
  (forall q, In q (chain_queries k prev hon) -> hk (qkey q) /\ functional Q (qkey q)) ->
  chain_layout prev hon ->
  forallb (verify_triple verify_sig) (chain_queries k prev l') = true ->
  forallb block_wf l' = true ->
  (exists l1 l2, l' = l1 ++ l2 /\ Forall2 block_same hon l1) \/
  (exists h1 b h2, hon = h1 ++ b :: h2 /\ Forall2 block_same h1 l').
Proof.
  induction hon as [|b hon IH]; intros k prev l' Hincl Hkeys Hlay Hver Hwf.
  - left. exists [], l'. split; [reflexivity | constructor].
  - destruct l' as [|b' l''].
    + right. exists [], b, hon. split; [reflexivity | constructor].
    + cbn [chain_queries] in Hincl, Hkeys, Hver. cbn [chain_layout] in Hlay. destruct Hlay as [Hu Hlay].
      cbn [forallb] in Hwf. apply andb_true_iff in Hwf as [Hwfb Hwf].
      apply forallb_app_inv in Hver as [Hvb Hvrest].
      assert (Hin : In (k, msg_block prev b, b_sig b) Q).
      { apply Hincl. apply in_or_app. left. now left. }
      destruct (Hkeys (k, msg_block prev b, b_sig b)) as [Hhk Hfun].
      { apply in_or_app. left. now left. }
      cbn [qkey fst] in Hhk, Hfun.
      assert (Hin' : In (k, msg_block prev b', b_sig b') Q).
      { apply EUF; [exact Hhk|]. unfold block_queries in Hvb. cbn [forallb verify_triple] in Hvb.
        now apply andb_true_iff in Hvb as [Hvb _]. }
      destruct (Hfun _ _ _ _ Hin' Hin) as [Hm Hs].
      assert (Hf : fields_of b' = fields_of b) by (apply (msg_block_inj prev b b' Hu Hwfb Hm)).
      assert (Hsame : block_same b b') by (split; assumption).
      rewrite (fields_next _ _ Hf), Hs in Hvrest.
      destruct (IH (b_next b) (b_sig b) l'') as [(l1 & l2 & El & Hl) | (h1 & c & h2 & Eh & Hh)].
      * intros q Hq. apply Hincl. apply in_or_app. now right.
      * intros q Hq. apply Hkeys. apply in_or_app. now right.
      * exact Hlay.
      * exact Hvrest.
      * exact Hwf.
      * left. exists (b' :: l1), l2. split; [now rewrite El | now constructor].
      * right. exists (b :: h1), c, h2. split; [now rewrite Eh | now constructor].
Qed.

(* ---- the theorem relative to one honest token whose authority triple is the one presented *)
Variable root : pubkey.
Variable tok : token.

Hypothesis tok_verifies : verify verify_sig pub root tok = true.
Hypothesis tok_layout : layout_ok tok = true.
Hypothesis tok_issued : incl (queries root tok) Q.
(* every key that signed a part of the honest token other than the root key is honest and
   signed nothing else *)
Hypothesis tok_keys : forall q, In q (tl (queries root tok)) -> hk (qkey q) /\ functional Q (qkey q).

Lemma layout_parts :
  readings_authority (msg_authority (t_authority tok)) = [fields_of (t_authority tok)] /\
  chain_layout (b_sig (t_authority tok)) (t_blocks tok) /\
  (forall b, In b (all_blocks tok) -> readings_block (b_sig b) (msg_seal b) = []) /\
  keys_ok tok = true.
Proof.
  unfold layout_ok in tok_layout.
  apply andb_true_iff in tok_layout as [H Hk]. apply andb_true_iff in H as [H Hs].
  apply andb_true_iff in H as [Ha Hc].
  split; [now apply fields_list_eqb_eq|]. split; [|split; [|exact Hk]].
  - clear - Hc. revert Hc. generalize (b_sig (t_authority tok)). induction (t_blocks tok) as [|b bs IH]; intros p Hc.
    + exact I.
    + cbn [chain_layout_ok] in Hc. apply andb_true_iff in Hc as [H1 H2]. cbn [chain_layout].
      split; [now apply fields_list_eqb_eq | now apply IH].
  - intros b Hb. rewrite forallb_forall in Hs. apply is_nil_eq. exact (Hs b Hb).
Qed.

Theorem follows_authority : forall tok',
  (* the adversary cannot exhibit the secret of an honest key *)
  (forall sk k, t_proof tok' = Secret sk ->
     pub (pk_alg (b_next (last_block tok'))) sk = Some k -> ~ hk k) ->
  keys_ok tok' = true ->
  verify verify_sig pub root tok' = true ->
  msg_authority (t_authority tok') = msg_authority (t_authority tok) ->
  b_sig (t_authority tok') = b_sig (t_authority tok) ->
  exists l1 l2 : list sblock, all_blocks tok' = (l1 ++ l2)%list /\ Forall2 block_same (all_blocks tok) l1 /\
                (sealed tok = true -> l2 = [] /\ t_proof tok' = t_proof tok).
Proof.
  intros tok' Hsecret Hkeys' Hver' Hma Hsa.
  destruct layout_parts as (Hla & Hlc & Hls & Hk).
  destruct (structural_wf _ _ _ _ tok_verifies Hk) as (Hwa & Hea & Hwb).
  destruct (structural_wf _ _ _ _ Hver' Hkeys') as (Hwa' & Hea' & Hwb').
  assert (Hfa : fields_of (t_authority tok') = fields_of (t_authority tok))
    by (apply (msg_authority_inj _ _ Hla Hwa' Hea' Hma)).
  assert (Hsame_a : block_same (t_authority tok) (t_authority tok')) by (split; assumption).
  (* the chain part of tok' verifies *)
  assert (Hq' : forallb (verify_triple verify_sig) (queries root tok') = true).
  { unfold verify in Hver'. now apply andb_true_iff in Hver' as [_ H]. }
  assert (Hstruct' : structural_ok pub tok' = true).
  { unfold verify in Hver'. now apply andb_true_iff in Hver' as [H _]. }
  unfold queries in Hq'. cbn [forallb] in Hq'. apply andb_true_iff in Hq' as [_ Hq'].
  apply forallb_app_inv in Hq' as [Hchain' Hproof'].
  rewrite (fields_next _ _ Hfa), Hsa in Hchain'.
  assert (Hincl : incl (chain_queries (b_next (t_authority tok)) (b_sig (t_authority tok)) (t_blocks tok)) Q).
  { intros q Hq. apply tok_issued. unfold queries. right. apply in_or_app. now left. }
  assert (Hkeysc : forall q, In q (chain_queries (b_next (t_authority tok)) (b_sig (t_authority tok)) (t_blocks tok)) ->
                             hk (qkey q) /\ functional Q (qkey q)).
  { intros q Hq. apply tok_keys. unfold queries. cbn [tl]. apply in_or_app. now left. }
  destruct (chain_follows _ _ _ _ Hincl Hkeysc Hlc Hchain' Hwb')
    as [(l1 & l2 & El & Hl) | (h1 & b & h2 & Eh & Hh)].
  - (* the honest blocks are a prefix *)
    exists (t_authority tok' :: l1), l2. unfold all_blocks. split; [now rewrite El|].
    split; [now constructor|].
    intros Hsealed. unfold sealed in Hsealed. destruct (t_proof tok) as [sk|s] eqn:Eproof; [discriminate|].
    (* the seal triple of the honest token *)
    set (kn := end_key (b_next (t_authority tok)) (t_blocks tok)).
    set (sn := end_sig (b_sig (t_authority tok)) (t_blocks tok)).
    assert (Hkn : b_next (last_block tok) = kn) by apply last_end_key.
    assert (Hsn : b_sig (last_block tok) = sn) by apply last_end_sig.
    assert (Hseal_in : In (kn, msg_seal (last_block tok), s) (tl (queries root tok))).
    { unfold queries. cbn [tl]. apply in_or_app. right. unfold proof_queries. rewrite Eproof, Hkn. now left. }
    destruct (tok_keys _ Hseal_in) as [Hhk Hfun]. cbn [qkey fst] in Hhk, Hfun.
    assert (HsealQ : In (kn, msg_seal (last_block tok), s) Q).
    { apply tok_issued. unfold queries. right. exact Hseal_in. }
    assert (Hl2 : l2 = []).
    { destruct l2 as [|b' l2']; [reflexivity|]. exfalso.
      rewrite El, chain_queries_app in Hchain'. apply forallb_app_inv in Hchain' as [_ Hc2].
      rewrite (same_end_key _ _ _ Hl), (same_end_sig _ _ _ Hl) in Hc2. fold kn sn in Hc2.
      cbn [chain_queries] in Hc2. apply forallb_app_inv in Hc2 as [Hc2 _].
      unfold block_queries in Hc2. cbn [forallb verify_triple] in Hc2.
      apply andb_true_iff in Hc2 as [Hc2 _].
      assert (Hin' := EUF _ _ _ Hhk Hc2).
      destruct (Hfun _ _ _ _ Hin' HsealQ) as [Hm _].
      assert (Hwfb' : block_wf b' = true).
      { rewrite El in Hwb'. apply forallb_app_inv in Hwb' as [_ Hw]. cbn [forallb] in Hw.
        now apply andb_true_iff in Hw as [Hw _]. }
      assert (Hnone : readings_block sn (msg_seal (last_block tok)) = []).
      { rewrite <- Hsn. apply Hls. unfold last_block, all_blocks.
        destruct (t_blocks tok) as [|x xs] eqn:Eb; [now left|].
        right. rewrite <- Eb.
        assert (Hne : t_blocks tok <> []) by (rewrite Eb; discriminate).
        destruct (exists_last Hne) as (l0 & x0 & E0). rewrite E0, last_last. apply in_or_app. right. now left. }
      exact (msg_block_not_seal sn b' _ Hnone Hwfb' Hm). }
    split; [exact Hl2|]. subst l2. rewrite app_nil_r in El.
    assert (Hlast : block_same (last_block tok) (last_block tok')).
    { unfold last_block. rewrite El. now apply same_last. }
    destruct (t_proof tok') as [sk'|s'] eqn:Eproof'.
    + exfalso. unfold structural_ok in Hstruct'. apply andb_true_iff in Hstruct' as [_ Hp].
      unfold proof_ok in Hp. rewrite Eproof' in Hp.
      destruct (pub (pk_alg (b_next (last_block tok'))) sk') as [k'|] eqn:Epub; [|discriminate].
      apply pubkey_eqb_eq in Hp. apply (Hsecret sk' k' eq_refl Epub).
      rewrite Hp. destruct Hlast as [Hf _]. rewrite (fields_next _ _ Hf), Hkn. exact Hhk.
    + unfold proof_queries in Hproof'. rewrite Eproof' in Hproof'. cbn [forallb verify_triple] in Hproof'.
      apply andb_true_iff in Hproof' as [Hp _].
      rewrite (same_msg_seal _ _ Hlast) in Hp. destruct Hlast as [Hf _].
      rewrite (fields_next _ _ Hf), Hkn in Hp.
      assert (Hin' := EUF _ _ _ Hhk Hp).
      destruct (Hfun _ _ _ _ Hin' HsealQ) as [_ Hs]. now rewrite Hs.
  - (* tok' stops before the end of the honest chain: impossible *)
    exfalso.
    set (lb := last h1 (t_authority tok)).
    assert (Hlast : block_same lb (last_block tok')).
    { unfold last_block, lb. now apply same_last. }
    assert (Hlb_in : In lb (all_blocks tok)).
    { unfold lb, all_blocks. destruct h1 as [|x xs] eqn:Eh1; [now left|]. right. rewrite Eh.
      assert (Hne : x :: xs <> []) by discriminate.
      destruct (exists_last Hne) as (l0 & x0 & E0). rewrite E0, last_last, <- app_assoc.
      apply in_or_app. right. now left. }
    assert (Hbq : In (b_next lb, msg_block (b_sig lb) b, b_sig b) (tl (queries root tok))).
    { unfold queries. cbn [tl]. apply in_or_app. left. rewrite Eh, chain_queries_app.
      apply in_or_app. right. cbn [chain_queries]. apply in_or_app. left.
      unfold lb. rewrite last_end_key, last_end_sig. now left. }
    destruct (tok_keys _ Hbq) as [Hhk Hfun]. cbn [qkey fst] in Hhk, Hfun.
    assert (HbQ : In (b_next lb, msg_block (b_sig lb) b, b_sig b) Q).
    { apply tok_issued. unfold queries. right. exact Hbq. }
    destruct (t_proof tok') as [sk'|s'] eqn:Eproof'.
    + unfold structural_ok in Hstruct'. apply andb_true_iff in Hstruct' as [_ Hp].
      unfold proof_ok in Hp. rewrite Eproof' in Hp.
      destruct (pub (pk_alg (b_next (last_block tok'))) sk') as [k'|] eqn:Epub; [|discriminate].
      apply pubkey_eqb_eq in Hp. apply (Hsecret sk' k' eq_refl Epub).
      rewrite Hp. destruct Hlast as [Hf _]. rewrite (fields_next _ _ Hf). exact Hhk.
    + unfold proof_queries in Hproof'. rewrite Eproof' in Hproof'. cbn [forallb verify_triple] in Hproof'.
      apply andb_true_iff in Hproof' as [Hp _].
      rewrite (same_msg_seal _ _ Hlast) in Hp. destruct Hlast as [Hf _].
      rewrite (fields_next _ _ Hf) in Hp.
      assert (Hin' := EUF _ _ _ Hhk Hp).
      destruct (Hfun _ _ _ _ HbQ Hin') as [Hm _].
      assert (Hwfb : block_wf b = true).
      { rewrite Eh in Hwb. apply forallb_app_inv in Hwb as [_ Hw]. cbn [forallb] in Hw.
        now apply andb_true_iff in Hw as [Hw _]. }
      exact (msg_block_not_seal (b_sig lb) b _ (Hls lb Hlb_in) Hwfb Hm).
Qed.

End Soundness.

(* ------------------------------------------------------------------ one honest token *)

Lemma queries_head : forall root t,
  queries root t = (root, msg_authority (t_authority t), b_sig (t_authority t)) :: tl (queries root t).
Proof. reflexivity. Qed.

Lemma authority_verifies : forall vs pub root t, verify vs pub root t = true ->
  vs root (msg_authority (t_authority t)) (b_sig (t_authority t)) = true.
Proof.
  intros vs pub root t H. unfold verify in H. apply andb_true_iff in H as [_ H].
  unfold queries in H. cbn [forallb verify_triple] in H. now apply andb_true_iff in H as [H _].
Qed.

Definition prefix_conclusion (tok tok' : token) : Prop :=
  exists l1 l2, all_blocks tok' = l1 ++ l2 /\ Forall2 block_same (all_blocks tok) l1 /\
                (sealed tok = true -> l2 = [] /\ t_proof tok' = t_proof tok).

Theorem accepted_is_honest_prefix : forall verify_sig pub root tok tok',
  verify verify_sig pub root tok = true ->
  layout_ok tok = true ->
  NoDup (map qkey (queries root tok)) ->
  (forall k m s, In k (map qkey (queries root tok)) -> verify_sig k m s = true ->
                 In (k, m, s) (queries root tok)) ->
  (forall sk k, t_proof tok' = Secret sk ->
     pub (pk_alg (b_next (last_block tok'))) sk = Some k -> ~ In k (map qkey (queries root tok))) ->
  keys_ok tok' = true ->
  verify verify_sig pub root tok' = true ->
  prefix_conclusion tok tok'.
Proof.
  intros vs pub root tok tok' Hv Hlay Hnd Heuf Hsec Hk' Hv'.
  set (Q := queries root tok).
  assert (Hroot : In root (map qkey Q)) by (unfold Q; rewrite queries_head; now left).
  assert (Ha' := authority_verifies _ _ _ _ Hv').
  assert (Hin' := Heuf _ _ _ Hroot Ha').
  assert (Hin : In (root, msg_authority (t_authority tok), b_sig (t_authority tok)) Q)
    by (unfold Q; rewrite queries_head; now left).
  destruct (nodup_functional Q root Hnd _ _ _ _ Hin' Hin) as [Hm Hs].
  apply (follows_authority vs pub Q (fun k => In k (map qkey Q)) Heuf root tok Hv Hlay
           (fun q H => H)); try assumption.
  intros q Hq. split.
  - unfold Q. rewrite queries_head. right. now apply in_map.
  - now apply nodup_functional.
Qed.

Lemma Forall2_length_ : forall A B (R : A -> B -> Prop) l l', Forall2 R l l' -> length l = length l'.
Proof. induction 1; cbn; congruence. Qed.

Lemma Forall2_nth : forall A B (R : A -> B -> Prop) l l' i a b,
  Forall2 R l l' -> nth_error l i = Some a -> nth_error l' i = Some b -> R a b.
Proof.
  intros A B R l l' i a b H. revert i. induction H as [|x y l l' Hxy _ IH]; intros i Ha Hb.
  - destruct i; discriminate.
  - destruct i as [|i]; cbn in Ha, Hb; [congruence | eauto].
Qed.

Section Corollaries.
Variable verify_sig : pubkey -> bytes -> bytes -> bool.
Variable pub : alg -> bytes -> option pubkey.
Variable root : pubkey.
Variables tok tok' : token.
Hypothesis H1 : verify verify_sig pub root tok = true.
Hypothesis H2 : layout_ok tok = true.
Hypothesis H3 : NoDup (map qkey (queries root tok)).
Hypothesis H4 : forall k m s, In k (map qkey (queries root tok)) -> verify_sig k m s = true ->
                              In (k, m, s) (queries root tok).
Hypothesis H5 : forall sk k, t_proof tok' = Secret sk ->
     pub (pk_alg (b_next (last_block tok'))) sk = Some k -> ~ In k (map qkey (queries root tok)).
Hypothesis H6 : keys_ok tok' = true.

Lemma not_true_false : forall b, (b = true -> False) -> b = false.
Proof. destruct b; intros H; [exfalso; now apply H | reflexivity]. Qed.

Theorem mutation_rejected : forall i b b',
  nth_error (all_blocks tok) i = Some b -> nth_error (all_blocks tok') i = Some b' ->
  ~ block_same b b' -> verify verify_sig pub root tok' = false.
Proof.
  intros i b b' Hb Hb' Hn. apply not_true_false. intros Hv.
  destruct (accepted_is_honest_prefix _ _ _ _ _ H1 H2 H3 H4 H5 H6 Hv) as (l1 & l2 & El & Hl & _).
  apply Hn. apply (Forall2_nth _ _ _ _ _ i b b' Hl Hb).
  rewrite El in Hb'. rewrite nth_error_app1 in Hb'; [exact Hb'|].
  rewrite <- (Forall2_length_ _ _ _ _ _ Hl). apply nth_error_Some. congruence.
Qed.

Theorem truncation_rejected :
  (length (all_blocks tok') < length (all_blocks tok))%nat -> verify verify_sig pub root tok' = false.
Proof.
  intros Hlen. apply not_true_false. intros Hv.
  destruct (accepted_is_honest_prefix _ _ _ _ _ H1 H2 H3 H4 H5 H6 Hv) as (l1 & l2 & El & Hl & _).
  rewrite El, app_length, <- (Forall2_length_ _ _ _ _ _ Hl) in Hlen. lia.
Qed.

Theorem same_length_same_blocks :
  length (all_blocks tok') = length (all_blocks tok) ->
  verify verify_sig pub root tok' = true -> Forall2 block_same (all_blocks tok) (all_blocks tok').
Proof.
  intros Hlen Hv.
  destruct (accepted_is_honest_prefix _ _ _ _ _ H1 H2 H3 H4 H5 H6 Hv) as (l1 & l2 & El & Hl & _).
  rewrite El, app_length, <- (Forall2_length_ _ _ _ _ _ Hl) in Hlen.
  destruct l2; [|cbn in Hlen; lia]. now rewrite El, app_nil_r.
Qed.

Theorem reorder_rejected :
  Permutation (all_blocks tok) (all_blocks tok') ->
  ~ Forall2 block_same (all_blocks tok) (all_blocks tok') ->
  verify verify_sig pub root tok' = false.
Proof.
  intros Hp Hn. apply not_true_false. intros Hv. apply Hn.
  apply same_length_same_blocks; [|exact Hv]. symmetry. now apply Permutation_length.
Qed.

Theorem sealed_final :
  sealed tok = true -> verify verify_sig pub root tok' = true ->
  Forall2 block_same (all_blocks tok) (all_blocks tok') /\ t_proof tok' = t_proof tok.
Proof.
  intros Hs Hv.
  destruct (accepted_is_honest_prefix _ _ _ _ _ H1 H2 H3 H4 H5 H6 Hv) as (l1 & l2 & El & Hl & Hse).
  destruct (Hse Hs) as [E2 Ep]. subst l2. rewrite app_nil_r in El. rewrite El. auto.
Qed.

End Corollaries.

(* a token verifies under a root key only if the holder of that key signed its authority block *)
Theorem wrong_root_rejected : forall verify_sig pub root' (issued : list (bytes * bytes)) t,
  (forall m s, verify_sig root' m s = true -> In (m, s) issued) ->
  ~ In (msg_authority (t_authority t), b_sig (t_authority t)) issued ->
  verify verify_sig pub root' t = false.
Proof.
  intros vs pub root' issued t Heuf Hn. apply not_true_false. intros Hv.
  apply Hn. apply Heuf. exact (authority_verifies _ _ _ _ Hv).
Qed.

(* ------------------------------------------------------------------ two honest tokens, same root *)
Theorem splice_rejected : forall verify_sig pub root t1 t2 tok',
  verify verify_sig pub root t1 = true -> verify verify_sig pub root t2 = true ->
  layout_ok t1 = true -> layout_ok t2 = true ->
  NoDup (root :: map qkey (tl (queries root t1)) ++ map qkey (tl (queries root t2))) ->
  (forall k m s, In k (map qkey (queries root t1 ++ queries root t2)) -> verify_sig k m s = true ->
                 In (k, m, s) (queries root t1 ++ queries root t2)) ->
  (forall sk k, t_proof tok' = Secret sk ->
     pub (pk_alg (b_next (last_block tok'))) sk = Some k ->
     ~ In k (map qkey (queries root t1 ++ queries root t2))) ->
  keys_ok tok' = true ->
  verify verify_sig pub root tok' = true ->
  prefix_conclusion t1 tok' \/ prefix_conclusion t2 tok'.
Proof.
  intros vs pub root t1 t2 tok' Hv1 Hv2 Hl1 Hl2 Hnd Heuf Hsec Hk' Hv'.
  set (Q := queries root t1 ++ queries root t2).
  set (T1 := tl (queries root t1)). set (T2 := tl (queries root t2)).
  inversion Hnd as [|x l Hroot Hnd']. subst.
  assert (Hsplit : forall k m s, In (k, m, s) Q -> k <> root -> In (k, m, s) (T1 ++ T2)).
  { intros k m s Hin Hne. unfold Q in Hin. apply in_app_or in Hin.
    rewrite (queries_head root t1), (queries_head root t2) in Hin. fold T1 T2 in Hin.
    apply in_or_app. destruct Hin as [[E | Hin] | [E | Hin]]; try (inversion E; congruence); auto. }
  assert (Hfun : forall q, In q (T1 ++ T2) -> functional Q (qkey q)).
  { intros q Hq m s m' s' Ha Hb.
    assert (Hne : qkey q <> root).
    { intros E. apply Hroot. rewrite <- map_app. rewrite <- E. now apply in_map. }
    apply (nodup_functional (T1 ++ T2) (qkey q)); [now rewrite map_app | now apply Hsplit | now apply Hsplit]. }
  assert (HrootQ : In root (map qkey Q)).
  { unfold Q. rewrite map_app. apply in_or_app. left. rewrite queries_head. now left. }
  assert (Ha' := authority_verifies _ _ _ _ Hv').
  assert (Hin' := Heuf _ _ _ HrootQ Ha').
  assert (Hcase : (msg_authority (t_authority tok') = msg_authority (t_authority t1) /\
                   b_sig (t_authority tok') = b_sig (t_authority t1)) \/
                  (msg_authority (t_authority tok') = msg_authority (t_authority t2) /\
                   b_sig (t_authority tok') = b_sig (t_authority t2))).
  { unfold Q in Hin'. apply in_app_or in Hin'.
    rewrite (queries_head root t1), (queries_head root t2) in Hin'. fold T1 T2 in Hin'.
    destruct Hin' as [[E | Hin] | [E | Hin]].
    - left. inversion E. auto.
    - exfalso. apply Hroot. apply in_or_app. left. apply (in_map qkey) in Hin. exact Hin.
    - right. inversion E. auto.
    - exfalso. apply Hroot. apply in_or_app. right. apply (in_map qkey) in Hin. exact Hin. }
  assert (HhkQ : forall q, In q (T1 ++ T2) -> In (qkey q) (map qkey Q)).
  { intros q Hq. unfold Q. rewrite map_app. apply in_app_or in Hq. apply in_or_app.
    destruct Hq as [Hq | Hq]; [left | right]; rewrite queries_head; right; now apply in_map. }
  destruct Hcase as [[Hm Hs] | [Hm Hs]]; [left | right].
  - apply (follows_authority vs pub Q (fun k => In k (map qkey Q)) Heuf root t1 Hv1 Hl1); try assumption.
    + unfold Q. now apply incl_appl, incl_refl.
    + intros q Hq. fold T1 in Hq. split; [apply HhkQ | apply Hfun]; apply in_or_app; now left.
  - apply (follows_authority vs pub Q (fun k => In k (map qkey Q)) Heuf root t2 Hv2 Hl2); try assumption.
    + unfold Q. now apply incl_appr, incl_refl.
    + intros q Hq. fold T2 in Hq. split; [apply HhkQ | apply Hfun]; apply in_or_app; now right.
Qed.

(* ------------------------------------------------------------------ an ideal scheme, for the examples *)
Definition triple_eqb (a b : triple) : bool :=
  let '(k, m, s) := a in let '(k', m', s') := b in
  pubkey_eqb k k' && bytes_eqb m m' && bytes_eqb s s'.

(* accepts exactly the triples of [Q], and anything under the adversary's own keys *)
Definition ideal_verify (Q : list triple) (adv : list pubkey) (k : pubkey) (m s : bytes) : bool :=
  existsb (triple_eqb (k, m, s)) Q || existsb (pubkey_eqb k) adv.

Lemma ideal_verify_sound : forall Q adv k m s,
  ~ In k adv -> ideal_verify Q adv k m s = true -> In (k, m, s) Q.
Proof.
  intros Q adv k m s Hk H. unfold ideal_verify in H. apply orb_true_iff in H as [H | H].
  - apply existsb_exists in H as ([[k' m'] s'] & Hin & He). cbn [triple_eqb] in He.
    apply andb_true_iff in He as [He Hs]. apply andb_true_iff in He as [Hkk Hm].
    apply pubkey_eqb_eq in Hkk. apply bytes_eqb_eq in Hm. apply bytes_eqb_eq in Hs. now subst.
  - exfalso. apply existsb_exists in H as (k' & Hin & He). apply pubkey_eqb_eq in He. now subst.
Qed.

(* C14, expressions: the infix operators, what stops a precedence loop, and inputs on which
   every level fails. *)
From Biscuit Require Import Model.Text Proofs.TextLeaves Proofs.TextDate Proofs.TextTerm Proofs.TextItems
  Proofs.TextExprRules.
Local Open Scope N_scope.

(* the infix operators the grammar produces: level and spelling *)
Definition infix_op (b : binop) : option (nat * string) :=
  match b with
  | BLazyOr => Some (0, "||") | BLazyAnd => Some (1, "&&")
  | BLessOrEqual => Some (2, "<=") | BGreaterOrEqual => Some (2, ">=")
  | BLessThan => Some (2, "<") | BGreaterThan => Some (2, ">")
  | BEqual => Some (2, "===") | BNotEqual => Some (2, "!==")
  | BHeterogeneousEqual => Some (2, "==") | BHeterogeneousNotEqual => Some (2, "!=")
  | BBitwiseXor => Some (3, "^") | BBitwiseOr => Some (4, "|") | BBitwiseAnd => Some (5, "&")
  | BAdd => Some (6, "+") | BSub => Some (6, "-") | BMul => Some (7, "*") | BDiv => Some (7, "/")
  | _ => None
  end%nat%string.

Lemma print_infix : forall b k nm l r, infix_op b = Some (k, nm) ->
  print_binary b l r = l ++ cSp :: str nm ++ cSp :: r.
Proof.
  intros b k nm l r H. destruct b; inversion H; subst; unfold print_binary, infix; cbn [app];
    rewrite <- ?app_assoc; reflexivity.
Qed.

Lemma binop_at_self : forall b k nm x, infix_op b = Some (k, nm) ->
  binop_at k (str nm ++ cSp :: x) = Some (b, cSp :: x).
Proof. intros b k nm x H. destruct b; inversion H; subst; reflexivity. Qed.

Lemma infix_level : forall b k nm, infix_op b = Some (k, nm) -> (k <= 7)%nat.
Proof. intros b k nm H. destruct b; inversion H; subst; lia. Qed.

(* ------------------------------------------------------------------ inputs no expression starts with *)
Definition no_term_start (c : N) : bool :=
  negb (is_ws c) && negb (c =? cLBrace) && negb (c =? cQuote) && negb (is_digit c) && negb (c =? cDollar)
  && negb (c =? cMinus) && negb (c =? 104) && negb (c =? 116) && negb (c =? 102) && negb (c =? 110)
  && negb (c =? cLBrk).

Lemma term_fails_on : forall g c x, no_term_start c = true -> p_term (S g) CTerm (c :: x) = PErr.
Proof.
  intros g c x H. unfold no_term_start in H. repeat (apply andb_true_iff in H as [H ?]).
  repeat match goal with Hn : negb _ = true |- _ => apply negb_true_iff in Hn end.
  unfold p_term. cbn [p_t t_step]. unfold t_term. rewrite ws_nonws by assumption.
  assert (S0 : p_scalar true (c :: x) = None).
  { unfold p_scalar. rewrite p_braced_other by (now rewrite N.eqb_sym).
    rewrite parse_string_other by assumption. rewrite parse_date_nondigit by assumption.
    cbn [oor opt_map chr]. rewrite (N.eqb_sym cDollar c). rewrite H6.
    rewrite parse_integer_other by assumption.
    assert (B : parse_bytes (c :: x) = None).
    { unfold parse_bytes. cbn [tag str]. change (N_of_ascii "h") with 104. rewrite (N.eqb_sym 104 c). now rewrite H4. }
    rewrite B.
    assert (Bo : parse_bool (c :: x) = None).
    { unfold parse_bool. cbn [tag str]. change (N_of_ascii "t") with 116. change (N_of_ascii "f") with 102.
      rewrite (N.eqb_sym 116 c), (N.eqb_sym 102 c). now rewrite H3, H2. }
    rewrite Bo. cbn [tag str]. change (N_of_ascii "n") with 110. rewrite (N.eqb_sym 110 c). now rewrite H1. }
  rewrite S0. rewrite t_array_other by (try assumption; now rewrite N.eqb_sym).
  cbn [por]. rewrite t_map_other by (try assumption; now rewrite N.eqb_sym).
  rewrite t_set_other by (try assumption; now rewrite N.eqb_sym). reflexivity.
Qed.

Lemma no_term_start_ws : forall c, no_term_start c = true -> is_ws c = false.
Proof.
  intros c H. unfold no_term_start in H. repeat (apply andb_true_iff in H as [H ?]).
  now apply negb_true_iff in H.
Qed.

Lemma levels_fail_on : forall c x, no_term_start c = true -> (cBang =? c) = false -> (cLPar =? c) = false ->
  forall k, (k <= 9)%nat -> Ev (NLk k) (c :: x) PErr.
Proof.
  intros c x Hc Hb Hp.
  assert (W : ws (c :: x) = c :: x) by (apply ws_nonws; now apply no_term_start_ws).
  assert (T : Ev NTerm (c :: x) PErr).
  { apply R_Term_err; [rewrite W; cbn [chr]; now rewrite Hp|].
    exists 1%nat. intros g Hg. destruct g; [lia|]. now apply term_fails_on. }
  assert (L9 : Ev N9 (c :: x) PErr) by (now apply R_N9_err).
  assert (L8 : Ev N8 (c :: x) PErr).
  { apply R_N8_other; [rewrite W; cbn [chr]; now rewrite Hb|exact L9]. }
  assert (L7 : Ev (NL 7) (c :: x) PErr) by (apply R_NL_err; [lia|exact L8]).
  assert (L6 : Ev (NL 6) (c :: x) PErr) by (apply R_NL_err; [lia|exact L7]).
  assert (L5 : Ev (NL 5) (c :: x) PErr) by (apply R_NL_err; [lia|exact L6]).
  assert (L4 : Ev (NL 4) (c :: x) PErr) by (apply R_NL_err; [lia|exact L5]).
  assert (L3 : Ev (NL 3) (c :: x) PErr) by (apply R_NL_err; [lia|exact L4]).
  assert (L2 : Ev (NL 2) (c :: x) PErr) by (now apply R_NL2_err).
  assert (L1 : Ev (NL 1) (c :: x) PErr) by (apply R_NL_err; [lia|exact L2]).
  assert (L0 : Ev (NL 0) (c :: x) PErr) by (apply R_NL_err; [lia|exact L1]).
  intros k Hk. do 10 (destruct k as [|k]; [assumption|]). lia.
Qed.

(* ------------------------------------------------------------------ what stops the loops *)
(* after a complete operand, " op " of a lower level stops every higher loop *)
Lemma stop_after_op : forall b k nm x m, infix_op b = Some (k, nm) -> (k < m <= 7)%nat ->
  StopL m (cSp :: str nm ++ cSp :: x).
Proof.
  intros b k nm x m H Hm.
  assert (W : ws (cSp :: str nm ++ cSp :: x) = str nm ++ cSp :: x).
  { destruct b; inversion H; subst; reflexivity. }
  (* the two operators of which a prefix is an operator of a higher level *)
  assert (Amp : forall acc, Ev (NLoop 5 acc) (cSp :: str "&&" ++ cSp :: x) (POk acc (cSp :: str "&&" ++ cSp :: x))).
  { intro acc. apply (R_Loop_fail 5 acc _ BBitwiseAnd (cAmp :: cSp :: x)); [reflexivity|].
    apply (levels_fail_on cAmp (cSp :: x) eq_refl eq_refl eq_refl 6). lia. }
  assert (Pipe : forall acc, Ev (NLoop 4 acc) (cSp :: str "||" ++ cSp :: x) (POk acc (cSp :: str "||" ++ cSp :: x))).
  { intro acc. apply (R_Loop_fail 4 acc _ BBitwiseOr (cPipe :: cSp :: x)); [reflexivity|].
    apply (levels_fail_on cPipe (cSp :: x) eq_refl eq_refl eq_refl 5). lia. }
  destruct b; inversion H; subst; clear H;
    do 8 (destruct m as [|m]; [try lia; try (apply stop_none; reflexivity); try exact Amp; try exact Pipe|]);
    lia.
Qed.

(* terminators of a whole expression: end of input, ')' ',' ';' or a keyword after a space *)
Definition estop (r : text) : Prop :=
  tstop r /\ chr cDot r = None /\ forall m, (m <= 7)%nat -> binop_at m (ws r) = None.

Lemma estop_stop : forall r k, estop r -> StopFrom k r.
Proof. intros r k (_ & _ & H) m Hm. apply stop_none. apply H. lia. Qed.

Lemma estop_nil : estop [].
Proof. repeat split. intros m Hm. do 8 (destruct m as [|m]; [reflexivity|]). lia. Qed.

Lemma estop_char : forall c x, c = cRPar \/ c = cComma \/ c = cSemi -> estop (c :: x).
Proof.
  intros c x [-> | [-> | ->]]; repeat split; intros m Hm;
    do 8 (destruct m as [|m]; [reflexivity|]); lia.
Qed.

(* " trusting ..." and " or ..." *)
Lemma estop_keyword : forall c x, c = 116 \/ c = 111 -> estop (cSp :: c :: x).
Proof.
  intros c x [-> | ->]; repeat split; intros m Hm;
    do 8 (destruct m as [|m]; [reflexivity|]); lia.
Qed.

"""C05: Datalog engine vs Model.Datalog (saturate, find_match, check_match_all, query_rule)."""
from families import GenericModelFamily


class C05(GenericModelFamily):
    binary = "h_datalog"
    prefix = "C05"
    extract = "datalog"
    module = "Model.DatalogCases"
    model_fn = "dcase_model"
    correspondence = "datalog::World (run, query_match, query_match_all, query_rule) vs Model.Datalog"
    rule = ("seeded random worlds (5 predicates of arity 0..2, constants of every term type, facts with "
            "arbitrary origin sets, rules with 0..3 body atoms, repeated variables, expressions, arbitrary "
            "trusted sets and owners, unbound head variables), each run in 3 insertion orders, plus 2 query "
            "rules per world; distinct by canonical text, non-trivial when a derived fact has an origin of "
            "size >= 2")
    trusted = ["regex crate and extern functions are oracle tables",
               "string interning abstracted (contents)"]
    assumptions = ["limits are non-binding in this family (10^6 facts, 10^5 iterations, 60 s)",
                   "programs where some binding errors are compared on Err-vs-Ok only (which error is "
                   "reported first is order dependent: C11)"]

    def classify(self, ctx, case_text, model_text):
        if "DPanic" in case_text.rsplit(", ", 1)[-1]:
            return True, "the engine panicked"
        return True, "the engine's fact set / provenance / query answers differ from the least fixpoint the model computes"

    def run(self, ctx):
        GenericModelFamily.run(self, ctx)
        od = ctx.coverage.get("order_dependent") or []
        for pair in od[:5]:
            ctx.violation({"family": self.correspondence, "case_indices": pair,
                           "violated_clause": "result depends on insertion order"}, True)


FAMILIES = {"C05": C05()}

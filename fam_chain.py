"""Signature-chain families: C01 (forged / tampered / spliced / truncated tokens never
verify), C08 (sealed tokens are final), C15 (revocation identifiers).  One harness binary
(h_chain --property Cnn), one Coq model (Model/Token.v through Model/ChainCases.v), three
checkers."""
import os, json, glob
from checklib import *   # noqa
from families import Family


def _variants(outdir, pid):
    """index -> (kind, derived, verdict, variant_root, bytes_hex, label)"""
    res = {}
    p = os.path.join(outdir, "%s_variants.txt" % pid)
    if not os.path.exists(p):
        return res
    for line in open(p):
        parts = line.rstrip("\n").split(" ", 6)
        if len(parts) < 7:
            continue
        res[int(parts[0])] = parts[1:]
    return res


class ChainFamily(Family):
    binary = "h_chain"
    extract = "chain"
    module = "Model.ChainCases"
    correspondence = ("SerializedBiscuit::from_slice / Biscuit::from / UnverifiedBiscuit::verify vs "
                      "Model.Token.from_wire (signatures answered by raw ed25519-dalek / p256 over the model's payload bytes)")
    rule = ("honest tokens built through the public API (1..5 blocks, ed25519 / secp256r1 for root, next and "
            "external keys, first- and third-party blocks, signature versions 0 and 1, sealed or not, root key id) x "
            "the structured mutation set of the wire message (every field of every block, proof, reorder, truncation "
            "with every proof the holder can form, holder extensions and seals, splices between two tokens with the same "
            "keys, byte corruptions, other root keys, key re-encodings, signature malleations, results of the API "
            "operations, insider re-signing with the honest keys) + the 37 conformance samples; a variant is distinct by "
            "(bytes, root key) and non-trivial when the bytes decode as a Biscuit message")
    trusted = ["ed25519-dalek verify_strict and p256 ECDSA verification enter the model as a per-group truth table "
               "computed by the harness with raw calls over payload bytes it builds from the specification table",
               "prost decoding of the container message (schema::Biscuit) is shared by the implementation and the harness",
               "block contents are opaque bytes: whether they parse is an input of the comparison (UnverifiedBiscuit::from)"]
    assumptions = ["unforgeability of the two signature schemes is a premise of the theorems, never assumed of the code",
                   "honest tokens satisfy the decidable layout premise (unique reading of every signed message); evaluated per token"]
    mode_checker = {"C01": "c01_failures", "C08": "c08_failures", "C15": "c15_failures"}

    def __init__(self, pid):
        self.pid = pid

    # ---- classification of one disagreeing index
    def describe(self, idx, var):
        v = var.get(idx)
        if v is None:
            return None, False, "unknown index %d" % idx
        if idx % 1000 == 998:
            return v, False, ("the honest token built by the API does not verify in the model: the implementation's "
                              "signature payload layout or checks differ from the specification")
        if idx % 1000 == 999:
            ops = v[-1]
            found = "sealed_token_extended=true" in ops
            return v, found, ("an append / seal / third-party request on a sealed token succeeded: " if found else
                              "operations on the honest token give other results than the model of append/seal/third_party_request: ") + ops
        kind, derived, verdict, root, hexbytes, label = v
        accepted = "1" in verdict
        if "P" in verdict:
            return v, True, "the implementation panicked on variant '%s'" % label
        if accepted:
            return v, True, ("variant '%s' (kind %s) is accepted by the implementation although the chain semantics "
                             "rejects it, or it verifies while presenting other signed blocks / identifiers than the "
                             "honest token" % (label, kind))
        return v, False, "variant '%s' (kind %s) is rejected by the implementation although the chain verifies in the model" % (label, kind)

    def run(self, ctx):
        pid = ctx.pid
        outdir = os.path.join(GEN, pid)
        summ = run_harness(ctx, self.binary, "--property %s" % pid, outdir)
        files = summ.get("files", [])
        ml = sorted(f for f in files if "/%s_ml_" % pid in f)
        bad, skipped = run_ocaml_shards(ml, self.correspondence, self.extract)
        known = []
        if pid == "C15":
            # C15_ml_* run the tolerant checker; C15s_ml_* the strict one on the signature-malleation
            # variants (restricted groups: variant indices are positions among kind-17 variants)
            mls = sorted(f for f in files if "/C15s_ml_" in f)
            strict_bad, _ = run_ocaml_shards(mls, self.correspondence, self.extract)
            var0 = _variants(outdir, pid)
            k17 = {}
            for i in sorted(var0):
                if var0[i][0] == "17":
                    k17.setdefault(i // 1000, []).append(i)
            mapped = []
            for j in strict_bad:
                g, r = j // 1000, j % 1000
                if r >= 997:
                    continue          # honest-token level entries are reported by the full run
                mapped.append(k17.get(g, [])[r] if r < len(k17.get(g, [])) else j)
            known = sorted(set(mapped) - set(bad))
        kv = sorted(f for f in files if f.endswith(".v"))
        kbad, kskipped, _ = run_kernel_shards(kv, self.correspondence)
        ctx.kernel_lemmas += len(kv)
        ctx.kernel_ok += len(kv) if not kbad else 0
        var = _variants(outdir, pid)
        cov = {k: v for k, v in summ.items() if k not in ("files",)}
        cov["model_skipped_oracle_miss"] = skipped
        cov["kernel_shards"] = len(kv)
        cov["disagreements_checked"] = len(bad)
        cov["known_class_disagreements"] = len(known)
        cov["traces_validated_against_impl"] = summ.get("evaluations", 0) - skipped
        cov["rule"] = self.rule
        cov["exhaustive"] = False
        ctx.coverage.update(cov)
        for i in summ.get("panics", [])[:5]:
            v, _, _ = self.describe(i, var)
            ctx.violation({"family": self.correspondence, "case_index": i, "variant": v,
                           "violated_clause": "implementation panicked"}, True)
        for i in summ.get("direct_oracle_failures", [])[:4]:
            v, _, _ = self.describe(i, var)
            orig = var.get((i // 1000) * 1000 + 998)
            ctx.violation({"family": "direct oracle (implementation only)", "case_index": i,
                           "variant": {"kind": v[0], "derived": v[1], "impl_verdict_ser_bis_unv": v[2],
                                       "presented_root": v[3], "bytes": v[4], "label": v[5]} if v and len(v) == 6 else v,
                           "honest_root": orig[3] if orig else None, "honest_bytes": orig[4] if orig else None,
                           "violated_clause": "an accepted variant made without any honest secret does not carry the honest "
                                              "token's signed blocks as a prefix (or mixes the blocks of two tokens)"}, True)
        if summ.get("build_errors"):
            ctx.violation({"family": self.correspondence,
                           "theorem_or_correspondence": "honest tokens could not be built through the API",
                           "count": summ["build_errors"]}, False)
        if skipped or kskipped:
            ctx.violation({"family": self.correspondence,
                           "theorem_or_correspondence": "oracle table miss: the model asked for a signature triple, key or "
                           "secret the harness did not list (the model's payload bytes differ from the harness's layout)",
                           "skipped": skipped + kskipped}, False)
        if kbad and not bad:
            ctx.violation({"family": self.correspondence,
                           "theorem_or_correspondence": "in-kernel replay disagrees with extracted model",
                           "kernel_bad": kbad[:10]}, False)
        if ctx.pid in ("C15", "C08"):
            # stability / uniqueness of revocation identifiers through the API (implementation only)
            for what in (summ.get("identifier_stability_failures") or [])[:6]:
                ctx.violation({"family": "direct oracle (implementation only): append, append_third_party and seal (Biscuit and "
                                         "UnverifiedBiscuit, before and after a round trip) keep the identifiers of the existing "
                                         "blocks, in order; tokens with identical contents minted concurrently share none",
                               "violated_clause": what[:600], "theorem_or_correspondence": "direct oracle"}, True)
        for i in bad[:8]:
            v, found, clause = self.describe(i, var)
            orig = var.get((i // 1000) * 1000 + 998)
            ctx.violation({"family": self.correspondence, "case_index": i,
                           "variant": {"kind": v[0], "derived": v[1], "impl_verdict_ser_bis_unv": v[2],
                                       "presented_root": v[3], "bytes": v[4], "label": v[5]} if v and len(v) == 6 else v,
                           "honest_root": orig[3] if orig else None, "honest_bytes": orig[4] if orig else None,
                           "violated_clause": clause, "theorem_or_correspondence": self.correspondence}, found)
        if known:
            # every member is structurally classified by the model (c15_known_class), not by label
            labels = sorted(set(var[i][5] for i in known if i in var))
            ctx.coverage["known_class_labels"] = labels
            for f in ctx.findings:
                if f.get("classifier") == "c15_known_class":
                    ctx.known(f["id"], f["what"] + " [%d variants: %s]" % (len(known), "; ".join(labels)[:200]))
                    break
            else:
                for i in known[:8]:
                    v, found, clause = self.describe(i, var)
                    ctx.violation({"family": self.correspondence, "case_index": i, "variant": v,
                                   "violated_clause": clause}, True)

    def replay_case(self, ctx, obj):
        v = obj.get("variant")
        if not isinstance(v, dict) or not obj.get("honest_bytes"):
            print("replay: no single variant recorded; re-run ./check %s" % ctx.pid)
            return 0
        outdir = os.path.join(GEN, ctx.pid + "_replay")
        args = "--property %s --bytes-hex %s --orig-hex %s --root %s --variant-root %s --kind %s --derived %s" % (
            ctx.pid, v["bytes"] or '""', obj["honest_bytes"], obj["honest_root"], v["presented_root"], v["kind"], v["derived"])
        summ = run_harness(ctx, self.binary, args, outdir)
        bad, skipped = run_ocaml_shards(summ["files"], self.correspondence, self.extract)
        print("implementation verdict now (ser/bis/unv): %s   recorded: %s" % (summ.get("impl_verdict"), v["impl_verdict_ser_bis_unv"]))
        print("model: %s" % ("DISAGREES (the failure reproduces)" if bad else ("oracle miss" if skipped else "agrees")))
        return 1 if bad else 0


FAMILIES = {"C01": ChainFamily("C01"), "C08": ChainFamily("C08"), "C15": ChainFamily("C15")}

#!/usr/bin/env python3
"""merge_family.py <workdir> <Cnn> [<Cnn>...]: copy a family built in a work copy into /verif
(new files only), append its known findings and MANIFEST entries."""
import sys, os, json, shutil, subprocess
src = sys.argv[1].rstrip("/")
pids = sys.argv[2:]
dst = "/verif"
exts = (".v", ".rs", ".py", ".patch", ".case", ".ml", ".txt")
new = []
for root, dirs, files in os.walk(src):
    rel = os.path.relpath(root, src)
    if rel.startswith(("harness/target", "coq/gen", ".git", "replays")) or "/target/" in rel + "/":
        continue
    for f in files:
        p = os.path.normpath(os.path.join(rel, f))
        if not f.endswith(exts) and not p.startswith(("corpus/", "fixes/")):
            continue
        if p.startswith("evidence/"):
            continue
        if not os.path.exists(os.path.join(dst, p)):
            os.makedirs(os.path.dirname(os.path.join(dst, p)), exist_ok=True)
            shutil.copy(os.path.join(src, p), os.path.join(dst, p))
            new.append(p)
print("copied:", *new, sep="\n  ")
# lib.rs pub mod lines
lib = open(os.path.join(dst, "harness/src/lib.rs")).read()
slib = open(os.path.join(src, "harness/src/lib.rs")).read()
for line in slib.split("\n"):
    if line.startswith("pub mod ") and line not in lib:
        lib = lib.replace("pub mod expr;", line + "\npub mod expr;", 1)
        print("lib.rs +", line)
open(os.path.join(dst, "harness/src/lib.rs"), "w").write(lib)
# known findings
kf = json.load(open(os.path.join(dst, "known_findings.json")))
sk = os.path.join(src, "known_findings.json")
if os.path.exists(sk):
    have = {(f["property"], f["id"]) for f in kf["findings"]}
    for f in json.load(open(sk)).get("findings", []):
        if f["property"] in pids and (f["property"], f["id"]) not in have:
            kf["findings"].append(f); print("known finding +", f["property"], f["id"])
    json.dump(kf, open(os.path.join(dst, "known_findings.json"), "w"), indent=1)
# manifest
m = json.load(open(os.path.join(dst, "MANIFEST.json")))
sm = json.load(open(os.path.join(src, "MANIFEST.json")))
for c in sm["checks"]:
    if c["property_id"] in pids:
        m["checks"] = [x for x in m["checks"] if x["property_id"] != c["property_id"]] + [c]
        m["not_applicable"] = [x for x in m["not_applicable"] if x["property_id"] != c["property_id"]]
        for e in m["engines"]:
            e["serves_properties"] = sorted(set(e["serves_properties"] + [c["property_id"]]))
        print("manifest +", c["property_id"])
m["checks"].sort(key=lambda c: c["property_id"])
json.dump(m, open(os.path.join(dst, "MANIFEST.json"), "w"), indent=1)
# cargo deps
for line in open(os.path.join(src, "harness/Cargo.toml")):
    if "=" in line and line.strip() and line not in open(os.path.join(dst, "harness/Cargo.toml")).read():
        print("Cargo.toml differs:", line.strip())

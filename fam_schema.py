"""C16: schema / language versions vs Model.Schema (builder's declared version, load-time gate,
block signature version)."""
import os, re, time
from concurrent.futures import ThreadPoolExecutor
from checklib import GEN, THEORIES, NPROC, CheckBroken, sh, run_harness, run_ocaml_shards, kernel_eval
from families import GenericModelFamily, case_lines

# variant numbers used by Model.SchemaCases.scase_failures4: (detector repaired, compat repaired)
VARIANTS = {0: (True, True), 1: (True, False), 2: (False, True), 3: (False, False)}
F_DETECT = "C16-detect-array-map-get"
F_COMPAT = "C16-compat-v30-ignores-v33"


def run_kernel(v_files, what):
    """coqc on every generated shard; returns the (encoded) indices the kernel reports.
    (Own parser: Coq wraps long lists as `(\n 32%N, tt)`.)"""
    def one(v):
        rc, out = sh("timeout 1800 coqc -noglob -Q %s Biscuit %s" % (THEORIES, v), cwd=os.path.dirname(v), timeout=1900)
        for ext in ("o", "ok", "os"):
            try:
                os.remove(v + ext)
            except OSError:
                pass
        return rc, v, out
    bad = []
    with ThreadPoolExecutor(NPROC) as ex:
        for rc, v, out in ex.map(one, v_files):
            flat = " ".join(out.split())
            m = re.search(r"= \((.*), (\d+)%N\) : list \(N \* unit\) \* N", flat)
            if rc != 0 or not m:
                raise CheckBroken("%s: in-kernel evaluation of %s" % (what, os.path.basename(v)), out[-2000:])
            bad.extend(int(x) for x in re.findall(r"\(\s*(\d+)%N,\s*tt\)", m.group(1)))
    return sorted(bad)


class C16(GenericModelFamily):
    binary = "h_schema"
    prefix = "C16"
    extract = "schema"
    module = "Model.SchemaCases"
    model_fn = "scase_model repaired"
    correspondence = ("BlockBuilder::build / create_block, proto_block_to_token_block, "
                      "block_signature_version vs Model.Schema")
    rule = ("(a) one block content per feature and position (49 term shapes incl. null/array/map nested in "
            "set/array/map x 15 positions; every unary/binary operator plain, inside a closure and with a "
            "closure operand, in rule and check expressions; check kinds; scopes at block/rule/check level; "
            "Datalog source through the parser; seeded random unions), built through the public builder API as "
            "authority, first-party and third-party block: declared version read back from the serialized block; "
            "(b) the same blocks re-encoded with version absent and 0..8 (and wire check kinds 0, 3, 7), correctly "
            "re-signed, loaded and converted (block_version + authorizer): accept / Version / Deserialization; "
            "(c) every sequence of root and next key algorithms x {builder, third-party, append_serialized} x "
            "{3.0, 3.3 content} up to the stated length (+ random longer ones): signature version of every block. "
            "Distinct by canonical text; non-trivial: a built block needing > 3.0, a block accepted at some "
            "versions and refused for its content at others, a token of >= 2 blocks")
    trusted = ["prost decoding of the serialized block into the structure handed to the model",
               "string interning abstracted (names only label predicates; the version logic never reads them)",
               "signatures of re-versioned blocks are produced by the harness with the library's KeyPair::sign over "
               "the payload layouts of DESIGN D.1 and are accepted by the library's own verification (Biscuit::from)"]
    assumptions = ["variables nested inside arrays/maps/sets are not generated (no counterpart in Model.Value)",
                   "malformed terms (sets of sets, mixed sets, empty oneofs) belong to C09, not generated here",
                   "the gate is observed where the implementation runs it: Biscuit::block_version and "
                   "Biscuit::authorizer (Biscuit::from itself only verifies signatures)"]

    def run(self, ctx):
        outdir = os.path.join(GEN, ctx.pid)
        t0 = time.time()
        summ = run_harness(ctx, self.binary, self.extra_args, outdir)
        t1 = time.time()
        ml = sorted(f for f in summ.get("files", []) if f.endswith(".ml") and "/%s_ml_" % self.prefix in f)
        kv = sorted(f for f in summ.get("files", []) if f.endswith(".v"))
        bad, skipped = run_ocaml_shards(ml, self.correspondence, self.extract)
        t2 = time.time()
        kbad = run_kernel(kv, self.correspondence)
        t3 = time.time()
        ctx.kernel_lemmas += len(kv)
        lines = case_lines(outdir, self.prefix)
        labels_p = os.path.join(outdir, "%s_labels.txt" % self.prefix)
        labels = open(labels_p).read().split("\n") if os.path.exists(labels_p) else []
        # in-kernel sample against the extracted model
        kidx_p = os.path.join(outdir, "%sk_index.txt" % self.prefix)
        kidx = [int(x) for x in open(kidx_p).read().split()] if os.path.exists(kidx_p) else []
        kset = set(kidx)
        kernel_view = set(4 * kidx[b // 4] + b % 4 for b in kbad if b // 4 < len(kidx))
        extracted_view = set(b for b in bad if b // 4 in kset)
        kernel_ok = kernel_view == extracted_view
        ctx.kernel_ok += len(kv) if kernel_ok else 0
        if not kernel_ok:
            ctx.violation({"family": self.correspondence,
                           "theorem_or_correspondence": "in-kernel replay disagrees with the extracted model",
                           "only_kernel": sorted(kernel_view - extracted_view)[:10],
                           "only_extracted": sorted(extracted_view - kernel_view)[:10]}, False)

        cov = {k: v for k, v in summ.items() if k not in ("files",)}
        cov["model_skipped_oracle_miss"] = skipped
        cov["kernel_shards"] = len(kv)
        cov["traces_validated_against_impl"] = summ.get("evaluations", 0)
        cov["rule"] = self.rule
        cov["phase_s"] = {"harness_build_and_run": round(t1 - t0, 1), "extracted_model": round(t2 - t1, 1),
                          "kernel_sample": round(t3 - t2, 1)}

        # decode: case -> set of variants it disagrees with
        dis = {}
        for b in bad:
            dis.setdefault(b // 4, set()).add(b % 4)
        known_seen = {}
        either = []
        unexplained = []
        for i in sorted(dis):
            d = dis[i]
            if 0 not in d:
                continue        # the implementation does what the property demands
            agree = set(VARIANTS) - d
            if not agree:
                unexplained.append(i)
                continue
            needs_detect = all(not VARIANTS[a][0] for a in agree)
            needs_compat = all(not VARIANTS[a][1] for a in agree)
            if needs_detect:
                known_seen.setdefault(F_DETECT, []).append(i)
            if needs_compat:
                known_seen.setdefault(F_COMPAT, []).append(i)
            if not needs_detect and not needs_compat:
                either.append(i)
        if either and not known_seen:
            known_seen[F_DETECT] = either
            known_seen[F_COMPAT] = either
        cov["disagreements_checked"] = len(dis)
        cov["cases_showing_known_findings"] = {k: len(v) for k, v in known_seen.items()}
        cov["cases_explained_by_either_finding"] = len(either)
        cov["unexplained_disagreements"] = len(unexplained)
        ctx.coverage.update(cov)

        listed = set(f["id"] for f in ctx.findings)
        for fid, idxs in sorted(known_seen.items()):
            if fid not in listed:
                unexplained.extend(idxs)
        for f in ctx.findings:
            if f["id"] in known_seen:
                i = known_seen[f["id"]][0]
                ctx.known(f["id"], "%s [first seen on: %s]" % (f["what"], labels[i] if i < len(labels) else i))

        for i in (summ.get("panics") or [])[:5]:
            ctx.violation({"family": self.correspondence, "case_index": i,
                           "violated_clause": "implementation panicked"}, True)
        for what, key, found in (
                ("a block produced by the builder is refused by the load-time gate", "self_gate_failures", True),
                ("load outcome outside accept / Version / Deserialization, or block_version and authorizer disagree",
                 "unclassified_observations", True),
                ("the generator could not build a case through the public API", "generation_errors", False)):
            for e in (summ.get(key) or [])[:3]:
                ctx.violation({"family": self.correspondence, "violated_clause": what, "detail": e}, found)

        for i in sorted(set(unexplained))[:8]:
            case_text = lines[i] if i < len(lines) else "?"
            model_text = kernel_eval(self.module, "%s (%s)" % (self.model_fn, case_text))
            found, clause = self.classify(ctx, case_text, model_text)
            ctx.violation({"family": self.correspondence, "case_index": i,
                           "label": labels[i] if i < len(labels) else None, "case": case_text,
                           "model_result": model_text, "violated_clause": clause,
                           "theorem_or_correspondence": self.correspondence}, found)

        # second stream: the gate as reached from bytes (prost structure -> token block), theorems C16_wire_*
        from fam_wire import run_convert
        run_convert(ctx)

    def classify(self, ctx, case_text, model_text):
        if case_text.startswith("SBuild"):
            m = re.search(r"(\d+)%N\s*$", case_text)
            v = re.search(r"RVersion (\d+)", model_text)
            if m and v:
                d, r = int(m.group(1)), int(v.group(1))
                if d < r:
                    return True, "the built block declares version %d, lower than %d which a feature it contains requires" % (d, r)
                if d > r:
                    return True, "the built block declares version %d, not the lowest version (%d) that includes every feature" % (d, r)
            return True, "declared version differs from the model"
        if case_text.startswith("SLoad"):
            w = kernel_eval(self.module, "wrongly_accepted (%s)" % case_text)
            m = re.search(r"= \[(.*?)\]", w)
            if m and m.group(1).strip():
                return True, "accepted with declared version(s) %s although out of range or below a contained feature" % m.group(1)
            return False, "the gate refuses (or classifies differently) a block the model's gate accepts"
        if case_text.startswith("SSig"):
            return True, "signature versions differ from the rule (third-party / 3.3 / non-ed25519 => 1, never back to 0)"
        return True, "model and implementation disagree"


FAMILIES = {"C16": C16()}

#!/bin/sh
# MANIFEST.setup_cmd: build the Coq development (full .vo), the extracted OCaml model and
# the Rust harness, all offline.
set -e
cd "$(dirname "$0")"
export CARGO_NET_OFFLINE=true
python3 ./check --setup

"""C17 -- key and signature encodings (family KeyCodec)."""
import os, re, json
from checklib import *   # noqa
from families import GenericModelFamily, case_lines


class KeyCodec(GenericModelFamily):
    binary = "h_keycodec"
    prefix = "C17"
    extract = "keycodec"
    module = "Model.KeyCodecCases"
    model_fn = "kc_model"
    correspondence = "crypto::{PublicKey,PrivateKey,KeyPair} codecs, parser::public_key, hex vs Model.KeyCodec"
    rule = ("seeded keys of both algorithms x every decoder/encoder (raw bytes, hex, prefixed strings, "
            "protobuf PublicKey through prost) x mutations (truncations, extensions, bit flips, SEC1 tag "
            "sweep, case changes, 30 prefix typos, 22 kinds of trailing/leading garbage, whitespace, "
            "cross-algorithm and cross-kind attempts) + edge material (p256 scalars around the group order, "
            "ed25519 small-order / non-canonical points, p256 identity/compact/off-curve points) + random "
            "garbage + exhaustive one-character hex scopes (two-character scope exhaustive in thorough) + "
            "sign/verify matrix (direct verify_signature with genuine signatures; mutated signature bytes "
            "through a one-block token); a case is distinct by its canonical text and non-trivial when it "
            "is not one of the fixed exhaustive scopes")
    trusted = ["curve-point validity, p256 scalar validity, public-key derivation, DER signature parsing and the "
               "signature primitives enter the model as per-case oracle answers recorded by the harness from direct "
               "calls to ed25519-dalek / p256 (same crates the library uses)",
               "PKCS8 DER / PEM are not modelled: round trips and refusals are checked on the implementation only "
               "(impl_only_oracle_* keys of the evidence)",
               "prost encodes/decodes schema::PublicKey; the model fixes the canonical wire bytes of the encoder only"]
    assumptions = ["strings reach the model as their UTF-8 bytes",
                   "a key is identified by (algorithm, to_bytes()); p256 keys compare by their compressed SEC1 form",
                   "raw 32-byte private keys are not self-describing: cross-algorithm refusal of private keys is "
                   "claimed for the prefixed string and PEM/DER forms only"]

    KNOWN_TRAILING = "C17-from-str-trailing"
    KNOWN_INNER = "C17-p256-inner-algorithm"

    def classify(self, ctx, case_text, model_text):
        impl = case_text.rsplit(", I", 1)[-1]
        impl_ok = impl.startswith("Ok")
        model_ok = "= IOk" in model_text
        if impl.startswith("Panic"):
            return True, "key or signature material made the library panic"
        if impl_ok and not model_ok:
            return True, "malformed, wrong-length or wrong-algorithm material is accepted"
        if impl_ok and model_ok:
            return True, "an encoding does not round-trip: the decoded/encoded value differs from the codec's definition"
        if (not impl_ok) and model_ok:
            return True, "well-formed material is refused (round trip broken)"
        return False, "both refuse, with different error kinds"

    def run(self, ctx):
        outdir = os.path.join(GEN, ctx.pid)
        summ = run_harness(ctx, self.binary, self.extra_args, outdir)
        files = summ.get("files", [])
        ml = sorted(f for f in files if f.endswith(".ml") and "/C17_ml_" in f)
        mlf = sorted(f for f in files if f.endswith(".ml") and "/C17f_ml_" in f)
        kv = sorted(f for f in files if f.endswith(".v"))
        bad, skipped = run_ocaml_shards(ml, self.correspondence, self.extract)
        known_idx, _ = run_ocaml_shards(mlf, self.correspondence + " (known-finding scan)", self.extract)
        kbad, kskipped, _ = run_kernel_shards(kv, self.correspondence)
        ctx.kernel_lemmas += len(kv)
        ctx.kernel_ok += len(kv) if not kbad else 0
        lines = case_lines(outdir, self.prefix)
        cov = {k: v for k, v in summ.items() if k not in ("files",)}
        cov["model_skipped_oracle_miss"] = skipped
        cov["kernel_shards"] = len(kv)
        cov["disagreements_checked"] = len(bad)
        cov["traces_validated_against_impl"] = summ.get("evaluations", 0) - skipped
        cov["known_finding_from_str_trailing_cases_seen"] = len(known_idx)
        cov["rule"] = self.rule
        cov["exhaustive"] = False
        ctx.coverage.update(cov)
        for i in summ.get("panics", [])[:5]:
            ctx.violation({"family": self.correspondence, "case_index": i,
                           "case": lines[i] if i < len(lines) else None,
                           "violated_clause": "implementation panicked"}, True)
        if skipped:
            ctx.violation({"family": self.correspondence,
                           "theorem_or_correspondence": "%d cases skipped: the harness did not answer an oracle "
                                                        "question of the model (harness and model out of step)" % skipped},
                          False)
        if kbad and not bad:
            ctx.violation({"family": self.correspondence,
                           "theorem_or_correspondence": "in-kernel replay disagrees with extracted model",
                           "kernel_bad": kbad[:10]}, False)
        def rank(i):
            # failing inputs first: panics, then acceptances, then refusals of another kind
            t = lines[i] if i < len(lines) else ""
            impl = t.rsplit(", I", 1)[-1]
            return (0 if impl.startswith("Panic") else 1 if impl.startswith("Ok") else 2, i)
        for i in sorted(bad, key=rank)[:8]:
            case_text = lines[i] if i < len(lines) else "?"
            model_text = kernel_eval(self.module, "%s %s" % (self.model_fn, case_text))
            found, clause = self.classify(ctx, case_text, model_text)
            ctx.violation({"family": self.correspondence, "case_index": i, "case": case_text,
                           "model_result": model_text, "violated_clause": clause,
                           "theorem_or_correspondence": self.correspondence}, found)
        # implementation-only oracles (PEM/DER, private -> public, inner key types)
        known_seen = set()
        if known_idx:
            # classifier c17_from_str_trailing (implemented in Coq: KeyCodecCases.kc_shows_known):
            # PublicKey::from_str, the key parses, a non-empty remainder is left, the call succeeds
            known_seen.add(self.KNOWN_TRAILING)
        shown = 0
        for v in summ.get("impl_only_oracle_violations", []):
            if self.known_class(ctx, v.get("oracle", ""), v.get("input", "")):
                known_seen.add(self.KNOWN_INNER)
                continue
            if shown >= 8:
                continue
            shown += 1
            ctx.violation({"family": "implementation-only oracle " + v.get("oracle", "?"),
                           "case": v.get("input"), "violated_clause": v.get("what"),
                           "theorem_or_correspondence": "direct oracle on the implementation"}, True)
        listed = {f["id"]: f for f in ctx.findings}
        for kid in sorted(known_seen):
            if kid in listed:
                ctx.known(kid, listed[kid]["what"])
            else:
                ctx.violation({"family": self.correspondence, "violated_clause":
                               "known defect %s observed but not listed in known_findings.json" % kid}, True)

    def known_class(self, ctx, oracle, input_text):
        """classifier c17_p256_inner_algorithm: the oracle comparing the per-algorithm key type with the
        PublicKey enum failed on a secp256r1 key (never on ed25519)"""
        return oracle == "inner_key_proto_consistent" and input_text.startswith("public key secp256r1/")


FAMILIES = {"C17": KeyCodec()}

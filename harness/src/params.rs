//! C20 / C18: builder items with `{name}` parameters.  The harness's own syntax tree
//! (mirror of Model/Params.v), conversions to and from the library's builder types, a
//! Datalog source printer, generators (exhaustive parameter positions + random), and the
//! runner that performs construction / set* / validate / convert on the implementation and
//! records what it did.
use crate::*;
use biscuit_auth::builder::{self, Convert};
use biscuit_auth::datalog::SymbolTable;
use biscuit_auth::{error, KeyPair, PublicKey};
use std::collections::{BTreeMap, BTreeSet, HashMap};
use std::convert::TryFrom;
use std::panic::{catch_unwind, AssertUnwindSafe};

// ------------------------------------------------------------------ syntax tree
#[derive(Clone, Debug, PartialEq, Eq, PartialOrd, Ord, Hash)]
pub enum Lit {
    Int(i64),
    Str(String),
    Date(u64),
    Bytes(Vec<u8>),
    Bool(bool),
    Null,
}
#[derive(Clone, Debug, PartialEq, Eq, PartialOrd, Ord, Hash)]
pub enum PK {
    Int(i64),
    Str(String),
    Param(String),
}
#[derive(Clone, Debug, PartialEq, Eq, PartialOrd, Ord, Hash)]
pub enum PT {
    Var(String),
    Lit(Lit),
    Param(String),
    Set(Vec<PT>),
    Array(Vec<PT>),
    Map(Vec<(PK, PT)>),
}
#[derive(Clone, Debug, PartialEq)]
pub enum POp {
    Val(PT),
    Un(builder::Unary),
    Bin(builder::Binary),
    Clo(Vec<String>, Vec<POp>),
}
#[derive(Clone, Debug, PartialEq)]
pub enum PScope {
    Authority,
    Previous,
    Key(PublicKey),
    Param(String),
}
pub type Pred = (String, Vec<PT>);
#[derive(Clone, Debug, PartialEq)]
pub struct RSkel {
    pub head: Pred,
    pub body: Vec<Pred>,
    pub exprs: Vec<Vec<POp>>,
    pub scopes: Vec<PScope>,
}
#[derive(Clone, Debug, PartialEq)]
pub enum ISkel {
    Fact(Pred),
    Rule(RSkel),
    Check(builder::CheckKind, Vec<RSkel>),
    Policy(builder::PolicyKind, Vec<RSkel>),
}

pub fn int(i: i64) -> PT {
    PT::Lit(Lit::Int(i))
}
pub fn st(s: &str) -> PT {
    PT::Lit(Lit::Str(s.to_string()))
}
pub fn par(s: &str) -> PT {
    PT::Param(s.to_string())
}
pub fn var(s: &str) -> PT {
    PT::Var(s.to_string())
}

impl PT {
    pub fn to_builder(&self) -> builder::Term {
        use builder::Term as T;
        match self {
            PT::Var(s) => T::Variable(s.clone()),
            PT::Lit(Lit::Int(i)) => T::Integer(*i),
            PT::Lit(Lit::Str(s)) => T::Str(s.clone()),
            PT::Lit(Lit::Date(d)) => T::Date(*d),
            PT::Lit(Lit::Bytes(b)) => T::Bytes(b.clone()),
            PT::Lit(Lit::Bool(b)) => T::Bool(*b),
            PT::Lit(Lit::Null) => T::Null,
            PT::Param(s) => T::Parameter(s.clone()),
            PT::Set(l) => T::Set(l.iter().map(|t| t.to_builder()).collect::<BTreeSet<_>>()),
            PT::Array(l) => T::Array(l.iter().map(|t| t.to_builder()).collect()),
            PT::Map(m) => T::Map(
                m.iter()
                    .map(|(k, v)| {
                        (
                            match k {
                                PK::Int(i) => builder::MapKey::Integer(*i),
                                PK::Str(s) => builder::MapKey::Str(s.clone()),
                                PK::Param(s) => builder::MapKey::Parameter(s.clone()),
                            },
                            v.to_builder(),
                        )
                    })
                    .collect::<BTreeMap<_, _>>(),
            ),
        }
    }
    /// in the implementation's iteration order
    pub fn from_builder(t: &builder::Term) -> PT {
        use builder::Term as T;
        match t {
            T::Variable(s) => PT::Var(s.clone()),
            T::Integer(i) => PT::Lit(Lit::Int(*i)),
            T::Str(s) => PT::Lit(Lit::Str(s.clone())),
            T::Date(d) => PT::Lit(Lit::Date(*d)),
            T::Bytes(b) => PT::Lit(Lit::Bytes(b.clone())),
            T::Bool(b) => PT::Lit(Lit::Bool(*b)),
            T::Null => PT::Lit(Lit::Null),
            T::Parameter(s) => PT::Param(s.clone()),
            T::Set(l) => PT::Set(l.iter().map(PT::from_builder).collect()),
            T::Array(l) => PT::Array(l.iter().map(PT::from_builder).collect()),
            T::Map(m) => PT::Map(
                m.iter()
                    .map(|(k, v)| {
                        (
                            match k {
                                builder::MapKey::Integer(i) => PK::Int(*i),
                                builder::MapKey::Str(s) => PK::Str(s.clone()),
                                builder::MapKey::Parameter(s) => PK::Param(s.clone()),
                            },
                            PT::from_builder(v),
                        )
                    })
                    .collect(),
            ),
        }
    }
    pub fn has_param(&self) -> bool {
        match self {
            PT::Param(_) => true,
            PT::Set(l) | PT::Array(l) => l.iter().any(|t| t.has_param()),
            PT::Map(m) => m.iter().any(|(k, v)| matches!(k, PK::Param(_)) || v.has_param()),
            _ => false,
        }
    }
}

impl POp {
    pub fn to_builder(&self) -> builder::Op {
        match self {
            POp::Val(t) => builder::Op::Value(t.to_builder()),
            POp::Un(u) => builder::Op::Unary(u.clone()),
            POp::Bin(b) => builder::Op::Binary(b.clone()),
            POp::Clo(ps, body) => builder::Op::Closure(ps.clone(), body.iter().map(|o| o.to_builder()).collect()),
        }
    }
    pub fn from_builder(o: &builder::Op) -> POp {
        match o {
            builder::Op::Value(t) => POp::Val(PT::from_builder(t)),
            builder::Op::Unary(u) => POp::Un(u.clone()),
            builder::Op::Binary(b) => POp::Bin(b.clone()),
            builder::Op::Closure(ps, body) => POp::Clo(ps.clone(), body.iter().map(POp::from_builder).collect()),
        }
    }
}

impl PScope {
    pub fn to_builder(&self) -> builder::Scope {
        match self {
            PScope::Authority => builder::Scope::Authority,
            PScope::Previous => builder::Scope::Previous,
            PScope::Key(k) => builder::Scope::PublicKey(*k),
            PScope::Param(s) => builder::Scope::Parameter(s.clone()),
        }
    }
    pub fn from_builder(s: &builder::Scope) -> PScope {
        match s {
            builder::Scope::Authority => PScope::Authority,
            builder::Scope::Previous => PScope::Previous,
            builder::Scope::PublicKey(k) => PScope::Key(*k),
            builder::Scope::Parameter(s) => PScope::Param(s.clone()),
        }
    }
}

pub fn pred_to_builder(p: &Pred) -> builder::Predicate {
    builder::Predicate { name: p.0.clone(), terms: p.1.iter().map(|t| t.to_builder()).collect() }
}
pub fn pred_from_builder(p: &builder::Predicate) -> Pred {
    (p.name.clone(), p.terms.iter().map(PT::from_builder).collect())
}
impl RSkel {
    pub fn from_builder(r: &builder::Rule) -> RSkel {
        RSkel {
            head: pred_from_builder(&r.head),
            body: r.body.iter().map(pred_from_builder).collect(),
            exprs: r.expressions.iter().map(|e| e.ops.iter().map(POp::from_builder).collect()).collect(),
            scopes: r.scopes.iter().map(PScope::from_builder).collect(),
        }
    }
    /// biscuit-auth's Rule::new (what the builder API and the macro expansion call)
    pub fn new_rule(&self) -> builder::Rule {
        builder::Rule::new(
            pred_to_builder(&self.head),
            self.body.iter().map(pred_to_builder).collect(),
            self.exprs
                .iter()
                .map(|e| builder::Expression { ops: e.iter().map(|o| o.to_builder()).collect() })
                .collect(),
            self.scopes.iter().map(|s| s.to_builder()).collect(),
        )
    }
}

// ------------------------------------------------------------------ keys
pub fn key_pool() -> Vec<PublicKey> {
    let mut rng = Rng::new(0xC20);
    vec![
        KeyPair::new_with_rng(builder::Algorithm::Ed25519, &mut rng).public(),
        KeyPair::new_with_rng(builder::Algorithm::Ed25519, &mut rng).public(),
        KeyPair::new_with_rng(builder::Algorithm::Secp256r1, &mut rng).public(),
    ]
}
pub fn key_bytes(k: &PublicKey) -> Vec<u8> {
    let mut v = vec![k.algorithm() as i32 as u8];
    v.extend(k.to_bytes());
    v
}

// ------------------------------------------------------------------ Gallina / OCaml printing
pub fn g_name(s: &str) -> G {
    gstr(s)
}
pub fn g_lit(l: &Lit) -> G {
    match l {
        Lit::Int(i) => c("LInt", vec![G::Z(*i as i128)]),
        Lit::Str(s) => c("LStr", vec![gstr(s)]),
        Lit::Date(d) => c("LDate", vec![G::Z(*d as i128)]),
        Lit::Bytes(b) => c("LBytes", vec![gbytes(b)]),
        Lit::Bool(b) => c("LBool", vec![G::B(*b)]),
        Lit::Null => c0("LNull"),
    }
}
pub fn g_pk(k: &PK) -> G {
    match k {
        PK::Int(i) => c("PKInt", vec![G::Z(*i as i128)]),
        PK::Str(s) => c("PKStr", vec![gstr(s)]),
        PK::Param(s) => c("PKParam", vec![gstr(s)]),
    }
}
pub fn g_pt(t: &PT) -> G {
    match t {
        PT::Var(s) => c("PVar", vec![gstr(s)]),
        PT::Lit(l) => c("PLit", vec![g_lit(l)]),
        PT::Param(s) => c("PParam", vec![gstr(s)]),
        PT::Set(l) => c("PColl", vec![c0("CSet"), G::L(l.iter().map(g_pt).collect())]),
        PT::Array(l) => c("PColl", vec![c0("CArray"), G::L(l.iter().map(g_pt).collect())]),
        PT::Map(m) => c("PMap", vec![G::L(m.iter().map(|(k, v)| G::T(vec![g_pk(k), g_pt(v)])).collect())]),
    }
}
pub fn g_unary(u: &builder::Unary) -> G {
    match u {
        builder::Unary::Ffi(n) => c("UFfi", vec![gstr(n)]),
        other => c0(&format!("U{:?}", other)),
    }
}
pub fn g_binary(b: &builder::Binary) -> G {
    match b {
        builder::Binary::Ffi(n) => c("BFfi", vec![gstr(n)]),
        other => c0(&format!("B{:?}", other)),
    }
}
pub fn g_pop(o: &POp) -> G {
    match o {
        POp::Val(t) => c("POVal", vec![g_pt(t)]),
        POp::Un(u) => c("POUn", vec![g_unary(u)]),
        POp::Bin(b) => c("POBin", vec![g_binary(b)]),
        POp::Clo(ps, body) => c(
            "POClo",
            vec![G::L(ps.iter().map(|p| gstr(p)).collect()), G::L(body.iter().map(g_pop).collect())],
        ),
    }
}
pub fn g_scope(s: &PScope) -> G {
    match s {
        PScope::Authority => c0("SAuthority"),
        PScope::Previous => c0("SPrevious"),
        PScope::Key(k) => c("SKey", vec![gbytes(&key_bytes(k))]),
        PScope::Param(s) => c("SParam", vec![gstr(s)]),
    }
}
pub fn g_pred(p: &Pred) -> G {
    G::T(vec![gstr(&p.0), G::L(p.1.iter().map(g_pt).collect())])
}
pub fn g_rskel(r: &RSkel) -> G {
    G::T(vec![
        g_pred(&r.head),
        G::L(r.body.iter().map(g_pred).collect()),
        G::L(r.exprs.iter().map(|e| G::L(e.iter().map(g_pop).collect())).collect()),
        G::L(r.scopes.iter().map(g_scope).collect()),
    ])
}
pub fn g_iskel(i: &ISkel) -> G {
    match i {
        ISkel::Fact(p) => c("IFact", vec![g_pred(p)]),
        ISkel::Rule(r) => c("IRule", vec![g_rskel(r)]),
        ISkel::Check(k, qs) => c(
            "ICheck",
            vec![
                c0(match k {
                    builder::CheckKind::One => "KOne",
                    builder::CheckKind::All => "KAll",
                    builder::CheckKind::Reject => "KReject",
                }),
                G::L(qs.iter().map(g_rskel).collect()),
            ],
        ),
        ISkel::Policy(k, qs) => c(
            "IPolicy",
            vec![
                c0(match k {
                    builder::PolicyKind::Allow => "KAllow",
                    builder::PolicyKind::Deny => "KDeny",
                }),
                G::L(qs.iter().map(g_rskel).collect()),
            ],
        ),
    }
}

// ------------------------------------------------------------------ Datalog source printer
pub fn src_string(s: &str) -> String {
    let mut o = String::from("\"");
    for ch in s.chars() {
        match ch {
            '"' => o.push_str("\\\""),
            '\\' => o.push_str("\\\\"),
            '\n' => o.push_str("\\n"),
            c => o.push(c),
        }
    }
    o.push('"');
    o
}
pub fn src_term(t: &PT) -> String {
    match t {
        PT::Var(s) => format!("${}", s),
        PT::Lit(Lit::Int(i)) => format!("{}", i),
        PT::Lit(Lit::Str(s)) => src_string(s),
        PT::Lit(Lit::Date(d)) => builder::Term::Date(*d).to_string(),
        PT::Lit(Lit::Bytes(b)) => format!("hex:{}", hex::encode(b)),
        PT::Lit(Lit::Bool(b)) => format!("{}", b),
        PT::Lit(Lit::Null) => "null".to_string(),
        PT::Param(s) => format!("{{{}}}", s),
        PT::Set(l) if l.is_empty() => "{,}".to_string(),
        PT::Set(l) => format!("{{{}}}", l.iter().map(src_term).collect::<Vec<_>>().join(", ")),
        PT::Array(l) => format!("[{}]", l.iter().map(src_term).collect::<Vec<_>>().join(", ")),
        PT::Map(m) => format!(
            "{{{}}}",
            m.iter()
                .map(|(k, v)| {
                    let ks = match k {
                        PK::Int(i) => format!("{}", i),
                        PK::Str(s) => src_string(s),
                        PK::Param(s) => format!("{{{}}}", s),
                    };
                    format!("{}: {}", ks, src_term(v))
                })
                .collect::<Vec<_>>()
                .join(", ")
        ),
    }
}
pub fn src_pred(p: &Pred) -> String {
    format!("{}({})", p.0, p.1.iter().map(src_term).collect::<Vec<_>>().join(", "))
}

/// Expression trees (source form).  `ops` flattens the way the parser does.
#[derive(Clone, Debug, PartialEq)]
pub enum ET {
    Val(PT),
    Not(Box<ET>),
    Parens(Box<ET>),
    Method0(builder::Unary, Box<ET>),
    Infix(builder::Binary, Box<ET>, Box<ET>),
    Method1(builder::Binary, Box<ET>, Box<ET>),
    Lazy(builder::Binary, Box<ET>, Box<ET>),
    Closure(builder::Binary, Box<ET>, String, Box<ET>),
}
fn infix_sym(b: &builder::Binary) -> &'static str {
    use builder::Binary::*;
    match b {
        LessThan => "<",
        GreaterThan => ">",
        LessOrEqual => "<=",
        GreaterOrEqual => ">=",
        Equal => "===",
        NotEqual => "!==",
        HeterogeneousEqual => "==",
        HeterogeneousNotEqual => "!=",
        Add => "+",
        Sub => "-",
        Mul => "*",
        Div => "/",
        BitwiseAnd => "&",
        BitwiseOr => "|",
        BitwiseXor => "^",
        LazyAnd => "&&",
        LazyOr => "||",
        _ => "?",
    }
}
fn method_name(b: &builder::Binary) -> String {
    use builder::Binary::*;
    match b {
        Contains => "contains".into(),
        Prefix => "starts_with".into(),
        Suffix => "ends_with".into(),
        Regex => "matches".into(),
        Intersection => "intersection".into(),
        Union => "union".into(),
        All => "all".into(),
        Any => "any".into(),
        Get => "get".into(),
        Ffi(n) => format!("extern::{}", n),
        _ => "?".into(),
    }
}
impl ET {
    pub fn ops(&self, out: &mut Vec<POp>) {
        match self {
            ET::Val(t) => out.push(POp::Val(t.clone())),
            ET::Not(e) => {
                e.ops(out);
                out.push(POp::Un(builder::Unary::Negate));
            }
            ET::Parens(e) => {
                e.ops(out);
                out.push(POp::Un(builder::Unary::Parens));
            }
            ET::Method0(u, e) => {
                e.ops(out);
                out.push(POp::Un(u.clone()));
            }
            ET::Infix(b, l, r) | ET::Method1(b, l, r) => {
                l.ops(out);
                r.ops(out);
                out.push(POp::Bin(b.clone()));
            }
            ET::Lazy(b, l, r) => {
                l.ops(out);
                let mut body = vec![];
                r.ops(&mut body);
                out.push(POp::Clo(vec![], body));
                out.push(POp::Bin(b.clone()));
            }
            ET::Closure(b, l, p, body) => {
                l.ops(out);
                let mut bd = vec![];
                body.ops(&mut bd);
                out.push(POp::Clo(vec![p.clone()], bd));
                out.push(POp::Bin(b.clone()));
            }
        }
    }
    /// source text; every operand that is not atomic is parenthesised by the generator
    /// (explicit `Parens` nodes), so no precedence reasoning is needed here
    pub fn src(&self) -> String {
        match self {
            ET::Val(t) => src_term(t),
            ET::Not(e) => format!("!{}", e.src()),
            ET::Parens(e) => format!("({})", e.src()),
            ET::Method0(u, e) => match u {
                builder::Unary::Length => format!("{}.length()", e.src()),
                builder::Unary::TypeOf => format!("{}.type()", e.src()),
                builder::Unary::Ffi(n) => format!("{}.extern::{}()", e.src(), n),
                _ => "?".into(),
            },
            ET::Infix(b, l, r) | ET::Lazy(b, l, r) => format!("{} {} {}", l.src(), infix_sym(b), r.src()),
            ET::Method1(b, l, r) => format!("{}.{}({})", l.src(), method_name(b), r.src()),
            ET::Closure(b, l, p, body) => format!("{}.{}(${} -> {})", l.src(), method_name(b), p, body.src()),
        }
    }
}

/// A rule in source form: body elements keep their trees so that text can be printed.
#[derive(Clone, Debug, PartialEq)]
pub struct RSrc {
    pub head: Pred,
    pub body: Vec<Pred>,
    pub exprs: Vec<ET>,
    pub scopes: Vec<PScope>,
}
impl RSrc {
    pub fn skel(&self) -> RSkel {
        RSkel {
            head: self.head.clone(),
            body: self.body.clone(),
            exprs: self
                .exprs
                .iter()
                .map(|e| {
                    let mut v = vec![];
                    e.ops(&mut v);
                    v
                })
                .collect(),
            scopes: self.scopes.clone(),
        }
    }
    pub fn src_body(&self) -> String {
        let mut parts: Vec<String> = self.body.iter().map(src_pred).collect();
        parts.extend(self.exprs.iter().map(|e| e.src()));
        let mut s = parts.join(", ");
        if !self.scopes.is_empty() {
            s.push_str(" trusting ");
            s.push_str(
                &self
                    .scopes
                    .iter()
                    .map(|sc| match sc {
                        PScope::Authority => "authority".to_string(),
                        PScope::Previous => "previous".to_string(),
                        PScope::Key(k) => k.to_string(),
                        PScope::Param(p) => format!("{{{}}}", p),
                    })
                    .collect::<Vec<_>>()
                    .join(", "),
            );
        }
        s
    }
}
#[derive(Clone, Debug, PartialEq)]
pub enum ISrc {
    Fact(Pred),
    Rule(RSrc),
    Check(builder::CheckKind, Vec<RSrc>),
    Policy(builder::PolicyKind, Vec<RSrc>),
}
impl ISrc {
    pub fn skel(&self) -> ISkel {
        match self {
            ISrc::Fact(p) => ISkel::Fact(p.clone()),
            ISrc::Rule(r) => ISkel::Rule(r.skel()),
            ISrc::Check(k, qs) => ISkel::Check(k.clone(), qs.iter().map(|q| q.skel()).collect()),
            ISrc::Policy(k, qs) => ISkel::Policy(k.clone(), qs.iter().map(|q| q.skel()).collect()),
        }
    }
    /// one statement, without the final `;`
    pub fn src(&self) -> String {
        match self {
            ISrc::Fact(p) => src_pred(p),
            ISrc::Rule(r) => format!("{} <- {}", src_pred(&r.head), r.src_body()),
            ISrc::Check(k, qs) => format!(
                "{} {}",
                match k {
                    builder::CheckKind::One => "check if",
                    builder::CheckKind::All => "check all",
                    builder::CheckKind::Reject => "reject if",
                },
                qs.iter().map(|q| q.src_body()).collect::<Vec<_>>().join(" or ")
            ),
            ISrc::Policy(k, qs) => format!(
                "{} {}",
                match k {
                    builder::PolicyKind::Allow => "allow if",
                    builder::PolicyKind::Deny => "deny if",
                },
                qs.iter().map(|q| q.src_body()).collect::<Vec<_>>().join(" or ")
            ),
        }
    }
    pub fn kind(&self) -> &'static str {
        match self {
            ISrc::Fact(_) => "fact",
            ISrc::Rule(_) => "rule",
            ISrc::Check(..) => "check",
            ISrc::Policy(..) => "policy",
        }
    }
}

// ------------------------------------------------------------------ the implementation's item
#[derive(Clone, Debug, PartialEq)]
pub enum Item {
    Fact(builder::Fact),
    Rule(builder::Rule),
    Check(builder::Check),
    Policy(builder::Policy),
}

#[derive(Clone, Copy, Debug, PartialEq, Eq)]
pub enum Mode {
    New,
    Parsed,
    NoParams,
}

#[derive(Clone, Debug, PartialEq)]
pub enum AnyP {
    Term(PT),
    Key(PublicKey),
}

#[derive(Clone, Debug, PartialEq)]
pub enum Cmd {
    Set(String, PT),
    SetLenient(String, PT),
    SetScope(String, PublicKey),
    SetScopeLenient(String, PublicKey),
    Macro(String, AnyP),
    Ign(String, PT),
    IgnScope(String, PublicKey),
}

#[derive(Clone, Debug, PartialEq)]
pub enum PErr {
    Unused(String),
    Missing(Vec<String>),
    Other(String),
}

pub fn classify_err(e: &error::Token) -> PErr {
    match e {
        error::Token::Language(biscuit_parser::error::LanguageError::Parameters {
            missing_parameters,
            unused_parameters,
        }) => {
            if missing_parameters.is_empty() && unused_parameters.len() == 1 {
                PErr::Unused(unused_parameters[0].clone())
            } else if unused_parameters.is_empty() && !missing_parameters.is_empty() {
                let mut m = missing_parameters.clone();
                m.sort();
                PErr::Missing(m)
            } else {
                PErr::Other(format!("{:?}", e))
            }
        }
        other => PErr::Other(format!("{:?}", other)),
    }
}
fn res_err(r: Result<(), error::Token>) -> Option<PErr> {
    r.err().map(|e| classify_err(&e))
}

impl Item {
    /// `src` is needed for Mode::Parsed (the item is what the parser returns for it)
    pub fn construct(mode: Mode, skel: &ISkel, src: Option<&str>) -> Option<Item> {
        match mode {
            Mode::Parsed => {
                let s = src?;
                match skel {
                    ISkel::Fact(_) => builder::Fact::try_from(s).ok().map(Item::Fact),
                    ISkel::Rule(_) => builder::Rule::try_from(s).ok().map(Item::Rule),
                    ISkel::Check(..) => builder::Check::try_from(s).ok().map(Item::Check),
                    ISkel::Policy(..) => builder::Policy::try_from(s).ok().map(Item::Policy),
                }
            }
            Mode::New | Mode::NoParams => {
                let mut it = match skel {
                    ISkel::Fact(p) => {
                        Item::Fact(builder::Fact::new(p.0.clone(), p.1.iter().map(|t| t.to_builder()).collect::<Vec<_>>()))
                    }
                    ISkel::Rule(r) => Item::Rule(r.new_rule()),
                    ISkel::Check(k, qs) => {
                        Item::Check(builder::Check { queries: qs.iter().map(|q| q.new_rule()).collect(), kind: k.clone() })
                    }
                    ISkel::Policy(k, qs) => {
                        Item::Policy(builder::Policy { queries: qs.iter().map(|q| q.new_rule()).collect(), kind: k.clone() })
                    }
                };
                if mode == Mode::NoParams {
                    match &mut it {
                        Item::Fact(f) => f.parameters = None,
                        Item::Rule(r) => {
                            r.parameters = None;
                            r.scope_parameters = None;
                        }
                        Item::Check(c) => c.queries.iter_mut().for_each(|r| {
                            r.parameters = None;
                            r.scope_parameters = None;
                        }),
                        Item::Policy(c) => c.queries.iter_mut().for_each(|r| {
                            r.parameters = None;
                            r.scope_parameters = None;
                        }),
                    }
                }
                Some(it)
            }
        }
    }

    pub fn skel(&self) -> ISkel {
        match self {
            Item::Fact(f) => ISkel::Fact(pred_from_builder(&f.predicate)),
            Item::Rule(r) => ISkel::Rule(RSkel::from_builder(r)),
            Item::Check(c) => ISkel::Check(c.kind.clone(), c.queries.iter().map(RSkel::from_builder).collect()),
            Item::Policy(c) => ISkel::Policy(c.kind.clone(), c.queries.iter().map(RSkel::from_builder).collect()),
        }
    }

    pub fn collected(&self) -> Vec<(Option<Vec<String>>, Option<Vec<String>>)> {
        fn keys<T>(m: &Option<HashMap<String, Option<T>>>) -> Option<Vec<String>> {
            m.as_ref().map(|h| {
                let mut v: Vec<String> = h.keys().cloned().collect();
                v.sort();
                v
            })
        }
        match self {
            Item::Fact(f) => vec![(keys(&f.parameters), None)],
            Item::Rule(r) => vec![(keys(&r.parameters), keys(&r.scope_parameters))],
            Item::Check(c) => c.queries.iter().map(|r| (keys(&r.parameters), keys(&r.scope_parameters))).collect(),
            Item::Policy(c) => c.queries.iter().map(|r| (keys(&r.parameters), keys(&r.scope_parameters))).collect(),
        }
    }

    pub fn run(&mut self, cmd: &Cmd) -> Option<PErr> {
        let swallow = |r: Option<PErr>| match r {
            Some(PErr::Unused(_)) => None,
            other => other,
        };
        match cmd {
            Cmd::Set(n, v) => res_err(match self {
                Item::Fact(f) => f.set(n, v.to_builder()),
                Item::Rule(r) => r.set(n, v.to_builder()),
                Item::Check(c) => c.set(n, v.to_builder()),
                Item::Policy(c) => c.set(n, v.to_builder()),
            }),
            Cmd::SetLenient(n, v) => res_err(match self {
                Item::Fact(f) => f.set_lenient(n, v.to_builder()),
                Item::Rule(r) => r.set_lenient(n, v.to_builder()),
                Item::Check(c) => c.set_lenient(n, v.to_builder()),
                Item::Policy(c) => c.set_lenient(n, v.to_builder()),
            }),
            Cmd::SetScope(n, k) => res_err(match self {
                Item::Fact(_) => Ok(()),
                Item::Rule(r) => r.set_scope(n, *k),
                Item::Check(c) => c.set_scope(n, *k),
                Item::Policy(c) => c.set_scope(n, *k),
            }),
            Cmd::SetScopeLenient(n, k) => res_err(match self {
                Item::Fact(_) => Ok(()),
                Item::Rule(r) => r.set_scope_lenient(n, *k),
                Item::Check(c) => c.set_scope_lenient(n, *k),
                Item::Policy(c) => c.set_scope_lenient(n, *k),
            }),
            Cmd::Macro(n, AnyP::Term(v)) => res_err(match self {
                Item::Fact(f) => f.set_macro_param(n, v.to_builder()),
                Item::Rule(r) => r.set_macro_param(n, v.to_builder()),
                Item::Check(c) => c.set_macro_param(n, v.to_builder()),
                Item::Policy(c) => c.set_macro_param(n, v.to_builder()),
            }),
            Cmd::Macro(n, AnyP::Key(k)) => res_err(match self {
                Item::Fact(f) => f.set_macro_param(n, *k),
                Item::Rule(r) => r.set_macro_param(n, *k),
                Item::Check(c) => c.set_macro_param(n, *k),
                Item::Policy(c) => c.set_macro_param(n, *k),
            }),
            Cmd::Ign(n, v) => swallow(self.run(&Cmd::Set(n.clone(), v.clone()))),
            Cmd::IgnScope(n, k) => swallow(self.run(&Cmd::SetScope(n.clone(), *k))),
        }
    }

    pub fn validate(&self) -> Option<PErr> {
        res_err(match self {
            Item::Fact(f) => f.validate(),
            Item::Rule(r) => r.validate_parameters(),
            Item::Check(c) => c.validate_parameters(),
            Item::Policy(c) => c.validate_parameters(),
        })
    }

    /// Convert::convert, rendered back through the symbol table; None = panic
    pub fn convert(&self) -> Option<ISkel> {
        let it = self.clone();
        catch_unwind(AssertUnwindSafe(move || {
            let mut syms = SymbolTable::new();
            match &it {
                Item::Fact(f) => {
                    let d = f.convert(&mut syms);
                    let b = builder::Fact::convert_from(&d, &syms).expect("convert_from fact");
                    ISkel::Fact(pred_from_builder(&b.predicate))
                }
                Item::Rule(r) => {
                    let d = r.convert(&mut syms);
                    let b = builder::Rule::convert_from(&d, &syms).expect("convert_from rule");
                    ISkel::Rule(RSkel::from_builder(&b))
                }
                Item::Check(ch) => {
                    let d = ch.convert(&mut syms);
                    let b = builder::Check::convert_from(&d, &syms).expect("convert_from check");
                    ISkel::Check(b.kind.clone(), b.queries.iter().map(RSkel::from_builder).collect())
                }
                Item::Policy(p) => {
                    // Policy has no Convert impl: the authorizer converts each query
                    let mut qs = vec![];
                    for q in &p.queries {
                        let d = q.convert(&mut syms);
                        let b = builder::Rule::convert_from(&d, &syms).expect("convert_from rule");
                        qs.push(RSkel::from_builder(&b));
                    }
                    ISkel::Policy(p.kind.clone(), qs)
                }
            }
        }))
        .ok()
    }

    /// adding to a builder: Ok / the validation error
    pub fn add_to_builder(&self) -> Option<PErr> {
        match self.clone() {
            Item::Fact(f) => builder::BlockBuilder::new().fact(f).err().map(|e| classify_err(&e)),
            Item::Rule(r) => builder::BlockBuilder::new().rule(r).err().map(|e| classify_err(&e)),
            Item::Check(c) => builder::BlockBuilder::new().check(c).err().map(|e| classify_err(&e)),
            Item::Policy(p) => builder::AuthorizerBuilder::new().policy(p).err().map(|e| classify_err(&e)),
        }
    }

    /// the whole way: add to a BiscuitBuilder / AuthorizerBuilder and build.
    /// Some(true) = built, Some(false) = refused at add, None = panic
    pub fn build_through_api(&self, root: &KeyPair) -> Option<bool> {
        let it = self.clone();
        catch_unwind(AssertUnwindSafe(move || match it {
            Item::Fact(f) => match builder::BiscuitBuilder::new().fact(f) {
                Ok(b) => {
                    let _ = b.build_with_rng(root, SymbolTable::default(), &mut Rng::new(7));
                    true
                }
                Err(_) => false,
            },
            Item::Rule(r) => match builder::BiscuitBuilder::new().rule(r) {
                Ok(b) => {
                    let _ = b.build_with_rng(root, SymbolTable::default(), &mut Rng::new(7));
                    true
                }
                Err(_) => false,
            },
            Item::Check(c) => match builder::BiscuitBuilder::new().check(c) {
                Ok(b) => {
                    let _ = b.build_with_rng(root, SymbolTable::default(), &mut Rng::new(7));
                    true
                }
                Err(_) => false,
            },
            Item::Policy(p) => match builder::AuthorizerBuilder::new().policy(p) {
                Ok(b) => {
                    if let Ok(mut a) = b.build_unauthenticated() {
                        let _ = a.authorize();
                    }
                    true
                }
                Err(_) => false,
            },
        }))
        .ok()
    }
}

pub fn g_mode(m: Mode) -> G {
    c0(match m {
        Mode::New => "MNew",
        Mode::Parsed => "MParsed",
        Mode::NoParams => "MNone",
    })
}
pub fn g_cmd(cm: &Cmd) -> G {
    match cm {
        Cmd::Set(n, v) => c("CmdSet", vec![gstr(n), g_pt(v)]),
        Cmd::SetLenient(n, v) => c("CmdSetLenient", vec![gstr(n), g_pt(v)]),
        Cmd::SetScope(n, k) => c("CmdSetScope", vec![gstr(n), gbytes(&key_bytes(k))]),
        Cmd::SetScopeLenient(n, k) => c("CmdSetScopeLenient", vec![gstr(n), gbytes(&key_bytes(k))]),
        Cmd::Macro(n, AnyP::Term(v)) => c("CmdMacro", vec![gstr(n), c("APTerm", vec![g_pt(v)])]),
        Cmd::Macro(n, AnyP::Key(k)) => c("CmdMacro", vec![gstr(n), c("APKey", vec![gbytes(&key_bytes(k))])]),
        Cmd::Ign(n, v) => c("CmdIgn", vec![gstr(n), g_pt(v)]),
        Cmd::IgnScope(n, k) => c("CmdIgnScope", vec![gstr(n), gbytes(&key_bytes(k))]),
    }
}
pub fn g_perr(e: &Option<PErr>) -> G {
    match e {
        None => G::None_,
        Some(PErr::Unused(n)) => G::Some_(Box::new(c("EUnused", vec![gstr(n)]))),
        Some(PErr::Missing(l)) => G::Some_(Box::new(c("EMissing", vec![G::L(l.iter().map(|n| gstr(n)).collect())]))),
        // not an outcome the model knows: an impossible name list keeps it a disagreement
        Some(PErr::Other(_)) => G::Some_(Box::new(c("EMissing", vec![G::L(vec![])]))),
    }
}

// ------------------------------------------------------------------ one case
#[derive(Clone, Debug)]
pub struct PCase {
    pub mode: Mode,
    pub src: ISrc,
    pub cmds: Vec<Cmd>,
    /// where the case comes from (generator family), for the histograms
    pub origin: &'static str,
}

#[derive(Clone, Debug)]
pub struct PRun {
    pub mode: Mode,
    /// the item as the implementation holds it right after construction
    pub skel: ISkel,
    pub cmds: Vec<Cmd>,
    pub collected: Vec<(Option<Vec<String>>, Option<Vec<String>>)>,
    pub results: Vec<Option<PErr>>,
    pub validate: Option<PErr>,
    pub convert: Option<ISkel>,
    /// implementation-only consistency checks that failed (add-to-builder vs validate,
    /// build vs convert)
    pub inconsistencies: Vec<String>,
    pub origin: &'static str,
}

pub fn run_pcase(pc: &PCase, root: &KeyPair) -> Option<PRun> {
    let skel0 = pc.src.skel();
    let text = pc.src.src();
    let mut item = Item::construct(pc.mode, &skel0, Some(&text))?;
    let skel = item.skel();
    let collected = item.collected();
    let mut results = vec![];
    for cm in &pc.cmds {
        results.push(item.run(cm));
    }
    let validate = item.validate();
    let convert = item.convert();
    let mut inconsistencies = vec![];
    let add = item.add_to_builder();
    if add != validate {
        inconsistencies.push(format!("add_to_builder {:?} vs validate {:?}", add, validate));
    }
    let built = item.build_through_api(root);
    let expect = if validate.is_some() {
        Some(false)
    } else if convert.is_some() {
        Some(true)
    } else {
        None
    };
    if built != expect {
        inconsistencies.push(format!("build through the API {:?} vs validate/convert {:?}", built, expect));
    }
    Some(PRun {
        mode: pc.mode,
        skel,
        cmds: pc.cmds.clone(),
        collected,
        results,
        validate,
        convert,
        inconsistencies,
        origin: pc.origin,
    })
}

pub fn g_prun(r: &PRun) -> G {
    let names = |o: &Option<Vec<String>>| gopt(o.as_ref().map(|l| G::L(l.iter().map(|n| gstr(n)).collect())));
    G::T(vec![
        g_mode(r.mode),
        g_iskel(&r.skel),
        G::L(r.cmds.iter().map(g_cmd).collect()),
        G::T(vec![
            G::L(r.collected.iter().map(|(a, b)| G::T(vec![names(a), names(b)])).collect()),
            G::L(r.results.iter().map(g_perr).collect()),
            g_perr(&r.validate),
            gopt(r.convert.as_ref().map(g_iskel)),
        ]),
    ])
}

// ------------------------------------------------------------------ classification helpers (for summaries)
fn nested_in_term(t: &PT, top: bool) -> bool {
    match t {
        PT::Param(_) => !top,
        PT::Set(l) | PT::Array(l) => l.iter().any(|x| nested_in_term(x, false)),
        PT::Map(m) => m.iter().any(|(k, v)| matches!(k, PK::Param(_)) || nested_in_term(v, false)),
        _ => false,
    }
}
fn ops_nested(ops: &[POp]) -> bool {
    ops.iter().any(|o| match o {
        POp::Val(t) => nested_in_term(t, true),
        POp::Clo(_, b) => ops_nested(b),
        _ => false,
    })
}
/// a parameter inside a collection of a rule predicate or of an expression value
pub fn has_nested_rule_param(i: &ISkel) -> bool {
    let r = |r: &RSkel| {
        r.head.1.iter().any(|t| nested_in_term(t, true))
            || r.body.iter().any(|p| p.1.iter().any(|t| nested_in_term(t, true)))
            || r.exprs.iter().any(|e| ops_nested(e))
    };
    match i {
        ISkel::Fact(_) => false,
        ISkel::Rule(x) => r(x),
        ISkel::Check(_, qs) | ISkel::Policy(_, qs) => qs.iter().any(r),
    }
}
fn key_params_term(t: &PT, out: &mut Vec<String>) {
    match t {
        PT::Set(l) | PT::Array(l) => l.iter().for_each(|x| key_params_term(x, out)),
        PT::Map(m) => m.iter().for_each(|(k, v)| {
            if let PK::Param(n) = k {
                out.push(n.clone());
            }
            key_params_term(v, out)
        }),
        _ => {}
    }
}
fn key_params_ops(ops: &[POp], out: &mut Vec<String>) {
    for o in ops {
        match o {
            POp::Val(t) => key_params_term(t, out),
            POp::Clo(_, b) => key_params_ops(b, out),
            _ => {}
        }
    }
}
pub fn key_params(i: &ISkel) -> Vec<String> {
    let mut out = vec![];
    let r = |r: &RSkel, out: &mut Vec<String>| {
        r.head.1.iter().for_each(|t| key_params_term(t, out));
        r.body.iter().for_each(|p| p.1.iter().for_each(|t| key_params_term(t, out)));
        r.exprs.iter().for_each(|e| key_params_ops(e, out));
    };
    match i {
        ISkel::Fact(p) => p.1.iter().for_each(|t| key_params_term(t, &mut out)),
        ISkel::Rule(x) => r(x, &mut out),
        ISkel::Check(_, qs) | ISkel::Policy(_, qs) => qs.iter().for_each(|q| r(q, &mut out)),
    }
    out
}
/// a map-key parameter is bound to something that is neither an integer nor a string
pub fn has_bad_key_binding(i: &ISkel, cmds: &[Cmd]) -> bool {
    let ks = key_params(i);
    cmds.iter().any(|cm| {
        let (n, v) = match cm {
            Cmd::Set(n, v) | Cmd::SetLenient(n, v) | Cmd::Ign(n, v) | Cmd::Macro(n, AnyP::Term(v)) => (n, v),
            _ => return false,
        };
        ks.contains(n) && !matches!(v, PT::Lit(Lit::Int(_)) | PT::Lit(Lit::Str(_)))
    })
}

// ------------------------------------------------------------------ generators
/// values a parameter is bound to: every literal kind, strings made of Datalog syntax,
/// collections, and (rarely) values that are not data: a variable, a parameter
pub fn value_pool() -> Vec<PT> {
    vec![
        int(0),
        int(-7),
        int(i64::MAX),
        st("a"),
        st(""),
        st("x\"); admin(\"root"),
        st("\""),
        st("\\"),
        st(");"),
        st("<-"),
        st("$x"),
        st("{p}"),
        st("hello, world) <- f($x), true || {q}"),
        st("é\n\t\u{0}"),
        PT::Lit(Lit::Bool(true)),
        PT::Lit(Lit::Null),
        PT::Lit(Lit::Date(1700000000)),
        PT::Lit(Lit::Bytes(vec![0, 255, 34])),
        PT::Set(vec![int(1), int(2)]),
        PT::Array(vec![st("a\"]"), PT::Array(vec![int(1)])]),
        PT::Map(vec![(PK::Str("k\"".into()), int(1))]),
    ]
}
pub fn odd_value_pool() -> Vec<PT> {
    vec![var("v"), par("q"), PT::Array(vec![par("q")]), PT::Map(vec![(PK::Param("q".into()), int(1))])]
}

/// where the hole sits inside a term: wrappers from the outside in, then the leaf kind
#[derive(Clone, Copy, Debug, PartialEq, Eq)]
pub enum Wrap {
    Set,
    Array,
    MapVal,
}
#[derive(Clone, Debug, PartialEq, Eq)]
pub struct TermCtx {
    pub wraps: Vec<Wrap>,
    /// the hole is a map key (the map's value is 1) instead of a term
    pub key: bool,
}
impl TermCtx {
    pub fn depth(&self) -> usize {
        self.wraps.len() + 1 + self.key as usize
    }
    pub fn name(&self) -> String {
        format!(
            "{}{}",
            self.wraps.iter().map(|w| format!("{:?}>", w)).collect::<String>(),
            if self.key { "Key" } else { "Term" }
        )
    }
    /// siblings make the collections non-trivial; the parser only accepts homogeneous sets
    /// without nested sets/arrays, so siblings are left out where the text form needs it
    pub fn build(&self, p: &str, siblings: bool) -> PT {
        let mut t = if self.key { PT::Map(vec![(PK::Param(p.to_string()), int(1))]) } else { par(p) };
        for w in self.wraps.iter().rev() {
            t = match w {
                Wrap::Set => {
                    if siblings {
                        PT::Set(vec![int(1), t])
                    } else {
                        PT::Set(vec![t])
                    }
                }
                Wrap::Array => {
                    if siblings {
                        PT::Array(vec![int(0), t, st("z")])
                    } else {
                        PT::Array(vec![t])
                    }
                }
                Wrap::MapVal => {
                    if siblings {
                        PT::Map(vec![(PK::Int(3), int(4)), (PK::Str("m".into()), t)])
                    } else {
                        PT::Map(vec![(PK::Str("m".into()), t)])
                    }
                }
            };
        }
        t
    }
}
/// every position up to the given depth (depth 1 = the parameter itself)
pub fn term_ctxs(max_depth: usize) -> Vec<TermCtx> {
    let ws = [Wrap::Set, Wrap::Array, Wrap::MapVal];
    let mut seqs: Vec<Vec<Wrap>> = vec![vec![]];
    let mut frontier: Vec<Vec<Wrap>> = vec![vec![]];
    for _ in 1..max_depth {
        let mut next = vec![];
        for s in &frontier {
            for w in ws {
                let mut n = s.clone();
                n.push(w);
                next.push(n);
            }
        }
        seqs.extend(next.iter().cloned());
        frontier = next;
    }
    let mut out = vec![];
    for s in seqs {
        for key in [false, true] {
            let cx = TermCtx { wraps: s.clone(), key };
            if cx.depth() <= max_depth {
                out.push(cx);
            }
        }
    }
    out
}

/// where the term sits inside an item
#[derive(Clone, Copy, Debug, PartialEq, Eq)]
pub enum ItemCtx {
    FactTerm,
    RuleHead,
    RuleBody,
    RuleExpr,
    RuleExprClosure,
    RuleExprLazy,
    RuleHeadAndNested,
    CheckBody,
    CheckExpr,
    CheckSecondQuery,
    PolicyBody,
    PolicyExpr,
}
pub const ITEM_CTXS: [ItemCtx; 12] = [
    ItemCtx::FactTerm,
    ItemCtx::RuleHead,
    ItemCtx::RuleBody,
    ItemCtx::RuleExpr,
    ItemCtx::RuleExprClosure,
    ItemCtx::RuleExprLazy,
    ItemCtx::RuleHeadAndNested,
    ItemCtx::CheckBody,
    ItemCtx::CheckExpr,
    ItemCtx::CheckSecondQuery,
    ItemCtx::PolicyBody,
    ItemCtx::PolicyExpr,
];

fn eq1(t: PT) -> ET {
    ET::Infix(builder::Binary::HeterogeneousEqual, Box::new(ET::Val(t)), Box::new(ET::Val(int(1))))
}
fn simple_rule(head: Pred, body: Vec<Pred>, exprs: Vec<ET>) -> RSrc {
    RSrc { head, body, exprs, scopes: vec![] }
}
pub fn item_with(ctx: ItemCtx, t: PT, p: &str) -> ISrc {
    let x = var("x");
    let bx = ("b".to_string(), vec![x.clone()]);
    let q = |body: Vec<Pred>, exprs: Vec<ET>| simple_rule(("query".to_string(), vec![]), body, exprs);
    match ctx {
        ItemCtx::FactTerm => ISrc::Fact(("f".into(), vec![int(5), t])),
        ItemCtx::RuleHead => ISrc::Rule(simple_rule(("h".into(), vec![x.clone(), t]), vec![bx], vec![])),
        ItemCtx::RuleBody => {
            ISrc::Rule(simple_rule(("h".into(), vec![x.clone()]), vec![("b".into(), vec![x.clone(), t])], vec![]))
        }
        ItemCtx::RuleExpr => ISrc::Rule(simple_rule(("h".into(), vec![x.clone()]), vec![bx], vec![eq1(t)])),
        ItemCtx::RuleExprClosure => ISrc::Rule(simple_rule(
            ("h".into(), vec![x.clone()]),
            vec![bx],
            vec![ET::Closure(
                builder::Binary::All,
                Box::new(ET::Val(PT::Array(vec![int(1)]))),
                "y".into(),
                Box::new(ET::Infix(
                    builder::Binary::HeterogeneousEqual,
                    Box::new(ET::Val(var("y"))),
                    Box::new(ET::Val(t)),
                )),
            )],
        )),
        ItemCtx::RuleExprLazy => ISrc::Rule(simple_rule(
            ("h".into(), vec![x.clone()]),
            vec![bx],
            vec![ET::Lazy(
                builder::Binary::LazyOr,
                Box::new(ET::Val(PT::Lit(Lit::Bool(false)))),
                Box::new(ET::Method0(builder::Unary::Length, Box::new(ET::Val(t)))),
            )],
        )),
        ItemCtx::RuleHeadAndNested => {
            ISrc::Rule(simple_rule(("h".into(), vec![x.clone(), par(p)]), vec![("b".into(), vec![x.clone(), t])], vec![]))
        }
        ItemCtx::CheckBody => ISrc::Check(builder::CheckKind::One, vec![q(vec![("b".into(), vec![x.clone(), t])], vec![])]),
        ItemCtx::CheckExpr => ISrc::Check(builder::CheckKind::All, vec![q(vec![bx], vec![eq1(t)])]),
        ItemCtx::CheckSecondQuery => ISrc::Check(
            builder::CheckKind::Reject,
            vec![q(vec![bx.clone()], vec![]), q(vec![("c".into(), vec![t])], vec![])],
        ),
        ItemCtx::PolicyBody => ISrc::Policy(builder::PolicyKind::Allow, vec![q(vec![("b".into(), vec![x.clone(), t])], vec![])]),
        ItemCtx::PolicyExpr => ISrc::Policy(builder::PolicyKind::Deny, vec![q(vec![bx], vec![eq1(t)])]),
    }
}

#[derive(Clone, Copy, Debug, PartialEq, Eq)]
pub enum Style {
    Strict,
    Lenient,
    Ign,
    Macro,
}
pub const STYLES: [Style; 4] = [Style::Strict, Style::Lenient, Style::Ign, Style::Macro];
pub fn bind_cmd(style: Style, n: &str, v: &PT) -> Cmd {
    match style {
        Style::Strict => Cmd::Set(n.to_string(), v.clone()),
        Style::Lenient => Cmd::SetLenient(n.to_string(), v.clone()),
        Style::Ign => Cmd::Ign(n.to_string(), v.clone()),
        Style::Macro => Cmd::Macro(n.to_string(), AnyP::Term(v.clone())),
    }
}
pub fn bind_key_cmd(style: Style, n: &str, k: &PublicKey) -> Cmd {
    match style {
        Style::Strict => Cmd::SetScope(n.to_string(), *k),
        Style::Lenient => Cmd::SetScopeLenient(n.to_string(), *k),
        Style::Ign => Cmd::IgnScope(n.to_string(), *k),
        Style::Macro => Cmd::Macro(n.to_string(), AnyP::Key(*k)),
    }
}

/// Exhaustive over (item position x term position up to `depth` x construction mode); the
/// value / style / bound-or-not dimensions are exhaustive in the thorough tier and rotate
/// in the quick tier.
pub fn position_cases(depth: usize, thorough: bool) -> Vec<PCase> {
    let values = value_pool();
    let odd = odd_value_pool();
    let mut out = vec![];
    let mut rot = 0usize;
    for ictx in ITEM_CTXS {
        for tctx in term_ctxs(depth) {
            for mode in [Mode::New, Mode::Parsed] {
                let siblings = mode == Mode::New;
                let t = tctx.build("p", siblings);
                let src = item_with(ictx, t, "p");
                // unbound
                out.push(PCase { mode, src: src.clone(), cmds: vec![], origin: "positions" });
                if thorough {
                    for v in values.iter().chain(odd.iter()) {
                        for style in STYLES {
                            out.push(PCase { mode, src: src.clone(), cmds: vec![bind_cmd(style, "p", v)], origin: "positions" });
                        }
                    }
                } else {
                    for (vi, v) in values.iter().enumerate() {
                        // every value at every position, styles in rotation
                        let style = STYLES[(rot + vi) % 4];
                        out.push(PCase { mode, src: src.clone(), cmds: vec![bind_cmd(style, "p", v)], origin: "positions" });
                    }
                    let v = &odd[rot % odd.len()];
                    out.push(PCase { mode, src: src.clone(), cmds: vec![bind_cmd(STYLES[rot % 4], "p", v)], origin: "positions" });
                }
                // an unknown name, strictly and leniently
                out.push(PCase {
                    mode,
                    src: src.clone(),
                    cmds: vec![Cmd::Set("nope".into(), int(1)), Cmd::SetLenient("nope".into(), int(1)), bind_cmd(Style::Strict, "p", &int(2))],
                    origin: "positions",
                });
                rot += 1;
            }
        }
    }
    out
}

/// scope parameters: `trusting {pk}` in rules, checks, policies; all styles; bound,
/// unbound, unknown names; the same name used for a term and a scope
pub fn scope_cases() -> Vec<PCase> {
    let keys = key_pool();
    let x = var("x");
    let bx: Pred = ("b".to_string(), vec![x.clone()]);
    let mut out = vec![];
    let rules: Vec<RSrc> = vec![
        RSrc { head: ("h".into(), vec![x.clone()]), body: vec![bx.clone()], exprs: vec![], scopes: vec![PScope::Param("pk".into())] },
        RSrc {
            head: ("h".into(), vec![x.clone()]),
            body: vec![bx.clone()],
            exprs: vec![],
            scopes: vec![PScope::Authority, PScope::Param("pk".into()), PScope::Key(keys[2]), PScope::Param("pk2".into())],
        },
        RSrc {
            head: ("h".into(), vec![x.clone(), par("pk")]),
            body: vec![bx.clone()],
            exprs: vec![],
            scopes: vec![PScope::Previous, PScope::Param("pk".into())],
        },
    ];
    for r in &rules {
        let q = RSrc { head: ("query".into(), vec![]), ..r.clone() };
        let q2 = RSrc { head: ("query".into(), vec![]), body: vec![bx.clone()], exprs: vec![], scopes: vec![PScope::Param("pk2".into())] };
        let items = vec![
            ISrc::Rule(r.clone()),
            ISrc::Check(builder::CheckKind::One, vec![q.clone()]),
            ISrc::Check(builder::CheckKind::All, vec![q2.clone(), q.clone()]),
            ISrc::Policy(builder::PolicyKind::Allow, vec![q.clone(), q2.clone()]),
        ];
        for it in items {
            for mode in [Mode::New, Mode::Parsed, Mode::NoParams] {
                out.push(PCase { mode, src: it.clone(), cmds: vec![], origin: "scopes" });
                for style in STYLES {
                    for (ki, k) in keys.iter().enumerate() {
                        let mut cmds = vec![bind_key_cmd(style, "pk", k)];
                        out.push(PCase { mode, src: it.clone(), cmds: cmds.clone(), origin: "scopes" });
                        cmds.push(bind_key_cmd(style, "pk2", &keys[(ki + 1) % 3]));
                        cmds.push(bind_cmd(style, "pk", &st("x\" trusting authority")));
                        out.push(PCase { mode, src: it.clone(), cmds: cmds.clone(), origin: "scopes" });
                        cmds.push(bind_key_cmd(style, "nope", k));
                        out.push(PCase { mode, src: it.clone(), cmds, origin: "scopes" });
                    }
                }
            }
        }
    }
    out
}

pub struct PGen {
    pub rng: Rng,
    pub names: Vec<&'static str>,
    /// parameters only as whole terms (never inside collections, never as map keys)
    pub flat: bool,
}
impl PGen {
    pub fn new(rng: Rng) -> Self {
        PGen { rng, names: vec!["p", "q", "r", "k"], flat: false }
    }
    fn pname(&mut self) -> String {
        self.rng.pick(&self.names).to_string()
    }
    fn scalar(&mut self) -> PT {
        let pool = value_pool();
        loop {
            let v = self.rng.pick(&pool).clone();
            if matches!(v, PT::Lit(_)) {
                return v;
            }
        }
    }
    /// a term for the builder API: anything goes (heterogeneous sets, nested sets)
    pub fn term(&mut self, depth: u32, vars: bool, pdensity: u64) -> PT {
        if self.rng.chance(pdensity, 100) {
            return PT::Param(self.pname());
        }
        if depth == 0 || self.rng.chance(45, 100) {
            if vars && self.rng.chance(25, 100) {
                return var(["x", "y"][self.rng.below(2) as usize]);
            }
            return self.scalar();
        }
        let n = self.rng.below(3) as usize + (self.rng.chance(80, 100) as usize);
        match self.rng.below(3) {
            0 => PT::from_builder(&PT::Set((0..n).map(|_| self.term(depth - 1, false, pdensity)).collect()).to_builder()),
            1 => PT::Array((0..n).map(|_| self.term(depth - 1, false, pdensity)).collect()),
            _ => PT::from_builder(
                &PT::Map(
                    (0..n)
                        .map(|_| {
                            let k = match self.rng.below(4) {
                                0 => PK::Int(self.rng.range(-2, 3)),
                                1 => PK::Str(["a", "b\"", "{p}"][self.rng.below(3) as usize].to_string()),
                                _ => PK::Param(self.pname()),
                            };
                            (k, self.term(depth - 1, false, pdensity))
                        })
                        .collect(),
                )
                .to_builder(),
            ),
        }
    }
    /// a term the parser accepts in the given position
    pub fn text_term(&mut self, depth: u32, vars: bool, in_set: bool, pdensity: u64) -> PT {
        if self.rng.chance(pdensity, 100) {
            return PT::Param(self.pname());
        }
        if depth == 0 || self.rng.chance(45, 100) {
            if vars && self.rng.chance(25, 100) {
                return var(["x", "y"][self.rng.below(2) as usize]);
            }
            return self.scalar();
        }
        let n = self.rng.below(3) as usize + 1;
        let pdensity = if self.flat { 0 } else { pdensity };
        let choice = if in_set { 2 } else { self.rng.below(3) };
        match choice {
            0 => {
                // homogeneous: all parameters, all integers, or all maps
                match if self.flat { 1 + self.rng.below(2) } else { self.rng.below(3) } {
                    0 => PT::from_builder(&PT::Set((0..n).map(|_| PT::Param(self.pname())).collect()).to_builder()),
                    1 => PT::from_builder(&PT::Set((0..n).map(|_| int(self.rng.range(0, 5))).collect()).to_builder()),
                    _ => PT::from_builder(
                        &PT::Set(
                            (0..n)
                                .map(|_| {
                                    let v = self.text_term(depth.saturating_sub(1), false, false, pdensity);
                                    PT::Map(vec![(PK::Str("s".into()), v)])
                                })
                                .collect(),
                        )
                        .to_builder(),
                    ),
                }
            }
            1 => PT::Array((0..n).map(|_| self.text_term(depth - 1, false, false, pdensity)).collect()),
            _ => PT::from_builder(
                &PT::Map(
                    (0..n)
                        .map(|_| {
                            let k = match self.rng.below(4) {
                                0 => PK::Int(self.rng.range(-2, 3)),
                                1 => PK::Str(["a", "b\"", "{p}"][self.rng.below(3) as usize].to_string()),
                                _ if self.flat => PK::Str("f".into()),
                                _ => PK::Param(self.pname()),
                            };
                            (k, self.text_term(depth - 1, false, false, pdensity))
                        })
                        .collect(),
                )
                .to_builder(),
            ),
        }
    }
    fn any_term(&mut self, text: bool, depth: u32, vars: bool) -> PT {
        if text {
            self.text_term(depth, vars, false, 30)
        } else {
            self.term(depth, vars, 30)
        }
    }
    pub fn expr(&mut self, text: bool, depth: u32) -> ET {
        use builder::Binary as B;
        if depth == 0 || self.rng.chance(30, 100) {
            return ET::Val(self.any_term(text, 2, true));
        }
        let atom = |g: &mut PGen, e: ET| -> ET {
            // operands that are not single values are parenthesised
            match e {
                ET::Val(_) | ET::Parens(_) | ET::Method0(..) | ET::Method1(..) | ET::Closure(..) => e,
                other => {
                    let _ = g;
                    ET::Parens(Box::new(other))
                }
            }
        };
        match self.rng.below(8) {
            0 => {
                let e = self.expr(text, depth - 1);
                ET::Not(Box::new(atom(self, e)))
            }
            1 => ET::Parens(Box::new(self.expr(text, depth - 1))),
            2 => {
                let u = match self.rng.below(3) {
                    0 => builder::Unary::Length,
                    1 => builder::Unary::TypeOf,
                    _ => builder::Unary::Ffi("ext".into()),
                };
                let e = self.expr(text, depth - 1);
                ET::Method0(u, Box::new(atom(self, e)))
            }
            3 | 4 => {
                let ops = [
                    B::LessThan,
                    B::GreaterThan,
                    B::LessOrEqual,
                    B::GreaterOrEqual,
                    B::Equal,
                    B::NotEqual,
                    B::HeterogeneousEqual,
                    B::HeterogeneousNotEqual,
                    B::Add,
                    B::Sub,
                    B::Mul,
                    B::Div,
                    B::BitwiseAnd,
                    B::BitwiseOr,
                    B::BitwiseXor,
                ];
                let b = self.rng.pick(&ops).clone();
                let l = self.expr(text, depth - 1);
                let r = self.expr(text, depth - 1);
                ET::Infix(b, Box::new(atom(self, l)), Box::new(atom(self, r)))
            }
            5 => {
                let ops = [B::Contains, B::Prefix, B::Suffix, B::Regex, B::Intersection, B::Union, B::Get, B::Ffi("ext2".into())];
                let b = self.rng.pick(&ops).clone();
                let l = self.expr(text, depth - 1);
                let r = self.expr(text, depth - 1);
                ET::Method1(b, Box::new(atom(self, l)), Box::new(r))
            }
            6 => {
                let b = if self.rng.chance(1, 2) { B::LazyAnd } else { B::LazyOr };
                let l = self.expr(text, depth - 1);
                let r = self.expr(text, depth - 1);
                ET::Lazy(b, Box::new(atom(self, l)), Box::new(atom(self, r)))
            }
            _ => {
                let b = if self.rng.chance(1, 2) { B::All } else { B::Any };
                let l = self.expr(text, depth - 1);
                let body = self.expr(text, depth - 1);
                ET::Closure(b, Box::new(atom(self, l)), "c".into(), Box::new(body))
            }
        }
    }
    pub fn rule(&mut self, text: bool, query: bool) -> RSrc {
        let keys = key_pool();
        let nb = self.rng.below(2) as usize + 1;
        let mut body: Vec<Pred> = vec![];
        // the first body predicate binds $x and $y so that the parser's variable check passes
        body.push(("b".into(), vec![var("x"), var("y"), self.any_term(text, 2, false)]));
        for i in 1..nb {
            let n = self.rng.below(3) as usize;
            body.push((format!("c{}", i), (0..n).map(|_| self.any_term(text, 3, true)).collect()));
        }
        let ne = self.rng.below(3) as usize;
        let exprs = (0..ne).map(|_| self.expr(text, 2)).collect();
        let head = if query {
            ("query".to_string(), vec![])
        } else {
            let n = self.rng.below(3) as usize + 1;
            ("h".to_string(), (0..n).map(|_| self.any_term(text, 3, true)).collect())
        };
        let mut scopes = vec![];
        for _ in 0..self.rng.below(3) {
            scopes.push(match self.rng.below(4) {
                0 => PScope::Authority,
                1 => PScope::Previous,
                2 => PScope::Key(*self.rng.pick(&keys)),
                _ => PScope::Param(["pk", "pk2", "p"][self.rng.below(3) as usize].to_string()),
            });
        }
        RSrc { head, body, exprs, scopes }
    }
    pub fn item(&mut self, text: bool) -> ISrc {
        match self.rng.below(6) {
            0 | 1 => {
                let n = self.rng.below(3) as usize + 1;
                ISrc::Fact(("f".into(), (0..n).map(|_| self.any_term(text, 3, false)).collect()))
            }
            2 | 3 => ISrc::Rule(self.rule(text, false)),
            4 => {
                let k = [builder::CheckKind::One, builder::CheckKind::All, builder::CheckKind::Reject][self.rng.below(3) as usize].clone();
                let n = self.rng.below(2) as usize + 1;
                ISrc::Check(k, (0..n).map(|_| self.rule(text, true)).collect())
            }
            _ => {
                let k = if self.rng.chance(1, 2) { builder::PolicyKind::Allow } else { builder::PolicyKind::Deny };
                let n = self.rng.below(2) as usize + 1;
                ISrc::Policy(k, (0..n).map(|_| self.rule(text, true)).collect())
            }
        }
    }
    pub fn value(&mut self) -> PT {
        if self.rng.chance(4, 100) {
            let odd = odd_value_pool();
            return self.rng.pick(&odd).clone();
        }
        if self.rng.chance(50, 100) {
            // biased to key-capable values so that map-key parameters are often bound properly
            return if self.rng.chance(1, 2) { int(self.rng.range(-2, 3)) } else { st(["a", "b\"", "{p}", "s"][self.rng.below(4) as usize]) };
        }
        let pool = value_pool();
        self.rng.pick(&pool).clone()
    }
    /// random subset of the names bound (each name of the pool independently), random
    /// style per call, sometimes an unknown name, sometimes a rebind
    pub fn cmds(&mut self) -> Vec<Cmd> {
        let keys = key_pool();
        let mut out = vec![];
        let uniform = if self.rng.chance(1, 2) { Some(STYLES[self.rng.below(4) as usize]) } else { None };
        let mask = self.rng.below(1 << 7);
        let all = ["p", "q", "r", "k", "pk", "pk2", "nope"];
        for (i, n) in all.iter().enumerate() {
            if mask & (1 << i) == 0 {
                continue;
            }
            let style = uniform.unwrap_or(STYLES[self.rng.below(4) as usize]);
            let scope_like = n.starts_with("pk") || (*n == "p" && self.rng.chance(1, 4)) || (*n == "nope" && self.rng.chance(1, 2));
            if scope_like {
                out.push(bind_key_cmd(style, n, self.rng.pick(&keys)));
                if *n == "p" {
                    let v = self.value();
                    out.push(bind_cmd(style, n, &v));
                }
            } else {
                let v = self.value();
                out.push(bind_cmd(style, n, &v));
            }
        }
        if self.rng.chance(1, 6) && !out.is_empty() {
            let again = out[self.rng.below(out.len() as u64) as usize].clone();
            out.push(again);
        }
        // a name bound once more, to *another* value or key (template reuse, key rotation): the last binding counts
        if self.rng.chance(1, 4) && !out.is_empty() {
            let first = out[self.rng.below(out.len() as u64) as usize].clone();
            let other_key = |rng: &mut Rng, old: &PublicKey| {
                let mut k = rng.pick(&keys).clone();
                for _ in 0..4 {
                    if &k != old {
                        break;
                    }
                    k = rng.pick(&keys).clone();
                }
                k
            };
            let second = match first {
                Cmd::Set(n, _) => Cmd::Set(n, self.value()),
                Cmd::SetLenient(n, _) => Cmd::SetLenient(n, self.value()),
                Cmd::Ign(n, _) => Cmd::Ign(n, self.value()),
                Cmd::SetScope(n, k) => Cmd::SetScope(n, other_key(&mut self.rng, &k)),
                Cmd::SetScopeLenient(n, k) => Cmd::SetScopeLenient(n, other_key(&mut self.rng, &k)),
                Cmd::IgnScope(n, k) => Cmd::IgnScope(n, other_key(&mut self.rng, &k)),
                Cmd::Macro(n, AnyP::Term(_)) => Cmd::Macro(n, AnyP::Term(self.value())),
                Cmd::Macro(n, AnyP::Key(k)) => Cmd::Macro(n, AnyP::Key(other_key(&mut self.rng, &k))),
            };
            out.push(second);
        }
        out
    }
    pub fn random_case(&mut self) -> PCase {
        let mode = match self.rng.below(10) {
            0..=4 => Mode::New,
            5..=8 => Mode::Parsed,
            _ => Mode::NoParams,
        };
        let src = self.item(mode == Mode::Parsed);
        let cmds = self.cmds();
        PCase { mode, src, cmds, origin: "random" }
    }
}

// ------------------------------------------------------------------ code_with_params (implementation-only consistency)
/// Runs `BlockBuilder::code_with_params` / `AuthorizerBuilder::code_with_params` on the
/// item's source with the given parameters and compares with the per-item path
/// (parse, strict set ignoring "unused", validate): same error / same resulting item.
/// Returns a description of the difference, if any.  None also when the text does not parse.
pub fn check_code_with_params(
    src: &ISrc,
    params: &[(String, PT)],
    scope_params: &[(String, PublicKey)],
) -> Option<Result<(), String>> {
    let text = format!("{};", src.src());
    let hp: HashMap<String, builder::Term> = params.iter().map(|(n, v)| (n.clone(), v.to_builder())).collect();
    let hs: HashMap<String, PublicKey> = scope_params.iter().cloned().collect();
    let skel = src.skel();
    let mut item = Item::construct(Mode::Parsed, &skel, Some(&src.src()))?;
    for (n, v) in hp.iter() {
        let _ = item.run(&Cmd::Ign(n.clone(), PT::from_builder(v)));
    }
    for (n, k) in hs.iter() {
        let _ = item.run(&Cmd::IgnScope(n.clone(), *k));
    }
    let expect = item.validate();
    let got: Result<Item, PErr> = match src {
        ISrc::Policy(..) => match builder::AuthorizerBuilder::new().code_with_params(&text, hp.clone(), hs.clone()) {
            Ok(b) => {
                // the policies field is private: read it back through dump_code is lossy; use
                // the per-kind path for policies only for the error outcome
                let _ = b;
                Ok(item.clone())
            }
            Err(e) => Err(classify_err(&e)),
        },
        _ => match builder::BlockBuilder::new().code_with_params(&text, hp.clone(), hs.clone()) {
            Ok(b) => Ok(match src {
                ISrc::Fact(_) => Item::Fact(b.facts[0].clone()),
                ISrc::Rule(_) => Item::Rule(b.rules[0].clone()),
                _ => Item::Check(b.checks[0].clone()),
            }),
            Err(e) => Err(classify_err(&e)),
        },
    };
    Some(match (got, expect) {
        (Ok(it), None) => {
            if it == item {
                Ok(())
            } else {
                Err(format!("code_with_params item differs from per-item binding: {}", text))
            }
        }
        (Err(e), Some(x)) => {
            if e == x {
                Ok(())
            } else {
                Err(format!("code_with_params error {:?} vs {:?}: {}", e, x, text))
            }
        }
        (Ok(_), Some(x)) => Err(format!("code_with_params accepted, per-item validation says {:?}: {}", x, text)),
        (Err(e), None) => Err(format!("code_with_params refused with {:?}, per-item validation accepts: {}", e, text)),
    })
}

// ------------------------------------------------------------------ text-level oracle (shared with C14)
/// Bind `value` to the parameter of a fact / rule, print with to_string(), parse the text
/// again, compare the structure with the bound item's.  Ok(true) = same, Ok(false) =
/// structure changed (or no longer parses), Err = printing panicked.
pub fn text_roundtrip(src: &ISrc, name: &str, value: &PT) -> Option<Result<bool, ()>> {
    let skel = src.skel();
    let mut item = Item::construct(Mode::New, &skel, None)?;
    let _ = item.run(&Cmd::SetLenient(name.to_string(), value.clone()));
    if item.validate().is_some() {
        return None;
    }
    let bound = item.convert()?;
    let it = item.clone();
    let printed = catch_unwind(AssertUnwindSafe(move || match &it {
        Item::Fact(f) => f.to_string(),
        Item::Rule(r) => r.to_string(),
        Item::Check(c) => c.to_string(),
        Item::Policy(p) => p.to_string(),
    }));
    let printed = match printed {
        Ok(s) => s,
        Err(_) => return Some(Err(())),
    };
    let reparsed = Item::construct(Mode::Parsed, &skel, Some(&printed));
    Some(Ok(match reparsed {
        None => false,
        Some(it2) => match it2.convert() {
            None => false,
            Some(sk2) => canon_iskel(&sk2) == canon_iskel(&bound),
        },
    }))
}

/// order-insensitive form for harness-side comparisons (sets and maps sorted)
pub fn canon_pt(t: &PT) -> PT {
    PT::from_builder(&t.to_builder())
}
pub fn canon_iskel(i: &ISkel) -> ISkel {
    let cp = |p: &Pred| (p.0.clone(), p.1.iter().map(canon_pt).collect::<Vec<_>>());
    fn co(o: &POp) -> POp {
        match o {
            POp::Val(t) => POp::Val(canon_pt(t)),
            POp::Clo(ps, b) => POp::Clo(ps.clone(), b.iter().map(co).collect()),
            other => other.clone(),
        }
    }
    let cr = |r: &RSkel| RSkel {
        head: cp(&r.head),
        body: r.body.iter().map(cp).collect(),
        exprs: r.exprs.iter().map(|e| e.iter().map(co).collect()).collect(),
        scopes: r.scopes.clone(),
    };
    match i {
        ISkel::Fact(p) => ISkel::Fact(cp(p)),
        ISkel::Rule(r) => ISkel::Rule(cr(r)),
        ISkel::Check(k, qs) => ISkel::Check(k.clone(), qs.iter().map(cr).collect()),
        ISkel::Policy(k, qs) => ISkel::Policy(k.clone(), qs.iter().map(cr).collect()),
    }
}

// ------------------------------------------------------------------ case files
/// Same layout as `write_cases` (OCaml shards for the extracted model, Gallina shards for
/// the kernel) with a smaller definition size: the cases of this family are large terms
/// full of `hx` calls and ocamlopt's time and stack grow faster than linearly with the
/// size of one definition.
pub fn write_cases_small(
    dir: &str,
    prefix: &str,
    ocaml_model: &str,
    checker: &str,
    cases: &[G],
    shards: usize,
    chunk: usize,
) -> std::io::Result<Vec<String>> {
    use std::fmt::Write as _;
    std::fs::create_dir_all(dir)?;
    let mut files = vec![];
    let nshards = shards.max(1);
    let per_ml = ((cases.len() + nshards - 1) / nshards).max(1);
    let per_ml = ((per_ml + chunk - 1) / chunk) * chunk;
    let mut base = 0usize;
    let mut fi = 0usize;
    while base < cases.len() {
        let upto = (base + per_ml).min(cases.len());
        let mut s = String::new();
        writeln!(s, "open Prelude_{}\nopen Model_{}", ocaml_model, ocaml_model).unwrap();
        let mut nchunks = 0;
        for (ci, ch) in cases[base..upto].chunks(chunk).enumerate() {
            writeln!(s, "let cases_{} () = [", ci).unwrap();
            for (j, cs) in ch.iter().enumerate() {
                if j > 0 {
                    s.push_str(";\n");
                }
                s.push_str(&cs.ocaml());
            }
            s.push_str("\n]\n");
            nchunks += 1;
        }
        writeln!(s, "let () =").unwrap();
        for ci in 0..nchunks {
            writeln!(s, "  report (Obj.magic ({} (nn \"{:x}\") (cases_{} ())));", checker, base + ci * chunk, ci).unwrap();
        }
        writeln!(s, "  finish ()").unwrap();
        let path = format!("{}/{}_ml_{}.ml", dir, prefix, fi);
        std::fs::write(&path, s)?;
        files.push(path);
        base = upto;
        fi += 1;
    }
    Ok(files)
}

/// Gallina text of a case with byte strings written as `[104%N; 105%N]` instead of
/// `(hx "6869")`: Coq parses string literals slowly (20 ms each), which dominated the
/// in-kernel replay of this family.
pub fn gallina_bytes(g: &G) -> String {
    let s = g.gallina();
    let mut out = String::with_capacity(s.len() * 2);
    let mut rest = s.as_str();
    while let Some(p) = rest.find("(hx \"") {
        out.push_str(&rest[..p]);
        let after = &rest[p + 5..];
        let q = after.find("\")").expect("closing hx literal");
        let hexs = &after[..q];
        out.push('[');
        for i in (0..hexs.len()).step_by(2) {
            if i > 0 {
                out.push_str("; ");
            }
            out.push_str(&format!("{}%N", u8::from_str_radix(&hexs[i..i + 2], 16).unwrap()));
        }
        out.push(']');
        rest = &after[q + 2..];
    }
    out.push_str(rest);
    out
}

/// Gallina shards for in-kernel evaluation (indices are positions in `cases`).
pub fn write_kernel_small(
    dir: &str,
    prefix: &str,
    coq_module: &str,
    elem_type: &str,
    checker: &str,
    cases: &[G],
    shards: usize,
) -> std::io::Result<Vec<String>> {
    use std::fmt::Write as _;
    std::fs::create_dir_all(dir)?;
    let mut files = vec![];
    let k = cases.len();
    let shards = shards.max(1);
    let per = ((k + shards - 1) / shards).max(1);
    let mut start = 0usize;
    let mut i = 0usize;
    while start < k {
        let end = (start + per).min(k);
        let path = format!("{}/{}_k_{}.v", dir, prefix, i);
        let mut s = String::new();
        writeln!(s, "From Biscuit Require Import {}.", coq_module).unwrap();
        writeln!(s, "Definition cases : list ({}) := [", elem_type).unwrap();
        for (j, cs) in cases[start..end].iter().enumerate() {
            if j > 0 {
                s.push_str(";\n");
            }
            s.push_str(&gallina_bytes(cs));
        }
        s.push_str("\n].\n");
        writeln!(s, "Eval vm_compute in ({} {}%N cases).", checker, start).unwrap();
        std::fs::write(&path, s)?;
        files.push(path);
        start = end;
        i += 1;
    }
    Ok(files)
}

// ================================================================== C18: macros vs runtime parsing
#[derive(Clone, Copy, Debug, PartialEq, Eq)]
pub enum MacroKind {
    /// fact! / rule! / check! / policy! (by the item's kind)
    Single,
    Block,
    BlockMerge,
    Biscuit,
    BiscuitMerge,
    Authorizer,
    AuthorizerMerge,
}

#[derive(Clone, Debug)]
pub struct MacroItem {
    pub kind: MacroKind,
    pub stmts: Vec<ISrc>,
    /// every parameter of the source, with its value (the macros need all of them in scope)
    pub bindings: Vec<(String, AnyP)>,
    /// pass the values as captured local variables instead of `name = expr`
    pub captured: bool,
    pub origin: &'static str,
}

impl MacroItem {
    pub fn source(&self) -> String {
        match self.kind {
            MacroKind::Single => self.stmts[0].src(),
            _ => self.stmts.iter().map(|s| format!("{};\n", s.src())).collect::<String>(),
        }
    }
}

/// names the parser attributes to a source (term parameters, scope parameters)
fn source_params(stmts: &[ISrc]) -> (Vec<String>, Vec<String>) {
    fn term_names(t: &PT, out: &mut Vec<String>) {
        match t {
            PT::Param(n) => out.push(n.clone()),
            PT::Set(l) | PT::Array(l) => l.iter().for_each(|x| term_names(x, out)),
            PT::Map(m) => m.iter().for_each(|(k, v)| {
                if let PK::Param(n) = k {
                    out.push(n.clone());
                }
                term_names(v, out)
            }),
            _ => {}
        }
    }
    fn op_names(o: &POp, out: &mut Vec<String>) {
        match o {
            POp::Val(t) => term_names(t, out),
            POp::Clo(_, b) => b.iter().for_each(|x| op_names(x, out)),
            _ => {}
        }
    }
    let mut ts = vec![];
    let mut ss = vec![];
    let rule = |r: &RSkel, ts: &mut Vec<String>, ss: &mut Vec<String>| {
        r.head.1.iter().for_each(|t| term_names(t, ts));
        r.body.iter().for_each(|p| p.1.iter().for_each(|t| term_names(t, ts)));
        r.exprs.iter().for_each(|e| e.iter().for_each(|o| op_names(o, ts)));
        r.scopes.iter().for_each(|s| {
            if let PScope::Param(n) = s {
                ss.push(n.clone())
            }
        });
    };
    for s in stmts {
        match s.skel() {
            ISkel::Fact(p) => p.1.iter().for_each(|t| term_names(t, &mut ts)),
            ISkel::Rule(r) => rule(&r, &mut ts, &mut ss),
            ISkel::Check(_, qs) | ISkel::Policy(_, qs) => qs.iter().for_each(|q| rule(q, &mut ts, &mut ss)),
        }
    }
    ts.sort();
    ts.dedup();
    ss.sort();
    ss.dedup();
    (ts, ss)
}

fn parses(kind: MacroKind, stmts: &[ISrc]) -> bool {
    let it = MacroItem { kind, stmts: stmts.to_vec(), bindings: vec![], captured: false, origin: "" };
    let src = it.source();
    // a parser that panics on the source would panic inside rustc: keep those out
    catch_unwind(AssertUnwindSafe(|| match kind {
        MacroKind::Single => Item::construct(Mode::Parsed, &stmts[0].skel(), Some(&src)).is_some(),
        MacroKind::Authorizer | MacroKind::AuthorizerMerge => biscuit_parser::parser::parse_source(&src).is_ok(),
        _ => biscuit_parser::parser::parse_block_source(&src).is_ok(),
    }))
    .unwrap_or(false)
}

/// Deterministic list of the macro cases of a run (the generated crate and the generator
/// both call it with the same seed).
pub fn macro_items(seed: u64, thorough: bool) -> Vec<MacroItem> {
    use builder::{Binary as B, Unary as U};
    let keys = key_pool();
    let values = value_pool();
    let mut rng = Rng::new(seed ^ 0xC18);
    let mut out: Vec<MacroItem> = vec![];
    let mut vi = 0usize;
    let mut push = |kind: MacroKind, stmts: Vec<ISrc>, origin: &'static str, rng: &mut Rng, out: &mut Vec<MacroItem>| {
        if !parses(kind, &stmts) {
            return;
        }
        let (ts, ss) = source_params(&stmts);
        let mut bindings = vec![];
        for n in &ts {
            if ss.contains(n) && rng.chance(1, 2) {
                continue; // the same name is a term and a scope parameter: one Rust value only
            }
            // values rotate through the pool; key positions often get a key-capable value
            let v = if rng.chance(1, 3) { int(rng.range(-2, 3)) } else { values[vi % values.len()].clone() };
            vi += 1;
            bindings.push((n.clone(), AnyP::Term(v)));
        }
        for n in &ss {
            if bindings.iter().any(|(m, _)| m == n) {
                continue;
            }
            bindings.push((n.clone(), AnyP::Key(*rng.pick(&keys))));
        }
        let captured = rng.chance(1, 3);
        out.push(MacroItem { kind, stmts, bindings, captured, origin });
    };
    // (a) every parameter position (text forms), every item position
    for ictx in ITEM_CTXS {
        for tctx in term_ctxs(3) {
            let t = tctx.build("p", false);
            push(MacroKind::Single, vec![item_with(ictx, t, "p")], "positions", &mut rng, &mut out);
        }
    }
    // (b) one item per node kind: term kinds, operators, closures, scopes, check/policy kinds
    let x = var("x");
    let bx: Pred = ("b".to_string(), vec![x.clone()]);
    let r1 = |e: ET| ISrc::Rule(RSrc { head: ("h".into(), vec![var("x")]), body: vec![("b".into(), vec![var("x")])], exprs: vec![e], scopes: vec![] });
    let v = |t: PT| Box::new(ET::Val(t));
    for lit in value_pool() {
        push(MacroKind::Single, vec![ISrc::Fact(("k".into(), vec![lit.clone(), par("p")]))], "nodes", &mut rng, &mut out);
    }
    for b in [B::LessThan, B::GreaterThan, B::LessOrEqual, B::GreaterOrEqual, B::Equal, B::NotEqual, B::HeterogeneousEqual,
        B::HeterogeneousNotEqual, B::Add, B::Sub, B::Mul, B::Div, B::BitwiseAnd, B::BitwiseOr, B::BitwiseXor]
    {
        push(MacroKind::Single, vec![r1(ET::Infix(b.clone(), v(x.clone()), v(par("p"))))], "nodes", &mut rng, &mut out);
    }
    for b in [B::Contains, B::Prefix, B::Suffix, B::Regex, B::Intersection, B::Union, B::Get, B::Ffi("f2".into())] {
        push(MacroKind::Single, vec![r1(ET::Method1(b.clone(), v(par("p")), v(x.clone())))], "nodes", &mut rng, &mut out);
    }
    for u in [U::Length, U::TypeOf, U::Ffi("f1".into())] {
        push(MacroKind::Single, vec![r1(ET::Method0(u.clone(), v(par("p"))))], "nodes", &mut rng, &mut out);
    }
    push(MacroKind::Single, vec![r1(ET::Not(Box::new(ET::Parens(v(par("p"))))))], "nodes", &mut rng, &mut out);
    for b in [B::LazyAnd, B::LazyOr] {
        push(MacroKind::Single, vec![r1(ET::Lazy(b.clone(), v(par("p")), v(par("q"))))], "nodes", &mut rng, &mut out);
    }
    for b in [B::All, B::Any] {
        push(
            MacroKind::Single,
            vec![r1(ET::Closure(b.clone(), v(par("p")), "y".into(), Box::new(ET::Infix(B::Equal, v(var("y")), v(par("q"))))))],
            "nodes",
            &mut rng,
            &mut out,
        );
    }
    for sc in [PScope::Authority, PScope::Previous, PScope::Key(keys[0]), PScope::Key(keys[2]), PScope::Param("pk".into())] {
        let r = RSrc { head: ("h".into(), vec![x.clone(), par("p")]), body: vec![bx.clone()], exprs: vec![], scopes: vec![sc.clone(), PScope::Param("pk2".into())] };
        push(MacroKind::Single, vec![ISrc::Rule(r.clone())], "nodes", &mut rng, &mut out);
        let q = RSrc { head: ("query".into(), vec![]), ..r };
        for k in [builder::CheckKind::One, builder::CheckKind::All, builder::CheckKind::Reject] {
            push(MacroKind::Single, vec![ISrc::Check(k, vec![q.clone(), q.clone()])], "nodes", &mut rng, &mut out);
        }
        for k in [builder::PolicyKind::Allow, builder::PolicyKind::Deny] {
            push(MacroKind::Single, vec![ISrc::Policy(k, vec![q.clone()])], "nodes", &mut rng, &mut out);
        }
    }
    // the same name as a term and as a scope parameter
    push(
        MacroKind::Single,
        vec![ISrc::Rule(RSrc { head: ("h".into(), vec![x.clone(), par("p")]), body: vec![bx.clone()], exprs: vec![], scopes: vec![PScope::Param("p".into())] })],
        "nodes",
        &mut rng,
        &mut out,
    );
    // (c) random single items
    let mut gen = PGen::new(rng.fork());
    let n_random = if thorough { 600 } else { 120 };
    for _ in 0..n_random {
        let it = gen.item(true);
        push(MacroKind::Single, vec![it], "random", &mut rng, &mut out);
    }
    // (d) builders: block!/biscuit!/authorizer! and the _merge forms
    let n_builders = if thorough { 150 } else { 42 };
    for i in 0..n_builders {
        let kind = [MacroKind::Block, MacroKind::BlockMerge, MacroKind::Biscuit, MacroKind::BiscuitMerge, MacroKind::Authorizer, MacroKind::AuthorizerMerge][i % 6];
        // two thirds of the builder sources keep their parameters out of collections so
        // that they build on the unchanged tree too
        gen.flat = (i / 6) % 3 != 0;
        let n = gen.rng.below(3) as usize + 1;
        let mut stmts = vec![];
        for _ in 0..n {
            loop {
                let it = gen.item(true);
                let pol = matches!(it, ISrc::Policy(..));
                if pol && !matches!(kind, MacroKind::Authorizer | MacroKind::AuthorizerMerge) {
                    continue;
                }
                stmts.push(it);
                break;
            }
        }
        // facts, rules, checks, policies in source order of the builders' fields
        stmts.sort_by_key(|s| match s {
            ISrc::Fact(_) => 0,
            ISrc::Rule(_) => 1,
            ISrc::Check(..) => 2,
            ISrc::Policy(..) => 3,
        });
        push(kind, stmts, "builders", &mut rng, &mut out);
    }
    out
}

fn rust_str(s: &str) -> String {
    format!("{:?}", s)
}

/// the generated crate's source
pub fn macro_crate_main(items: &[MacroItem], seed: u64, thorough: bool) -> String {
    use std::fmt::Write as _;
    let mut s = String::new();
    s.push_str("// generated by h_macros; do not edit\n#![allow(unused_mut, unused_variables, non_snake_case)]\n");
    s.push_str("use biscuit_auth::macros::*;\nuse verif_harness::params::*;\n\n");
    for (i, it) in items.iter().enumerate() {
        let src = it.source();
        let mut args = String::new();
        let mut lets = String::new();
        // every second explicit-parameter call passes each value through a local variable that
        // carries the NAME OF ANOTHER PARAMETER (`a = b, b = a` with `let b = <value of a>`):
        // the macro must evaluate all parameter expressions before binding any of them
        let rotate = !it.captured && i % 2 == 0;
        let groups: Vec<Vec<usize>> = {
            let terms: Vec<usize> = it.bindings.iter().enumerate().filter(|(_, (_, v))| matches!(v, AnyP::Term(_))).map(|(j, _)| j).collect();
            let keys: Vec<usize> = it.bindings.iter().enumerate().filter(|(_, (_, v))| matches!(v, AnyP::Key(_))).map(|(j, _)| j).collect();
            vec![terms, keys]
        };
        for (j, (n, v)) in it.bindings.iter().enumerate() {
            let e = match v {
                AnyP::Term(_) => format!("v.term({})", j),
                AnyP::Key(_) => format!("v.key({})", j),
            };
            if it.captured {
                writeln!(lets, "    let {} = {};", n, e).unwrap();
            } else {
                let group = groups.iter().find(|g| g.contains(&j)).unwrap();
                if rotate && group.len() >= 2 {
                    let pos = group.iter().position(|x| *x == j).unwrap();
                    let carrier = &it.bindings[group[(pos + 1) % group.len()]].0;
                    writeln!(lets, "    let {} = {};", carrier, e).unwrap();
                    write!(args, ", {} = {}", n, carrier).unwrap();
                } else {
                    write!(args, ", {} = {}", n, e).unwrap();
                }
            }
        }
        let lit = format!("r####\"{}\"####", src);
        let _ = rust_str;
        let body = match it.kind {
            MacroKind::Single => match &it.stmts[0] {
                ISrc::Fact(_) => format!("MOut::Item(Item::Fact(fact!({}{})))", lit, args),
                ISrc::Rule(_) => format!("MOut::Item(Item::Rule(rule!({}{})))", lit, args),
                ISrc::Check(..) => format!("MOut::Item(Item::Check(check!({}{})))", lit, args),
                ISrc::Policy(..) => format!("MOut::Item(Item::Policy(policy!({}{})))", lit, args),
            },
            MacroKind::Block => format!("MOut::Block(block!({}{}))", lit, args),
            MacroKind::BlockMerge => format!("MOut::Block(block_merge!(base_block(), {}{}))", lit, args),
            MacroKind::Biscuit => format!("MOut::Biscuit(biscuit!({}{}))", lit, args),
            MacroKind::BiscuitMerge => format!("MOut::Biscuit(biscuit_merge!(base_biscuit(), {}{}))", lit, args),
            MacroKind::Authorizer => format!("MOut::Authorizer(authorizer!({}{}))", lit, args),
            MacroKind::AuthorizerMerge => format!("MOut::Authorizer(authorizer_merge!(base_authorizer(), {}{}))", lit, args),
        };
        writeln!(s, "fn item_{}(v: &MVals) -> MOut {{\n{}    {}\n}}", i, lets, body).unwrap();
    }
    writeln!(s, "\nfn main() {{\n    let fns: Vec<fn(&MVals) -> MOut> = vec![").unwrap();
    for i in 0..items.len() {
        writeln!(s, "        item_{},", i).unwrap();
    }
    writeln!(s, "    ];\n    macro_main({}, {}, &fns);\n}}", seed, thorough).unwrap();
    s
}

pub fn macro_crate_toml(repo: &str) -> String {
    format!(
        "[package]\nname = \"macrogen\"\nversion = \"0.1.0\"\nedition = \"2021\"\n\n[workspace]\n\n[dependencies]\nbiscuit-auth = {{ path = \"{}/biscuit-auth\" }}\nverif-harness = {{ path = \"..\" }}\n\n[profile.release]\ndebug-assertions = false\noverflow-checks = false\nopt-level = 1\n\n[profile.release.package.macrogen]\nopt-level = 0\n",
        repo
    )
}

// ---- runtime side of the generated crate
pub struct MVals(pub Vec<(String, AnyP)>);
impl MVals {
    pub fn term(&self, j: usize) -> builder::Term {
        match &self.0[j].1 {
            AnyP::Term(t) => t.to_builder(),
            AnyP::Key(_) => panic!("not a term"),
        }
    }
    pub fn key(&self, j: usize) -> PublicKey {
        match &self.0[j].1 {
            AnyP::Key(k) => *k,
            AnyP::Term(_) => panic!("not a key"),
        }
    }
}
pub enum MOut {
    Item(Item),
    Block(builder::BlockBuilder),
    Biscuit(builder::BiscuitBuilder),
    Authorizer(builder::AuthorizerBuilder),
}
pub fn base_block() -> builder::BlockBuilder {
    builder::BlockBuilder::new().fact("base(1)").unwrap().check("check if base(1)").unwrap()
}
pub fn base_biscuit() -> builder::BiscuitBuilder {
    builder::BiscuitBuilder::new().fact("base(1)").unwrap().rule("r($x) <- base($x)").unwrap()
}
pub fn base_authorizer() -> builder::AuthorizerBuilder {
    builder::AuthorizerBuilder::new().fact("base(1)").unwrap().policy("deny if base(2)").unwrap()
}

/// what a builder-level macro (or the runtime path) gave: printed code and, for tokens,
/// the serialized bytes; None inside = that step panicked
#[derive(Clone, Debug, PartialEq)]
pub enum BOut {
    Refused(String),
    Built { code: Option<String>, bytes: Option<Result<Vec<u8>, String>> },
    Panic,
}

fn observe_builder(o: MOut, root: &KeyPair) -> BOut {
    match o {
        MOut::Item(_) => BOut::Panic,
        MOut::Block(b) => {
            let b2 = b.clone();
            let code = catch_unwind(AssertUnwindSafe(move || b2.to_string())).ok();
            // the block as authority block of a token, fixed keys
            let bytes = catch_unwind(AssertUnwindSafe(move || {
                builder::BiscuitBuilder::new()
                    .merge(b)
                    .build_with_rng(root, SymbolTable::new(), &mut Rng::new(5))
                    .and_then(|t| t.to_vec())
                    .map_err(|e| format!("{:?}", e))
            }))
            .ok();
            BOut::Built { code, bytes }
        }
        MOut::Biscuit(b) => {
            let b2 = b.clone();
            let code = catch_unwind(AssertUnwindSafe(move || b2.dump_code())).ok();
            let bytes = catch_unwind(AssertUnwindSafe(move || {
                b.build_with_rng(root, SymbolTable::new(), &mut Rng::new(5)).and_then(|t| t.to_vec()).map_err(|e| format!("{:?}", e))
            }))
            .ok();
            BOut::Built { code, bytes }
        }
        MOut::Authorizer(b) => {
            let b2 = b.clone();
            let code = catch_unwind(AssertUnwindSafe(move || b2.dump_code())).ok();
            // decision and world of the authorizer alone
            let bytes = catch_unwind(AssertUnwindSafe(move || match b.build_unauthenticated() {
                Ok(mut a) => {
                    let r = a.authorize();
                    // the dump lists the world in hash-map order: compare it as a sorted set of lines
                    let dump = a.dump_code();
                    let mut lines: Vec<&str> = dump.lines().collect();
                    lines.sort();
                    Ok(format!("{:?} / {}", r.map_err(|e| format!("{:?}", e)), lines.join("\n")).into_bytes())
                }
                Err(e) => Err(format!("{:?}", e)),
            }))
            .ok();
            BOut::Built { code, bytes }
        }
    }
}

fn runtime_builder(it: &MacroItem, root: &KeyPair) -> BOut {
    let src = it.source();
    let params: HashMap<String, builder::Term> =
        it.bindings.iter().filter_map(|(n, v)| if let AnyP::Term(t) = v { Some((n.clone(), t.to_builder())) } else { None }).collect();
    let scope_params: HashMap<String, PublicKey> =
        it.bindings.iter().filter_map(|(n, v)| if let AnyP::Key(k) = v { Some((n.clone(), *k)) } else { None }).collect();
    let r = catch_unwind(AssertUnwindSafe(|| match it.kind {
        MacroKind::Block => builder::BlockBuilder::new().code_with_params(&src, params, scope_params).map(MOut::Block),
        MacroKind::BlockMerge => base_block().code_with_params(&src, params, scope_params).map(MOut::Block),
        MacroKind::Biscuit => builder::BiscuitBuilder::new().code_with_params(&src, params, scope_params).map(MOut::Biscuit),
        MacroKind::BiscuitMerge => base_biscuit().code_with_params(&src, params, scope_params).map(MOut::Biscuit),
        MacroKind::Authorizer => builder::AuthorizerBuilder::new().code_with_params(&src, params, scope_params).map(MOut::Authorizer),
        MacroKind::AuthorizerMerge => base_authorizer().code_with_params(&src, params, scope_params).map(MOut::Authorizer),
        MacroKind::Single => unreachable!(),
    }));
    match r {
        Err(_) => BOut::Panic,
        Ok(Err(e)) => BOut::Refused(format!("{:?}", classify_err(&e))),
        Ok(Ok(o)) => observe_builder(o, root),
    }
}

/// main of the generated crate
/// Parameters given to the macros as native Rust values (every `ToAnyParam` implementation:
/// i64, bool, String, &str, Vec<u8>, SystemTime, BTreeSet<Term>, Term, PublicKey) against the
/// run-time path `try_from(source)` + `set` / `set_scope` with the same value converted by
/// `Into<Term>`, for each item kind and for a parameter used in two alternatives.  Returns a
/// description of every pair that differs.
pub fn typed_param_mismatches() -> Vec<String> {
    use biscuit_auth::macros::*;
    use std::collections::BTreeSet;
    use std::time::{Duration, SystemTime, UNIX_EPOCH};
    let mut bad: Vec<String> = vec![];
    macro_rules! one {
        ($label:expr, $val:expr) => {{
            let r = catch_unwind(AssertUnwindSafe(|| {
                let mut out: Vec<String> = vec![];
                // fact
                let m = fact!("f({p}, 1)", p = $val);
                let mut r = builder::Fact::try_from("f({p}, 1)").unwrap();
                r.set("p", $val).unwrap();
                if m != r {
                    out.push(format!("fact!: macro {} / runtime {}", m, r));
                }
                // rule: head, body and expression positions
                let m = rule!("h({p}) <- b($x, {p}), $x == {p}", p = $val);
                let mut r = builder::Rule::try_from("h({p}) <- b($x, {p}), $x == {p}").unwrap();
                r.set("p", $val).unwrap();
                if m != r {
                    out.push(format!("rule!: macro {} / runtime {}", m, r));
                }
                // check and policy: the same parameter in two alternatives
                let m = check!("check if a({p}) or b({p}), $x == {p}", p = $val);
                let mut r = builder::Check::try_from("check if a({p}) or b({p}), $x == {p}").unwrap();
                r.set("p", $val).unwrap();
                if m != r {
                    out.push(format!("check!: macro {} / runtime {}", m, r));
                }
                let m = policy!("allow if a({p}) or b({p})", p = $val);
                let mut r = builder::Policy::try_from("allow if a({p}) or b({p})").unwrap();
                r.set("p", $val).unwrap();
                if m != r {
                    out.push(format!("policy!: macro {} / runtime {}", m, r));
                }
                out
            }));
            match r {
                Ok(v) => bad.extend(v.into_iter().map(|x| format!("{}: {}", $label, x))),
                Err(_) => bad.push(format!("{}: a macro or the run-time path panicked", $label)),
            }
        }};
    }
    for i in [0i64, 1, -1, i64::MAX, i64::MIN] {
        one!(format!("i64 {}", i), i);
    }
    one!("bool true", true);
    one!("bool false", false);
    for t in ["", "a", "quote \" backslash \\ newline \n", "{p}", "é∀"] {
        one!(format!("String {:?}", t), t.to_string());
        one!(format!("&str {:?}", t), t);
    }
    for b in [vec![], vec![0u8], vec![255u8, 0, 1]] {
        one!(format!("Vec<u8> {:?}", b), b.clone());
    }
    // dates: whole seconds and every half of the second after it
    for (secs, nanos) in [(0u64, 0u32), (1_700_000_000, 0), (1_700_000_000, 1), (1_700_000_000, 499_999_999), (1_700_000_000, 500_000_000),
        (1_700_000_000, 999_999_999), (253_402_300_799, 999_999_999)]
    {
        let t: SystemTime = UNIX_EPOCH + Duration::new(secs, nanos);
        one!(format!("SystemTime {}.{:09}", secs, nanos), t);
    }
    let mut set = BTreeSet::new();
    set.insert(builder::Term::Integer(1));
    set.insert(builder::Term::Str("a".into()));
    one!("BTreeSet<Term>", set.clone());
    one!("Term::Null", builder::Term::Null);
    one!("Term::Array", builder::Term::Array(vec![builder::Term::Integer(1), builder::Term::Str("x".into())]));
    // public keys in scopes, the same parameter in two alternatives
    for k in key_pool().into_iter().take(3) {
        let r = catch_unwind(AssertUnwindSafe(|| {
            let m = check!("check if a(1) trusting {pk} or b(2) trusting {pk}", pk = k);
            let mut r = builder::Check::try_from("check if a(1) trusting {pk} or b(2) trusting {pk}").unwrap();
            r.set_scope("pk", k).unwrap();
            if m != r {
                Some(format!("check!: macro {} / runtime {}", m, r))
            } else {
                None
            }
        }));
        match r {
            Ok(Some(x)) => bad.push(format!("PublicKey {}: {}", k.print(), x)),
            Ok(None) => {}
            Err(_) => bad.push(format!("PublicKey {}: a macro or the run-time path panicked", k.print())),
        }
    }
    bad
}

pub fn macro_main(seed: u64, thorough: bool, fns: &[fn(&MVals) -> MOut]) {
    std::panic::set_hook(Box::new(|_| {}));
    let out = arg("--out-dir").expect("--out-dir");
    let shards = arg_u64("--shards", 16) as usize;
    let items = macro_items(seed, thorough);
    assert_eq!(items.len(), fns.len(), "generated crate out of date");
    let root = KeyPair::new_with_rng(builder::Algorithm::Ed25519, &mut Rng::new(99));
    let mut lines: Vec<G> = vec![];
    let mut n_single = 0u64;
    let mut n_builders = 0u64;
    let mut item_diff_known: Vec<String> = vec![];
    let mut item_diff_other: Vec<String> = typed_param_mismatches().into_iter().map(|x| format!("native parameter value -- {}", x)).collect();
    let mut result_diff: Vec<String> = vec![];
    let mut builder_diff: Vec<String> = vec![];
    let mut macro_panics_single: Vec<String> = vec![];
    let mut both_panic_builders = 0u64;
    let mut both_refused = 0u64;
    let mut hist: BTreeMap<String, u64> = BTreeMap::new();
    let mut kind_hist: BTreeMap<String, u64> = BTreeMap::new();
    let mut builder_hist: BTreeMap<String, u64> = BTreeMap::new();
    for (i, it) in items.iter().enumerate() {
        let vals = MVals(it.bindings.clone());
        let f = fns[i];
        let m = catch_unwind(AssertUnwindSafe(|| f(&vals)));
        *hist.entry(it.origin.to_string()).or_default() += 1;
        *kind_hist.entry(format!("{:?}", it.kind)).or_default() += 1;
        match it.kind {
            MacroKind::Single => {
                n_single += 1;
                let src = it.source();
                let m = match m {
                    Ok(MOut::Item(x)) => x,
                    _ => {
                        macro_panics_single.push(src);
                        continue;
                    }
                };
                // runtime path: parse, bind every supplied parameter ignoring "unused"
                let skel0 = it.stmts[0].skel();
                let mut r = match Item::construct(Mode::Parsed, &skel0, Some(&src)) {
                    Some(r) => r,
                    None => continue,
                };
                let mut cmds = vec![];
                for (n, v) in &it.bindings {
                    match v {
                        AnyP::Term(t) => {
                            r.run(&Cmd::Ign(n.clone(), t.clone()));
                        }
                        AnyP::Key(k) => {
                            r.run(&Cmd::IgnScope(n.clone(), *k));
                        }
                    }
                    cmds.push(Cmd::Macro(n.clone(), v.clone()));
                }
                let (mv, rv) = (m.validate(), r.validate());
                let (mc, rc) = (m.convert(), r.convert());
                if m != r {
                    let s = format!("{} -- macro {:?} / runtime {:?}", src, m.collected(), r.collected());
                    if m.skel() == r.skel() && has_nested_expr_param(&m.skel()) {
                        item_diff_known.push(s)
                    } else {
                        item_diff_other.push(s)
                    }
                }
                if mv != rv || mc.as_ref().map(canon_iskel) != rc.as_ref().map(canon_iskel) {
                    let s = format!("{} -- macro {:?}/{} runtime {:?}/{}", src, mv, mc.is_some(), rv, rc.is_some());
                    // same known class: a name the macro-built item does not know (nested in an
                    // expression value) is reported missing by the runtime item only
                    if m.skel() == r.skel() && has_nested_expr_param(&m.skel()) {
                        item_diff_known.push(s)
                    } else {
                        result_diff.push(s)
                    }
                }
                // the macro-built item as a case for the model: biscuit-auth constructors,
                // then set_macro_param for each supplied parameter (all unwrap()ed: Ok)
                let run = PRun {
                    mode: Mode::New,
                    skel: m.skel(),
                    cmds: cmds.clone(),
                    collected: m.collected(),
                    results: cmds.iter().map(|_| None).collect(),
                    validate: mv,
                    convert: mc,
                    inconsistencies: vec![],
                    origin: it.origin,
                };
                lines.push(g_prun(&run));
            }
            _ => {
                n_builders += 1;
                let mo = match m {
                    Ok(o) => observe_builder(o, &root),
                    Err(_) => BOut::Panic,
                };
                let ro = runtime_builder(it, &root);
                *builder_hist
                    .entry(match &mo {
                        BOut::Panic => "macro panics (unwrap of a refusal, or conversion)".to_string(),
                        BOut::Refused(_) => "refused".to_string(),
                        BOut::Built { code, bytes } => format!(
                            "built, code {}, token/decision {}",
                            if code.is_some() { "printed" } else { "panics" },
                            match bytes {
                                Some(Ok(_)) => "ok",
                                Some(Err(_)) => "error",
                                None => "panics",
                            }
                        ),
                    })
                    .or_default() += 1;
                let same = match (&mo, &ro) {
                    // the macro unwraps the error the runtime path returns
                    (BOut::Panic, BOut::Refused(_)) => {
                        both_refused += 1;
                        true
                    }
                    (a, b) => a == b,
                };
                if mo == BOut::Panic && ro == BOut::Panic {
                    both_panic_builders += 1;
                }
                if !same {
                    builder_diff.push(format!("{:?} {} -- macro {:?} / runtime {:?}", it.kind, it.source(), mo, ro));
                }
            }
        }
    }
    let files = write_cases_small(&out, "C18", "params", "pcase_failures", &lines, shards, 20).expect("write cases");
    let kfiles = write_kernel_small(&out, "C18k", "Model.ParamsCases", "pcase", "pcase_failures", &lines[..lines.len().min(if thorough { 400 } else { 96 })], shards)
        .expect("write kernel cases");
    let _ = std::fs::write(format!("{}/C18_cases.txt", out), lines.iter().map(gallina_bytes).collect::<Vec<_>>().join("\n"));
    let hist_s = |m: &BTreeMap<String, u64>| m.iter().map(|(k, v)| format!("{}: {}", jstr(k), v)).collect::<Vec<_>>().join(", ");
    let strs = |v: &[String], n: usize| v.iter().take(n).map(|s| jstr(s)).collect::<Vec<_>>().join(", ");
    let files_s: Vec<String> = files.iter().chain(kfiles.iter()).map(|p| jstr(p)).collect();
    println!(
        "{{\"family\": \"macros\", \"evaluations\": {}, \"macro_invocations\": {}, \"single_items\": {}, \"builder_sources\": {}, \"distinct_nontrivial\": {}, \"origin_histogram\": {{{}}}, \"macro_kind_histogram\": {{{}}}, \"builder_outcome_histogram\": {{{}}}, \"item_differs_known_class\": {}, \"item_differs_known_samples\": [{}], \"item_differs_other\": {}, \"item_differs_other_samples\": [{}], \"result_differs\": {}, \"result_differs_samples\": [{}], \"builder_differs\": {}, \"builder_differs_samples\": [{}], \"single_macro_panics\": {}, \"single_macro_panic_samples\": [{}], \"builders_both_panic\": {}, \"builders_macro_unwraps_runtime_error\": {}, \"model_cases\": {}, \"kernel_cases\": {}, \"panics\": [], \"files\": [{}]}}",
        items.len(),
        items.len(),
        n_single,
        n_builders,
        items.iter().filter(|i| !i.bindings.is_empty()).count(),
        hist_s(&hist),
        hist_s(&kind_hist),
        hist_s(&builder_hist),
        item_diff_known.len(),
        strs(&item_diff_known, 3),
        item_diff_other.len(),
        strs(&item_diff_other, 5),
        result_diff.len(),
        strs(&result_diff, 5),
        builder_diff.len(),
        strs(&builder_diff, 5),
        macro_panics_single.len(),
        strs(&macro_panics_single, 5),
        both_panic_builders,
        both_refused,
        lines.len(),
        lines.len().min(if thorough { 400 } else { 96 }),
        files_s.join(", ")
    );
}

/// a parameter inside a collection that is an expression value
pub fn has_nested_expr_param(i: &ISkel) -> bool {
    let r = |r: &RSkel| r.exprs.iter().any(|e| ops_nested(e));
    match i {
        ISkel::Fact(_) => false,
        ISkel::Rule(x) => r(x),
        ISkel::Check(_, qs) | ISkel::Policy(_, qs) => qs.iter().any(r),
    }
}

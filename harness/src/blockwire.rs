//! Block-content wire format: prost's `schema::Block::decode` / `encode_to_vec` against
//! Model/BlockWire.v.  Generators: schema-aware raw protobuf trees (duplicated fields, oneof
//! variants seen twice or switched, unknown tags, wrong wire types, packed scalars, invalid
//! UTF-8, overlong varints), structured `schema::Block` values encoded by prost, nesting
//! probes around prost's recursion budget, byte mutations, the blocks of the conformance
//! samples.
use crate::wire::{g_wkey, pb_encode, pb_varint, pb_varint_padded, Raw};
use crate::*;
use biscuit_auth::format::schema;
use prost::Message;

// ------------------------------------------------------------------ prost value -> model term

pub fn g_pterm(t: &schema::TermV2) -> G {
    use schema::term_v2::Content as C;
    match &t.content {
        None => c0("PTNone"),
        Some(C::Variable(v)) => c("PTVariable", vec![G::N(*v as u64)]),
        Some(C::Integer(i)) => c("PTInteger", vec![G::Z(*i as i128)]),
        Some(C::String(s)) => c("PTString", vec![G::N(*s)]),
        Some(C::Date(d)) => c("PTDate", vec![G::N(*d)]),
        Some(C::Bytes(b)) => c("PTBytes", vec![gbytes(b)]),
        Some(C::Bool(b)) => c("PTBool", vec![G::B(*b)]),
        Some(C::Set(s)) => c("PTSet", vec![G::L(s.set.iter().map(g_pterm).collect())]),
        Some(C::Null(_)) => c0("PTNull"),
        Some(C::Array(a)) => c("PTArray", vec![G::L(a.array.iter().map(g_pterm).collect())]),
        Some(C::Map(m)) => c(
            "PTMap",
            vec![G::L(
                m.entries
                    .iter()
                    .map(|e| {
                        let k = match &e.key.content {
                            None => c0("PKNone"),
                            Some(schema::map_key::Content::Integer(i)) => c("PKInt", vec![G::Z(*i as i128)]),
                            Some(schema::map_key::Content::String(s)) => c("PKStr", vec![G::N(*s)]),
                        };
                        G::T(vec![k, g_pterm(&e.value)])
                    })
                    .collect(),
            )],
        ),
    }
}
pub fn g_pop(o: &schema::Op) -> G {
    use schema::op::Content as C;
    match &o.content {
        None => c0("PONone"),
        Some(C::Value(t)) => c("POValue", vec![g_pterm(t)]),
        Some(C::Unary(u)) => c("POUnary", vec![G::Z(u.kind as i128), gopt(u.ffi_name.map(G::N))]),
        Some(C::Binary(u)) => c("POBinary", vec![G::Z(u.kind as i128), gopt(u.ffi_name.map(G::N))]),
        Some(C::Closure(cl)) => c(
            "POClosure",
            vec![G::L(cl.params.iter().map(|p| G::N(*p as u64)).collect()), G::L(cl.ops.iter().map(g_pop).collect())],
        ),
    }
}
pub fn g_pscope(s: &schema::Scope) -> G {
    match &s.content {
        None => c0("PSNone"),
        Some(schema::scope::Content::ScopeType(i)) => c("PSType", vec![G::Z(*i as i128)]),
        Some(schema::scope::Content::PublicKey(i)) => c("PSKey", vec![G::Z(*i as i128)]),
    }
}
pub fn g_ppred(p: &schema::PredicateV2) -> G {
    rec("mkppred", vec![("pp_name", G::N(p.name)), ("pp_terms", G::L(p.terms.iter().map(g_pterm).collect()))])
}
pub fn g_prule(r: &schema::RuleV2) -> G {
    rec(
        "mkprule",
        vec![
            ("pr_head", g_ppred(&r.head)),
            ("pr_body", G::L(r.body.iter().map(g_ppred).collect())),
            ("pr_exprs", G::L(r.expressions.iter().map(|e| G::L(e.ops.iter().map(g_pop).collect())).collect())),
            ("pr_scopes", G::L(r.scope.iter().map(g_pscope).collect())),
        ],
    )
}
pub fn g_pcheck(k: &schema::CheckV2) -> G {
    rec(
        "mkpcheck",
        vec![("pc_queries", G::L(k.queries.iter().map(g_prule).collect())), ("pc_kind", gopt(k.kind.map(|x| G::Z(x as i128))))],
    )
}
pub fn g_pblock(b: &schema::Block) -> G {
    rec(
        "mkpblock",
        vec![
            ("pb_symbols", G::L(b.symbols.iter().map(|s| gstr(s)).collect())),
            ("pb_context", gopt(b.context.as_ref().map(|s| gstr(s)))),
            ("pb_version", gopt(b.version.map(|v| G::N(v as u64)))),
            ("pb_facts", G::L(b.facts_v2.iter().map(|f| g_ppred(&f.predicate)).collect())),
            ("pb_rules", G::L(b.rules_v2.iter().map(g_prule).collect())),
            ("pb_checks", G::L(b.checks_v2.iter().map(g_pcheck).collect())),
            ("pb_scopes", G::L(b.scope.iter().map(g_pscope).collect())),
            ("pb_keys", G::L(b.public_keys.iter().map(g_wkey).collect())),
        ],
    )
}

/// One case: the bytes, and prost's answer.
pub struct BwCase {
    pub kind: String,
    pub bytes: Vec<u8>,
    pub decoded: Option<schema::Block>,
    pub panicked: bool,
}
pub fn bw_case(kind: &str, bytes: Vec<u8>) -> BwCase {
    let b2 = bytes.clone();
    let r = std::panic::catch_unwind(move || schema::Block::decode(&b2[..]).ok());
    match r {
        Ok(d) => BwCase { kind: kind.to_string(), bytes, decoded: d, panicked: false },
        Err(_) => BwCase { kind: kind.to_string(), bytes, decoded: None, panicked: true },
    }
}
pub fn g_bwcase(cs: &BwCase) -> G {
    c(
        "BWDecode",
        vec![
            gbytes(&cs.bytes),
            gopt(cs.decoded.as_ref().map(|b| G::T(vec![g_pblock(b), gbytes(&b.encode_to_vec())]))),
        ],
    )
}

// ------------------------------------------------------------------ schema-aware raw generator

#[derive(Clone, Copy, PartialEq, Debug)]
pub enum M {
    Block,
    Fact,
    Rule,
    Check,
    Pred,
    Term,
    TermSet,
    Array,
    Map,
    MapEntry,
    MapKey,
    Expr,
    Op,
    OpUnary,
    OpBinary,
    OpClosure,
    Scope,
    PublicKey,
    Empty,
}
#[derive(Clone, Copy, PartialEq, Debug)]
pub enum F {
    Varint,
    Bytes,
    Str,
    Msg(M),
}
pub fn fields_of(m: M) -> &'static [(u32, F)] {
    match m {
        M::Block => &[
            (1, F::Str),
            (2, F::Str),
            (3, F::Varint),
            (4, F::Msg(M::Fact)),
            (5, F::Msg(M::Rule)),
            (6, F::Msg(M::Check)),
            (7, F::Msg(M::Scope)),
            (8, F::Msg(M::PublicKey)),
        ],
        M::Fact => &[(1, F::Msg(M::Pred))],
        M::Rule => &[(1, F::Msg(M::Pred)), (2, F::Msg(M::Pred)), (3, F::Msg(M::Expr)), (4, F::Msg(M::Scope))],
        M::Check => &[(1, F::Msg(M::Rule)), (2, F::Varint)],
        M::Pred => &[(1, F::Varint), (2, F::Msg(M::Term))],
        M::Term => &[
            (1, F::Varint),
            (2, F::Varint),
            (3, F::Varint),
            (4, F::Varint),
            (5, F::Bytes),
            (6, F::Varint),
            (7, F::Msg(M::TermSet)),
            (8, F::Msg(M::Empty)),
            (9, F::Msg(M::Array)),
            (10, F::Msg(M::Map)),
        ],
        M::TermSet => &[(1, F::Msg(M::Term))],
        M::Array => &[(1, F::Msg(M::Term))],
        M::Map => &[(1, F::Msg(M::MapEntry))],
        M::MapEntry => &[(1, F::Msg(M::MapKey)), (2, F::Msg(M::Term))],
        M::MapKey => &[(1, F::Varint), (2, F::Varint)],
        M::Expr => &[(1, F::Msg(M::Op))],
        M::Op => &[(1, F::Msg(M::Term)), (2, F::Msg(M::OpUnary)), (3, F::Msg(M::OpBinary)), (4, F::Msg(M::OpClosure))],
        M::OpUnary => &[(1, F::Varint), (2, F::Varint)],
        M::OpBinary => &[(1, F::Varint), (2, F::Varint)],
        M::OpClosure => &[(1, F::Varint), (2, F::Msg(M::Op))],
        M::Scope => &[(1, F::Varint), (2, F::Varint)],
        M::PublicKey => &[(1, F::Varint), (2, F::Bytes)],
        M::Empty => &[],
    }
}

fn rand_varint(rng: &mut Rng) -> u64 {
    match rng.below(12) {
        0 => 0,
        1 => 1,
        2 => rng.below(8),
        3 => rng.below(40),
        4 => 1024 + rng.below(6),
        5 => u32::MAX as u64,
        6 => u32::MAX as u64 + 1 + rng.below(3),
        7 => u64::MAX - rng.below(3),
        8 => 1u64 << 63,
        9 => (1u64 << 31) - rng.below(2),
        10 => rng.next(),
        _ => rng.below(300),
    }
}
fn rand_bytes(rng: &mut Rng) -> Vec<u8> {
    let n = match rng.below(6) {
        0 => 0,
        1 => 1,
        2 => 32,
        3 => 33,
        _ => rng.below(12),
    } as usize;
    (0..n).map(|_| rng.next() as u8).collect()
}
fn rand_str(rng: &mut Rng) -> Vec<u8> {
    const POOL: &[&[u8]] = &[
        b"", b"a", b"read", b"hello world", "caf\u{e9}".as_bytes(), "\u{20ac}".as_bytes(), "\u{10348}".as_bytes(),
        "\u{7ff}\u{800}\u{ffff}\u{10000}\u{10ffff}".as_bytes(), "\u{d7ff}\u{e000}".as_bytes(), b"\"q\\\n", b"\x00",
        // not UTF-8: lone continuation, overlong, surrogate, too large, truncated
        b"\x80", b"\xc0\xaf", b"\xc1\xbf", b"\xe0\x80\x80", b"\xe0\x9f\xbf", b"\xed\xa0\x80", b"\xed\xbf\xbf", b"\xf0\x8f\xbf\xbf",
        b"\xf4\x90\x80\x80", b"\xf5\x80\x80\x80", b"\xc3", b"\xe2\x82", b"\xf0\x9f\x98", b"a\xffb", b"\xf8\x88\x80\x80\x80",
        b"\xc2\x41", b"\xe1\x80\x41", b"\xf1\x80\x80\x41",
    ];
    if rng.chance(1, 6) {
        rand_bytes(rng)
    } else {
        POOL[rng.below(POOL.len() as u64) as usize].to_vec()
    }
}

/// A random body for message `m`.  `wild` (0..100) is the percentage of deliberately odd
/// choices: unknown tags, wrong wire types, groups, packed scalars.
pub fn raw_msg(rng: &mut Rng, m: M, depth: usize, wild: u64) -> Vec<Raw> {
    let fs = fields_of(m);
    let n = if depth == 0 { rng.below(2) } else { match rng.below(8) { 0 => 0, 1 | 2 => 1, 3 | 4 => 2, 5 => 3, _ => rng.below(6) } };
    let mut out = vec![];
    for _ in 0..n {
        if rng.below(100) < wild {
            // odd field
            let tag = match rng.below(5) {
                0 => 11 + rng.below(5) as u32,
                1 => 15,
                2 => 16,
                3 => 536870911,
                _ => 1 + rng.below(10) as u32,
            };
            match rng.below(7) {
                0 => out.push(Raw::Var(tag, rand_varint(rng))),
                1 => out.push(Raw::Len(tag, rand_bytes(rng))),
                2 => out.push(Raw::Fix64(tag, rng.next().to_le_bytes())),
                3 => out.push(Raw::Fix32(tag, (rng.next() as u32).to_le_bytes())),
                4 => out.push(Raw::Group(tag, if rng.chance(1, 2) { vec![] } else { vec![Raw::Var(1, 7), Raw::Len(2, vec![1, 2])] })),
                5 => {
                    // packed run of varints
                    let mut b = vec![];
                    for _ in 0..rng.below(4) {
                        pb_varint(rand_varint(rng), &mut b);
                    }
                    out.push(Raw::Len(tag, b))
                }
                _ => out.push(Raw::EndGroup(tag)),
            }
            continue;
        }
        if fs.is_empty() {
            continue;
        }
        let (tag, f) = fs[rng.below(fs.len() as u64) as usize];
        match f {
            F::Varint => out.push(Raw::Var(tag, rand_varint(rng))),
            F::Bytes => out.push(Raw::Len(tag, rand_bytes(rng))),
            F::Str => out.push(Raw::Len(tag, rand_str(rng))),
            F::Msg(mm) => {
                if depth == 0 {
                    out.push(Raw::Msg(tag, vec![]));
                } else {
                    out.push(Raw::Msg(tag, raw_msg(rng, mm, depth - 1, wild)));
                }
            }
        }
    }
    out
}

// ------------------------------------------------------------------ structured values

pub fn rand_term(rng: &mut Rng, depth: usize) -> schema::TermV2 {
    use schema::term_v2::Content as C;
    let k = if depth == 0 { rng.below(8) } else { rng.below(12) };
    let content = match k {
        0 => Some(C::Variable(rand_varint(rng) as u32)),
        1 => Some(C::Integer(rand_varint(rng) as i64)),
        2 => Some(C::String(rand_varint(rng))),
        3 => Some(C::Date(rand_varint(rng))),
        4 => Some(C::Bytes(rand_bytes(rng))),
        5 => Some(C::Bool(rng.chance(1, 2))),
        6 => Some(C::Null(schema::Empty {})),
        7 => None,
        8 => Some(C::Set(schema::TermSet { set: (0..rng.below(4)).map(|_| rand_term(rng, depth - 1)).collect() })),
        9 | 10 => Some(C::Array(schema::Array { array: (0..rng.below(4)).map(|_| rand_term(rng, depth - 1)).collect() })),
        _ => Some(C::Map(schema::Map {
            entries: (0..rng.below(4))
                .map(|_| schema::MapEntry {
                    key: schema::MapKey {
                        content: match rng.below(3) {
                            0 => None,
                            1 => Some(schema::map_key::Content::Integer(rand_varint(rng) as i64)),
                            _ => Some(schema::map_key::Content::String(rand_varint(rng))),
                        },
                    },
                    value: rand_term(rng, depth - 1),
                })
                .collect(),
        })),
    };
    schema::TermV2 { content }
}
pub fn rand_op(rng: &mut Rng, depth: usize) -> schema::Op {
    use schema::op::Content as C;
    let content = match rng.below(if depth == 0 { 4 } else { 5 }) {
        0 => Some(C::Value(rand_term(rng, depth.min(2)))),
        1 => Some(C::Unary(schema::OpUnary { kind: rng.range(-1, 6) as i32, ffi_name: if rng.chance(1, 3) { Some(rand_varint(rng)) } else { None } })),
        2 => Some(C::Binary(schema::OpBinary { kind: rng.range(-1, 30) as i32, ffi_name: if rng.chance(1, 3) { Some(rand_varint(rng)) } else { None } })),
        3 => None,
        _ => Some(C::Closure(schema::OpClosure {
            params: (0..rng.below(3)).map(|_| rand_varint(rng) as u32).collect(),
            ops: (0..rng.below(4)).map(|_| rand_op(rng, depth - 1)).collect(),
        })),
    };
    schema::Op { content }
}
pub fn rand_scope(rng: &mut Rng) -> schema::Scope {
    schema::Scope {
        content: match rng.below(4) {
            0 => None,
            1 => Some(schema::scope::Content::ScopeType(rng.range(-1, 3) as i32)),
            2 => Some(schema::scope::Content::ScopeType(rand_varint(rng) as i32)),
            _ => Some(schema::scope::Content::PublicKey(rand_varint(rng) as i64)),
        },
    }
}
pub fn rand_pred(rng: &mut Rng, depth: usize) -> schema::PredicateV2 {
    schema::PredicateV2 { name: rand_varint(rng), terms: (0..rng.below(4)).map(|_| rand_term(rng, depth)).collect() }
}
pub fn rand_rule(rng: &mut Rng, depth: usize) -> schema::RuleV2 {
    schema::RuleV2 {
        head: rand_pred(rng, depth),
        body: (0..rng.below(3)).map(|_| rand_pred(rng, depth)).collect(),
        expressions: (0..rng.below(3)).map(|_| schema::ExpressionV2 { ops: (0..rng.below(5)).map(|_| rand_op(rng, depth)).collect() }).collect(),
        scope: (0..rng.below(3)).map(|_| rand_scope(rng)).collect(),
    }
}
pub fn rand_block(rng: &mut Rng, depth: usize) -> schema::Block {
    schema::Block {
        symbols: (0..rng.below(4)).map(|_| String::from_utf8_lossy(&rand_str(rng)).into_owned()).collect(),
        context: if rng.chance(1, 3) { Some(String::from_utf8_lossy(&rand_str(rng)).into_owned()) } else { None },
        version: match rng.below(4) { 0 => None, 1 => Some(3 + rng.below(4) as u32), _ => Some(rand_varint(rng) as u32) },
        facts_v2: (0..rng.below(4)).map(|_| schema::FactV2 { predicate: rand_pred(rng, depth) }).collect(),
        rules_v2: (0..rng.below(3)).map(|_| rand_rule(rng, depth)).collect(),
        checks_v2: (0..rng.below(3))
            .map(|_| schema::CheckV2 {
                queries: (0..rng.below(3)).map(|_| rand_rule(rng, depth)).collect(),
                kind: match rng.below(4) { 0 => None, 1 => Some(rng.range(-1, 4) as i32), _ => Some(rand_varint(rng) as i32) },
            })
            .collect(),
        scope: (0..rng.below(3)).map(|_| rand_scope(rng)).collect(),
        public_keys: (0..rng.below(3)).map(|_| schema::PublicKey { algorithm: rng.range(-1, 3) as i32, key: rand_bytes(rng) }).collect(),
    }
}

// ------------------------------------------------------------------ nesting probes

/// A fact `p(<term>)` whose term nests `levels` collections of `kind` (0 set, 1 array, 2 map,
/// 3 alternating) around `leaf` (raw fields of the innermost TermV2).
pub fn nested_term(kind: u64, levels: usize, leaf: Vec<Raw>) -> Vec<Raw> {
    let mut t = leaf;
    for i in 0..levels {
        // kind 4: sets with one map outermost (an odd budget), kind 5: arrays with one map innermost
        let k = if kind == 3 { (i % 3) as u64 } else if kind == 4 { if i + 1 == levels { 2 } else { 0 } } else if kind == 5 { if i == 0 { 2 } else { 1 } } else { kind };
        t = match k {
            0 => vec![Raw::Msg(7, vec![Raw::Msg(1, t)])],
            1 => vec![Raw::Msg(9, vec![Raw::Msg(1, t)])],
            _ => vec![Raw::Msg(10, vec![Raw::Msg(1, vec![Raw::Msg(1, vec![Raw::Var(1, 1)]), Raw::Msg(2, t)])])],
        };
    }
    t
}
pub fn fact_block(term: Vec<Raw>) -> Vec<u8> {
    pb_encode(&[Raw::Var(3, 6), Raw::Msg(4, vec![Raw::Msg(1, vec![Raw::Var(1, 1), Raw::Msg(2, term)])])])
}
/// A rule `h() <- <expr>` whose single expression nests `levels` closures around `leaf`
/// (raw fields of the innermost Op).
pub fn nested_closure_block(levels: usize, leaf: Vec<Raw>) -> Vec<u8> {
    let mut o = leaf;
    for _ in 0..levels {
        o = vec![Raw::Msg(4, vec![Raw::Var(1, 0), Raw::Msg(2, o)])];
    }
    pb_encode(&[Raw::Var(3, 6), Raw::Msg(5, vec![Raw::Msg(1, vec![Raw::Var(1, 1)]), Raw::Msg(3, vec![Raw::Msg(1, o)])])])
}

pub fn depth_probes() -> Vec<(String, Vec<u8>)> {
    let mut v = vec![];
    let leaves: Vec<(&str, Vec<Raw>)> = vec![
        ("int", vec![Raw::Var(2, 5)]),
        ("empty", vec![]),
        ("null", vec![Raw::Msg(8, vec![])]),
        ("unknown", vec![Raw::Var(12, 5)]),
        ("unknown-len", vec![Raw::Len(13, vec![1])]),
        ("int-then-unknown", vec![Raw::Var(2, 5), Raw::Var(12, 5)]),
        ("group", vec![Raw::Group(14, vec![])]),
        ("bytes", vec![Raw::Len(5, vec![9, 9])]),
    ];
    for kind in 0..6u64 {
        let per: usize = if kind == 2 { 3 } else if kind == 3 { 7 } else { 2 };
        let around: Vec<usize> = if kind >= 4 { (44..52).collect() } else if kind == 3 { vec![36, 37, 38, 39, 40, 41, 42, 43, 44, 45] } else { let c: usize = 96 / per; (c.saturating_sub(3)..c + 4).collect::<Vec<usize>>() };
        for levels in around {
            for (ln, leaf) in &leaves {
                v.push((format!("nest kind={} levels={} leaf={}", kind, levels, ln), fact_block(nested_term(kind, levels, leaf.clone()))));
            }
        }
    }
    let op_leaves: Vec<(&str, Vec<Raw>)> = vec![
        ("value-int", vec![Raw::Msg(1, vec![Raw::Var(2, 5)])]),
        ("empty", vec![]),
        ("unary", vec![Raw::Msg(2, vec![Raw::Var(1, 0)])]),
        ("unknown", vec![Raw::Var(9, 1)]),
        ("value-set", vec![Raw::Msg(1, vec![Raw::Msg(7, vec![Raw::Msg(1, vec![Raw::Var(2, 1)])])])]),
        ("value-null", vec![Raw::Msg(1, vec![Raw::Msg(8, vec![])])]),
        ("value-unknown", vec![Raw::Msg(1, vec![Raw::Var(12, 5)])]),
        ("value-int-unknown", vec![Raw::Msg(1, vec![Raw::Var(2, 5), Raw::Len(13, vec![])])]),
        ("unary-unknown", vec![Raw::Msg(2, vec![Raw::Var(1, 0), Raw::Var(7, 1)])]),
    ];
    for levels in 42..52 {
        for (ln, leaf) in &op_leaves {
            v.push((format!("closures levels={} leaf={}", levels, ln), nested_closure_block(levels, leaf.clone())));
        }
    }
    v
}

/// Hand-written merge probes: what prost does with a oneof seen several times, with a
/// required message seen twice, with packed and unpacked repeated scalars, with lengths that
/// lie, with overlong varints.
pub fn merge_probes() -> Vec<(String, Vec<u8>)> {
    let term_in_fact = |t: Vec<Raw>| fact_block(t);
    let mut v: Vec<(String, Vec<u8>)> = vec![];
    let set = |xs: Vec<u64>| Raw::Msg(7, xs.into_iter().map(|x| Raw::Msg(1, vec![Raw::Var(2, x)])).collect());
    let arr = |xs: Vec<u64>| Raw::Msg(9, xs.into_iter().map(|x| Raw::Msg(1, vec![Raw::Var(2, x)])).collect());
    v.push(("set twice merges".into(), term_in_fact(vec![set(vec![1]), set(vec![2])])));
    v.push(("set array set".into(), term_in_fact(vec![set(vec![1]), arr(vec![2]), set(vec![3])])));
    v.push(("array twice".into(), term_in_fact(vec![arr(vec![1]), arr(vec![2, 3])])));
    v.push(("int then set".into(), term_in_fact(vec![Raw::Var(2, 1), set(vec![2])])));
    v.push(("set then int".into(), term_in_fact(vec![set(vec![2]), Raw::Var(2, 1)])));
    v.push(("null twice".into(), term_in_fact(vec![Raw::Msg(8, vec![]), Raw::Msg(8, vec![Raw::Var(3, 1)])])));
    v.push(("null with group".into(), term_in_fact(vec![Raw::Msg(8, vec![Raw::Group(2, vec![Raw::Var(1, 1)])])])));
    v.push(("null bad wire".into(), term_in_fact(vec![Raw::Var(8, 0)])));
    v.push(("bool 2".into(), term_in_fact(vec![Raw::Var(6, 2)])));
    v.push(("bool max".into(), term_in_fact(vec![Raw::Var(6, u64::MAX)])));
    v.push(("variable big".into(), term_in_fact(vec![Raw::Var(1, (1 << 32) + 7)])));
    let entry = |k: Vec<Raw>, val: Vec<Raw>| Raw::Msg(1, vec![Raw::Msg(1, k), Raw::Msg(2, val)]);
    v.push(("map twice".into(), term_in_fact(vec![Raw::Msg(10, vec![entry(vec![Raw::Var(1, 1)], vec![Raw::Var(2, 1)])]), Raw::Msg(10, vec![entry(vec![Raw::Var(2, 5)], vec![Raw::Var(6, 1)])])])));
    v.push(("map entry key twice".into(), term_in_fact(vec![Raw::Msg(10, vec![Raw::Msg(1, vec![Raw::Msg(1, vec![Raw::Var(1, 1)]), Raw::Msg(1, vec![Raw::Var(2, 9)]), Raw::Msg(2, vec![set(vec![1])]), Raw::Msg(2, vec![set(vec![2])])])])])));
    v.push(("map entry empty".into(), term_in_fact(vec![Raw::Msg(10, vec![Raw::Msg(1, vec![])])])));
    // required predicate seen twice in a fact: merged
    v.push(("fact predicate twice".into(), pb_encode(&[Raw::Msg(4, vec![Raw::Msg(1, vec![Raw::Var(1, 1), Raw::Msg(2, vec![Raw::Var(2, 1)])]), Raw::Msg(1, vec![Raw::Msg(2, vec![Raw::Var(2, 2)])])])])));
    v.push(("rule head twice".into(), pb_encode(&[Raw::Msg(5, vec![Raw::Msg(1, vec![Raw::Var(1, 1)]), Raw::Msg(2, vec![Raw::Var(1, 2)]), Raw::Msg(1, vec![Raw::Var(1, 3), Raw::Msg(2, vec![Raw::Var(1, 0)])])])])));
    // ops
    let expr_block = |ops: Vec<Vec<Raw>>| pb_encode(&[Raw::Msg(5, vec![Raw::Msg(1, vec![Raw::Var(1, 1)]), Raw::Msg(3, ops.into_iter().map(|o| Raw::Msg(1, o)).collect())])]);
    v.push(("op value twice".into(), expr_block(vec![vec![Raw::Msg(1, vec![set(vec![1])]), Raw::Msg(1, vec![set(vec![2])])]])));
    v.push(("op unary twice".into(), expr_block(vec![vec![Raw::Msg(2, vec![Raw::Var(1, 4), Raw::Var(2, 7)]), Raw::Msg(2, vec![Raw::Var(1, 1)])]])));
    v.push(("op unary binary unary".into(), expr_block(vec![vec![Raw::Msg(2, vec![Raw::Var(2, 7)]), Raw::Msg(3, vec![Raw::Var(1, 28)]), Raw::Msg(2, vec![Raw::Var(1, 1)])]])));
    v.push(("op kind negative".into(), expr_block(vec![vec![Raw::Msg(3, vec![Raw::Var(1, u64::MAX)])], vec![Raw::Msg(2, vec![Raw::Var(1, (1 << 32) + 3)])]])));
    v.push(("closure twice".into(), expr_block(vec![vec![Raw::Msg(4, vec![Raw::Var(1, 1), Raw::Msg(2, vec![])]), Raw::Msg(4, vec![Raw::Var(1, 2)])]])));
    let mut packed = vec![];
    pb_varint(3, &mut packed);
    pb_varint((1 << 32) + 4, &mut packed);
    pb_varint_padded(5, 2, &mut packed);
    v.push(("closure packed params".into(), expr_block(vec![vec![Raw::Msg(4, vec![Raw::Var(1, 1), Raw::Len(1, packed.clone()), Raw::Var(1, 9)])]])));
    let mut bad_packed = packed.clone();
    bad_packed.push(0x80);
    v.push(("closure packed truncated".into(), expr_block(vec![vec![Raw::Msg(4, vec![Raw::Len(1, bad_packed)])]])));
    v.push(("closure packed empty".into(), expr_block(vec![vec![Raw::Msg(4, vec![Raw::Len(1, vec![])])]])));
    // block level
    v.push(("version twice".into(), pb_encode(&[Raw::Var(3, 3), Raw::Var(3, (1 << 32) + 6)])));
    v.push(("context twice".into(), pb_encode(&[Raw::Len(2, b"a".to_vec()), Raw::Len(2, b"b".to_vec())])));
    v.push(("symbol invalid utf8".into(), pb_encode(&[Raw::Len(1, vec![0xc3])])));
    v.push(("context invalid utf8".into(), pb_encode(&[Raw::Len(2, vec![0xed, 0xa0, 0x80])])));
    v.push(("symbol as varint".into(), pb_encode(&[Raw::Var(1, 3)])));
    v.push(("check kind twice".into(), pb_encode(&[Raw::Msg(6, vec![Raw::Var(2, 1), Raw::Var(2, 2)])])));
    v.push(("scope both".into(), pb_encode(&[Raw::Msg(7, vec![Raw::Var(1, 1), Raw::Var(2, u64::MAX)]), Raw::Msg(7, vec![Raw::Var(2, 4), Raw::Var(1, 0)])])));
    v.push(("key twice".into(), pb_encode(&[Raw::Msg(8, vec![Raw::Var(1, 1), Raw::Len(2, vec![1]), Raw::Var(1, 0)])])));
    // lying lengths and overlong varints
    let good = fact_block(vec![set(vec![1, 2])]);
    for cut in 1..good.len() {
        v.push((format!("truncated {}", cut), good[..cut].to_vec()));
    }
    let mut over = vec![];
    pb_varint_padded((3 << 3) | 0, 1, &mut over);
    pb_varint_padded(6, 8, &mut over);
    v.push(("overlong key and value".into(), over));
    let mut over10 = vec![0x18];
    over10.extend([0xff, 0xff, 0xff, 0xff, 0xff, 0xff, 0xff, 0xff, 0xff, 0x02]);
    v.push(("varint tenth byte 2".into(), over10));
    let mut over11 = vec![0x18];
    over11.extend([0x80, 0x80, 0x80, 0x80, 0x80, 0x80, 0x80, 0x80, 0x80, 0x80, 0x00]);
    v.push(("varint 11 bytes".into(), over11));
    v.push(("tag zero".into(), vec![0x00, 0x00]));
    v.push(("wire type 6".into(), vec![0x0e, 0x00]));
    v.push(("key too large".into(), { let mut b = vec![]; pb_varint(1u64 << 32, &mut b); b.push(0); b }));
    v.push(("end group alone".into(), pb_encode(&[Raw::EndGroup(3)])));
    v.push(("group mismatched".into(), { let mut b = vec![]; pb_varint((11 << 3) | 3, &mut b); pb_varint((12 << 3) | 4, &mut b); b }));
    v
}

/// Byte-level mutations of a valid encoding.
pub fn mutate(rng: &mut Rng, b: &[u8]) -> Vec<u8> {
    let mut v = b.to_vec();
    if v.is_empty() {
        return vec![rng.next() as u8];
    }
    match rng.below(6) {
        0 => {
            let i = rng.below(v.len() as u64) as usize;
            v[i] ^= 1 << rng.below(8);
        }
        1 => {
            let i = rng.below(v.len() as u64) as usize;
            v[i] = rng.next() as u8;
        }
        2 => {
            let i = rng.below(v.len() as u64) as usize;
            v.remove(i);
        }
        3 => {
            let i = rng.below(v.len() as u64 + 1) as usize;
            v.insert(i, rng.next() as u8);
        }
        4 => {
            let i = rng.below(v.len() as u64) as usize;
            v.truncate(i);
        }
        _ => {
            // duplicate a slice (often a whole field)
            let i = rng.below(v.len() as u64) as usize;
            let j = i + rng.below((v.len() - i) as u64 + 1) as usize;
            let s = v[i..j].to_vec();
            let at = rng.below(v.len() as u64 + 1) as usize;
            for (k, x) in s.into_iter().enumerate() {
                v.insert(at + k, x);
            }
        }
    }
    v
}

/// The `block` payloads of the conformance samples (and of their third-party blocks).
pub fn sample_blocks(dir: &str) -> Vec<(String, Vec<u8>)> {
    let mut out = vec![];
    let mut names: Vec<std::path::PathBuf> = match std::fs::read_dir(dir) {
        Ok(rd) => rd.filter_map(|e| e.ok().map(|e| e.path())).filter(|p| p.extension().map(|x| x == "bc").unwrap_or(false)).collect(),
        Err(_) => vec![],
    };
    names.sort();
    for p in names {
        if let Ok(bytes) = std::fs::read(&p) {
            if let Ok(t) = schema::Biscuit::decode(&bytes[..]) {
                let name = p.file_name().unwrap().to_string_lossy().to_string();
                out.push((format!("{} authority", name), t.authority.block.clone()));
                for (i, b) in t.blocks.iter().enumerate() {
                    out.push((format!("{} block {}", name, i + 1), b.block.clone()));
                }
            }
        }
    }
    out
}

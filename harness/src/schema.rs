//! Schema / language-version family (C16): block contents per feature and position built
//! through the public builder API, decoded back from the serialized token, re-versioned and
//! re-signed blocks, key-algorithm sequences; Gallina/OCaml output for Model/SchemaCases.v.
use crate::expr::{Bin, Op, Un};
use crate::*;
use biscuit_auth::builder::{self, Algorithm};
use biscuit_auth::datalog::SymbolTable;
use biscuit_auth::format::schema;
use biscuit_auth::{Biscuit, BiscuitBuilder, BlockBuilder, KeyPair, PublicKey};
use prost::Message;
use std::collections::{BTreeMap, BTreeSet};

// ---------------------------------------------------------------- harness-side block syntax

#[derive(Clone, Debug, PartialEq)]
pub enum T {
    Var(u32),
    Val(V),
}
#[derive(Clone, Debug, PartialEq)]
pub struct P {
    pub name: String,
    pub terms: Vec<T>,
}
#[derive(Clone, Debug, PartialEq)]
pub enum Sc {
    Authority,
    Previous,
    Key(usize),
}
#[derive(Clone, Debug, PartialEq)]
pub struct R {
    pub head: P,
    pub body: Vec<P>,
    pub exprs: Vec<Vec<Op>>,
    pub scopes: Vec<Sc>,
}
#[derive(Clone, Copy, Debug, PartialEq)]
pub enum CK {
    One,
    All,
    Reject,
}
#[derive(Clone, Debug, PartialEq)]
pub struct Ck {
    pub queries: Vec<R>,
    pub kind: CK,
}
/// One block content; `source` (when set) is Datalog text added through `.code()` on top.
#[derive(Clone, Debug, PartialEq, Default)]
pub struct Blk {
    pub facts: Vec<P>,
    pub rules: Vec<R>,
    pub checks: Vec<Ck>,
    pub scopes: Vec<Sc>,
    pub source: Option<String>,
    pub label: String,
}

/// Public keys a `trusting <key>` scope may name (fixed, derived from a fixed seed).
pub fn scope_keys() -> Vec<PublicKey> {
    let mut rng = Rng::new(0xC16);
    (0..3)
        .map(|i| {
            KeyPair::new_with_rng(
                if i == 2 { Algorithm::Secp256r1 } else { Algorithm::Ed25519 },
                &mut rng,
            )
            .public()
        })
        .collect()
}

fn b_key(k: &K) -> builder::MapKey {
    match k {
        K::Int(i) => builder::MapKey::Integer(*i),
        K::Str(s) => builder::MapKey::Str(s.clone()),
        K::Unk(i) => builder::MapKey::Str(format!("unk{}", i)),
    }
}
pub fn b_value(v: &V) -> builder::Term {
    match v {
        V::Int(i) => builder::Term::Integer(*i),
        V::Str(s) => builder::Term::Str(s.clone()),
        V::Unk(i) => builder::Term::Str(format!("unk{}", i)),
        V::Date(d) => builder::Term::Date(*d),
        V::Bytes(b) => builder::Term::Bytes(b.clone()),
        V::Bool(b) => builder::Term::Bool(*b),
        V::Set(l) => builder::Term::Set(l.iter().map(b_value).collect::<BTreeSet<_>>()),
        V::Null => builder::Term::Null,
        V::Array(l) => builder::Term::Array(l.iter().map(b_value).collect()),
        V::Map(m) => builder::Term::Map(
            m.iter().map(|(k, v)| (b_key(k), b_value(v))).collect::<BTreeMap<_, _>>(),
        ),
    }
}
fn b_term(t: &T) -> builder::Term {
    match t {
        T::Var(x) => builder::Term::Variable(format!("v{}", x)),
        T::Val(v) => b_value(v),
    }
}
fn b_pred(p: &P) -> builder::Predicate {
    builder::Predicate::new(p.name.clone(), p.terms.iter().map(b_term).collect::<Vec<_>>())
}
fn b_op(o: &Op) -> builder::Op {
    match o {
        Op::Val(v) => builder::Op::Value(b_value(v)),
        Op::Var(x) => builder::Op::Value(builder::Term::Variable(format!("v{}", x))),
        Op::Un(u) => builder::Op::Unary(match u {
            Un::Negate => builder::Unary::Negate,
            Un::Parens => builder::Unary::Parens,
            Un::Length => builder::Unary::Length,
            Un::TypeOf => builder::Unary::TypeOf,
            Un::Ffi(n) => builder::Unary::Ffi(n.clone()),
            Un::FfiUnk(i) => builder::Unary::Ffi(format!("unk{}", i)),
        }),
        Op::Bin(b) => builder::Op::Binary(match b {
            Bin::LessThan => builder::Binary::LessThan,
            Bin::GreaterThan => builder::Binary::GreaterThan,
            Bin::LessOrEqual => builder::Binary::LessOrEqual,
            Bin::GreaterOrEqual => builder::Binary::GreaterOrEqual,
            Bin::Equal => builder::Binary::Equal,
            Bin::Contains => builder::Binary::Contains,
            Bin::Prefix => builder::Binary::Prefix,
            Bin::Suffix => builder::Binary::Suffix,
            Bin::Regex => builder::Binary::Regex,
            Bin::Add => builder::Binary::Add,
            Bin::Sub => builder::Binary::Sub,
            Bin::Mul => builder::Binary::Mul,
            Bin::Div => builder::Binary::Div,
            Bin::And => builder::Binary::And,
            Bin::Or => builder::Binary::Or,
            Bin::Intersection => builder::Binary::Intersection,
            Bin::Union => builder::Binary::Union,
            Bin::BitwiseAnd => builder::Binary::BitwiseAnd,
            Bin::BitwiseOr => builder::Binary::BitwiseOr,
            Bin::BitwiseXor => builder::Binary::BitwiseXor,
            Bin::NotEqual => builder::Binary::NotEqual,
            Bin::HeterogeneousEqual => builder::Binary::HeterogeneousEqual,
            Bin::HeterogeneousNotEqual => builder::Binary::HeterogeneousNotEqual,
            Bin::LazyAnd => builder::Binary::LazyAnd,
            Bin::LazyOr => builder::Binary::LazyOr,
            Bin::All => builder::Binary::All,
            Bin::Any => builder::Binary::Any,
            Bin::Get => builder::Binary::Get,
            Bin::Ffi(n) => builder::Binary::Ffi(n.clone()),
            Bin::FfiUnk(i) => builder::Binary::Ffi(format!("unk{}", i)),
        }),
        Op::Clo(ps, body) => builder::Op::Closure(
            ps.iter().map(|p| format!("p{}", p)).collect(),
            body.iter().map(b_op).collect(),
        ),
    }
}
fn b_scope(s: &Sc, keys: &[PublicKey]) -> builder::Scope {
    match s {
        Sc::Authority => builder::Scope::Authority,
        Sc::Previous => builder::Scope::Previous,
        Sc::Key(i) => builder::Scope::PublicKey(keys[*i % keys.len()]),
    }
}
fn b_rule(r: &R, keys: &[PublicKey]) -> builder::Rule {
    builder::Rule::new(
        b_pred(&r.head),
        r.body.iter().map(b_pred).collect(),
        r.exprs
            .iter()
            .map(|e| builder::Expression { ops: e.iter().map(b_op).collect() })
            .collect(),
        r.scopes.iter().map(|s| b_scope(s, keys)).collect(),
    )
}

/// The content as a `BlockBuilder` (public builder API only).
pub fn block_builder(b: &Blk, keys: &[PublicKey]) -> Result<BlockBuilder, String> {
    let mut bb = BlockBuilder::new();
    for f in &b.facts {
        let terms: Vec<builder::Term> = f.terms.iter().map(b_term).collect();
        bb = bb.fact(builder::Fact::new(f.name.clone(), terms)).map_err(|e| format!("{:?}", e))?;
    }
    for r in &b.rules {
        bb = bb.rule(b_rule(r, keys)).map_err(|e| format!("{:?}", e))?;
    }
    for c in &b.checks {
        let ck = builder::Check {
            queries: c.queries.iter().map(|q| b_rule(q, keys)).collect(),
            kind: match c.kind {
                CK::One => builder::CheckKind::One,
                CK::All => builder::CheckKind::All,
                CK::Reject => builder::CheckKind::Reject,
            },
        };
        bb = bb.check(ck).map_err(|e| format!("{:?}", e))?;
    }
    for s in &b.scopes {
        bb = bb.scope(b_scope(s, keys));
    }
    if let Some(src) = &b.source {
        bb = bb.code(src).map_err(|e| format!("{:?}", e))?;
    }
    Ok(bb)
}

// ---------------------------------------------------------------- decoded block -> model term

/// Names of the symbols a decoded block refers to: the default table, then `custom`
/// (index 1024 onwards).
pub struct Names {
    table: SymbolTable,
}
impl Names {
    pub fn new(custom: &[String]) -> Names {
        let mut table = SymbolTable::new();
        for s in custom {
            table.insert(s);
        }
        Names { table }
    }
    fn get(&self, i: u64) -> Option<String> {
        self.table.get_symbol(i).map(|s| s.to_string())
    }
}

fn g_sym(i: u64, n: &Names) -> G {
    match n.get(i) {
        Some(s) => c("Sym", vec![gstr(&s)]),
        None => c("SymUnk", vec![G::N(i)]),
    }
}

/// A proto term as a model `value`; a variable has no counterpart there.
fn g_pvalue(t: &schema::TermV2, n: &Names) -> Result<G, String> {
    use schema::term_v2::Content;
    Ok(match t.content.as_ref().ok_or("empty term")? {
        Content::Variable(_) => return Err("variable nested in a value".into()),
        Content::Integer(i) => c("VInt", vec![G::Z(*i as i128)]),
        Content::String(i) => match n.get(*i) {
            Some(s) => c("VStr", vec![gstr(&s)]),
            None => c("VUnk", vec![G::N(*i)]),
        },
        Content::Date(d) => c("VDate", vec![G::Z(*d as i128)]),
        Content::Bytes(b) => c("VBytes", vec![gbytes(b)]),
        Content::Bool(b) => c("VBool", vec![G::B(*b)]),
        Content::Set(s) => c(
            "VSet",
            vec![G::L(s.set.iter().map(|x| g_pvalue(x, n)).collect::<Result<Vec<_>, _>>()?)],
        ),
        Content::Null(_) => c0("VNull"),
        Content::Array(a) => c(
            "VArray",
            vec![G::L(a.array.iter().map(|x| g_pvalue(x, n)).collect::<Result<Vec<_>, _>>()?)],
        ),
        Content::Map(m) => {
            let mut l = vec![];
            for e in &m.entries {
                let k = match e.key.content.as_ref().ok_or("empty key")? {
                    schema::map_key::Content::Integer(i) => c("KInt", vec![G::Z(*i as i128)]),
                    schema::map_key::Content::String(i) => match n.get(*i) {
                        Some(s) => c("KStr", vec![gstr(&s)]),
                        None => c("KUnk", vec![G::N(*i)]),
                    },
                };
                l.push(G::T(vec![k, g_pvalue(&e.value, n)?]));
            }
            c("VMap", vec![G::L(l)])
        }
    })
}
fn g_pterm(t: &schema::TermV2, n: &Names) -> Result<G, String> {
    if let Some(schema::term_v2::Content::Variable(x)) = t.content.as_ref() {
        Ok(c("TVar", vec![G::N(*x as u64)]))
    } else {
        Ok(c("TVal", vec![g_pvalue(t, n)?]))
    }
}
fn g_ppred(p: &schema::PredicateV2, n: &Names) -> Result<G, String> {
    Ok(rec(
        "mkpred",
        vec![
            ("pname", g_sym(p.name, n)),
            ("pargs", G::L(p.terms.iter().map(|t| g_pterm(t, n)).collect::<Result<Vec<_>, _>>()?)),
        ],
    ))
}
/// Operator numbering of the wire format (schema.proto), written here independently.
const BINARY_KINDS: [&str; 28] = [
    "BLessThan", "BGreaterThan", "BLessOrEqual", "BGreaterOrEqual", "BEqual", "BContains", "BPrefix",
    "BSuffix", "BRegex", "BAdd", "BSub", "BMul", "BDiv", "BAnd", "BOr", "BIntersection", "BUnion",
    "BBitwiseAnd", "BBitwiseOr", "BBitwiseXor", "BNotEqual", "BHeterogeneousEqual",
    "BHeterogeneousNotEqual", "BLazyAnd", "BLazyOr", "BAll", "BAny", "BGet",
];
const UNARY_KINDS: [&str; 4] = ["UNegate", "UParens", "ULength", "UTypeOf"];

fn g_pop(o: &schema::Op, n: &Names) -> Result<G, String> {
    use schema::op::Content;
    Ok(match o.content.as_ref().ok_or("empty op")? {
        Content::Value(t) => {
            if let Some(schema::term_v2::Content::Variable(x)) = t.content.as_ref() {
                c("OVar", vec![G::N(*x as u64)])
            } else {
                c("OVal", vec![g_pvalue(t, n)?])
            }
        }
        Content::Unary(u) => {
            let k = u.kind as usize;
            if k < 4 {
                c("OUn", vec![c0(UNARY_KINDS[k])])
            } else if k == 4 {
                let id = u.ffi_name.ok_or("ffi name")?;
                match n.get(id) {
                    Some(s) => c("OUn", vec![c("UFfi", vec![gstr(&s)])]),
                    None => c("OUn", vec![c("UFfiUnk", vec![G::N(id)])]),
                }
            } else {
                return Err("unary kind".into());
            }
        }
        Content::Binary(b) => {
            let k = b.kind as usize;
            if k < 28 {
                c("OBin", vec![c0(BINARY_KINDS[k])])
            } else if k == 28 {
                let id = b.ffi_name.ok_or("ffi name")?;
                match n.get(id) {
                    Some(s) => c("OBin", vec![c("BFfi", vec![gstr(&s)])]),
                    None => c("OBin", vec![c("BFfiUnk", vec![G::N(id)])]),
                }
            } else {
                return Err("binary kind".into());
            }
        }
        Content::Closure(cl) => c(
            "OClo",
            vec![
                G::L(cl.params.iter().map(|p| G::N(*p as u64)).collect()),
                G::L(cl.ops.iter().map(|x| g_pop(x, n)).collect::<Result<Vec<_>, _>>()?),
            ],
        ),
    })
}
fn g_pscope(s: &schema::Scope) -> Result<G, String> {
    Ok(match s.content.as_ref().ok_or("empty scope")? {
        schema::scope::Content::ScopeType(0) => c0("ScAuthority"),
        schema::scope::Content::ScopeType(1) => c0("ScPrevious"),
        schema::scope::Content::ScopeType(_) => return Err("scope type".into()),
        schema::scope::Content::PublicKey(k) => c("ScKey", vec![G::N(*k as u64)]),
    })
}
fn g_prule(r: &schema::RuleV2, n: &Names) -> Result<G, String> {
    Ok(rec(
        "mkrule",
        vec![
            ("rhead", g_ppred(&r.head, n)?),
            ("rbody", G::L(r.body.iter().map(|p| g_ppred(p, n)).collect::<Result<Vec<_>, _>>()?)),
            (
                "rexprs",
                G::L(
                    r.expressions
                        .iter()
                        .map(|e| {
                            Ok(G::L(e.ops.iter().map(|o| g_pop(o, n)).collect::<Result<Vec<_>, String>>()?))
                        })
                        .collect::<Result<Vec<_>, String>>()?,
                ),
            ),
            ("rscopes", G::L(r.scope.iter().map(g_pscope).collect::<Result<Vec<_>, _>>()?)),
        ],
    ))
}
/// The decoded block as a model `wblock` whose `wversion` is `version`.
pub fn g_wblock(b: &schema::Block, version: u64, n: &Names) -> Result<G, String> {
    let mut facts = vec![];
    for f in &b.facts_v2 {
        facts.push(rec(
            "mkfact",
            vec![
                ("fname", g_sym(f.predicate.name, n)),
                (
                    "fargs",
                    G::L(f.predicate.terms.iter().map(|t| g_pvalue(t, n)).collect::<Result<Vec<_>, _>>()?),
                ),
            ],
        ));
    }
    let rules = b.rules_v2.iter().map(|r| g_prule(r, n)).collect::<Result<Vec<_>, _>>()?;
    let mut checks = vec![];
    for ck in &b.checks_v2 {
        checks.push(rec(
            "mkwcheck",
            vec![
                ("wqueries", G::L(ck.queries.iter().map(|r| g_prule(r, n)).collect::<Result<Vec<_>, _>>()?)),
                ("wkind", gopt(ck.kind.map(|k| G::N(k as u32 as u64)))),
            ],
        ));
    }
    let scopes = b.scope.iter().map(g_pscope).collect::<Result<Vec<_>, _>>()?;
    Ok(rec(
        "mkwblock",
        vec![
            ("wfacts", G::L(facts)),
            ("wrules", G::L(rules)),
            ("wchecks", G::L(checks)),
            ("wscopes", G::L(scopes)),
            ("wversion", G::N(version)),
        ],
    ))
}

// ---------------------------------------------------------------- building through the API

#[derive(Clone, Copy, Debug, PartialEq, Eq, PartialOrd, Ord)]
pub enum Pos {
    Authority,
    First,
    Third,
}

pub fn kp(alg: Algorithm, rng: &mut Rng) -> KeyPair {
    KeyPair::new_with_rng(alg, rng)
}

/// A token whose block at `pos` has the given content, built with the public API only.
pub struct Built {
    pub token: Biscuit,
    pub index: usize,
    pub root: KeyPair,
    /// next key of the authority block (signs block 1)
    pub k1: KeyPair,
    /// next key of block 1, when there is one
    pub k2: Option<KeyPair>,
    pub ext: Option<KeyPair>,
    /// the one-block token the second block was appended to
    pub base: Option<Biscuit>,
}

pub fn build_at(b: &Blk, pos: Pos, rng: &mut Rng) -> Result<Built, String> {
    let keys = scope_keys();
    let bb = block_builder(b, &keys)?;
    let root = kp(Algorithm::Ed25519, rng);
    let k1 = kp(Algorithm::Ed25519, rng);
    match pos {
        Pos::Authority => {
            let token = BiscuitBuilder::new()
                .merge(bb)
                .build_with_key_pair(&root, SymbolTable::new(), &k1)
                .map_err(|e| format!("{:?}", e))?;
            Ok(Built { token, index: 0, root, k1, k2: None, ext: None, base: None })
        }
        Pos::First | Pos::Third => {
            let base = BiscuitBuilder::new()
                .fact("base(\"own symbol\")")
                .map_err(|e| format!("{:?}", e))?
                .build_with_key_pair(&root, SymbolTable::new(), &k1)
                .map_err(|e| format!("{:?}", e))?;
            let k2 = kp(Algorithm::Ed25519, rng);
            if pos == Pos::First {
                let token = base.append_with_keypair(&k2, bb).map_err(|e| format!("{:?}", e))?;
                Ok(Built { token, index: 1, root, k1, k2: Some(k2), ext: None, base: Some(base) })
            } else {
                let ext = kp(Algorithm::Ed25519, rng);
                let req = base.third_party_request().map_err(|e| format!("{:?}", e))?;
                let tp = req.create_block(&ext.private(), bb).map_err(|e| format!("{:?}", e))?;
                let token = base
                    .append_third_party_with_keypair(ext.public(), tp, KeyPair::from(&k2.private()))
                    .map_err(|e| format!("{:?}", e))?;
                Ok(Built { token, index: 1, root, k1, k2: Some(k2), ext: Some(ext), base: Some(base) })
            }
        }
    }
}

/// The proto container and the decoded blocks of a token, through its serialized form.
pub fn decode_token(token: &Biscuit) -> Result<(schema::Biscuit, Vec<schema::Block>), String> {
    let bytes = token.to_vec().map_err(|e| format!("{:?}", e))?;
    decode_bytes(&bytes)
}
pub fn decode_bytes(bytes: &[u8]) -> Result<(schema::Biscuit, Vec<schema::Block>), String> {
    let cont = schema::Biscuit::decode(bytes).map_err(|e| format!("{:?}", e))?;
    let mut blocks = vec![schema::Block::decode(&cont.authority.block[..]).map_err(|e| format!("{:?}", e))?];
    for b in &cont.blocks {
        blocks.push(schema::Block::decode(&b.block[..]).map_err(|e| format!("{:?}", e))?);
    }
    Ok((cont, blocks))
}

/// Symbols a block at `index` is interpreted against.
pub fn names_for(blocks: &[schema::Block], cont: &schema::Biscuit, index: usize) -> Names {
    let third = index > 0 && cont.blocks[index - 1].external_signature.is_some();
    if third {
        Names::new(&blocks[index].symbols)
    } else {
        let mut custom = vec![];
        for (i, b) in blocks.iter().enumerate().take(index + 1) {
            let tp = i > 0 && cont.blocks[i - 1].external_signature.is_some();
            if !tp {
                custom.extend(b.symbols.iter().cloned());
            }
        }
        Names::new(&custom)
    }
}

// ---------------------------------------------------------------- re-versioned, re-signed blocks

fn alg_num(k: &PublicKey) -> i32 {
    k.to_proto().algorithm
}
fn payload_v0(data: &[u8], next: &PublicKey, extsig: Option<&[u8]>) -> Vec<u8> {
    let mut v = data.to_vec();
    if let Some(s) = extsig {
        v.extend_from_slice(s);
    }
    v.extend(alg_num(next).to_le_bytes());
    v.extend(next.to_bytes());
    v
}
fn payload_block_v1(data: &[u8], next: &PublicKey, extsig: Option<&[u8]>, prevsig: &[u8], version: u32) -> Vec<u8> {
    let mut v = b"\0BLOCK\0\0VERSION\0".to_vec();
    v.extend(version.to_le_bytes());
    v.extend(b"\0PAYLOAD\0");
    v.extend(data);
    v.extend(b"\0ALGORITHM\0");
    v.extend(alg_num(next).to_le_bytes());
    v.extend(b"\0NEXTKEY\0");
    v.extend(next.to_bytes());
    v.extend(b"\0PREVSIG\0");
    v.extend(prevsig);
    if let Some(s) = extsig {
        v.extend(b"\0EXTERNALSIG\0");
        v.extend(s);
    }
    v
}
fn payload_external_v1(data: &[u8], prevsig: &[u8], version: u32) -> Vec<u8> {
    let mut v = b"\0EXTERNAL\0\0VERSION\0".to_vec();
    v.extend(version.to_le_bytes());
    v.extend(b"\0PAYLOAD\0");
    v.extend(data);
    v.extend(b"\0PREVSIG\0");
    v.extend(prevsig);
    v
}

/// A one-block token whose authority block is `data`, signed with the v0 layout under
/// `root`, next key `k1`.
pub fn sign_authority(root: &KeyPair, k1: &KeyPair, data: Vec<u8>) -> Result<Vec<u8>, String> {
    let next_pub = k1.public();
    let sig = root.sign(&payload_v0(&data, &next_pub, None)).map_err(|e| format!("{:?}", e))?;
    let cont = schema::Biscuit {
        root_key_id: None,
        authority: schema::SignedBlock {
            block: data,
            next_key: next_pub.to_proto(),
            signature: sig.to_bytes().to_vec(),
            external_signature: None,
            version: None,
        },
        blocks: vec![],
        proof: schema::Proof {
            content: Some(schema::proof::Content::NextSecret(k1.private().to_bytes().to_vec())),
        },
    };
    let mut out = vec![];
    cont.encode(&mut out).map_err(|e| format!("{:?}", e))?;
    Ok(out)
}

/// The token of `built` with the block at `built.index` replaced by `data`, re-signed.
pub fn resign(built: &Built, data: Vec<u8>) -> Result<Vec<u8>, String> {
    if built.index == 0 {
        sign_authority(&built.root, &built.k1, data)
    } else {
        resign_second(
            built.base.as_ref().ok_or("no base")?,
            &built.k1,
            built.k2.as_ref().ok_or("no k2")?,
            built.ext.as_ref(),
            data,
        )
    }
}

/// A two-block token: the authority block of `base` (signed by the library under
/// `root` with next key `k1`) followed by `data` signed by `k1` with next key `k2`;
/// with `ext` the block is third-party (external signature by `ext`, v1 layouts).
pub fn resign_second(
    base: &Biscuit,
    k1: &KeyPair,
    k2: &KeyPair,
    ext: Option<&KeyPair>,
    data: Vec<u8>,
) -> Result<Vec<u8>, String> {
    let (mut cont, _) = decode_token(base)?;
    let prevsig = cont.authority.signature.clone();
    let next_pub = k2.public();
    let sb = match ext {
        None => {
            let sig = k1.sign(&payload_v0(&data, &next_pub, None)).map_err(|e| format!("{:?}", e))?;
            schema::SignedBlock {
                block: data,
                next_key: next_pub.to_proto(),
                signature: sig.to_bytes().to_vec(),
                external_signature: None,
                version: None,
            }
        }
        Some(e) => {
            let esig = e.sign(&payload_external_v1(&data, &prevsig, 1)).map_err(|x| format!("{:?}", x))?;
            let esig = esig.to_bytes().to_vec();
            let sig = k1
                .sign(&payload_block_v1(&data, &next_pub, Some(&esig), &prevsig, 1))
                .map_err(|x| format!("{:?}", x))?;
            schema::SignedBlock {
                block: data,
                next_key: next_pub.to_proto(),
                signature: sig.to_bytes().to_vec(),
                external_signature: Some(schema::ExternalSignature {
                    signature: esig,
                    public_key: e.public().to_proto(),
                }),
                version: Some(1),
            }
        }
    };
    cont.blocks = vec![sb];
    cont.proof = schema::Proof {
        content: Some(schema::proof::Content::NextSecret(k2.private().to_bytes().to_vec())),
    };
    let mut out = vec![];
    cont.encode(&mut out).map_err(|e| format!("{:?}", e))?;
    Ok(out)
}

#[derive(Clone, Copy, Debug, PartialEq, Eq, PartialOrd, Ord)]
pub enum Obs {
    Accept,
    RejectVersion,
    RejectDeser,
    Other,
}
pub fn g_obs(o: Obs) -> G {
    c0(match o {
        Obs::Accept => "OAccept",
        Obs::RejectVersion => "ORejectVersion",
        Obs::RejectDeser => "ORejectDeser",
        Obs::Other => "OOther",
    })
}
fn classify_err(e: &biscuit_auth::error::Token) -> Obs {
    use biscuit_auth::error::{Format, Token};
    match e {
        Token::Format(Format::Version { .. }) => Obs::RejectVersion,
        Token::Format(Format::DeserializationError(_)) => Obs::RejectDeser,
        _ => Obs::Other,
    }
}

/// Loads the serialized token and observes the gate on block `index` twice: through
/// `block_version(index)` and through `authorizer()` (which converts every block before any
/// evaluation).  Both must tell the same story, otherwise `Other`.
pub fn observe_load(bytes: &[u8], root: &PublicKey, index: usize, version: u32) -> (Obs, String) {
    let r = std::panic::catch_unwind(std::panic::AssertUnwindSafe(|| {
        let token = match Biscuit::from(bytes, *root) {
            Ok(t) => t,
            Err(e) => return (Obs::Other, format!("from: {:?}", e)),
        };
        let a = match token.block_version(index) {
            Ok(v) if v == version => Obs::Accept,
            Ok(v) => return (Obs::Other, format!("block_version returned {}", v)),
            Err(e) => classify_err(&e),
        };
        let b = match token.authorizer() {
            Ok(_) => Obs::Accept,
            Err(e) => classify_err(&e),
        };
        if a == b {
            (a, String::new())
        } else {
            (Obs::Other, format!("block_version: {:?}, authorizer: {:?}", a, b))
        }
    }));
    r.unwrap_or((Obs::Other, "panic".into()))
}

// ---------------------------------------------------------------- signature versions

#[derive(Clone, Copy, Debug, PartialEq, Eq)]
pub enum BKind {
    Builder,
    Third,
    Raw,
}
#[derive(Clone, Copy, Debug, PartialEq, Eq)]
pub struct SB {
    pub next: Algorithm,
    pub kind: BKind,
    pub dver: u32, // content chosen so that the builder declares this version
}
pub fn g_alg(a: Algorithm) -> G {
    c0(match a {
        Algorithm::Ed25519 => "AEd25519",
        Algorithm::Secp256r1 => "ASecp256r1",
    })
}
pub fn g_sb(b: &SB, declared: u32) -> G {
    rec(
        "mksblock",
        vec![
            ("sb_next", g_alg(b.next)),
            (
                "sb_kind",
                c0(match b.kind {
                    BKind::Builder => "BkBuilder",
                    BKind::Third => "BkThird",
                    BKind::Raw => "BkRaw",
                }),
            ),
            ("sb_dver", G::N(declared as u64)),
        ],
    )
}
fn content_for(dver: u32, i: usize) -> BlockBuilder {
    let src = match dver {
        3 => format!("c{}({})", i, i),
        4 => format!("c{}({}); check all c{}($x), $x > 0", i, i, i),
        5 => format!("c{}({})", i, i), // only third-party blocks reach 5
        _ => format!("c{}(null)", i),
    };
    BlockBuilder::new().code(src).expect("content")
}

/// Builds the token block by block through the API and returns (signature versions found
/// in the serialized token, Datalog versions the blocks declare).
pub fn run_sig(root_alg: Algorithm, bs: &[SB], rng: &mut Rng) -> Result<(Vec<u32>, Vec<u32>), String> {
    let root = kp(root_alg, rng);
    let first = bs.first().ok_or("empty")?;
    let k = kp(first.next, rng);
    let mut token = BiscuitBuilder::new()
        .merge(content_for(first.dver, 0))
        .build_with_key_pair(&root, SymbolTable::new(), &k)
        .map_err(|e| format!("{:?}", e))?;
    for (i, b) in bs.iter().enumerate().skip(1) {
        let k = kp(b.next, rng);
        let bb = content_for(b.dver, i);
        token = match b.kind {
            // every other builder append goes through UnverifiedBiscuit (same rule expected on both token types)
            BKind::Builder if (i + bs.len()) % 2 == 1 => {
                let bytes = token.to_vec().map_err(|e| format!("{:?}", e))?;
                let u = biscuit_auth::UnverifiedBiscuit::from(&bytes).map_err(|e| format!("unverified: {:?}", e))?;
                let u2 = u.append_with_keypair(&k, bb).map_err(|e| format!("{:?}", e))?;
                u2.verify(root.public()).map_err(|e| format!("verify after unverified append: {:?}", e))?
            }
            BKind::Builder => token.append_with_keypair(&k, bb).map_err(|e| format!("{:?}", e))?,
            BKind::Third => {
                let ext = kp(if i % 2 == 0 { Algorithm::Ed25519 } else { Algorithm::Secp256r1 }, rng);
                let req = token.third_party_request().map_err(|e| format!("{:?}", e))?;
                let tp = req.create_block(&ext.private(), bb).map_err(|e| format!("{:?}", e))?;
                token
                    .append_third_party_with_keypair(ext.public(), tp, k)
                    .map_err(|e| format!("{:?}", e))?
            }
            BKind::Raw => {
                // the block bytes the builder would produce at this position
                let scratch = token.append_with_keypair(&k, bb).map_err(|e| format!("{:?}", e))?;
                let (sc, _) = decode_token(&scratch)?;
                let data = sc.blocks.last().ok_or("no block")?.block.clone();
                let ser = token
                    .container()
                    .append_serialized(&k, data, None)
                    .map_err(|e| format!("{:?}", e))?;
                let bytes = ser.to_vec().map_err(|e| format!("{:?}", e))?;
                Biscuit::from(&bytes, root.public()).map_err(|e| format!("reload: {:?}", e))?
            }
        };
    }
    let bytes = token.to_vec().map_err(|e| format!("{:?}", e))?;
    // the finished token verifies
    Biscuit::from(&bytes, root.public()).map_err(|e| format!("final verify: {:?}", e))?;
    let (cont, blocks) = decode_bytes(&bytes)?;
    let mut sigv = vec![cont.authority.version.unwrap_or(0)];
    sigv.extend(cont.blocks.iter().map(|b| b.version.unwrap_or(0)));
    let dvers = blocks.iter().map(|b| b.version.unwrap_or(0)).collect();
    Ok((sigv, dvers))
}

//! Text family (C14): mirror of the model's AST (Model/Text.v), conversions from the
//! builder types of biscuit-auth, biscuit-parser and the datalog layer, generators and
//! text mutators.
use crate::*;
use biscuit_auth::builder as ab;
use biscuit_auth::datalog as dl;
use biscuit_parser::builder as pb;
use std::collections::{BTreeMap, BTreeSet};

#[derive(Clone, Debug, PartialEq)]
pub enum MK {
    Int(i64),
    Str(String),
    Param(String),
}

#[derive(Clone, Debug, PartialEq)]
pub enum MT {
    Var(String),
    Int(i64),
    Str(String),
    Date(u64),
    Bytes(Vec<u8>),
    Bool(bool),
    Set(Vec<MT>),
    Param(String),
    Null,
    Array(Vec<MT>),
    Map(Vec<(MK, MT)>),
}

#[derive(Clone, Debug, PartialEq)]
pub enum MU {
    Negate,
    Parens,
    Length,
    TypeOf,
    Ffi(String),
}

#[derive(Clone, Copy, Debug, PartialEq)]
pub enum B0 {
    LessThan,
    GreaterThan,
    LessOrEqual,
    GreaterOrEqual,
    Equal,
    Contains,
    Prefix,
    Suffix,
    Regex,
    Add,
    Sub,
    Mul,
    Div,
    And,
    Or,
    Intersection,
    Union,
    BitwiseAnd,
    BitwiseOr,
    BitwiseXor,
    NotEqual,
    HeterogeneousEqual,
    HeterogeneousNotEqual,
    LazyAnd,
    LazyOr,
    All,
    Any,
    Get,
}

#[derive(Clone, Debug, PartialEq)]
pub enum MB {
    P(B0),
    Ffi(String),
}

#[derive(Clone, Debug, PartialEq)]
pub enum MOp {
    Value(MT),
    Unary(MU),
    Binary(MB),
    Closure(Vec<String>, Vec<MOp>),
}

/// expression tree (the parser's `Expr`)
#[derive(Clone, Debug, PartialEq)]
pub enum ME {
    Value(MT),
    Unary(MU, Box<ME>),
    Binary(MB, Box<ME>, Box<ME>),
    Closure(Vec<String>, Box<ME>),
}

impl ME {
    pub fn opcodes(&self, v: &mut Vec<MOp>) {
        match self {
            ME::Value(t) => v.push(MOp::Value(t.clone())),
            ME::Unary(u, e) => {
                e.opcodes(v);
                v.push(MOp::Unary(u.clone()));
            }
            ME::Binary(b, l, r) => {
                l.opcodes(v);
                r.opcodes(v);
                v.push(MOp::Binary(b.clone()));
            }
            ME::Closure(ps, e) => {
                let mut ops = vec![];
                e.opcodes(&mut ops);
                v.push(MOp::Closure(ps.clone(), ops));
            }
        }
    }
    pub fn ops(&self) -> Vec<MOp> {
        let mut v = vec![];
        self.opcodes(&mut v);
        v
    }
}

#[derive(Clone, Debug, PartialEq)]
pub enum MScope {
    Authority,
    Previous,
    Key(bool, Vec<u8>), // true = secp256r1
    Param(String),
}

#[derive(Clone, Debug, PartialEq)]
pub struct MPred {
    pub name: String,
    pub terms: Vec<MT>,
}
#[derive(Clone, Debug, PartialEq)]
pub struct MRule {
    pub head: MPred,
    pub body: Vec<MPred>,
    pub exprs: Vec<Vec<MOp>>,
    pub scopes: Vec<MScope>,
}
#[derive(Clone, Copy, Debug, PartialEq)]
pub enum CK {
    One,
    All,
    Reject,
}
#[derive(Clone, Debug, PartialEq)]
pub struct MCheck {
    pub queries: Vec<MRule>,
    pub kind: CK,
}
#[derive(Clone, Debug, PartialEq)]
pub struct MPolicy {
    pub queries: Vec<MRule>,
    pub allow: bool,
}
#[derive(Clone, Debug, PartialEq, Default)]
pub struct MSource {
    pub scopes: Vec<MScope>,
    pub facts: Vec<MPred>,
    pub rules: Vec<MRule>,
    pub checks: Vec<MCheck>,
    pub policies: Vec<MPolicy>,
}

#[derive(Clone, Debug, PartialEq)]
pub enum Item {
    Fact(MPred),
    Rule(MRule),
    Check(MCheck),
    Policy(MPolicy),
    Source(MSource),
    Term(MT),
    Expr(Vec<MOp>),
}

// ------------------------------------------------------------------ order-insensitive normal form
impl MT {
    /// sets and maps sorted by their debug rendering (comparison up to BTree order)
    pub fn norm(&self) -> MT {
        match self {
            MT::Set(l) => {
                let mut v: Vec<MT> = l.iter().map(|x| x.norm()).collect();
                v.sort_by_key(|x| format!("{:?}", x));
                v.dedup();
                MT::Set(v)
            }
            MT::Array(l) => MT::Array(l.iter().map(|x| x.norm()).collect()),
            MT::Map(m) => {
                let mut v: Vec<(MK, MT)> = m.iter().map(|(k, x)| (k.clone(), x.norm())).collect();
                v.sort_by_key(|x| format!("{:?}", x.0));
                MT::Map(v)
            }
            o => o.clone(),
        }
    }
}
pub fn norm_ops(ops: &[MOp]) -> Vec<MOp> {
    ops.iter()
        .map(|o| match o {
            MOp::Value(t) => MOp::Value(t.norm()),
            MOp::Closure(ps, b) => MOp::Closure(ps.clone(), norm_ops(b)),
            o => o.clone(),
        })
        .collect()
}
pub fn norm_pred(p: &MPred) -> MPred {
    MPred { name: p.name.clone(), terms: p.terms.iter().map(|t| t.norm()).collect() }
}
pub fn norm_rule(r: &MRule) -> MRule {
    MRule {
        head: norm_pred(&r.head),
        body: r.body.iter().map(norm_pred).collect(),
        exprs: r.exprs.iter().map(|e| norm_ops(e)).collect(),
        scopes: r.scopes.clone(),
    }
}
pub fn norm_source(s: &MSource) -> MSource {
    MSource {
        scopes: s.scopes.clone(),
        facts: s.facts.iter().map(norm_pred).collect(),
        rules: s.rules.iter().map(norm_rule).collect(),
        checks: s.checks.iter().map(|c| MCheck { queries: c.queries.iter().map(norm_rule).collect(), kind: c.kind }).collect(),
        policies: s
            .policies
            .iter()
            .map(|c| MPolicy { queries: c.queries.iter().map(norm_rule).collect(), allow: c.allow })
            .collect(),
    }
}
pub fn norm_item(i: &Item) -> Item {
    match i {
        Item::Fact(p) => Item::Fact(norm_pred(p)),
        Item::Rule(r) => Item::Rule(norm_rule(r)),
        Item::Check(c) => Item::Check(MCheck { queries: c.queries.iter().map(norm_rule).collect(), kind: c.kind }),
        Item::Policy(c) => Item::Policy(MPolicy { queries: c.queries.iter().map(norm_rule).collect(), allow: c.allow }),
        Item::Source(s) => Item::Source(norm_source(s)),
        Item::Term(t) => Item::Term(t.norm()),
        Item::Expr(e) => Item::Expr(norm_ops(e)),
    }
}

/// the ops of one expression in the order in which the builder `Display` prints them:
/// converted with a fresh default symbol table (sets and maps then iterate by symbol index)
pub fn display_order_ops(ops: &[MOp]) -> Vec<MOp> {
    use biscuit_auth::builder::Convert;
    let ops2 = ops.to_vec();
    match std::panic::catch_unwind(std::panic::AssertUnwindSafe(move || {
        let mut syms = dl::SymbolTable::default();
        let d = ab_expr(&ops2).convert(&mut syms);
        d.ops.iter().map(|o| m_of_dl_op(o, &syms)).collect::<Vec<_>>()
    })) {
        Ok(v) => v,
        Err(_) => ops.to_vec(),
    }
}
pub fn display_order_rule(r: &MRule) -> MRule {
    MRule { exprs: r.exprs.iter().map(|e| display_order_ops(e)).collect(), ..r.clone() }
}

// ------------------------------------------------------------------ G printers
pub fn g_mk(k: &MK) -> G {
    match k {
        MK::Int(i) => c("MKInt", vec![G::Z(*i as i128)]),
        MK::Str(s) => c("MKStr", vec![gstr(s)]),
        MK::Param(s) => c("MKParam", vec![gstr(s)]),
    }
}
pub fn g_mt(t: &MT) -> G {
    match t {
        MT::Var(s) => c("TVar", vec![gstr(s)]),
        MT::Int(i) => c("TInt", vec![G::Z(*i as i128)]),
        MT::Str(s) => c("TStr", vec![gstr(s)]),
        MT::Date(d) => c("TDate", vec![G::Z(*d as i128)]),
        MT::Bytes(b) => c("TBytes", vec![gbytes(b)]),
        MT::Bool(b) => c("TBool", vec![G::B(*b)]),
        MT::Set(l) => c("TSet", vec![G::L(l.iter().map(g_mt).collect())]),
        MT::Param(s) => c("TParam", vec![gstr(s)]),
        MT::Null => c0("TNull"),
        MT::Array(l) => c("TArray", vec![G::L(l.iter().map(g_mt).collect())]),
        MT::Map(m) => c("TMap", vec![G::L(m.iter().map(|(k, v)| G::T(vec![g_mk(k), g_mt(v)])).collect())]),
    }
}
pub fn g_mu(u: &MU) -> G {
    match u {
        MU::Negate => c0("UNegate"),
        MU::Parens => c0("UParens"),
        MU::Length => c0("ULength"),
        MU::TypeOf => c0("UTypeOf"),
        MU::Ffi(n) => c("UFfi", vec![gstr(n)]),
    }
}
pub fn g_mb(b: &MB) -> G {
    match b {
        MB::P(p) => c0(&format!("B{:?}", p)),
        MB::Ffi(n) => c("BFfi", vec![gstr(n)]),
    }
}
pub fn g_mop(o: &MOp) -> G {
    match o {
        MOp::Value(t) => c("OValue", vec![g_mt(t)]),
        MOp::Unary(u) => c("OUnary", vec![g_mu(u)]),
        MOp::Binary(b) => c("OBinary", vec![g_mb(b)]),
        MOp::Closure(ps, ops) => c(
            "OClosure",
            vec![G::L(ps.iter().map(|p| gstr(p)).collect()), G::L(ops.iter().map(g_mop).collect())],
        ),
    }
}
pub fn g_ops(ops: &[MOp]) -> G {
    G::L(ops.iter().map(g_mop).collect())
}
pub fn g_scope(s: &MScope) -> G {
    match s {
        MScope::Authority => c0("SAuthority"),
        MScope::Previous => c0("SPrevious"),
        MScope::Key(p256, k) => c("SKey", vec![c0(if *p256 { "Secp256r1" } else { "Ed25519" }), gbytes(k)]),
        MScope::Param(s) => c("SParam", vec![gstr(s)]),
    }
}
pub fn g_pred(p: &MPred) -> G {
    rec("mkpred", vec![("pname", gstr(&p.name)), ("pterms", G::L(p.terms.iter().map(g_mt).collect()))])
}
pub fn g_rule(r: &MRule) -> G {
    rec(
        "mkrule",
        vec![
            ("rhead", g_pred(&r.head)),
            ("rbody", G::L(r.body.iter().map(g_pred).collect())),
            ("rexprs", G::L(r.exprs.iter().map(|e| g_ops(e)).collect())),
            ("rscopes", G::L(r.scopes.iter().map(g_scope).collect())),
        ],
    )
}
pub fn g_check(k: &MCheck) -> G {
    rec(
        "mkcheck",
        vec![
            ("cqueries", G::L(k.queries.iter().map(g_rule).collect())),
            (
                "ckind_of",
                c0(match k.kind {
                    CK::One => "CheckIf",
                    CK::All => "CheckAll",
                    CK::Reject => "RejectIf",
                }),
            ),
        ],
    )
}
pub fn g_policy(p: &MPolicy) -> G {
    rec(
        "mkpolicy",
        vec![
            ("pqueries", G::L(p.queries.iter().map(g_rule).collect())),
            ("pkind_of", c0(if p.allow { "Allow" } else { "Deny" })),
        ],
    )
}
pub fn g_source(s: &MSource) -> G {
    rec(
        "mksource",
        vec![
            ("s_scopes", G::L(s.scopes.iter().map(g_scope).collect())),
            ("s_facts", G::L(s.facts.iter().map(g_pred).collect())),
            ("s_rules", G::L(s.rules.iter().map(g_rule).collect())),
            ("s_checks", G::L(s.checks.iter().map(g_check).collect())),
            ("s_policies", G::L(s.policies.iter().map(g_policy).collect())),
        ],
    )
}
pub fn g_item(i: &Item) -> G {
    match i {
        Item::Fact(p) => c("IFact", vec![g_pred(p)]),
        Item::Rule(r) => c("IRule", vec![g_rule(r)]),
        Item::Check(k) => c("ICheck", vec![g_check(k)]),
        Item::Policy(p) => c("IPolicy", vec![g_policy(p)]),
        Item::Source(s) => c("ISource", vec![g_source(s)]),
        Item::Term(t) => c("ITerm", vec![g_mt(t)]),
        Item::Expr(e) => c("IExpr", vec![g_ops(e)]),
    }
}

// ------------------------------------------------------------------ to biscuit-auth builder
pub fn ab_mk(k: &MK) -> ab::MapKey {
    match k {
        MK::Int(i) => ab::MapKey::Integer(*i),
        MK::Str(s) => ab::MapKey::Str(s.clone()),
        MK::Param(s) => ab::MapKey::Parameter(s.clone()),
    }
}
pub fn ab_term(t: &MT) -> ab::Term {
    match t {
        MT::Var(s) => ab::Term::Variable(s.clone()),
        MT::Int(i) => ab::Term::Integer(*i),
        MT::Str(s) => ab::Term::Str(s.clone()),
        MT::Date(d) => ab::Term::Date(*d),
        MT::Bytes(b) => ab::Term::Bytes(b.clone()),
        MT::Bool(b) => ab::Term::Bool(*b),
        MT::Set(l) => ab::Term::Set(l.iter().map(ab_term).collect::<BTreeSet<_>>()),
        MT::Param(s) => ab::Term::Parameter(s.clone()),
        MT::Null => ab::Term::Null,
        MT::Array(l) => ab::Term::Array(l.iter().map(ab_term).collect()),
        MT::Map(m) => ab::Term::Map(m.iter().map(|(k, v)| (ab_mk(k), ab_term(v))).collect::<BTreeMap<_, _>>()),
    }
}
pub fn ab_unary(u: &MU) -> ab::Unary {
    match u {
        MU::Negate => ab::Unary::Negate,
        MU::Parens => ab::Unary::Parens,
        MU::Length => ab::Unary::Length,
        MU::TypeOf => ab::Unary::TypeOf,
        MU::Ffi(n) => ab::Unary::Ffi(n.clone()),
    }
}
pub fn ab_binary(b: &MB) -> ab::Binary {
    use ab::Binary as A;
    match b {
        MB::Ffi(n) => A::Ffi(n.clone()),
        MB::P(p) => match p {
            B0::LessThan => A::LessThan,
            B0::GreaterThan => A::GreaterThan,
            B0::LessOrEqual => A::LessOrEqual,
            B0::GreaterOrEqual => A::GreaterOrEqual,
            B0::Equal => A::Equal,
            B0::Contains => A::Contains,
            B0::Prefix => A::Prefix,
            B0::Suffix => A::Suffix,
            B0::Regex => A::Regex,
            B0::Add => A::Add,
            B0::Sub => A::Sub,
            B0::Mul => A::Mul,
            B0::Div => A::Div,
            B0::And => A::And,
            B0::Or => A::Or,
            B0::Intersection => A::Intersection,
            B0::Union => A::Union,
            B0::BitwiseAnd => A::BitwiseAnd,
            B0::BitwiseOr => A::BitwiseOr,
            B0::BitwiseXor => A::BitwiseXor,
            B0::NotEqual => A::NotEqual,
            B0::HeterogeneousEqual => A::HeterogeneousEqual,
            B0::HeterogeneousNotEqual => A::HeterogeneousNotEqual,
            B0::LazyAnd => A::LazyAnd,
            B0::LazyOr => A::LazyOr,
            B0::All => A::All,
            B0::Any => A::Any,
            B0::Get => A::Get,
        },
    }
}
pub fn ab_op(o: &MOp) -> ab::Op {
    match o {
        MOp::Value(t) => ab::Op::Value(ab_term(t)),
        MOp::Unary(u) => ab::Op::Unary(ab_unary(u)),
        MOp::Binary(b) => ab::Op::Binary(ab_binary(b)),
        MOp::Closure(ps, ops) => ab::Op::Closure(ps.clone(), ops.iter().map(ab_op).collect()),
    }
}
pub fn ab_expr(ops: &[MOp]) -> ab::Expression {
    ab::Expression { ops: ops.iter().map(ab_op).collect() }
}
pub fn ab_scope(s: &MScope) -> ab::Scope {
    match s {
        MScope::Authority => ab::Scope::Authority,
        MScope::Previous => ab::Scope::Previous,
        MScope::Key(p256, k) => ab::Scope::PublicKey(
            biscuit_auth::PublicKey::from_bytes(
                k,
                if *p256 { ab::Algorithm::Secp256r1 } else { ab::Algorithm::Ed25519 },
            )
            .expect("generated key"),
        ),
        MScope::Param(s) => ab::Scope::Parameter(s.clone()),
    }
}
pub fn ab_pred(p: &MPred) -> ab::Predicate {
    ab::Predicate::new(p.name.clone(), p.terms.iter().map(ab_term).collect::<Vec<_>>())
}
pub fn ab_fact(p: &MPred) -> ab::Fact {
    ab::Fact::new(p.name.clone(), p.terms.iter().map(ab_term).collect::<Vec<_>>())
}
pub fn ab_rule(r: &MRule) -> ab::Rule {
    ab::Rule::new(
        ab_pred(&r.head),
        r.body.iter().map(ab_pred).collect(),
        r.exprs.iter().map(|e| ab_expr(e)).collect(),
        r.scopes.iter().map(ab_scope).collect(),
    )
}
pub fn ab_check(k: &MCheck) -> ab::Check {
    ab::Check {
        queries: k.queries.iter().map(ab_rule).collect(),
        kind: match k.kind {
            CK::One => ab::CheckKind::One,
            CK::All => ab::CheckKind::All,
            CK::Reject => ab::CheckKind::Reject,
        },
    }
}
pub fn ab_policy(p: &MPolicy) -> ab::Policy {
    ab::Policy {
        queries: p.queries.iter().map(ab_rule).collect(),
        kind: if p.allow { ab::PolicyKind::Allow } else { ab::PolicyKind::Deny },
    }
}

// ------------------------------------------------------------------ from biscuit-auth builder
pub fn m_of_ab_term(t: &ab::Term) -> MT {
    match t {
        ab::Term::Variable(s) => MT::Var(s.clone()),
        ab::Term::Integer(i) => MT::Int(*i),
        ab::Term::Str(s) => MT::Str(s.clone()),
        ab::Term::Date(d) => MT::Date(*d),
        ab::Term::Bytes(b) => MT::Bytes(b.clone()),
        ab::Term::Bool(b) => MT::Bool(*b),
        ab::Term::Set(s) => MT::Set(s.iter().map(m_of_ab_term).collect()),
        ab::Term::Parameter(s) => MT::Param(s.clone()),
        ab::Term::Null => MT::Null,
        ab::Term::Array(a) => MT::Array(a.iter().map(m_of_ab_term).collect()),
        ab::Term::Map(m) => MT::Map(
            m.iter()
                .map(|(k, v)| {
                    (
                        match k {
                            ab::MapKey::Integer(i) => MK::Int(*i),
                            ab::MapKey::Str(s) => MK::Str(s.clone()),
                            ab::MapKey::Parameter(s) => MK::Param(s.clone()),
                        },
                        m_of_ab_term(v),
                    )
                })
                .collect(),
        ),
    }
}
pub fn b0_of_name(n: &str) -> B0 {
    use B0::*;
    for b in [
        LessThan, GreaterThan, LessOrEqual, GreaterOrEqual, Equal, Contains, Prefix, Suffix, Regex, Add, Sub, Mul,
        Div, And, Or, Intersection, Union, BitwiseAnd, BitwiseOr, BitwiseXor, NotEqual, HeterogeneousEqual,
        HeterogeneousNotEqual, LazyAnd, LazyOr, All, Any, Get,
    ] {
        if format!("{:?}", b) == n {
            return b;
        }
    }
    panic!("unknown binary {}", n)
}
pub fn m_of_ab_op(o: &ab::Op) -> MOp {
    match o {
        ab::Op::Value(t) => MOp::Value(m_of_ab_term(t)),
        ab::Op::Unary(u) => MOp::Unary(match u {
            ab::Unary::Negate => MU::Negate,
            ab::Unary::Parens => MU::Parens,
            ab::Unary::Length => MU::Length,
            ab::Unary::TypeOf => MU::TypeOf,
            ab::Unary::Ffi(n) => MU::Ffi(n.clone()),
        }),
        ab::Op::Binary(b) => MOp::Binary(match b {
            ab::Binary::Ffi(n) => MB::Ffi(n.clone()),
            other => MB::P(b0_of_name(&format!("{:?}", other))),
        }),
        ab::Op::Closure(ps, ops) => MOp::Closure(ps.clone(), ops.iter().map(m_of_ab_op).collect()),
    }
}
pub fn m_of_ab_scope(s: &ab::Scope) -> MScope {
    match s {
        ab::Scope::Authority => MScope::Authority,
        ab::Scope::Previous => MScope::Previous,
        ab::Scope::PublicKey(pk) => MScope::Key(
            pk.algorithm() == biscuit_auth::format::schema::public_key::Algorithm::Secp256r1,
            pk.to_bytes(),
        ),
        ab::Scope::Parameter(s) => MScope::Param(s.clone()),
    }
}
pub fn m_of_ab_pred(p: &ab::Predicate) -> MPred {
    MPred { name: p.name.clone(), terms: p.terms.iter().map(m_of_ab_term).collect() }
}
pub fn m_of_ab_rule(r: &ab::Rule) -> MRule {
    MRule {
        head: m_of_ab_pred(&r.head),
        body: r.body.iter().map(m_of_ab_pred).collect(),
        exprs: r.expressions.iter().map(|e| e.ops.iter().map(m_of_ab_op).collect()).collect(),
        scopes: r.scopes.iter().map(m_of_ab_scope).collect(),
    }
}
pub fn m_of_ab_check(k: &ab::Check) -> MCheck {
    MCheck {
        queries: k.queries.iter().map(m_of_ab_rule).collect(),
        kind: match k.kind {
            ab::CheckKind::One => CK::One,
            ab::CheckKind::All => CK::All,
            ab::CheckKind::Reject => CK::Reject,
        },
    }
}
pub fn m_of_ab_policy(p: &ab::Policy) -> MPolicy {
    MPolicy { queries: p.queries.iter().map(m_of_ab_rule).collect(), allow: p.kind == ab::PolicyKind::Allow }
}

// ------------------------------------------------------------------ from biscuit-parser builder
pub fn m_of_pb_term(t: &pb::Term) -> MT {
    match t {
        pb::Term::Variable(s) => MT::Var(s.clone()),
        pb::Term::Integer(i) => MT::Int(*i),
        pb::Term::Str(s) => MT::Str(s.clone()),
        pb::Term::Date(d) => MT::Date(*d),
        pb::Term::Bytes(b) => MT::Bytes(b.clone()),
        pb::Term::Bool(b) => MT::Bool(*b),
        pb::Term::Set(s) => MT::Set(s.iter().map(m_of_pb_term).collect()),
        pb::Term::Parameter(s) => MT::Param(s.clone()),
        pb::Term::Null => MT::Null,
        pb::Term::Array(a) => MT::Array(a.iter().map(m_of_pb_term).collect()),
        pb::Term::Map(m) => MT::Map(
            m.iter()
                .map(|(k, v)| {
                    (
                        match k {
                            pb::MapKey::Integer(i) => MK::Int(*i),
                            pb::MapKey::Str(s) => MK::Str(s.clone()),
                            pb::MapKey::Parameter(s) => MK::Param(s.clone()),
                        },
                        m_of_pb_term(v),
                    )
                })
                .collect(),
        ),
    }
}
pub fn m_of_pb_op(o: &pb::Op) -> MOp {
    match o {
        pb::Op::Value(t) => MOp::Value(m_of_pb_term(t)),
        pb::Op::Unary(u) => MOp::Unary(match u {
            pb::Unary::Negate => MU::Negate,
            pb::Unary::Parens => MU::Parens,
            pb::Unary::Length => MU::Length,
            pb::Unary::TypeOf => MU::TypeOf,
            pb::Unary::Ffi(n) => MU::Ffi(n.clone()),
        }),
        pb::Op::Binary(b) => MOp::Binary(match b {
            pb::Binary::Ffi(n) => MB::Ffi(n.clone()),
            other => MB::P(b0_of_name(&format!("{:?}", other))),
        }),
        pb::Op::Closure(ps, ops) => MOp::Closure(ps.clone(), ops.iter().map(m_of_pb_op).collect()),
    }
}
pub fn m_of_pb_scope(s: &pb::Scope) -> MScope {
    match s {
        pb::Scope::Authority => MScope::Authority,
        pb::Scope::Previous => MScope::Previous,
        pb::Scope::PublicKey(pk) => MScope::Key(pk.algorithm == pb::Algorithm::Secp256r1, pk.key.clone()),
        pb::Scope::Parameter(s) => MScope::Param(s.clone()),
    }
}
pub fn m_of_pb_pred(p: &pb::Predicate) -> MPred {
    MPred { name: p.name.clone(), terms: p.terms.iter().map(m_of_pb_term).collect() }
}
pub fn m_of_pb_rule(r: &pb::Rule) -> MRule {
    MRule {
        head: m_of_pb_pred(&r.head),
        body: r.body.iter().map(m_of_pb_pred).collect(),
        exprs: r.expressions.iter().map(|e| e.ops.iter().map(m_of_pb_op).collect()).collect(),
        scopes: r.scopes.iter().map(m_of_pb_scope).collect(),
    }
}
pub fn m_of_pb_check(k: &pb::Check) -> MCheck {
    MCheck {
        queries: k.queries.iter().map(m_of_pb_rule).collect(),
        kind: match k.kind {
            pb::CheckKind::One => CK::One,
            pb::CheckKind::All => CK::All,
            pb::CheckKind::Reject => CK::Reject,
        },
    }
}
pub fn m_of_pb_policy(p: &pb::Policy) -> MPolicy {
    MPolicy { queries: p.queries.iter().map(m_of_pb_rule).collect(), allow: p.kind == pb::PolicyKind::Allow }
}
pub fn m_of_pb_source(s: &biscuit_parser::parser::SourceResult) -> MSource {
    MSource {
        scopes: s.scopes.iter().map(m_of_pb_scope).collect(),
        facts: s.facts.iter().map(|(_, f)| m_of_pb_pred(&f.predicate)).collect(),
        rules: s.rules.iter().map(|(_, r)| m_of_pb_rule(r)).collect(),
        checks: s.checks.iter().map(|(_, c)| m_of_pb_check(c)).collect(),
        policies: s.policies.iter().map(|(_, p)| m_of_pb_policy(p)).collect(),
    }
}

// ------------------------------------------------------------------ from the datalog layer
fn sym(syms: &dl::SymbolTable, i: u64) -> String {
    syms.print_symbol_default(i)
}
pub fn m_of_dl_term(t: &dl::Term, syms: &dl::SymbolTable) -> MT {
    match t {
        dl::Term::Variable(i) => MT::Var(sym(syms, *i as u64)),
        dl::Term::Integer(i) => MT::Int(*i),
        dl::Term::Str(i) => MT::Str(sym(syms, *i)),
        dl::Term::Date(d) => MT::Date(*d),
        dl::Term::Bytes(b) => MT::Bytes(b.clone()),
        dl::Term::Bool(b) => MT::Bool(*b),
        dl::Term::Set(s) => MT::Set(s.iter().map(|t| m_of_dl_term(t, syms)).collect()),
        dl::Term::Null => MT::Null,
        dl::Term::Array(a) => MT::Array(a.iter().map(|t| m_of_dl_term(t, syms)).collect()),
        dl::Term::Map(m) => MT::Map(
            m.iter()
                .map(|(k, v)| {
                    (
                        match k {
                            dl::MapKey::Integer(i) => MK::Int(*i),
                            dl::MapKey::Str(i) => MK::Str(sym(syms, *i)),
                        },
                        m_of_dl_term(v, syms),
                    )
                })
                .collect(),
        ),
    }
}
pub fn m_of_dl_op(o: &dl::Op, syms: &dl::SymbolTable) -> MOp {
    match o {
        dl::Op::Value(t) => MOp::Value(m_of_dl_term(t, syms)),
        dl::Op::Unary(u) => MOp::Unary(match u {
            dl::Unary::Negate => MU::Negate,
            dl::Unary::Parens => MU::Parens,
            dl::Unary::Length => MU::Length,
            dl::Unary::TypeOf => MU::TypeOf,
            dl::Unary::Ffi(i) => MU::Ffi(sym(syms, *i)),
        }),
        dl::Op::Binary(b) => MOp::Binary(match b {
            dl::Binary::Ffi(i) => MB::Ffi(sym(syms, *i)),
            other => MB::P(b0_of_name(&format!("{:?}", other))),
        }),
        dl::Op::Closure(ps, ops) => MOp::Closure(
            ps.iter().map(|p| sym(syms, *p as u64)).collect(),
            ops.iter().map(|o| m_of_dl_op(o, syms)).collect(),
        ),
    }
}
pub fn m_of_dl_pred(p: &dl::Predicate, syms: &dl::SymbolTable) -> MPred {
    MPred { name: sym(syms, p.name), terms: p.terms.iter().map(|t| m_of_dl_term(t, syms)).collect() }
}
/// scopes are taken from the builder rule (the datalog `Scope` type is not exported)
pub fn m_of_dl_rule(r: &dl::Rule, scopes: &[MScope], syms: &dl::SymbolTable) -> MRule {
    MRule {
        head: m_of_dl_pred(&r.head, syms),
        body: r.body.iter().map(|p| m_of_dl_pred(p, syms)).collect(),
        exprs: r.expressions.iter().map(|e| e.ops.iter().map(|o| m_of_dl_op(o, syms)).collect()).collect(),
        scopes: scopes.to_vec(),
    }
}

// ------------------------------------------------------------------ feature flags (classifiers)
#[derive(Default, Clone, Debug)]
pub struct Feat {
    pub str_quote_backslash: bool,
    pub date_out_of_range: bool,
    pub empty_bytes: bool,
    pub set_with_array: bool,
    pub empty_map_in_fact: bool,
    pub strict_and_or: bool,
    pub date_before_dot: bool,
    pub rule_empty_head: bool,
    pub singleton_set_as_parameter: bool,
}
impl Feat {
    /// features of shapes that no text can produce (outside the parser's image)
    pub fn outside_image(&self) -> bool {
        self.set_with_array || self.strict_and_or || self.date_before_dot
    }
    pub fn list(&self) -> Vec<&'static str> {
        let mut v = vec![];
        if self.str_quote_backslash {
            v.push("str_quote_backslash");
        }
        if self.date_out_of_range {
            v.push("date_out_of_range");
        }
        if self.empty_bytes {
            v.push("empty_bytes");
        }
        if self.set_with_array {
            v.push("set_with_array");
        }
        if self.empty_map_in_fact {
            v.push("empty_map_in_fact");
        }
        if self.strict_and_or {
            v.push("strict_and_or");
        }
        if self.date_before_dot {
            v.push("date_before_dot");
        }
        if self.rule_empty_head {
            v.push("rule_empty_head");
        }
        if self.singleton_set_as_parameter {
            v.push("singleton_set_as_parameter");
        }
        v
    }
}
fn feat_str(s: &str, f: &mut Feat) {
    if s.contains('"') || s.contains('\\') {
        f.str_quote_backslash = true;
    }
}
/// `in_fact`: the term is parsed by term_in_fact (fact terms, array and map members)
pub fn feat_term(t: &MT, in_fact: bool, f: &mut Feat) {
    match t {
        MT::Str(s) => feat_str(s, f),
        MT::Date(d) => {
            if *d >= 253402300800 {
                f.date_out_of_range = true
            }
        }
        MT::Bytes(b) => {
            if b.is_empty() {
                f.empty_bytes = true
            }
        }
        MT::Set(l) => {
            if l.len() == 1 {
                match &l[0] {
                    MT::Bool(_) | MT::Null => f.singleton_set_as_parameter = true,
                    MT::Bytes(b) if !b.is_empty() => f.singleton_set_as_parameter = true,
                    _ => {}
                }
            }
            for x in l {
                if let MT::Array(_) = x {
                    f.set_with_array = true;
                }
                feat_term(x, false, f);
            }
        }
        MT::Array(l) => l.iter().for_each(|x| feat_term(x, true, f)),
        MT::Map(m) => {
            if m.is_empty() && in_fact {
                f.empty_map_in_fact = true;
            }
            for (k, v) in m {
                if let MK::Str(s) = k {
                    feat_str(s, f);
                }
                feat_term(v, true, f);
            }
        }
        _ => {}
    }
}
pub fn feat_ops(ops: &[MOp], f: &mut Feat) {
    for (i, o) in ops.iter().enumerate() {
        match o {
            MOp::Value(t) => {
                feat_term(t, false, f);
                // a date literal directly followed by a method call
                if let MT::Date(_) = t {
                    if let Some(next) = ops.get(i + 1) {
                        match next {
                            MOp::Unary(MU::Length) | MOp::Unary(MU::TypeOf) | MOp::Unary(MU::Ffi(_)) => {
                                f.date_before_dot = true
                            }
                            _ => {}
                        }
                    }
                    // receiver of a binary method: the date is the left operand
                    f.date_before_dot |= date_is_method_receiver(ops, i);
                }
            }
            MOp::Binary(MB::P(B0::And)) | MOp::Binary(MB::P(B0::Or)) => f.strict_and_or = true,
            MOp::Closure(_, b) => feat_ops(b, f),
            _ => {}
        }
    }
}
fn is_method(b: &MB) -> bool {
    match b {
        MB::Ffi(_) => true,
        MB::P(p) => matches!(
            p,
            B0::Contains | B0::Prefix | B0::Suffix | B0::Regex | B0::Intersection | B0::Union | B0::All | B0::Any | B0::Get
        ),
    }
}
/// is the value pushed by ops[i] the *left* operand of a method-style binary op?
fn date_is_method_receiver(ops: &[MOp], i: usize) -> bool {
    // simulate stack depth: find the op that consumes the element pushed at i as its left operand
    let mut depth: i64 = 1; // elements above and including ours
    for o in &ops[i + 1..] {
        match o {
            MOp::Value(_) | MOp::Closure(_, _) => depth += 1,
            MOp::Unary(_) => {
                if depth == 1 {
                    return false;
                }
            }
            MOp::Binary(b) => {
                if depth == 2 {
                    return is_method(b);
                }
                if depth < 2 {
                    return false;
                }
                depth -= 1;
            }
        }
    }
    false
}
pub fn feat_pred(p: &MPred, in_fact: bool, f: &mut Feat) {
    p.terms.iter().for_each(|t| feat_term(t, in_fact, f));
}
pub fn feat_rule(r: &MRule, f: &mut Feat) {
    feat_pred(&r.head, false, f);
    r.body.iter().for_each(|p| feat_pred(p, false, f));
    r.exprs.iter().for_each(|e| feat_ops(e, f));
}
pub fn feat_item(i: &Item) -> Feat {
    let mut f = Feat::default();
    match i {
        Item::Fact(p) => feat_pred(p, true, &mut f),
        Item::Rule(r) => {
            feat_rule(r, &mut f);
            f.rule_empty_head |= r.head.terms.is_empty();
        }
        Item::Check(k) => k.queries.iter().for_each(|r| feat_rule(r, &mut f)),
        Item::Policy(p) => p.queries.iter().for_each(|r| feat_rule(r, &mut f)),
        Item::Source(s) => {
            s.facts.iter().for_each(|p| feat_pred(p, true, &mut f));
            s.rules.iter().for_each(|r| {
                feat_rule(r, &mut f);
                f.rule_empty_head |= r.head.terms.is_empty();
            });
            s.checks.iter().for_each(|k| k.queries.iter().for_each(|r| feat_rule(r, &mut f)));
            s.policies.iter().for_each(|k| k.queries.iter().for_each(|r| feat_rule(r, &mut f)));
        }
        Item::Term(t) => feat_term(t, false, &mut f),
        Item::Expr(e) => feat_ops(e, &mut f),
    }
    f
}

// ------------------------------------------------------------------ generators
pub struct Gen {
    pub rng: Rng,
    /// hazard = also draw from the classes of the known findings
    pub hazard: bool,
    pub keys: Vec<MScope>,
}

const WORDS: [&str; 12] =
    ["a", "file1", "read", "write", "user_id", "x:y", "resource", "A9", "_", "op", "hello world", "0"];
const NAMES: [&str; 12] =
    ["f", "right", "resource", "operation", "a1", "_x", "ns:name", "user", "T", "r2d2", "time", "q_"];
const VARS: [&str; 6] = ["x", "y", "0", "var_1", "Z", "a:b"];
const PARAMS: [&str; 4] = ["p", "param1", "k:v", "Z_"];
const CLEAN_CHARS: [char; 24] = [
    'a', 'b', 'Z', '0', '9', ' ', '_', '-', '.', ',', ';', '(', ')', '{', '}', '[', ']', '$', '\t', '\n', '\0', 'é',
    'ł', '日',
];
const HAZARD_CHARS: [char; 2] = ['"', '\\'];

impl Gen {
    pub fn new(seed: u64) -> Gen {
        let mut rng = Rng::new(seed ^ 0x7e47);
        let mut keys = vec![];
        for i in 0..4 {
            let alg = if i % 2 == 0 { ab::Algorithm::Ed25519 } else { ab::Algorithm::Secp256r1 };
            let kp = biscuit_auth::KeyPair::new_with_rng(alg, &mut rng);
            keys.push(MScope::Key(i % 2 == 1, kp.public().to_bytes()));
        }
        Gen { rng, hazard: false, keys }
    }
    fn pick<'a, T>(&mut self, xs: &'a [T]) -> &'a T {
        self.rng.pick(xs)
    }
    pub fn string(&mut self) -> String {
        let r = self.rng.below(10);
        if r < 4 {
            return self.pick(&WORDS).to_string();
        }
        if self.hazard && r < 6 {
            return self
                .pick(&[
                    "x\"); admin(\"root",
                    "\"",
                    "\\",
                    "a\\\"b",
                    "\\n",
                    "tail\\",
                    "\"\"",
                    "say \"hi\"",
                    "C:\\dir\\file",
                ])
                .to_string();
        }
        let n = self.rng.below(8);
        let mut s = String::new();
        for _ in 0..n {
            if self.hazard && self.rng.chance(1, 4) {
                s.push(*self.pick(&HAZARD_CHARS));
            } else if self.rng.chance(1, 12) {
                s.push(*self.pick(&['😀', '\u{7f}', '\r', '\u{85}', '/', '*', 'n', ':', '!', '<', '=', '&', '|']));
            } else {
                s.push(*self.pick(&CLEAN_CHARS));
            }
        }
        s
    }
    pub fn int(&mut self) -> i64 {
        match self.rng.below(8) {
            0 => i64::MIN,
            1 => i64::MAX,
            2 => 0,
            3 => -1,
            4 => self.rng.next() as i64,
            _ => self.rng.range(-1000, 1000),
        }
    }
    pub fn date(&mut self) -> u64 {
        let r = self.rng.below(12);
        if self.hazard && r < 3 {
            return *self.pick(&[253402300800u64, u64::MAX, 1 << 63, (1 << 63) - 1, 300000000000, u64::MAX - 62167219200]);
        }
        match r {
            3 => 0,
            4 => 253402300799,
            5 => 951782400,  // 2000-02-29
            6 => 4107542399, // 2100-02-28T23:59:59
            7 => self.rng.below(253402300800),
            _ => 1500000000 + self.rng.below(400000000),
        }
    }
    pub fn bytes(&mut self) -> Vec<u8> {
        let n = if self.hazard && self.rng.chance(1, 4) { 0 } else { 1 + self.rng.below(6) };
        (0..n).map(|_| self.rng.next() as u8).collect()
    }
    fn bytes_nonempty(&mut self, min: u64) -> Vec<u8> {
        let n = min + self.rng.below(4);
        (0..n).map(|_| self.rng.next() as u8).collect()
    }
    fn param(&mut self) -> String {
        self.pick(&PARAMS).to_string()
    }
    /// scalar of a given kind index (the kinds of non_empty_set)
    fn scalar_kind(&mut self, kind: u64) -> MT {
        match kind {
            0 => MT::Int(self.int()),
            1 => MT::Str(self.string()),
            2 => MT::Date(self.date()),
            3 => MT::Bytes(self.bytes()),
            4 => MT::Bool(self.rng.chance(1, 2)),
            5 => MT::Null,
            _ => MT::Param(self.param()),
        }
    }
    /// a term as `term_in_fact` accepts it (no variables); `params`: parameters allowed
    pub fn fact_term(&mut self, depth: u32, params: bool) -> MT {
        let r = self.rng.below(if depth == 0 { 7 } else { 10 });
        match r {
            0..=5 => self.scalar_kind(r),
            6 => {
                if params {
                    MT::Param(self.param())
                } else {
                    MT::Int(self.int())
                }
            }
            7 => {
                // set: elements of one kind
                let n = self.rng.below(4);
                if self.hazard && self.rng.chance(1, 6) {
                    return MT::Set(vec![MT::Array(vec![MT::Int(1)])]);
                }
                let kind = self.rng.below(8);
                // clean stream: never a set that collapses to one bool / null / bytes element
                // (it is read back as a parameter)
                if !self.hazard && (kind == 4 || kind == 5) && n >= 1 {
                    return if kind == 4 { MT::Set(vec![MT::Bool(false), MT::Bool(true)]) } else { MT::Set(vec![]) };
                }
                if !self.hazard && kind == 3 && n >= 1 {
                    return MT::Set(vec![MT::Bytes(vec![1, 2]), MT::Bytes(self.bytes_nonempty(3))]);
                }
                let mut l = vec![];
                for _ in 0..n {
                    if kind == 7 {
                        l.push(self.map_term(depth - 1, params));
                    } else if kind == 6 && !params {
                        l.push(MT::Int(self.int()));
                    } else {
                        l.push(self.scalar_kind(kind));
                    }
                }
                MT::Set(l)
            }
            8 => {
                let n = self.rng.below(4);
                MT::Array((0..n).map(|_| self.fact_term(depth - 1, params)).collect())
            }
            _ => self.map_term(depth - 1, params),
        }
    }
    fn map_term(&mut self, depth: u32, params: bool) -> MT {
        let n = if self.hazard { self.rng.below(3) } else { 1 + self.rng.below(2) };
        let mut m = vec![];
        for _ in 0..n {
            let k = match self.rng.below(if params { 5 } else { 4 }) {
                0 | 1 => MK::Int(self.int()),
                2 | 3 => MK::Str(self.string()),
                _ => MK::Param(self.param()),
            };
            m.push((k, self.fact_term(depth, params)));
        }
        MT::Map(m)
    }
    pub fn name(&mut self) -> String {
        self.pick(&NAMES).to_string()
    }
    pub fn var(&mut self) -> String {
        self.pick(&VARS).to_string()
    }
    /// a body/head term (`term`): variables allowed at top level
    pub fn rule_term(&mut self, vars: &[String], params: bool) -> MT {
        if !vars.is_empty() && self.rng.chance(1, 2) {
            MT::Var(self.pick(vars).clone())
        } else {
            let mut t = self.fact_term(2, params);
            // `term` tries the map before the set: `{}` is the empty map there, fine
            if let MT::Map(m) = &t {
                if m.is_empty() && !self.hazard {
                    t = MT::Null;
                }
            }
            t
        }
    }
    pub fn fact(&mut self, params: bool) -> MPred {
        let n = 1 + self.rng.below(3);
        MPred { name: self.name(), terms: (0..n).map(|_| self.fact_term(2, params)).collect() }
    }
    pub fn scope(&mut self) -> MScope {
        match self.rng.below(5) {
            0 => MScope::Authority,
            1 => MScope::Previous,
            2 => MScope::Param(self.param()),
            _ => self.pick(&self.keys.clone()).clone(),
        }
    }
    pub fn scopes(&mut self) -> Vec<MScope> {
        if self.rng.chance(1, 2) {
            vec![]
        } else {
            let n = 1 + self.rng.below(3);
            (0..n).map(|_| self.scope()).collect()
        }
    }

    // ---- expressions, by precedence level, well-parenthesised by construction.
    // `open` results (ending in an unwrapped prefix negation) are wrapped before being
    // used as a left operand at levels 6 and 7.
    fn leaf(&mut self, vars: &[String]) -> ME {
        if !vars.is_empty() && self.rng.chance(2, 5) {
            return ME::Value(MT::Var(self.pick(vars).clone()));
        }
        ME::Value(match self.rng.below(8) {
            0 | 1 => MT::Int(self.rng.range(-5, 100)),
            2 => MT::Str(self.string()),
            3 => MT::Bool(self.rng.chance(1, 2)),
            4 => MT::Date(self.date()),
            5 => MT::Bytes(self.bytes()),
            6 => MT::Null,
            _ => self.fact_term(1, false),
        })
    }
    fn ends_open(e: &ME) -> bool {
        match e {
            ME::Unary(MU::Negate, _) => true,
            ME::Binary(MB::P(p), _, r) => match p {
                B0::Add | B0::Sub | B0::Mul | B0::Div => Self::ends_open(r),
                _ => false,
            },
            _ => false,
        }
    }
    fn parens(e: ME) -> ME {
        ME::Unary(MU::Parens, Box::new(e))
    }
    pub fn expr_level(&mut self, k: u32, depth: u32, vars: &[String]) -> ME {
        if depth == 0 {
            return self.leaf(vars);
        }
        match k {
            0 | 1 | 3 | 4 | 5 | 6 | 7 => {
                // most levels are passed through without an operator
                let n = if self.rng.chance(5, 7) { 0 } else { 1 + self.rng.below(2) };
                if n == 0 {
                    return self.expr_level(k + 1, depth, vars);
                }
                let mut acc = self.expr_level(k + 1, depth - 1, vars);
                for _ in 0..n {
                    let op = match k {
                        0 => B0::LazyOr,
                        1 => B0::LazyAnd,
                        3 => B0::BitwiseXor,
                        4 => B0::BitwiseOr,
                        5 => B0::BitwiseAnd,
                        6 => *self.pick(&[B0::Add, B0::Sub]),
                        _ => *self.pick(&[B0::Mul, B0::Div]),
                    };
                    if (k == 6 || k == 7) && Self::ends_open(&acc) {
                        acc = Self::parens(acc);
                    }
                    let r = self.expr_level(k + 1, depth - 1, vars);
                    let r = if k <= 1 { ME::Closure(vec![], Box::new(r)) } else { r };
                    acc = ME::Binary(MB::P(op), Box::new(acc), Box::new(r));
                }
                acc
            }
            2 => {
                if self.rng.chance(3, 5) {
                    return self.expr_level(3, depth, vars);
                }
                let l = self.expr_level(3, depth - 1, vars);
                {
                    let op = *self.pick(&[
                        B0::LessOrEqual,
                        B0::GreaterOrEqual,
                        B0::LessThan,
                        B0::GreaterThan,
                        B0::Equal,
                        B0::NotEqual,
                        B0::HeterogeneousEqual,
                        B0::HeterogeneousNotEqual,
                    ]);
                    let r = self.expr_level(3, depth - 1, vars);
                    ME::Binary(MB::P(op), Box::new(l), Box::new(r))
                }
            }
            8 => {
                if self.rng.chance(1, 5) {
                    let e = self.expr_level(6, depth - 1, vars);
                    ME::Unary(MU::Negate, Box::new(e))
                } else {
                    self.expr_level(9, depth, vars)
                }
            }
            _ => {
                // expr9: expr_term then methods
                let mut acc = if self.rng.chance(1, 4) {
                    Self::parens(self.expr_level(0, depth - 1, vars))
                } else {
                    self.leaf(vars)
                };
                let n = if self.rng.chance(1, 2) { 0 } else { 1 + self.rng.below(2) };
                for _ in 0..n {
                    // a date literal directly before '.' does not re-parse (known class)
                    if let ME::Value(MT::Date(_)) = acc {
                        if !self.hazard {
                            acc = Self::parens(acc);
                        }
                    }
                    match self.rng.below(14) {
                        0 => acc = ME::Unary(MU::Length, Box::new(acc)),
                        1 => acc = ME::Unary(MU::TypeOf, Box::new(acc)),
                        2 => acc = ME::Unary(MU::Ffi(self.name()), Box::new(acc)),
                        3 | 4 => {
                            let op = *self.pick(&[B0::All, B0::Any]);
                            let p = format!("p{}", depth);
                            let mut vs = vars.to_vec();
                            vs.push(p.clone());
                            let body = self.expr_level(0, depth - 1, &vs);
                            acc = ME::Binary(
                                MB::P(op),
                                Box::new(acc),
                                Box::new(ME::Closure(vec![p], Box::new(body))),
                            );
                        }
                        5 => {
                            let a = self.expr_level(0, depth - 1, vars);
                            acc = ME::Binary(MB::Ffi(self.name()), Box::new(acc), Box::new(a));
                        }
                        _ => {
                            let op = *self.pick(&[
                                B0::Contains,
                                B0::Prefix,
                                B0::Suffix,
                                B0::Regex,
                                B0::Intersection,
                                B0::Union,
                                B0::Get,
                            ]);
                            let a = self.expr_level(0, depth - 1, vars);
                            acc = ME::Binary(MB::P(op), Box::new(acc), Box::new(a));
                        }
                    }
                }
                acc
            }
        }
    }
    pub fn expr(&mut self, vars: &[String]) -> ME {
        let d = 1 + self.rng.below(4) as u32;
        self.expr_level(0, d, vars)
    }
    /// any tree at all (not necessarily in the parser's image): operators of every kind
    /// in every position, strict And/Or, closures anywhere
    pub fn wild_expr(&mut self, depth: u32, vars: &[String]) -> ME {
        if depth == 0 {
            return self.leaf(vars);
        }
        match self.rng.below(10) {
            0 => self.leaf(vars),
            1 => ME::Unary(
                match self.rng.below(5) {
                    0 => MU::Negate,
                    1 => MU::Parens,
                    2 => MU::Length,
                    3 => MU::TypeOf,
                    _ => MU::Ffi(self.name()),
                },
                Box::new(self.wild_expr(depth - 1, vars)),
            ),
            2 => ME::Closure(
                if self.rng.chance(1, 2) { vec![] } else { vec![self.var()] },
                Box::new(self.wild_expr(depth - 1, vars)),
            ),
            _ => {
                let all = [
                    B0::LessThan, B0::GreaterThan, B0::LessOrEqual, B0::GreaterOrEqual, B0::Equal, B0::Contains,
                    B0::Prefix, B0::Suffix, B0::Regex, B0::Add, B0::Sub, B0::Mul, B0::Div, B0::And, B0::Or,
                    B0::Intersection, B0::Union, B0::BitwiseAnd, B0::BitwiseOr, B0::BitwiseXor, B0::NotEqual,
                    B0::HeterogeneousEqual, B0::HeterogeneousNotEqual, B0::LazyAnd, B0::LazyOr, B0::All, B0::Any,
                    B0::Get,
                ];
                let b = if self.rng.chance(1, 20) { MB::Ffi(self.name()) } else { MB::P(*self.pick(&all)) };
                ME::Binary(b, Box::new(self.wild_expr(depth - 1, vars)), Box::new(self.wild_expr(depth - 1, vars)))
            }
        }
    }

    pub fn body(&mut self, params: bool) -> (Vec<MPred>, Vec<Vec<MOp>>, Vec<MScope>, Vec<String>) {
        let np = self.rng.below(3);
        let mut vars: Vec<String> = vec![];
        let mut preds = vec![];
        for _ in 0..np {
            let n = 1 + self.rng.below(3);
            let mut terms = vec![];
            for _ in 0..n {
                if self.rng.chance(1, 2) {
                    let v = self.var();
                    if !vars.contains(&v) {
                        vars.push(v.clone());
                    }
                    terms.push(MT::Var(v));
                } else {
                    terms.push(self.rule_term(&[], params));
                }
            }
            preds.push(MPred { name: self.name(), terms });
        }
        let ne = if np == 0 { 1 + self.rng.below(2) } else { self.rng.below(3) };
        let exprs = (0..ne).map(|_| self.expr(&vars).ops()).collect();
        (preds, exprs, self.scopes(), vars)
    }
    pub fn rule(&mut self, params: bool) -> MRule {
        let (body, exprs, scopes, vars) = self.body(params);
        let n = if self.hazard { self.rng.below(3) } else { 1 + self.rng.below(2) };
        let head = MPred { name: self.name(), terms: (0..n).map(|_| self.rule_term(&vars, params)).collect() };
        MRule { head, body, exprs, scopes }
    }
    pub fn query(&mut self, params: bool) -> MRule {
        let (body, exprs, scopes, _) = self.body(params);
        MRule { head: MPred { name: "query".into(), terms: vec![] }, body, exprs, scopes }
    }
    pub fn check(&mut self, params: bool) -> MCheck {
        let n = 1 + self.rng.below(3);
        MCheck {
            queries: (0..n).map(|_| self.query(params)).collect(),
            kind: *self.pick(&[CK::One, CK::All, CK::Reject]),
        }
    }
    pub fn policy(&mut self, params: bool) -> MPolicy {
        let n = 1 + self.rng.below(3);
        MPolicy { queries: (0..n).map(|_| self.query(params)).collect(), allow: self.rng.chance(1, 2) }
    }
}

// ------------------------------------------------------------------ mutation of text
const MUT_ALPHABET: [&str; 40] = [
    " ", "\n", "\t", ",", ";", "(", ")", "{", "}", "[", "]", "\"", "\\", "$", "!", "&", "|", "<", ">", "=", "+",
    "-", "*", "/", ".", ":", "^", "0", "9", "a", "T", "Z", "é", "ł", "or", "trusting", "<-", "//", "/*", "*/",
];
pub fn mutate(rng: &mut Rng, s: &str) -> String {
    let chars: Vec<char> = s.chars().collect();
    let n = 1 + rng.below(2);
    let mut v = chars;
    for _ in 0..n {
        let pos = rng.below(v.len() as u64 + 1) as usize;
        match rng.below(6) {
            0 | 1 => {
                // insert
                let ins: Vec<char> = rng.pick(&MUT_ALPHABET).chars().collect();
                let tail = v.split_off(pos.min(v.len()));
                v.extend(ins);
                v.extend(tail);
            }
            2 => {
                if pos < v.len() {
                    v.remove(pos);
                }
            }
            3 => {
                if pos < v.len() {
                    let r: Vec<char> = rng.pick(&MUT_ALPHABET).chars().collect();
                    v[pos] = r[0];
                }
            }
            4 => {
                // duplicate a slice
                if !v.is_empty() {
                    let a = pos.min(v.len() - 1);
                    let b = (a + 1 + rng.below(6) as usize).min(v.len());
                    let sl: Vec<char> = v[a..b].to_vec();
                    let tail = v.split_off(b);
                    v.extend(sl);
                    v.extend(tail);
                }
            }
            _ => {
                // change case of an ASCII letter
                if pos < v.len() && v[pos].is_ascii_alphabetic() {
                    v[pos] = if v[pos].is_ascii_lowercase() {
                        v[pos].to_ascii_uppercase()
                    } else {
                        v[pos].to_ascii_lowercase()
                    };
                }
            }
        }
    }
    v.into_iter().filter(|c| *c != '\u{212a}').collect()
}

/// whitespace / comment variation that must not change the parse: spaces around
/// separators (never inside string literals)
pub fn respace(rng: &mut Rng, s: &str) -> String {
    let mut out = String::new();
    let mut in_str = false;
    let mut prev_bs = false;
    for ch in s.chars() {
        if in_str {
            out.push(ch);
            if ch == '"' && !prev_bs {
                in_str = false;
            }
            prev_bs = ch == '\\' && !prev_bs;
            continue;
        }
        if ch == '"' {
            in_str = true;
            out.push(ch);
            continue;
        }
        if (ch == ',' || ch == ')') && rng.chance(1, 3) {
            // a date token is only ended by a plain space, never by a tab or a newline
            out.push_str(*rng.pick(&[" ", "  "]));
        }
        out.push(ch);
        if (ch == ',' || ch == '(') && rng.chance(1, 3) {
            out.push_str(*rng.pick(&[" ", "\n", "\t ", "  "]));
        }
    }
    out
}

//! Block-content wire correspondence (C02 / C09): prost's schema::Block::decode and
//! encode_to_vec against Model.BlockWire on schema-aware raw protobuf trees, structured
//! values, nesting probes around the recursion budget, merge probes, byte mutations, blocks
//! built by the library and the blocks of the conformance samples.
use prost::Message;
use std::collections::{BTreeMap, HashSet};
use verif_harness::blockwire::*;
use verif_harness::wire::pb_encode;
use verif_harness::*;

fn main() {
    let seed = arg_u64("--seed", 1);
    let tier = arg("--tier").unwrap_or("quick".into());
    let out = arg("--out-dir").expect("--out-dir");
    let shards = arg_u64("--shards", 16) as usize;
    let repo = arg("--repo").unwrap_or("/repo".into());
    let thorough = tier == "thorough";
    let n_raw = arg_u64("--n-raw", if thorough { 30000 } else { 1800 }) as usize;
    let n_struct = arg_u64("--n-struct", if thorough { 8000 } else { 500 }) as usize;
    let n_tokens = arg_u64("--n-tokens", if thorough { 600 } else { 40 }) as usize;
    let n_mut = arg_u64("--n-mut", if thorough { 20 } else { 3 }) as usize;
    std::panic::set_hook(Box::new(|_| {}));
    let mut rng = Rng::new(seed ^ 0xb10c);

    let mut cases: Vec<BwCase> = vec![];
    // 1. hand-written probes
    for (name, b) in merge_probes() {
        cases.push(bw_case(&format!("probe {}", name), b));
    }
    for (name, b) in depth_probes() {
        cases.push(bw_case(&format!("depth {}", name), b));
    }
    let n_probes = cases.len();
    // 2. the conformance samples' blocks, and mutations of them
    let samples = sample_blocks(&format!("{}/biscuit-auth/samples", repo));
    let n_samples = samples.len();
    let mut valid: Vec<Vec<u8>> = vec![];
    for (name, b) in &samples {
        cases.push(bw_case(&format!("sample {}", name), b.clone()));
        valid.push(b.clone());
    }
    // 3. blocks built by the library (C04's generator: every term type, expressions, closures, scopes)
    let mut n_built = 0usize;
    {
        use verif_harness::auth::{self, AGen};
        use verif_harness::datalog::DGen;
        let keys = auth::make_keys(&mut rng);
        for j in 0..n_tokens {
            let mut g = AGen { d: DGen { rng: rng.fork(), risky: j % 2 == 0 }, nblocks: 0 };
            let nb = 1 + g.d.rng.below(3) as usize;
            let blocks: Vec<auth::ABlock> = (0..nb).map(|i| g.block(i)).collect();
            let r = std::panic::catch_unwind(std::panic::AssertUnwindSafe(|| auth::build_token(&blocks, &keys, &mut rng).ok().and_then(|t| t.to_vec().ok())));
            if let Ok(Some(bytes)) = r {
                if let Ok(t) = biscuit_auth::format::schema::Biscuit::decode(&bytes[..]) {
                    for b in std::iter::once(&t.authority).chain(t.blocks.iter()) {
                        cases.push(bw_case("built", b.block.clone()));
                        valid.push(b.block.clone());
                        n_built += 1;
                    }
                }
            }
        }
    }
    // 4. structured values encoded by prost
    for j in 0..n_struct {
        let b = rand_block(&mut rng, (j % 4) as usize);
        let bytes = b.encode_to_vec();
        if j % 3 == 0 {
            valid.push(bytes.clone());
        }
        cases.push(bw_case("struct", bytes));
    }
    // 5. schema-aware raw trees
    for j in 0..n_raw {
        let wild = [0u64, 0, 5, 5, 15, 40][j % 6];
        let depth = [2usize, 4, 6, 8][j % 4];
        let raw = raw_msg(&mut rng, M::Block, depth, wild);
        cases.push(bw_case(&format!("raw wild={}", wild), pb_encode(&raw)));
    }
    // 6. byte mutations of valid encodings
    let mut n_mutated = 0usize;
    for b in &valid {
        for _ in 0..n_mut {
            cases.push(bw_case("mutated", mutate(&mut rng, b)));
            n_mutated += 1;
        }
    }
    // concatenations (= merge of two blocks)
    for j in 0..(valid.len() / 4) {
        let a = &valid[rng.below(valid.len() as u64) as usize];
        let b = &valid[(j * 7) % valid.len()];
        let mut v = a.clone();
        v.extend_from_slice(b);
        cases.push(bw_case("concatenated", v));
    }

    // ---- direct oracle (implementation only): a token built through the API whose authority block holds a
    // term nested `d` arrays deep must be readable again (C02); the smallest depth that is not is reported
    let mut nesting_fail: Option<usize> = None;
    let mut nesting_checked = 0usize;
    {
        use biscuit_auth::builder::{BlockBuilder, Fact, MapKey, Term};
        let kp = biscuit_auth::KeyPair::new_with_rng(biscuit_auth::builder::Algorithm::Ed25519, &mut rng);
        let kp2 = biscuit_auth::KeyPair::new_with_rng(biscuit_auth::builder::Algorithm::Ed25519, &mut rng);
        // arrays and maps; in the authority block, in a block appended through Biscuit and through UnverifiedBiscuit
        for kind in 0..2u8 {
            for path in 0..3u8 {
                for d in (1..=4).chain(if kind == 0 { 44..=52 } else { 28..=36 }) {
                    let mut t = Term::Integer(1);
                    for _ in 0..d {
                        t = if kind == 0 {
                            Term::Array(vec![t])
                        } else {
                            let mut m = std::collections::BTreeMap::new();
                            m.insert(MapKey::Integer(0), t);
                            Term::Map(m)
                        };
                    }
                    let r = std::panic::catch_unwind(std::panic::AssertUnwindSafe(|| {
                        let deep = Fact::new("deep".to_string(), vec![t.clone()]);
                        let tok = if path == 0 {
                            biscuit_auth::Biscuit::builder().fact(deep).ok()?.build_with_rng(&kp, biscuit_auth::datalog::SymbolTable::default(), &mut rng).ok()?
                        } else {
                            let base = biscuit_auth::Biscuit::builder().fact("base(1)").ok()?.build_with_rng(&kp, biscuit_auth::datalog::SymbolTable::default(), &mut rng).ok()?;
                            let bb = BlockBuilder::new().fact(deep).ok()?;
                            if path == 1 {
                                base.append_with_keypair(&kp2, bb).ok()?
                            } else {
                                let u = biscuit_auth::UnverifiedBiscuit::from(&base.to_vec().ok()?).ok()?;
                                let u2 = u.append_with_keypair(&kp2, bb).ok()?;
                                let bytes = u2.to_vec().ok()?;
                                return Some(biscuit_auth::Biscuit::from(&bytes, kp.public()).is_ok());
                            }
                        };
                        let bytes = tok.to_vec().ok()?;
                        Some(biscuit_auth::Biscuit::from(&bytes, kp.public()).is_ok())
                    }));
                    nesting_checked += 1;
                    match r {
                        Ok(Some(true)) => {}
                        Ok(Some(false)) => {
                            if nesting_fail.is_none() {
                                nesting_fail = Some(d);
                            }
                        }
                        other => {
                            if std::env::var("BW_DEBUG").is_ok() {
                                eprintln!("nesting kind {} path {} depth {}: {:?}", kind, path, d, other.is_ok());
                            }
                        }
                    }
                }
            }
        }
    }

    // ---- statistics
    let mut hist: BTreeMap<String, u64> = BTreeMap::new();
    let mut seen: HashSet<Vec<u8>> = HashSet::new();
    let mut nontrivial = 0u64;
    let mut panics = vec![];
    let mut accepted = 0u64;
    let mut max_len = 0usize;
    for (i, cs) in cases.iter().enumerate() {
        let kind = cs.kind.split(' ').next().unwrap_or("").to_string();
        *hist.entry(format!("{} {}", kind, if cs.decoded.is_some() { "decoded" } else { "refused" })).or_default() += 1;
        if cs.decoded.is_some() {
            accepted += 1;
        }
        if cs.panicked {
            panics.push(i);
        }
        // distinct by bytes; non-trivial = more than a bare header
        if seen.insert(cs.bytes.clone()) && cs.bytes.len() > 4 {
            nontrivial += 1;
        }
        max_len = max_len.max(cs.bytes.len());
    }
    let terms: Vec<G> = cases.iter().map(g_bwcase).collect();
    let lines: Vec<String> = terms.iter().map(|g| g.gallina()).collect();
    let files = write_cases(&out, "BW", "blockwire", "Model.BlockWireCases", "bwcase", "bw_failures", &terms, 0, shards).expect("write cases");
    let kernel_n = arg_u64("--kernel-n", if thorough { 640 } else { 64 }) as usize;
    let sample = verif_harness::wire::kernel_sample(&terms, &lines, kernel_n, 60_000, 4_000_000, shards);
    let kfiles = write_cases(&out, "BWk", "blockwire", "Model.BlockWireCases", "bwcase", "bw_failures", &sample, sample.len(), shards).expect("write kernel cases");
    let _ = std::fs::write(format!("{}/BW_cases.txt", out), lines.join("\n"));
    let _ = std::fs::write(
        format!("{}/BW_info.txt", out),
        cases.iter().map(|c| format!("{} bytes={}", c.kind, hex::encode(&c.bytes))).collect::<Vec<_>>().join("\n"),
    );
    let hist_s: Vec<String> = hist.iter().map(|(k, v)| format!("{}: {}", jstr(k), v)).collect();
    let files_s: Vec<String> = files.iter().chain(kfiles.iter()).map(|p| jstr(p)).collect();
    println!(
        "{{\"family\": \"blockwire\", \"evaluations\": {}, \"probes\": {}, \"sample_blocks\": {}, \"library_built_blocks\": {}, \"structured_values\": {}, \"raw_trees\": {}, \"byte_mutations\": {}, \"decoded\": {}, \"distinct_nontrivial\": {}, \"longest_input\": {}, \"kind_histogram\": {{{}}}, \"builder_nesting_depths_checked\": {}, \"builder_nesting_first_unreadable_depth\": {}, \"panics\": {:?}, \"kernel_sample\": {}, \"files\": [{}]}}",
        cases.len(),
        n_probes,
        n_samples,
        n_built,
        n_struct,
        n_raw,
        n_mutated,
        accepted,
        nontrivial,
        max_len,
        hist_s.join(", "),
        nesting_checked,
        nesting_fail.map(|d| d.to_string()).unwrap_or("null".into()),
        &panics[..panics.len().min(50)],
        sample.len(),
        files_s.join(", ")
    );
}

//! C14 correspondence: (i) printer equality -- builder `Display` and `SymbolTable::print_*`
//! against the model printer; (ii) parser equality -- biscuit_parser::parser::{fact, rule,
//! check, policy, parse_source, parse_block_source} against the model parser on printed,
//! re-spaced and mutated text; (iii) the direct oracle of the property on the
//! implementation alone: parse(to_string(x)) == x, block source -> BlockBuilder::code,
//! Authorizer::dump_code -> AuthorizerBuilder::code.
use biscuit_auth::builder::{self as ab, Convert};
use biscuit_auth::datalog::SymbolTable;
use biscuit_parser::parser as pp;
use std::collections::{BTreeMap, HashSet};
use std::panic::{catch_unwind, AssertUnwindSafe};
use verif_harness::text::*;
use verif_harness::*;

#[derive(Clone, Copy, Debug, PartialEq)]
enum PK {
    Fact,
    Rule,
    Check,
    Policy,
    Source,
    BlockSource,
}
impl PK {
    fn g(&self) -> G {
        c0(match self {
            PK::Fact => "KFact",
            PK::Rule => "KRule",
            PK::Check => "KCheck",
            PK::Policy => "KPolicy",
            PK::Source => "KSource",
            PK::BlockSource => "KBlockSource",
        })
    }
}

#[derive(Clone, Debug, PartialEq)]
enum IParse {
    Ok(Item),
    Err,
    Panic,
}

fn impl_print(item: &Item) -> Option<String> {
    let item = item.clone();
    catch_unwind(AssertUnwindSafe(move || match &item {
        Item::Fact(p) => ab_fact(p).to_string(),
        Item::Rule(r) => ab_rule(r).to_string(),
        Item::Check(k) => ab_check(k).to_string(),
        Item::Policy(p) => ab_policy(p).to_string(),
        Item::Term(t) => ab_term(t).to_string(),
        Item::Expr(e) => ab_expr(e).to_string(),
        Item::Source(_) => unreachable!(),
    }))
    .ok()
}

/// the item as the builder holds it (sets and maps in BTree order)
fn canon_item(item: &Item) -> Item {
    match item {
        Item::Fact(p) => Item::Fact(m_of_ab_pred(&ab_fact(p).predicate)),
        Item::Rule(r) => Item::Rule(display_order_rule(&m_of_ab_rule(&ab_rule(r)))),
        Item::Check(k) => {
            let k = m_of_ab_check(&ab_check(k));
            Item::Check(MCheck { queries: k.queries.iter().map(display_order_rule).collect(), kind: k.kind })
        }
        Item::Policy(p) => {
            let p = m_of_ab_policy(&ab_policy(p));
            Item::Policy(MPolicy { queries: p.queries.iter().map(display_order_rule).collect(), allow: p.allow })
        }
        Item::Term(t) => Item::Term(m_of_ab_term(&ab_term(t))),
        Item::Expr(e) => Item::Expr(display_order_ops(e)),
        Item::Source(s) => Item::Source(s.clone()),
    }
}

fn impl_parse(kind: PK, text: &str) -> IParse {
    let text = text.to_string();
    match catch_unwind(AssertUnwindSafe(move || match kind {
        PK::Fact => pp::fact(&text).ok().map(|(_, f)| Item::Fact(m_of_pb_pred(&f.predicate))),
        PK::Rule => pp::rule(&text).ok().map(|(_, r)| Item::Rule(m_of_pb_rule(&r))),
        PK::Check => pp::check(&text).ok().map(|(_, c)| Item::Check(m_of_pb_check(&c))),
        PK::Policy => pp::policy(&text).ok().map(|(_, p)| Item::Policy(m_of_pb_policy(&p))),
        PK::Source => pp::parse_source(&text).ok().map(|s| Item::Source(m_of_pb_source(&s))),
        PK::BlockSource => pp::parse_block_source(&text).ok().map(|s| Item::Source(m_of_pb_source(&s))),
    })) {
        Ok(Some(i)) => IParse::Ok(i),
        Ok(None) => IParse::Err,
        Err(_) => IParse::Panic,
    }
}

fn g_iparse(r: &IParse) -> G {
    match r {
        IParse::Ok(i) => c("ROk", vec![g_item(i)]),
        IParse::Err => c0("RErr"),
        IParse::Panic => c0("RPanic"),
    }
}

fn g_print_case(item: &Item, out: &Option<String>) -> G {
    c("CPrint", vec![g_item(item), gopt(out.as_ref().map(|s| gstr(s)))])
}
fn g_parse_case(kind: PK, text: &str, r: &IParse) -> G {
    c("CParse", vec![kind.g(), gstr(text), g_iparse(r)])
}

/// SymbolTable::print_* on the converted item; the model item is rebuilt from the datalog
/// structures (sets in the engine's order)
fn dl_print(item: &Item) -> Option<(Item, String)> {
    let item = item.clone();
    catch_unwind(AssertUnwindSafe(move || {
        let mut syms = SymbolTable::new();
        match &item {
            Item::Fact(p) => {
                let f = ab_fact(p).convert(&mut syms);
                Some((Item::Fact(m_of_dl_pred(&f.predicate, &syms)), syms.print_fact(&f)))
            }
            Item::Rule(r) => {
                let d = ab_rule(r).convert(&mut syms);
                Some((Item::Rule(m_of_dl_rule(&d, &r.scopes, &syms)), syms.print_rule(&d)))
            }
            Item::Check(k) => {
                let d = ab_check(k).convert(&mut syms);
                let queries =
                    d.queries.iter().zip(k.queries.iter()).map(|(q, mq)| m_of_dl_rule(q, &mq.scopes, &syms)).collect();
                Some((Item::Check(MCheck { queries, kind: k.kind }), syms.print_check(&d)))
            }
            _ => None,
        }
    }))
    .ok()
    .flatten()
}

fn has_params(item: &Item) -> bool {
    format!("{:?}", item).contains("Param(")
}

fn kind_of(item: &Item) -> Option<PK> {
    match item {
        Item::Fact(_) => Some(PK::Fact),
        Item::Rule(_) => Some(PK::Rule),
        Item::Check(_) => Some(PK::Check),
        Item::Policy(_) => Some(PK::Policy),
        _ => None,
    }
}

struct OracleFailure {
    stream: String,
    kind: String,
    text: String,
    got: String,
    features: Vec<&'static str>,
}

fn main() {
    let seed = arg_u64("--seed", 1);
    let tier = arg("--tier").unwrap_or("quick".into());
    let out = arg("--out-dir").expect("--out-dir");
    let shards = arg_u64("--shards", 16) as usize;
    let thorough = tier == "thorough";
    let n_items = arg_u64("--n-items", if thorough { 9000 } else { 1000 });
    std::panic::set_hook(Box::new(|_| {}));

    let mut gen = Gen::new(seed);
    let mut cases: Vec<G> = vec![];
    let mut hist: BTreeMap<String, u64> = BTreeMap::new();
    let mut ophist: BTreeMap<String, u64> = BTreeMap::new();
    let mut seen: HashSet<String> = HashSet::new();
    let mut nontrivial = 0u64;
    let mut panics: Vec<usize> = vec![];
    let mut samples: Vec<String> = vec![];
    let mut failures: Vec<OracleFailure> = vec![];
    let mut oracle_checked = 0u64;
    let mut oracle_ok = 0u64;
    let mut outside_image = 0u64;
    let mut feature_hist: BTreeMap<String, u64> = BTreeMap::new();
    let mut outside_hist: BTreeMap<String, u64> = BTreeMap::new();
    let mut printed_texts: Vec<(PK, String)> = vec![];

    let bump = |h: &mut BTreeMap<String, u64>, k: &str| *h.entry(k.to_string()).or_default() += 1;

    // ---------------------------------------------------------------- corpus (always first)
    let corpus: Vec<(Item, bool)> = corpus_items(&gen);
    let mut items: Vec<(Item, bool, &'static str)> = corpus.into_iter().map(|(i, wf)| (i, wf, "corpus")).collect();
    let n_corpus = items.len();

    // ---------------------------------------------------------------- generated items
    for n in 0..n_items {
        gen.hazard = n % 4 == 3; // one in four draws from the known-finding classes too
        let stream = if gen.hazard { "hazard" } else { "clean" };
        let params = gen.rng.chance(1, 3);
        let it = match gen.rng.below(10) {
            0 | 1 => Item::Fact(gen.fact(params)),
            2 | 3 | 4 => Item::Rule(gen.rule(params)),
            5 | 6 => Item::Check(gen.check(params)),
            7 => Item::Policy(gen.policy(params)),
            8 => Item::Term(gen.fact_term(3, params)),
            _ => Item::Expr(gen.expr(&["x".to_string(), "y".to_string()]).ops()),
        };
        items.push((it, true, stream));
        // trees outside the parser's image and ill-formed op lists: printer and parser
        // equality only
        if n % 5 == 0 {
            let e = gen.wild_expr(3, &["x".to_string()]);
            items.push((Item::Expr(e.ops()), false, "wild"));
            let e2 = gen.wild_expr(2, &["x".to_string()]);
            let q = MRule {
                head: MPred { name: "query".into(), terms: vec![] },
                body: vec![MPred { name: "p".into(), terms: vec![MT::Var("x".into())] }],
                exprs: vec![e2.ops()],
                scopes: vec![],
            };
            items.push((Item::Check(MCheck { queries: vec![q], kind: CK::One }), false, "wild"));
        }
        if n % 25 == 0 {
            let mut ops = gen.wild_expr(2, &[]).ops();
            if !ops.is_empty() {
                let k = gen.rng.below(ops.len() as u64) as usize;
                if gen.rng.chance(1, 2) {
                    ops.remove(k);
                } else {
                    ops.push(MOp::Binary(MB::P(B0::Add)));
                }
            }
            items.push((Item::Expr(ops), false, "illformed"));
        }
    }

    for (idx, (raw, wf, stream)) in items.iter().enumerate() {
        let item = canon_item(raw);
        // (i) builder Display
        let printed = impl_print(&item);
        let g = g_print_case(&item, &printed);
        bump(&mut hist, &format!("print:{}:{}", stream, if printed.is_some() { "ok" } else { "panic" }));
        count_ops(&item, &mut ophist);
        let line = g.gallina();
        if seen.insert(line.clone()) && printed.is_some() {
            nontrivial += 1;
        }
        if idx < n_corpus || (samples.len() < 8 && idx % 97 == 0) {
            samples.push(line.chars().take(600).collect());
        }
        cases.push(g);
        // (i') SymbolTable::print_*
        if !has_params(&item) && *stream != "illformed" {
            if let Some((ditem, text)) = dl_print(&item) {
                let g = g_print_case(&ditem, &Some(text));
                bump(&mut hist, "print_symbol_table:ok");
                if seen.insert(g.gallina()) {
                    nontrivial += 1;
                }
                cases.push(g);
            }
        }
        let text = match &printed {
            Some(t) => t.clone(),
            None => continue,
        };
        let kind = match kind_of(&item) {
            Some(k) => k,
            None => continue,
        };
        printed_texts.push((kind, text.clone()));
        // (ii) parser equality on the printed text, a re-spaced and mutated variants
        let r = impl_parse(kind, &text);
        bump(
            &mut hist,
            &format!(
                "parse_printed:{}:{}",
                stream,
                match &r {
                    IParse::Ok(_) => "ok",
                    IParse::Err => "err",
                    IParse::Panic => "panic",
                }
            ),
        );
        if r == IParse::Panic {
            panics.push(cases.len());
        }
        cases.push(g_parse_case(kind, &text, &r));
        // (iii) direct oracle
        let feats = feat_item(&item);
        for f in feats.list() {
            bump(&mut feature_hist, f);
        }
        if feats.outside_image() {
            for f in feats.list() {
                bump(&mut outside_hist, f);
            }
        }
        if *wf && !feats.outside_image() {
            oracle_checked += 1;
            if same_item(&r, &item) {
                oracle_ok += 1;
            } else {
                failures.push(OracleFailure {
                    stream: stream.to_string(),
                    kind: format!("{:?}", kind),
                    text: text.clone(),
                    got: match &r {
                        IParse::Ok(i) => format!("different item: {}", first_diff(&format!("{:?}", norm_item(i)), &format!("{:?}", norm_item(&item)))),
                        IParse::Err => "parse error".into(),
                        IParse::Panic => "panic".into(),
                    },
                    features: feats.list(),
                });
            }
        } else if !same_item(&r, &item) {
            outside_image += 1;
        }
        let rs = respace(&mut gen.rng, &text);
        if rs != text {
            let r2 = impl_parse(kind, &rs);
            bump(&mut hist, &format!("parse_respaced:{}", if let IParse::Ok(_) = r2 { "ok" } else { "err" }));
            if !same_parse(&r2, &r) {
                // not part of the property (e.g. a tab after a date literal is not a token end)
                bump(&mut hist, "parse_respaced:differs_from_printed");
            }
            cases.push(g_parse_case(kind, &rs, &r2));
        }
        let n_mut = if thorough { 3 } else { 2 };
        for _ in 0..n_mut {
            let mt = mutate(&mut gen.rng, &text);
            let r3 = impl_parse(kind, &mt);
            bump(
                &mut hist,
                &format!(
                    "parse_mutated:{}",
                    match &r3 {
                        IParse::Ok(_) => "ok",
                        IParse::Err => "err",
                        IParse::Panic => "panic",
                    }
                ),
            );
            if r3 == IParse::Panic {
                panics.push(cases.len());
            }
            let g = g_parse_case(kind, &mt, &r3);
            if seen.insert(g.gallina()) {
                if let IParse::Ok(_) = r3 {
                    nontrivial += 1;
                }
            }
            cases.push(g);
        }
    }

    // ---------------------------------------------------------------- sources
    let n_src = if thorough { 600 } else { 120 };
    for n in 0..n_src {
        gen.hazard = false;
        let block = n % 2 == 0;
        let mut text = String::new();
        if block && gen.rng.chance(1, 3) {
            let ss = gen.scopes();
            if !ss.is_empty() {
                text.push_str("trusting ");
                text.push_str(&ss.iter().map(|s| ab_scope(s).to_string()).collect::<Vec<_>>().join(", "));
                text.push_str(";\n");
            }
        }
        let k = 1 + gen.rng.below(5);
        for _ in 0..k {
            if gen.rng.chance(1, 5) {
                text.push_str(*gen.rng.pick(&["// a comment\n", "/* multi\nline */", "  // trailing", "\n\n", "//\r\n"]));
                if text.ends_with("trailing") {
                    text.push('\n');
                }
            }
            let (kind, t) = gen.rng.pick(&printed_texts).clone();
            if kind == PK::Policy && block && gen.rng.chance(3, 4) {
                continue;
            }
            text.push_str(&t);
            text.push_str(*gen.rng.pick(&[";\n", ";", " ;\n", ";\n\n"]));
        }
        let kind = if block { PK::BlockSource } else { PK::Source };
        for variant in 0..3 {
            let t = if variant == 0 { text.clone() } else { mutate(&mut gen.rng, &text) };
            let r = impl_parse(kind, &t);
            bump(
                &mut hist,
                &format!(
                    "parse_source:{}",
                    match &r {
                        IParse::Ok(_) => "ok",
                        IParse::Err => "err",
                        IParse::Panic => "panic",
                    }
                ),
            );
            if r == IParse::Panic {
                panics.push(cases.len());
            }
            let g = g_parse_case(kind, &t, &r);
            if seen.insert(g.gallina()) {
                if let IParse::Ok(_) = r {
                    nontrivial += 1;
                }
            }
            cases.push(g);
        }
    }

    // ---------------------------------------------------------------- block / authorizer round trips (impl only)
    let n_blk = if thorough { 400 } else { 80 };
    let mut block_checked = 0u64;
    let mut auth_checked = 0u64;
    for n in 0..n_blk {
        gen.hazard = n % 4 == 3;
        let stream = if gen.hazard { "hazard" } else { "clean" };
        let facts: Vec<MPred> = (0..gen.rng.below(3)).map(|_| gen.fact(false)).collect();
        let rules: Vec<MRule> = (0..gen.rng.below(3)).map(|_| gen.rule(false)).collect();
        let checks: Vec<MCheck> = (0..gen.rng.below(3)).map(|_| gen.check(false)).collect();
        let policies: Vec<MPolicy> = (0..1 + gen.rng.below(2)).map(|_| gen.policy(false)).collect();
        let block_scopes: Vec<MScope> = if n % 3 == 0 {
            gen.scopes().into_iter().filter(|s| !matches!(s, MScope::Param(_))).collect()
        } else {
            vec![]
        };
        let no_param = |r: &MRule| !r.scopes.iter().any(|s| matches!(s, MScope::Param(_)));
        let rules: Vec<MRule> = rules.into_iter().filter(|r| no_param(r)).collect();
        let checks: Vec<MCheck> = checks.into_iter().filter(|c| c.queries.iter().all(|r| no_param(r))).collect();
        let policies: Vec<MPolicy> = policies.into_iter().filter(|c| c.queries.iter().all(|r| no_param(r))).collect();
        let src = MSource {
            scopes: block_scopes.clone(),
            facts: facts.clone(),
            rules: rules.clone(),
            checks: checks.clone(),
            policies: vec![],
        };
        let canon_src = |s: &MSource| MSource {
            scopes: s.scopes.clone(),
            facts: s.facts.iter().map(|f| m_of_ab_pred(&ab_fact(f).predicate)).collect(),
            rules: s.rules.iter().map(|r| m_of_ab_rule(&ab_rule(r))).collect(),
            checks: s.checks.iter().map(|c| m_of_ab_check(&ab_check(c))).collect(),
            policies: s.policies.iter().map(|c| m_of_ab_policy(&ab_policy(c))).collect(),
        };
        let mut feats = feat_item(&Item::Source(canon_src(&src)));
        // block: builder -> token -> print_block_source -> BlockBuilder::code
        let res = catch_unwind(AssertUnwindSafe(|| {
            let mut b = ab::BlockBuilder::new();
            for f in &facts {
                b.facts.push(ab_fact(f));
            }
            for r in &rules {
                b.rules.push(ab_rule(r));
            }
            for c in &checks {
                b.checks.push(ab_check(c));
            }
            for s in &block_scopes {
                b = b.scope(ab_scope(s));
            }
            let orig = block_m(&b);
            let root = biscuit_auth::KeyPair::new_with_rng(ab::Algorithm::Ed25519, &mut Rng::new(7));
            let token = ab::BiscuitBuilder::new().merge(b.clone());
            let mut token = token;
            for s in &block_scopes {
                token = token.scope(ab_scope(s));
            }
            let token = token.build_with_rng(&root, SymbolTable::default(), &mut Rng::new(8)).ok()?;
            let text = token.print_block_source(0).ok()?;
            let back = ab::BlockBuilder::new().code(&text);
            Some((orig, text, back.ok().map(|b| block_m(&b))))
        }));
        match res {
            Ok(Some(_)) if feats.outside_image() => {}
            Ok(Some((orig, text, back))) => {
                block_checked += 1;
                oracle_checked += 1;
                if back.as_ref().map(norm_source) == Some(norm_source(&orig)) {
                    oracle_ok += 1;
                } else {
                    let mut fl = feats.list();
                    if !orig.scopes.is_empty() && back.as_ref().map(|b| b.scopes.is_empty()).unwrap_or(false) {
                        fl.push("block_scopes_not_printed");
                    }
                    failures.push(OracleFailure {
                        stream: stream.to_string(),
                        kind: "BlockSource".into(),
                        text,
                        got: match back {
                            Some(b) => format!("different block: {:?}", b).chars().take(300).collect(),
                            None => "BlockBuilder::code error".into(),
                        },
                        features: fl,
                    });
                }
            }
            Ok(None) => bump(&mut hist, "block_roundtrip:not_buildable"),
            Err(_) => bump(&mut hist, "block_roundtrip:panic_in_build_or_print"),
        }
        // authorizer: builder -> Authorizer::dump_code -> AuthorizerBuilder::code
        let res = catch_unwind(AssertUnwindSafe(|| {
            let mut a = ab::AuthorizerBuilder::new();
            for f in &facts {
                a = a.fact(ab_fact(f)).ok()?;
            }
            for r in &rules {
                a = a.rule(ab_rule(r)).ok()?;
            }
            for c in &checks {
                a = a.check(ab_check(c)).ok()?;
            }
            for p in &policies {
                a = a.policy(ab_policy(p)).ok()?;
            }
            let az = a.build_unauthenticated().ok()?;
            let text = az.dump_code();
            let orig = dump_m(&az);
            let back = ab::AuthorizerBuilder::new()
                .code(&text)
                .ok()
                .and_then(|b| b.build_unauthenticated().ok())
                .map(|az2| dump_m(&az2));
            Some((orig, text, back))
        }));
        feats = feat_item(&Item::Source(canon_src(&MSource { policies: policies.clone(), ..src.clone() })));
        match res {
            Ok(Some(_)) if feats.outside_image() => {}
            Ok(Some((orig, text, back))) => {
                auth_checked += 1;
                oracle_checked += 1;
                if back.as_ref() == Some(&orig) {
                    oracle_ok += 1;
                } else {
                    failures.push(OracleFailure {
                        stream: stream.to_string(),
                        kind: "AuthorizerDump".into(),
                        text,
                        got: match back {
                            Some(b) => format!("different authorizer: {:?}", b).chars().take(300).collect(),
                            None => "AuthorizerBuilder::code error".into(),
                        },
                        features: feats.list(),
                    });
                }
            }
            Ok(None) => bump(&mut hist, "authorizer_roundtrip:not_buildable"),
            Err(_) => bump(&mut hist, "authorizer_roundtrip:panic_in_build_or_print"),
        }
    }

    // ---------------------------------------------------------------- output
    let kernel_n = arg_u64("--kernel-n", if thorough { 1200 } else { 160 }) as usize;
    let files = write_cases(&out, "C14", "text", "Model.TextCases", "tcase", "tcase_failures", &cases, 0, shards)
        .expect("write cases");
    let stride = (cases.len() / kernel_n.max(1)).max(1);
    let sample: Vec<G> = cases
        .iter()
        .enumerate()
        .filter(|(i, _)| *i < 3 * n_corpus || i % stride == 0)
        .map(|(_, g)| g.clone())
        .collect();
    let kfiles = write_cases(&out, "C14k", "text", "Model.TextCases", "tcase", "tcase_failures", &sample, sample.len(), shards)
        .expect("write kernel cases");
    let _ = std::fs::write(
        format!("{}/C14_cases.txt", out),
        cases.iter().map(|g| format!("({})", g.gallina())).collect::<Vec<_>>().join("\n"),
    );

    let jmap = |h: &BTreeMap<String, u64>| h.iter().map(|(k, v)| format!("{}: {}", jstr(k), v)).collect::<Vec<_>>().join(", ");
    let fail_s: Vec<String> = failures
        .iter()
        .take(400)
        .map(|f| {
            format!(
                "{{\"stream\": {}, \"kind\": {}, \"text\": {}, \"got\": {}, \"features\": [{}]}}",
                jstr(&f.stream),
                jstr(&f.kind),
                jstr(&f.text.chars().take(400).collect::<String>()),
                jstr(&f.got),
                f.features.iter().map(|x| jstr(x)).collect::<Vec<_>>().join(", ")
            )
        })
        .collect();
    let files_s: Vec<String> = files.iter().chain(kfiles.iter()).map(|p| jstr(p)).collect();
    println!(
        "{{\"family\": \"text\", \"evaluations\": {}, \"items\": {}, \"corpus\": {}, \"distinct_nontrivial\": {}, \"result_histogram\": {{{}}}, \"operator_histogram\": {{{}}}, \"known_class_features_in_items\": {{{}}}, \"panics\": {:?}, \"samples\": [{}], \"kernel_sample\": {}, \"oracle_checked\": {}, \"oracle_ok\": {}, \"block_roundtrips\": {}, \"authorizer_roundtrips\": {}, \"outside_parser_image_not_roundtripping\": {}, \"outside_parser_image_features\": {{{}}}, \"oracle_failure_count\": {}, \"oracle_failures\": [{}], \"files\": [{}]}}",
        cases.len(),
        items.len(),
        n_corpus,
        nontrivial,
        jmap(&hist),
        jmap(&ophist),
        jmap(&feature_hist),
        panics,
        samples.iter().map(|s| jstr(s)).collect::<Vec<_>>().join(", "),
        sample.len(),
        oracle_checked,
        oracle_ok,
        block_checked,
        auth_checked,
        outside_image,
        jmap(&outside_hist),
        failures.len(),
        fail_s.join(", "),
        files_s.join(", ")
    );
}

fn first_diff(a: &str, b: &str) -> String {
    let ca: Vec<char> = a.chars().collect();
    let cb: Vec<char> = b.chars().collect();
    let mut i = 0;
    while i < ca.len() && i < cb.len() && ca[i] == cb[i] {
        i += 1;
    }
    let s = i.saturating_sub(60);
    format!(
        "parsed ..{}.. vs printed-from ..{}..",
        ca[s..(i + 80).min(ca.len())].iter().collect::<String>(),
        cb[s..(i + 80).min(cb.len())].iter().collect::<String>()
    )
}
fn same_item(r: &IParse, item: &Item) -> bool {
    match r {
        IParse::Ok(i) => norm_item(i) == norm_item(item),
        _ => false,
    }
}
fn same_parse(a: &IParse, b: &IParse) -> bool {
    match (a, b) {
        (IParse::Ok(i), IParse::Ok(j)) => norm_item(i) == norm_item(j),
        (IParse::Err, IParse::Err) => true,
        _ => false,
    }
}

fn count_ops(item: &Item, h: &mut BTreeMap<String, u64>) {
    fn ops(l: &[MOp], h: &mut BTreeMap<String, u64>) {
        for o in l {
            match o {
                MOp::Binary(MB::P(b)) => *h.entry(format!("{:?}", b)).or_default() += 1,
                MOp::Binary(MB::Ffi(_)) => *h.entry("BinaryFfi".into()).or_default() += 1,
                MOp::Unary(u) => {
                    *h.entry(format!("Unary{}", format!("{:?}", u).split('(').next().unwrap())).or_default() += 1
                }
                MOp::Closure(_, b) => {
                    *h.entry("Closure".into()).or_default() += 1;
                    ops(b, h)
                }
                _ => {}
            }
        }
    }
    let rule = |r: &MRule, h: &mut BTreeMap<String, u64>| r.exprs.iter().for_each(|e| ops(e, h));
    match item {
        Item::Expr(e) => ops(e, h),
        Item::Rule(r) => rule(r, h),
        Item::Check(k) => k.queries.iter().for_each(|r| rule(r, h)),
        Item::Policy(k) => k.queries.iter().for_each(|r| rule(r, h)),
        _ => {}
    }
}

fn block_m(b: &ab::BlockBuilder) -> MSource {
    MSource {
        scopes: b.scopes.iter().map(m_of_ab_scope).collect(),
        facts: b.facts.iter().map(|f| m_of_ab_pred(&f.predicate)).collect(),
        rules: b.rules.iter().map(m_of_ab_rule).collect(),
        checks: b.checks.iter().map(m_of_ab_check).collect(),
        policies: vec![],
    }
}

/// authorizer contents as sorted debug strings (the world is hash-ordered)
fn dump_m(a: &biscuit_auth::Authorizer) -> Vec<String> {
    let (facts, rules, checks, policies) = a.dump();
    let mut v: Vec<String> = vec![];
    v.extend(facts.iter().map(|f| format!("F {:?}", m_of_ab_pred(&f.predicate))));
    v.extend(rules.iter().map(|r| format!("R {:?}", m_of_ab_rule(r))));
    v.sort();
    v.extend(checks.iter().map(|c| format!("C {:?}", m_of_ab_check(c))));
    v.extend(policies.iter().map(|p| format!("P {:?}", m_of_ab_policy(p))));
    v
}

/// Hand-picked items that always run first: the known findings and the precedence quirks.
fn corpus_items(gen: &Gen) -> Vec<(Item, bool)> {
    let s = |x: &str| MT::Str(x.to_string());
    let v = |x: &str| ME::Value(MT::Var(x.to_string()));
    let i = |x: i64| ME::Value(MT::Int(x));
    let bin = |b: B0, l: ME, r: ME| ME::Binary(MB::P(b), Box::new(l), Box::new(r));
    let fact1 = |t: MT| Item::Fact(MPred { name: "f".into(), terms: vec![t] });
    let chk = |e: ME| {
        Item::Check(MCheck {
            queries: vec![MRule {
                head: MPred { name: "query".into(), terms: vec![] },
                body: vec![MPred { name: "p".into(), terms: vec![MT::Var("a".into()), MT::Var("b".into()), MT::Var("c".into())] }],
                exprs: vec![e.ops()],
                scopes: vec![],
            }],
            kind: CK::One,
        })
    };
    vec![
        // injection through an unescaped string
        (fact1(s("x\"); admin(\"root")), true),
        (fact1(s("a\\")), true),
        (fact1(s("line1\nline2\ttab\0nul é日😀")), true),
        (fact1(MT::Date(253402300799)), true),
        (fact1(MT::Date(253402300800)), true),
        (fact1(MT::Date(u64::MAX)), true),
        (fact1(MT::Bytes(vec![])), true),
        (fact1(MT::Map(vec![])), true),
        (fact1(MT::Set(vec![MT::Array(vec![MT::Int(1)])])), true),
        (fact1(MT::Set(vec![])), true),
        (fact1(MT::Set(vec![MT::Bool(true)])), true),
        (fact1(MT::Set(vec![MT::Bytes(vec![0xab])])), true),
        (
            Item::Rule(MRule {
                head: MPred { name: "h".into(), terms: vec![] },
                body: vec![MPred { name: "p".into(), terms: vec![MT::Int(1)] }],
                exprs: vec![],
                scopes: vec![],
            }),
            true,
        ),
        (fact1(MT::Array(vec![MT::Map(vec![(MK::Str("k".into()), MT::Set(vec![MT::Int(1), MT::Int(2)]))])])), true),
        // precedence: a * !b + c, (a + b) * c printed without the parentheses op
        (
            chk(bin(
                B0::Mul,
                v("a"),
                ME::Unary(MU::Negate, Box::new(bin(B0::Add, v("b"), v("c")))),
            )),
            true,
        ),
        (chk(bin(B0::Mul, bin(B0::Add, v("a"), v("b")), v("c"))), false),
        (chk(bin(B0::LessThan, bin(B0::LessThan, v("a"), v("b")), v("c"))), false),
        // strict and/or print as `&&!`, `||!`
        (chk(bin(B0::And, v("a"), v("b"))), false),
        (chk(bin(B0::Or, v("a"), v("b"))), false),
        // a date literal as method receiver
        (chk(ME::Unary(MU::TypeOf, Box::new(ME::Value(MT::Date(1575294593))))), true),
        (chk(bin(B0::Sub, i(1), i(-1))), true),
        (
            Item::Rule(MRule {
                head: MPred { name: "h".into(), terms: vec![MT::Int(0)] },
                body: vec![MPred { name: "p".into(), terms: vec![MT::Int(1)] }],
                exprs: vec![],
                scopes: vec![MScope::Authority, gen.keys[0].clone(), gen.keys[1].clone()],
            }),
            true,
        ),
    ]
}

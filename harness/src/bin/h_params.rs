//! C20 correspondence: items with parameters in every position, bound through
//! set / set_lenient / set_scope / set_macro_param / the code_with_params loop, then
//! validated and converted; every observation is written as a case for Model.Params.
//! Also: implementation-only consistency (adding to builders, building through the API,
//! BlockBuilder/AuthorizerBuilder::code_with_params) and the text-level oracle shared with C14.
use std::collections::{BTreeMap, HashSet};
use verif_harness::params::*;
use verif_harness::*;

fn corpus() -> Vec<PCase> {
    use biscuit_auth::builder::{Binary, CheckKind};
    let x = var("x");
    let bx: Pred = ("b".to_string(), vec![x.clone()]);
    let rule = |head: Pred, body: Vec<Pred>, exprs: Vec<ET>| ISrc::Rule(RSrc { head, body, exprs, scopes: vec![] });
    let mut out = vec![];
    // DESIGN section 8: parameter nested in a collection inside a rule predicate
    let nested_pred = rule(("h".into(), vec![x.clone()]), vec![("b".into(), vec![x.clone(), PT::Array(vec![par("p")])])], vec![]);
    // ... inside an expression
    let nested_expr = rule(
        ("h".into(), vec![x.clone()]),
        vec![bx.clone()],
        vec![ET::Method1(Binary::Contains, Box::new(ET::Val(PT::Array(vec![par("p")]))), Box::new(ET::Val(x.clone())))],
    );
    // map-key parameter bound to a boolean, in a fact
    let mapkey = ISrc::Fact(("f".into(), vec![PT::Map(vec![(PK::Param("p".into()), int(1))])]));
    for mode in [Mode::New, Mode::Parsed] {
        out.push(PCase { mode, src: nested_pred.clone(), cmds: vec![Cmd::Set("p".into(), int(1))], origin: "corpus" });
        out.push(PCase { mode, src: nested_expr.clone(), cmds: vec![Cmd::Set("p".into(), int(1))], origin: "corpus" });
        out.push(PCase { mode, src: nested_expr.clone(), cmds: vec![Cmd::Ign("p".into(), int(1))], origin: "corpus" });
        out.push(PCase { mode, src: nested_expr.clone(), cmds: vec![Cmd::Macro("p".into(), AnyP::Term(int(1)))], origin: "corpus" });
        out.push(PCase { mode, src: mapkey.clone(), cmds: vec![Cmd::Set("p".into(), PT::Lit(Lit::Bool(true)))], origin: "corpus" });
        out.push(PCase { mode, src: mapkey.clone(), cmds: vec![Cmd::Set("p".into(), st("k"))], origin: "corpus" });
        out.push(PCase { mode, src: mapkey.clone(), cmds: vec![Cmd::Set("p".into(), int(3))], origin: "corpus" });
    }
    // set collapse and key collision after substitution
    out.push(PCase {
        mode: Mode::New,
        src: ISrc::Fact(("f".into(), vec![PT::Set(vec![int(1), par("p"), par("q")])])),
        cmds: vec![Cmd::Set("p".into(), int(1)), Cmd::Set("q".into(), int(1))],
        origin: "corpus",
    });
    out.push(PCase {
        mode: Mode::New,
        src: ISrc::Fact((
            "f".into(),
            vec![PT::Map(vec![(PK::Int(1), st("lit")), (PK::Param("p".into()), st("from p")), (PK::Param("q".into()), par("r"))])],
        )),
        cmds: vec![Cmd::Set("p".into(), int(1)), Cmd::Set("q".into(), int(1)), Cmd::Set("r".into(), st("from r"))],
        origin: "corpus",
    });
    // the overwritten entry holds a value that cannot be substituted
    out.push(PCase {
        mode: Mode::New,
        src: ISrc::Fact((
            "f".into(),
            vec![PT::Map(vec![
                (PK::Param("p".into()), PT::Map(vec![(PK::Param("k".into()), int(0))])),
                (PK::Param("q".into()), int(2)),
            ])],
        )),
        cmds: vec![Cmd::Set("p".into(), int(1)), Cmd::Set("q".into(), int(1)), Cmd::Set("k".into(), PT::Lit(Lit::Null))],
        origin: "corpus",
    });
    // check: lenient set stops at the first query without parameters
    out.push(PCase {
        mode: Mode::New,
        src: ISrc::Check(
            CheckKind::One,
            vec![
                RSrc { head: ("query".into(), vec![]), body: vec![("b".into(), vec![par("p")])], exprs: vec![], scopes: vec![] },
                RSrc { head: ("query".into(), vec![]), body: vec![("c".into(), vec![par("p")])], exprs: vec![], scopes: vec![] },
            ],
        ),
        cmds: vec![Cmd::SetLenient("p".into(), st("v")), Cmd::Set("q".into(), int(1))],
        origin: "corpus",
    });
    out
}

fn main() {
    let seed = arg_u64("--seed", 1);
    let tier = arg("--tier").unwrap_or("quick".into());
    let out = arg("--out-dir").expect("--out-dir");
    let shards = arg_u64("--shards", 16) as usize;
    let thorough = tier == "thorough";
    let n_random = arg_u64("--n-random", if thorough { 60000 } else { 6000 });
    std::panic::set_hook(Box::new(|_| {}));

    let root = biscuit_auth::KeyPair::new_with_rng(biscuit_auth::builder::Algorithm::Ed25519, &mut Rng::new(99));
    let mut cases: Vec<PCase> = corpus();
    let n_corpus = cases.len();
    cases.extend(position_cases(3, thorough));
    let n_positions = cases.len() - n_corpus;
    cases.extend(scope_cases());
    let n_scopes = cases.len() - n_corpus - n_positions;
    let mut gen = PGen::new(Rng::new(seed));
    for _ in 0..n_random {
        cases.push(gen.random_case());
    }

    let mut runs: Vec<PRun> = vec![];
    let mut unparsable = 0u64;
    let mut unparsable_samples: Vec<String> = vec![];
    let mut cwp_checked = 0u64;
    let mut cwp_bad: Vec<String> = vec![];
    for pc in &cases {
        match run_pcase(pc, &root) {
            Some(r) => runs.push(r),
            None => {
                unparsable += 1;
                if unparsable_samples.len() < 5 {
                    unparsable_samples.push(pc.src.src());
                }
                continue;
            }
        }
        // the runtime path as a whole, on the cases whose calls are all of the
        // code_with_params kind (one binding per name)
        if pc.mode == Mode::Parsed && pc.cmds.iter().all(|c| matches!(c, Cmd::Ign(..) | Cmd::IgnScope(..))) {
            let mut ps: Vec<(String, PT)> = vec![];
            let mut ss = vec![];
            for c in &pc.cmds {
                match c {
                    Cmd::Ign(n, v) => {
                        if !ps.iter().any(|(m, _)| m == n) {
                            ps.push((n.clone(), v.clone()))
                        }
                    }
                    Cmd::IgnScope(n, k) => {
                        if !ss.iter().any(|(m, _): &(String, biscuit_auth::PublicKey)| m == n) {
                            ss.push((n.clone(), *k))
                        }
                    }
                    _ => {}
                }
            }
            if ps.len() + ss.len() == pc.cmds.len() {
                if let Some(r) = check_code_with_params(&pc.src, &ps, &ss) {
                    cwp_checked += 1;
                    if let Err(e) = r {
                        cwp_bad.push(e);
                    }
                }
            }
        }
    }

    // text-level oracle: print the bound item, parse it again
    let mut text_checked = 0u64;
    let mut text_changed_quote: Vec<String> = vec![];
    let mut text_changed_other: Vec<String> = vec![];
    let mut text_changed_unexplained: Vec<String> = vec![];
    let mut text_print_panics = 0u64;
    for ictx in [ItemCtx::FactTerm, ItemCtx::RuleHead, ItemCtx::RuleBody, ItemCtx::CheckBody, ItemCtx::PolicyBody] {
        for tctx in term_ctxs(2) {
            if tctx.key {
                continue;
            }
            for v in value_pool() {
                let t = tctx.build("p", false);
                let src = item_with(ictx, t, "p");
                match text_roundtrip(&src, "p", &v) {
                    None => {}
                    Some(Err(())) => text_print_panics += 1,
                    Some(Ok(same)) => {
                        text_checked += 1;
                        if !same {
                            let s = format!("{} with p = {}", src.src(), src_term(&v));
                            let mut has_q = false;
                            fn strs(t: &PT, f: &mut dyn FnMut(&str)) {
                                match t {
                                    PT::Lit(Lit::Str(s)) => f(s),
                                    PT::Set(l) | PT::Array(l) => l.iter().for_each(|x| strs(x, f)),
                                    PT::Map(m) => m.iter().for_each(|(k, x)| {
                                        if let PK::Str(s) = k {
                                            f(s)
                                        }
                                        strs(x, f)
                                    }),
                                    _ => {}
                                }
                            }
                            strs(&v, &mut |s| {
                                if s.contains('"') || s.contains('\\') {
                                    has_q = true
                                }
                            });
                            // a collection bound inside a set (`{[..]}`, `{{..}}`) is not accepted by the
                            // parser whatever its strings contain: that is the set class, not the quote class
                            let plain = matches!(v, PT::Lit(_));
                            // the set class needs a set: in the value, or around the hole in the source
                            fn has_set(t: &PT) -> bool {
                                match t {
                                    PT::Set(_) => true,
                                    PT::Array(l) => l.iter().any(has_set),
                                    PT::Map(m) => m.iter().any(|(_, x)| has_set(x)),
                                    _ => false,
                                }
                            }
                            let around = src.src().replace("{p}", "").replace("{q}", "").replace("{r}", "").replace("{k}", "").contains('{');
                            let braces_alone = matches!(v, PT::Lit(Lit::Bool(_)) | PT::Lit(Lit::Null) | PT::Lit(Lit::Bytes(_)));
                            if has_q && plain {
                                text_changed_quote.push(s)
                            } else if has_set(&v) || around || braces_alone {
                                text_changed_other.push(s)
                            } else {
                                text_changed_unexplained.push(s)
                            }
                        }
                    }
                }
            }
        }
    }

    let mut lines = vec![];
    let mut by_origin: BTreeMap<String, u64> = BTreeMap::new();
    let mut outcome: BTreeMap<String, u64> = BTreeMap::new();
    let mut by_kind: BTreeMap<String, u64> = BTreeMap::new();
    let mut seen: HashSet<String> = HashSet::new();
    let mut nontrivial = 0u64;
    let mut inconsistent: Vec<String> = vec![];
    let mut n_nested_class = 0u64;
    let mut n_mapkey_class = 0u64;
    let mut validated_panics = 0u64;
    let mut samples = vec![];
    for (i, r) in runs.iter().enumerate() {
        let g = g_prun(r);
        let line = gallina_bytes(&g);
        *by_origin.entry(r.origin.to_string()).or_default() += 1;
        let cls = format!(
            "validate:{} convert:{}",
            match &r.validate {
                None => "ok",
                Some(PErr::Missing(_)) => "missing",
                Some(_) => "other",
            },
            if r.convert.is_some() { "ok" } else { "panic" }
        );
        *outcome.entry(cls).or_default() += 1;
        *by_kind
            .entry(
                match &r.skel {
                    ISkel::Fact(_) => "fact",
                    ISkel::Rule(_) => "rule",
                    ISkel::Check(..) => "check",
                    ISkel::Policy(..) => "policy",
                }
                .to_string(),
            )
            .or_default() += 1;
        if r.validate.is_none() && r.convert.is_none() {
            validated_panics += 1;
        }
        if has_nested_rule_param(&r.skel) {
            n_nested_class += 1;
        }
        if has_bad_key_binding(&r.skel, &r.cmds) {
            n_mapkey_class += 1;
        }
        let has_params = r.collected.iter().any(|(a, b)| a.as_ref().map_or(false, |l| !l.is_empty()) || b.as_ref().map_or(false, |l| !l.is_empty()));
        if seen.insert(line.clone()) && has_params && !r.cmds.is_empty() {
            nontrivial += 1;
        }
        for m in &r.inconsistencies {
            if inconsistent.len() < 10 {
                inconsistent.push(format!("case {}: {}", i, m));
            }
        }
        if i % (runs.len() / 6 + 1) == 0 {
            samples.push(line.clone());
        }
        lines.push(g);
    }
    let n_inconsistent = runs.iter().filter(|r| !r.inconsistencies.is_empty()).count();

    let kernel_n = arg_u64("--kernel-n", if thorough { 3000 } else { 400 }) as usize;
    let files = write_cases_small(&out, "C20", "params", "pcase_failures", &lines, shards, 20).expect("write cases");
    let stride = (lines.len() / kernel_n.max(1)).max(1);
    let sample: Vec<G> = lines.iter().enumerate().filter(|(i, _)| *i < n_corpus || i % stride == 0).map(|(_, g)| g.clone()).collect();
    // indices inside the kernel sample are positions in the sample, not in the case list
    let kfiles = write_kernel_small(&out, "C20k", "Model.ParamsCases", "pcase", "pcase_failures", &sample, shards).expect("write kernel cases");
    let _ = std::fs::write(format!("{}/C20_cases.txt", out), lines.iter().map(gallina_bytes).collect::<Vec<_>>().join("\n"));
    let _ = std::fs::write(
        format!("{}/C20k_index.txt", out),
        (0..lines.len()).filter(|i| *i < n_corpus || i % stride == 0).map(|i| i.to_string()).collect::<Vec<_>>().join("\n"),
    );

    let hist = |m: &BTreeMap<String, u64>| m.iter().map(|(k, v)| format!("{}: {}", jstr(k), v)).collect::<Vec<_>>().join(", ");
    let strs = |v: &[String], n: usize| v.iter().take(n).map(|s| jstr(s)).collect::<Vec<_>>().join(", ");
    let files_s: Vec<String> = files.iter().chain(kfiles.iter()).map(|p| jstr(p)).collect();
    println!(
        "{{\"family\": \"params\", \"evaluations\": {}, \"corpus\": {}, \"positions\": {}, \"positions_exhaustive\": true, \"position_depth\": 3, \"scopes\": {}, \"random\": {}, \"unparsable_skipped\": {}, \"unparsable_samples\": [{}], \"distinct_nontrivial\": {}, \"origin_histogram\": {{{}}}, \"outcome_histogram\": {{{}}}, \"item_kind_histogram\": {{{}}}, \"validated_then_panicked\": {}, \"class_nested_rule_param\": {}, \"class_bad_key_binding\": {}, \"impl_inconsistent\": {}, \"impl_inconsistencies\": [{}], \"cwp_checked\": {}, \"cwp_mismatches\": {}, \"cwp_mismatch_samples\": [{}], \"text_checked\": {}, \"text_print_panics\": {}, \"text_changed_quote\": {}, \"text_changed_quote_samples\": [{}], \"text_changed_other\": {}, \"text_changed_other_samples\": [{}], \"text_changed_unexplained\": {}, \"text_changed_unexplained_samples\": [{}], \"panics\": [], \"samples\": [{}], \"kernel_sample\": {}, \"files\": [{}]}}",
        runs.len(),
        n_corpus,
        n_positions,
        n_scopes,
        n_random,
        unparsable,
        strs(&unparsable_samples, 5),
        nontrivial,
        hist(&by_origin),
        hist(&outcome),
        hist(&by_kind),
        validated_panics,
        n_nested_class,
        n_mapkey_class,
        n_inconsistent,
        strs(&inconsistent, 10),
        cwp_checked,
        cwp_bad.len(),
        strs(&cwp_bad, 5),
        text_checked,
        text_print_panics,
        text_changed_quote.len(),
        strs(&text_changed_quote, 3),
        text_changed_other.len(),
        strs(&text_changed_other, 5),
        text_changed_unexplained.len(),
        strs(&text_changed_unexplained, 5),
        samples.iter().map(|s| jstr(s)).collect::<Vec<_>>().join(", "),
        sample.len(),
        files_s.join(", ")
    );
}

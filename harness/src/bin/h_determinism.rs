//! C11 correspondence: every (token, authorizer) is evaluated M times in freshly built
//! authorizers (fresh hash seeds), with shuffled insertion order of facts and rules, and
//! through clones; the list of distinct observed outcomes goes to the model.
use std::collections::{BTreeMap, HashSet};
use verif_harness::auth::*;
use verif_harness::datalog::*;
use verif_harness::expr::*;
use verif_harness::*;

fn shuffle<T>(v: &mut Vec<T>, rng: &mut Rng) {
    for i in (1..v.len()).rev() {
        let j = rng.below(i as u64 + 1) as usize;
        v.swap(i, j);
    }
}

fn main() {
    let seed = arg_u64("--seed", 1);
    let tier = arg("--tier").unwrap_or("quick".into());
    let out = arg("--out-dir").expect("--out-dir");
    let shards = arg_u64("--shards", 16) as usize;
    let thorough = tier == "thorough";
    let n = arg_u64("--n", if thorough { 6000 } else { 700 });
    let m = arg_u64("--m", if thorough { 60 } else { 12 });
    std::panic::set_hook(Box::new(|_| {}));
    let mut rng = Rng::new(seed);
    let keys = make_keys(&mut rng);
    let limits = (100_000u64, 2000u64);

    let mut all: Vec<(Vec<ABlock>, AAuth)> = corpus();
    let n_corpus = all.len();
    // rules asked through Authorizer::query / query_all after each clean run
    let mut probes: Vec<Vec<ARule>> = all.iter().map(|_| vec![]).collect();
    for _ in 0..n {
        let mut g = AGen { d: DGen { rng: rng.fork(), risky: false }, nblocks: 0 };
        g.d.risky = g.d.rng.chance(1, 2);
        let nb = 1 + g.d.rng.below(3) as usize;
        let mut blocks: Vec<ABlock> = (0..nb).map(|i| g.block(i)).collect();
        let mut a = g.authorizer();
        if all.len() % 3 == 0 {
            // a derivation chain that crosses blocks (several trust groups): ch0(1) in the
            // authority block, block i derives ch<i+1> from ch<i>, the authorizer the last link
            let v = |x: u32| DTerm::Var(x);
            let pr = |n: String, a: Vec<DTerm>| DPred { name: n, args: a };
            blocks[0].facts.push(("ch0".into(), vec![V::Int(1)]));
            for (bi, b) in blocks.iter_mut().enumerate() {
                b.rules.push(ARule {
                    rule: DRule {
                        head: pr(format!("ch{}", bi + 1), vec![v(0)]),
                        body: vec![pr(format!("ch{}", bi), vec![v(0)])],
                        exprs: vec![],
                    },
                    scopes: if bi == 0 { vec![] } else { vec![Sc::Previous] },
                });
            }
            a.rules.push(ARule {
                rule: DRule {
                    head: pr("chz".into(), vec![v(0)]),
                    body: vec![pr(format!("ch{}", nb), vec![v(0)])],
                    exprs: vec![],
                },
                scopes: vec![],
            });
        }
        if all.len() % 3 == 1 {
            // the authorizer restates the authority block's facts: the same answer is then
            // reachable under two origins
            a.facts.extend(blocks[0].facts.iter().cloned());
        }
        let mut ps: Vec<ARule> = (0..2).map(|_| g.probe()).collect();
        if let Some((name, args)) = a.facts.first().cloned() {
            // every fact of one predicate, whatever its origin
            let vars: Vec<DTerm> = (0..args.len() as u32).map(DTerm::Var).collect();
            ps.push(ARule {
                rule: DRule {
                    head: DPred { name: "probe".into(), args: vars.clone() },
                    body: vec![DPred { name, args: vars }],
                    exprs: vec![],
                },
                scopes: vec![],
            });
        }
        probes.push(ps);
        all.push((blocks, a));
    }
    let mut gs = vec![];
    let mut queries_vary: Vec<usize> = vec![];
    let mut query_observations = 0u64;
    let mut hist: BTreeMap<String, u64> = BTreeMap::new();
    let mut multi = vec![];
    let mut worlds_vary: Vec<usize> = vec![];
    let mut panics = vec![];
    let mut seen = HashSet::new();
    let mut nontrivial = 0u64;
    let mut samples = vec![];
    let mut runs_total = 0u64;
    let mut tight = 0u64;
    for (i, (blocks, a)) in all.iter().enumerate() {
        // every third case: an iteration budget equal to the number of productive passes the
        // program needs, so that the run must end in TooManyIterations in every order
        let mut limits = limits;
        if i >= n_corpus && i % 3 == 0 {
            let probe = run_auth(blocks, a, limits, &keys, &mut rng);
            if probe.iterations >= 2 && !matches!(probe.outcome, Outcome::Exec | Outcome::Limit(_) | Outcome::Other(_) | Outcome::Panic) {
                limits = (limits.0, probe.iterations);
                tight += 1;
            }
        }
        let mut observed: Vec<Outcome> = vec![];
        let mut worlds: Vec<Vec<DFact>> = vec![];
        let mut qobs: Vec<Vec<(QObs, QObs)>> = vec![];
        let reps = if i < n_corpus { m * 4 } else { m };
        for k in 0..reps {
            // same contents, another insertion order of facts and rules
            let mut a2 = a.clone();
            if k % 2 == 1 {
                shuffle(&mut a2.facts, &mut rng);
                shuffle(&mut a2.rules, &mut rng);
            }
            let run = if k % 3 == 2 {
                run_auth_cloned(blocks, &a2, limits, &keys, &mut rng)
            } else {
                let r = run_auth_q(blocks, &a2, limits, &keys, &mut rng, &probes[i]);
                // what queries would observe: the facts with their origins after a clean run
                if let (Some(fs), false) = (&r.facts, matches!(r.outcome, Outcome::Exec | Outcome::Limit(_) | Outcome::Other(_) | Outcome::Panic)) {
                    if !worlds.contains(fs) {
                        worlds.push(fs.clone());
                    }
                    // the answers of Authorizer::query (one per origin and fact) and query_all,
                    // as multisets
                    let qo: Vec<(QObs, QObs)> = r.queries.iter().map(|(_, a, b)| (a.clone(), b.clone())).collect();
                    query_observations += qo.len() as u64;
                    if !qobs.contains(&qo) {
                        qobs.push(qo);
                    }
                }
                r.outcome
            };
            runs_total += 1;
            let run = match run {
                Outcome::Exec => Outcome::Exec,
                o => o,
            };
            if !observed.contains(&run) {
                observed.push(run);
            }
        }
        if observed.contains(&Outcome::Panic) {
            panics.push(i);
        }
        *hist.entry(format!("{}-outcomes", observed.len())).or_default() += 1;
        if observed.len() > 1 {
            multi.push(i);
        }
        if worlds.len() > 1 {
            worlds_vary.push(i);
        }
        if qobs.len() > 1 {
            queries_vary.push(i);
        }
        let first = ARun { outcome: observed[0].clone(), facts: None, iterations: 0, queries: vec![] };
        let base = g_acase(blocks, a, limits, &first);
        // replace the last component by the list of observed outcomes
        let g = match base {
            G::T(mut parts) => {
                parts.pop(); // queries
                parts.pop(); // result
                parts.push(G::L(observed.iter().map(g_outcome).collect()));
                G::T(parts)
            }
            g => g,
        };
        let line = g.gallina();
        let has_err = observed.contains(&Outcome::Exec);
        if seen.insert(line.clone()) && (has_err || observed.len() > 1) {
            nontrivial += 1;
        }
        if samples.len() < 3 && (observed.len() > 1 || (has_err && i % 9 == 0)) {
            samples.push(line);
        }
        gs.push(g);
    }
    let kernel_n = arg_u64("--kernel-n", if thorough { 600 } else { 100 }) as usize;
    let files = write_cases(&out, "C11", "determinism", "Model.DeterminismCases", "ncase", "ncase_failures", &gs, 0, shards)
        .expect("write");
    let stride = (gs.len() / kernel_n.max(1)).max(1);
    let sample: Vec<G> = gs
        .iter()
        .enumerate()
        .filter(|(i, _)| *i < n_corpus || i % stride == 0)
        .map(|(_, g)| g.clone())
        .collect();
    let kfiles = write_cases(
        &out, "C11k", "determinism", "Model.DeterminismCases", "ncase", "ncase_failures", &sample, sample.len(), 8,
    )
    .expect("write");
    let _ = std::fs::write(
        format!("{}/C11_cases.txt", out),
        gs.iter().map(|g| g.gallina()).collect::<Vec<_>>().join("\n"),
    );
    let hist_s: Vec<String> = hist.iter().map(|(k, v)| format!("{}: {}", jstr(k), v)).collect();
    let files_s: Vec<String> = files.iter().chain(kfiles.iter()).map(|p| jstr(p)).collect();
    println!(
        "{{\"family\": \"determinism\", \"evaluations\": {}, \"corpus\": {}, \"runs_per_case\": {}, \"cases_with_tight_iteration_budget\": {}, \"authorize_runs\": {}, \"distinct_nontrivial\": {}, \"observed_outcome_count_histogram\": {{{}}}, \"cases_with_several_outcomes\": {:?}, \"cases_whose_derived_facts_vary\": {:?}, \"query_observations\": {}, \"cases_whose_query_answers_vary\": {:?}, \"panics\": {:?}, \"samples\": [{}], \"kernel_sample\": {}, \"kernel_indices_stride\": {}, \"files\": [{}]}}",
        all.len(),
        n_corpus,
        m,
        tight,
        runs_total,
        nontrivial,
        hist_s.join(", "),
        multi,
        worlds_vary,
        query_observations,
        queries_vary,
        panics,
        samples.iter().map(|s| jstr(s)).collect::<Vec<_>>().join(", "),
        sample.len(),
        stride,
        files_s.join(", ")
    );
}

/// Stored witness of the known finding: a check with one matching and one erroring binding.
fn corpus() -> Vec<(Vec<ABlock>, AAuth)> {
    let v = |x: u32| DTerm::Var(x);
    let i = |x: i64| V::Int(x);
    let p = |n: &str, a: Vec<DTerm>| DPred { name: n.into(), args: a };
    let q = |body: Vec<DPred>, exprs: Vec<Vec<Op>>| ARule { rule: DRule { head: p("query", vec![]), body, exprs }, scopes: vec![] };
    let allow_true = APolicy { allow: true, queries: vec![q(vec![], vec![vec![Op::Val(V::Bool(true))]])] };
    vec![(
        vec![ABlock {
            facts: (0..4).map(|k| ("f".to_string(), vec![i(k)])).collect(),
            rules: vec![],
            checks: vec![ACheck {
                kind: CK::One,
                queries: vec![q(
                    vec![p("f", vec![v(0)])],
                    vec![vec![Op::Val(i(10)), Op::Var(0), Op::Bin(Bin::Div), Op::Val(i(0)), Op::Bin(Bin::GreaterThan)]],
                )],
            }],
            scopes: vec![],
            ext: None,
        }],
        AAuth { facts: vec![], rules: vec![], checks: vec![], policies: vec![allow_true], scopes: vec![] },
    )]
}

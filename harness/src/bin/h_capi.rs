//! C19 harness.  Parent: scenario lines (stored witnesses first) -> child processes
//! (`--child`: this same binary) -> comparisons with the Rust API, aborts, and the model
//! cases (size/announce contract, key buffers, builder handle discipline, error indices).
use std::collections::BTreeMap;
use std::io::Write;
use verif_harness::capi::*;
use verif_harness::procrun::*;
use verif_harness::robust::Rec;
use verif_harness::*;

fn flag(name: &str) -> bool {
    std::env::args().any(|a| a == name)
}

fn child(file: &str) {
    // the panic message goes to stderr: the parent keeps the tail of it for the report
    std::panic::set_hook(Box::new(|info| {
        eprintln!("panicked: {}", info.to_string().replace('\n', " "));
    }));
    let text = std::fs::read_to_string(file).expect("batch file");
    let lines: Vec<String> = text.lines().filter(|l| !l.starts_with('#') && !l.is_empty()).map(|s| s.to_string()).collect();
    let from = arg_u64("--from", 0) as usize;
    let to = (arg_u64("--to", lines.len() as u64) as usize).min(lines.len());
    let trace = flag("--trace");
    let out = std::io::stdout();
    // the default authorizer limits include 1 ms of wall time and the C API cannot change
    // them: freeze the clock (verification hook) so that a loaded machine does not turn an
    // authorization into a time-out on one side of the comparison only
    biscuit_auth::verif_clock::set(0, 0);
    for i in from..to {
        {
            let mut o = out.lock();
            let _ = writeln!(o, "B {}", i);
            let _ = o.flush();
        }
        let mut r = Rec::new(trace);
        // no catch_unwind around the scenario: a panic that escapes an extern "C" function
        // aborts; one that does not (older toolchains) unwinds to here and kills the child
        // with a non-zero status -- both are "the call did not return"
        run_scenario(&lines[i], &mut r);
        let mut o = out.lock();
        let _ = writeln!(o, "E {} {}", i, r.render());
        let _ = o.flush();
    }
}

fn parse_ops(s: &str) -> Vec<(String, String)> {
    s.split(';')
        .filter(|x| !x.is_empty())
        .filter_map(|kv| {
            let i = kv.rfind('=')?;
            Some((kv[..i].to_string(), kv[i + 1..].to_string()))
        })
        .collect()
}
fn note(ops: &[(String, String)], name: &str) -> Option<Vec<u8>> {
    ops.iter().rev().find(|(n, _)| n == name).and_then(|(_, c)| c.strip_prefix("T:")).and_then(|h| hex::decode(h).ok())
}
fn note_str(ops: &[(String, String)], name: &str) -> Option<String> {
    note(ops, name).map(|b| String::from_utf8_lossy(&b).into_owned())
}
fn class<'a>(ops: &'a [(String, String)], name: &str) -> Option<&'a str> {
    ops.iter().rev().find(|(n, _)| n == name).map(|(_, c)| c.as_str())
}

/// `CWritten n bytes` / `CError` / `CAbort` from the notes of a serialize_case
fn g_cres(ops: &[(String, String)], name: &str, crashed: bool) -> G {
    match (note(ops, &format!("{}.written", name)), note_str(ops, &format!("{}.returned", name))) {
        (Some(b), Some(n)) => c("CWritten", vec![G::N(n.parse().unwrap_or(0)), gbytes(&b)]),
        // the process died before the call returned (a later death leaves the notes in place)
        _ if crashed && class(ops, &format!("{}.written", name)).is_none() => c0("CAbort"),
        _ => c0("CError"),
    }
}

fn main() {
    if let Some(f) = arg("--child") {
        child(&f);
        return;
    }
    let seed = arg_u64("--seed", 1);
    let tier = arg("--tier").unwrap_or("quick".into());
    let out = arg("--out-dir").expect("--out-dir");
    let thorough = tier == "thorough";
    let threads = arg_u64("--threads", 16) as usize;
    std::fs::create_dir_all(&out).unwrap();
    let single: Option<String> = arg("--case-file")
        .and_then(|f| std::fs::read_to_string(f).ok())
        .and_then(|t| t.lines().find(|l| !l.starts_with('#') && !l.is_empty()).map(|l| l.to_string()));
    let lines: Vec<String> = match &single {
        Some(l) => vec![l.clone()],
        None => scenarios(seed, thorough),
    };
    let _ = std::fs::write(format!("{}/C19_batch.txt", out), lines.join("\n"));
    let runner = Runner::new(arg_u64("--cap", 20));
    let t0 = std::time::Instant::now();
    let outcomes = runner.run_all(&out, &lines, threads, 4);
    let run_s = t0.elapsed().as_secs_f64();

    let mut gcases: Vec<G> = vec![];
    let mut gdesc: Vec<String> = vec![];
    let mut records: Vec<String> = vec![];
    let mut kinds: BTreeMap<String, u64> = BTreeMap::new();
    let mut calls = 0u64;
    let mut comparisons = 0u64;
    let mut mismatches = 0u64;
    let mut aborts: BTreeMap<String, u64> = BTreeMap::new();
    let mut known_seen: BTreeMap<String, u64> = BTreeMap::new();
    let mut nontrivial = 0u64;
    for (line, o) in lines.iter().zip(outcomes.iter()) {
        let f: Vec<&str> = line.split('\t').collect();
        *kinds.entry(f[0].to_string()).or_default() += 1;
        let crashed = o.crash.is_some();
        let ops = parse_ops(if crashed { &o.partial } else { &o.result });
        calls += ops.len() as u64;
        // comparisons with the Rust API
        for (n, cl) in &ops {
            if cl == "EQ" {
                comparisons += 1;
            } else if let Some(d) = cl.strip_prefix("NE:") {
                comparisons += 1;
                mismatches += 1;
                if records.len() < 40 {
                    records.push(format!(
                        "{{\"class\": \"mismatch\", \"scenario\": {}, \"op\": {}, \"message\": {}, \"known\": null, \"case\": {}}}",
                        jstr(f[0]), jstr(n), jstr(d), jstr(line)
                    ));
                }
            }
        }
        // process-level failures
        if let Some(why) = &o.crash {
            let op = o.crash_op.clone().unwrap_or_else(|| "?".into());
            *aborts.entry(format!("{}:{}", f[0], op.split('[').next().unwrap_or(&op))).or_default() += 1;
            // classes the model predicts are reported through the model cases; the index
            // scenario is C09's off-by-one reached through biscuit_print_block_source
            // structural classes of the listed findings (the size, key and builder classes
            // are also recognised by the model: Model.CApiCases.ccase_shows_known)
            let hang = why.starts_with("hang");
            let crashed_step: Option<usize> = op.strip_prefix("poison.step[").and_then(|x| x.trim_end_matches(']').parse().ok());
            let known: Option<&str> = match f[0] {
                "sealed" if !hang && op == "sealed.write" => Some("C19-sealed-size-and-serialize"),
                "pubkey" if !hang && op == "pubkey.write" && f.get(1) == Some(&"p256") => Some("C19-p256-public-key-serialize"),
                "poison" if !hang && crashed_step.map(|k| f[2].split(',').take(k).any(|x| x == "bad")).unwrap_or(false) => {
                    Some("C19-builder-poisoned-after-refused-item")
                }
                "nullbuild" if !hang && op == "nullbuild" => Some("C19-null-builder-build"),
                "index" if f.get(4) == Some(&"0") && !hang => Some("C19-print-block-source-index"),
                _ => None,
            };
            if let Some(k) = known {
                *known_seen.entry(k.to_string()).or_default() += 1;
            }
            if known.is_none() || records.len() < 12 {
                records.push(format!(
                    "{{\"class\": {}, \"scenario\": {}, \"op\": {}, \"where\": {}, \"message\": {}, \"known\": {}, \"case\": {}}}",
                    jstr(if why.starts_with("hang") { "hang" } else { "abort" }),
                    jstr(f[0]),
                    jstr(&op),
                    jstr(why),
                    jstr(o.stderr.lines().filter(|l| l.contains("panicked")).last().unwrap_or("").chars().take(200).collect::<String>().as_str()),
                    known.map(|k| jstr(k)).unwrap_or("null".into()),
                    jstr(line)
                ));
            }
        }
        // model cases
        match f[0] {
            "token" => {
                if let (Some(rust), Some(ann)) = (note(&ops, "serialize.rust"), note_str(&ops, "serialize.announced")) {
                    gcases.push(c("CSer", vec![gbytes(&rust), G::N(ann.parse().unwrap_or(0)), g_cres(&ops, "serialize", crashed)]));
                    gdesc.push(line.clone());
                    nontrivial += 1;
                }
                // error channel indices
                for (n, _) in &ops {
                    if let Some(pre) = n.strip_suffix(".check_ids") {
                        let ids: Vec<u64> = note_str(&ops, n).unwrap_or_default().split(',').filter_map(|x| x.parse().ok()).collect();
                        for (m, _) in &ops {
                            if let Some(ix) = m.strip_prefix(&format!("{}.error_check_id[", pre)) {
                                let i: u64 = ix.trim_end_matches(']').parse().unwrap_or(0);
                                let v = note_str(&ops, m).unwrap_or_default();
                                let impl_ = if v == "none" { G::None_ } else { G::Some_(Box::new(G::N(v.parse().unwrap_or(0)))) };
                                gcases.push(c("CCheckIdx", vec![G::L(ids.iter().map(|x| G::N(*x)).collect()), G::N(i), impl_]));
                                gdesc.push(format!("{} {}", line, m));
                            }
                        }
                    }
                }
            }
            "sealed" => {
                if let (Some(u), Some(ann)) = (note(&ops, "sealed.rust_unsealed"), note_str(&ops, "sealed.announced")) {
                    let s = note(&ops, "sealed.rust_sealed");
                    gcases.push(c(
                        "CSealed",
                        vec![gbytes(&u), gopt(s.as_ref().map(|b| gbytes(b))), G::N(ann.parse().unwrap_or(0)), g_cres(&ops, "sealed", crashed)],
                    ));
                    gdesc.push(line.clone());
                    nontrivial += 1;
                }
            }
            "pubkey" => {
                if let Some(rust) = note(&ops, "pubkey.rust") {
                    gcases.push(c("CKey", vec![gbytes(&rust), g_cres(&ops, "pubkey", crashed)]));
                    gdesc.push(line.clone());
                    nontrivial += 1;
                }
            }
            "poison" => {
                let steps: Vec<bool> = f[2].split(',').map(|s| s == "ok").collect();
                let mut res: Vec<G> = note_str(&ops, "poison.results")
                    .unwrap_or_default()
                    .split(',')
                    .filter(|x| !x.is_empty())
                    .map(|x| G::Some_(Box::new(G::B(x == "true"))))
                    .collect();
                if crashed {
                    res.push(G::None_);
                }
                gcases.push(c("CBuilder", vec![G::L(steps.iter().map(|b| G::B(*b)).collect()), G::L(res)]));
                gdesc.push(line.clone());
                nontrivial += 1;
            }
            "nullbuild" => {
                let impl_ = if crashed {
                    c0("CAbort")
                } else if class(&ops, "nullbuild.returns_null_and_error") == Some("EQ") {
                    c0("CError")
                } else {
                    c("CWritten", vec![G::N(0), gbytes(&[])])
                };
                gcases.push(c("CNullBuild", vec![impl_]));
                gdesc.push(line.clone());
            }
            _ => {}
        }
    }
    let shards = 8;
    let mut files = write_cases(&out, "C19", "capi", "Model.CApiCases", "ccase", "ccase_failures", &gcases, 0, shards).expect("write");
    files.extend(write_cases(&out, "C19f", "capi", "Model.CApiCases", "ccase", "ccase_known", &gcases, 0, shards).expect("write"));
    let kn = if thorough { 400 } else { 120 };
    let stride = (gcases.len() / kn).max(1);
    let sample: Vec<G> = gcases.iter().enumerate().filter(|(i, _)| i % stride == 0).map(|(_, g)| g.clone()).collect();
    files.extend(write_cases(&out, "C19k", "capi", "Model.CApiCases", "ccase", "ccase_failures", &sample, sample.len(), shards).expect("write"));
    let _ = std::fs::write(format!("{}/C19_cases.txt", out), gcases.iter().map(|g| g.gallina()).collect::<Vec<_>>().join("\n"));
    let _ = std::fs::write(format!("{}/C19_scenarios.txt", out), gdesc.join("\n"));

    let j = |m: &BTreeMap<String, u64>| m.iter().map(|(k, v)| format!("{}: {}", jstr(k), v)).collect::<Vec<_>>().join(", ");
    println!(
        "{{\"family\": \"capi\", \"evaluations\": {}, \"scenario_kinds\": {{{}}}, \"c_calls_and_checks\": {}, \"comparisons_with_rust_api\": {}, \"mismatches\": {}, \"process_failures\": {{{}}}, \"known_seen\": {{{}}}, \"model_cases\": {}, \"distinct_nontrivial\": {}, \"kernel_sample\": {}, \"child_run_s\": {:.1}, \"findings\": [{}], \"samples\": [{}], \"panics\": [], \"files\": [{}]}}",
        lines.len(),
        j(&kinds),
        calls,
        comparisons,
        mismatches,
        j(&aborts),
        j(&known_seen),
        gcases.len(),
        nontrivial,
        sample.len(),
        run_s,
        records.join(", "),
        gcases.iter().step_by((gcases.len() / 4).max(1)).take(4).map(|g| jstr(&g.gallina().chars().take(300).collect::<String>())).collect::<Vec<_>>().join(", "),
        files.iter().map(|s| jstr(s)).collect::<Vec<_>>().join(", ")
    );
}

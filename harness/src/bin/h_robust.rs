//! C09 harness.  Parent: builds the input streams (stored witnesses and corpus first),
//! runs them in child processes (`--child`: this same binary) under a wall-clock cap per
//! case, collects per-operation outcome classes, classifies and minimises crashers, writes
//! the model cases (block-index gate, expression printers) and prints one JSON summary line.
use std::collections::{BTreeMap, BTreeSet};
use std::io::Write;
use verif_harness::procrun::*;
use verif_harness::robust::*;
use verif_harness::robust_model::*;
use verif_harness::*;

fn flag(name: &str) -> bool {
    std::env::args().any(|a| a == name)
}

// ------------------------------------------------------------------ child

fn child(file: &str) {
    install_panic_hook();
    let text = std::fs::read_to_string(file).expect("batch file");
    let lines: Vec<String> = text.lines().filter(|l| !l.starts_with('#') && !l.is_empty()).map(|s| s.to_string()).collect();
    let from = arg_u64("--from", 0) as usize;
    let to = (arg_u64("--to", lines.len() as u64) as usize).min(lines.len());
    let trace = flag("--trace");
    // a fixed stack size: the depth at which recursion overflows must not depend on the
    // invoking shell's ulimit (8 MiB = the usual main-thread stack)
    let h = std::thread::Builder::new()
        .stack_size(8 << 20)
        .spawn(move || {
            let out = std::io::stdout();
            for i in from..to {
                {
                    let mut o = out.lock();
                    let _ = writeln!(o, "B {}", i);
                    let _ = o.flush();
                }
                let mut r = Rec::new(trace);
                match Case::parse(&lines[i]) {
                    Some(c) => run_case(&c, &mut r),
                    None => r.ops.push(("parse-case".into(), "E".into())),
                }
                let mut o = out.lock();
                let _ = writeln!(o, "E {} {}", i, r.render());
                let _ = o.flush();
            }
        })
        .expect("spawn");
    let _ = h.join();
}

// ------------------------------------------------------------------ findings

#[derive(Clone, Debug)]
struct Finding {
    case: usize,
    op: String,
    opseg: String,
    class: String, // panic | abort | hang
    where_: String,
    msg: String,
    known: Option<&'static str>,
}

fn opseg(op: &str) -> String {
    // last path segment, keeping a bracketed index: b.append.print_block_source[n+0]
    let base = op.split('[').next().unwrap_or(op);
    let seg = base.rsplit('.').next().unwrap_or(base);
    match op.find('[') {
        Some(i) if op.ends_with(']') && !base.contains("::") => format!("{}{}", seg, &op[i..]),
        _ => {
            if base.contains("::") {
                op.to_string()
            } else {
                seg.to_string()
            }
        }
    }
}

fn parse_ops(s: &str) -> Vec<(String, String)> {
    s.split(';')
        .filter(|x| !x.is_empty())
        .filter_map(|kv| {
            let i = kv.rfind('=')?;
            Some((kv[..i].to_string(), kv[i + 1..].to_string()))
        })
        .collect()
}

pub const PARSER_DEPTH_CLASS: usize = 200;
pub const PARSER_CHAIN_CLASS: usize = 10_000;

/// Structural classifiers of the listed known findings (known_findings.json).
fn classify(f: &Finding, c: &Case) -> Option<&'static str> {
    let src = String::from_utf8_lossy(&c.data);
    if f.class == "panic" {
        if (f.opseg == "print_block_source[n+0]" || f.opseg == "block_version[n+0]")
            && (f.where_.contains("token/mod.rs") || f.where_.contains("token/unverified.rs"))
        {
            return Some("C09-block-index-off-by-one");
        }
        if f.where_.contains("builder/expression.rs") && has_unprintable_expression(c) {
            return Some("C09-display-malformed-expression");
        }
        if f.where_.contains("token/unverified.rs") && f.opseg.starts_with("append_third_party") && c.kind == "tpblock" && tp_payload_refused(c) {
            return Some("C09-unverified-append-third-party-unwrap");
        }
        if f.msg.contains("invalid public key") && c.kind == "datalog" && has_invalid_scope_key(&src) {
            return Some("C09-scope-invalid-public-key");
        }
        if f.where_.contains("token/authorizer.rs") && (f.opseg == "dump" || f.opseg == "dump_code") && snapshot_generated_fact_unknown_symbol(c) {
            return Some("C09-snapshot-generated-fact-unknown-symbol");
        }
    }
    if f.class == "hang" && max_pass_product(c) >= 1_000_000 {
        return Some("C09-single-pass-product-ignores-limits");
    }
    if f.class == "abort" && c.kind == "datalog" && (nesting_depth(&src) >= PARSER_DEPTH_CLASS || operator_chain_length(&src) >= PARSER_CHAIN_CLASS) {
        return Some("C09-parser-recursion-depth");
    }
    None
}

fn findings_of(i: usize, c: &Case, o: &Outcome) -> Vec<Finding> {
    let mut v = vec![];
    if let Some(why) = &o.crash {
        let class = if why.starts_with("hang") { "hang" } else { "abort" };
        let op = o.crash_op.clone().unwrap_or_else(|| "?".into());
        // the location of a time-out does not name the cap (the corpus is shared by both tiers)
        let where_ = if class == "hang" { "time cap".to_string() } else { why.clone() };
        let mut f = Finding { case: i, opseg: opseg(&op), op, class: class.into(), where_, msg: o.stderr.lines().last().unwrap_or("").chars().take(120).collect(), known: None };
        f.known = classify(&f, c);
        v.push(f);
        return v;
    }
    for (op, class) in parse_ops(&o.result) {
        if let Some(w) = class.strip_prefix("P@") {
            let mut it = w.splitn(2, '|');
            let where_ = it.next().unwrap_or("").to_string();
            let msg = it.next().unwrap_or("").to_string();
            let mut f = Finding { case: i, opseg: opseg(&op), op, class: "panic".into(), where_, msg, known: None };
            f.known = classify(&f, c);
            v.push(f);
        }
    }
    v
}

/// one stored corpus case per (input kind, failure class, location)
fn corpus_signature(f: &Finding, c: &Case) -> String {
    format!("{}|{}|{}", c.kind, f.class, f.where_.rsplit("src/").next().unwrap_or(&f.where_))
}

fn signature(f: &Finding, c: &Case) -> String {
    format!("{}|{}|{}|{}", c.kind, f.opseg, f.class, f.where_.rsplit("src/").next().unwrap_or(&f.where_))
}

// ------------------------------------------------------------------ minimisation

struct Probe<'a> {
    runner: &'a Runner,
    dir: String,
    n: usize,
    /// minimisation stops (keeping what it has) when this much wall time has been spent
    deadline: std::time::Instant,
}
impl<'a> Probe<'a> {
    /// index of the first candidate that still shows the signature
    fn first_reproducing(&mut self, cands: &[Case], sig: &str) -> Option<usize> {
        if cands.is_empty() || std::time::Instant::now() > self.deadline {
            return None;
        }
        let cands = &cands[..cands.len().min(8)];
        self.n += 1;
        let file = format!("{}/probe_{}.txt", self.dir, self.n);
        std::fs::write(&file, cands.iter().map(|c| c.line()).collect::<Vec<_>>().join("\n")).ok()?;
        let mut res = self.runner.run_range(&file, 0, cands.len());
        res.sort_by_key(|x| x.0);
        let _ = std::fs::remove_file(&file);
        for (i, o) in res {
            if findings_of(i, &cands[i], &o).iter().any(|f| signature(f, &cands[i]) == sig) {
                return Some(i);
            }
        }
        None
    }
}

/// delta debugging on the untrusted bytes (the parts that carry no signature)
fn ddmin_bytes(p: &mut Probe, c: &Case, sig: &str, budget: usize) -> Case {
    let mut cur = c.clone();
    let mut n = 2usize;
    let mut rounds = 0;
    while cur.data.len() >= 2 && rounds < budget {
        rounds += 1;
        let len = cur.data.len();
        let chunk = (len + n - 1) / n;
        let mut cands = vec![];
        for k in 0..n {
            let lo = k * chunk;
            let hi = ((k + 1) * chunk).min(len);
            if lo >= hi {
                continue;
            }
            let mut d = cur.data[..lo].to_vec();
            d.extend_from_slice(&cur.data[hi..]);
            let mut cc = cur.clone();
            cc.data = d;
            cands.push(cc);
        }
        match p.first_reproducing(&cands, sig) {
            Some(i) => {
                cur = cands[i].clone();
                n = (n - 1).max(2);
            }
            None => {
                if n >= len {
                    break;
                }
                n = (n * 2).min(len);
            }
        }
    }
    cur
}

/// Datalog sources with balanced nesting: shrink the nesting run by halving (bytes ddmin
/// cannot remove an opening and its closing bracket at once).
fn shrink_nesting(p: &mut Probe, c: &Case, sig: &str) -> Case {
    let src = String::from_utf8_lossy(&c.data).into_owned();
    let mut best = c.clone();
    for (o, cl) in [("(", ")"), ("[", "]"), ("{\"a\":", "}"), ("!", ""), ("[1].all($x -> ", ")")] {
        let cnt = src.matches(o).count();
        if cnt < 50 {
            continue;
        }
        let first = src.find(o).unwrap();
        let prefix = &src[..first];
        let inner_start = first + o.len() * cnt;
        if !src[first..].starts_with(&o.repeat(cnt)) {
            continue;
        }
        let rest = &src[inner_start..];
        let close_run = cl.repeat(cnt);
        let (inner, suffix) = if cl.is_empty() {
            (String::new(), rest.to_string())
        } else {
            match rest.find(&close_run) {
                Some(j) => (rest[..j].to_string(), rest[j + close_run.len()..].to_string()),
                None => continue,
            }
        };
        // binary search the smallest depth that still reproduces
        let (mut lo, mut hi) = (1usize, cnt);
        while lo < hi {
            let mid = (lo + hi) / 2;
            let s = format!("{}{}{}{}{}", prefix, o.repeat(mid), inner, cl.repeat(mid), suffix);
            let mut cc = c.clone();
            cc.data = s.into_bytes();
            if p.first_reproducing(&[cc], sig).is_some() {
                hi = mid;
            } else {
                lo = mid + 1;
            }
        }
        let s = format!("{}{}{}{}{}", prefix, o.repeat(hi), inner, cl.repeat(hi), suffix);
        best.data = s.into_bytes();
        best.label = format!("{};min-depth={}", c.label, hi);
        return best;
    }
    best
}

/// structured reduction of the adversarial block of a signed token, re-signed after each step
fn minimise_signed(p: &mut Probe, c: &Case, sig: &str) -> Case {
    use biscuit_auth::format::schema;
    use prost::Message;
    let w = World::new();
    let get = |k: &str| c.label.split(';').find_map(|f| f.strip_prefix(&format!("{}=", k)).map(|s| s.to_string()));
    let pos: u8 = get("pos").and_then(|s| s.parse().ok()).unwrap_or(0);
    let p256 = get("alg").map(|a| a == "p256").unwrap_or(false);
    let sealed = get("sealed").map(|a| a == "true").unwrap_or(false);
    let tok = match schema::Biscuit::decode(&c.data[..]) {
        Ok(t) => t,
        Err(_) => return c.clone(),
    };
    let advbytes = match pos {
        0 => tok.authority.block.clone(),
        _ => tok.blocks.first().map(|b| b.block.clone()).unwrap_or_default(),
    };
    let mut blk = match schema::Block::decode(&advbytes[..]) {
        Ok(b) => b,
        Err(_) => return c.clone(),
    };
    let mut rng = Rng::new(99);
    let enc = |b: &schema::Block| {
        let mut v = vec![];
        b.encode(&mut v).unwrap();
        v
    };
    let label = c.label.clone();
    let mut mk = |b: &schema::Block, rng: &mut Rng| {
        let a = AdvBlock { label: "min".into(), bytes: enc(b), block: None };
        let mut cc = token_with(&w, rng, &a, pos, p256, sealed);
        cc.label = format!("{};minimised", label);
        cc
    };
    let mut changed = true;
    let mut guard = 0;
    while changed && guard < 40 {
        changed = false;
        guard += 1;
        let mut cands: Vec<schema::Block> = vec![];
        // long lists: remove halves / quarters first, single elements once they are short
        fn chunks(len: usize) -> Vec<(usize, usize)> {
            if len <= 6 {
                (0..len).map(|i| (i, i + 1)).collect()
            } else {
                let mut v = vec![(0, len / 2), (len / 2, len)];
                let q = len / 4;
                for k in 0..4 {
                    v.push((k * q, if k == 3 { len } else { (k + 1) * q }));
                }
                v
            }
        }
        for (lo, hi) in chunks(blk.facts_v2.len()) {
            let mut b = blk.clone();
            b.facts_v2.drain(lo..hi);
            cands.push(b);
        }
        for (lo, hi) in chunks(blk.rules_v2.len()) {
            let mut b = blk.clone();
            b.rules_v2.drain(lo..hi);
            cands.push(b);
        }
        for (lo, hi) in chunks(blk.symbols.len()) {
            if hi == blk.symbols.len() {
                let mut b = blk.clone();
                b.symbols.drain(lo..hi);
                cands.push(b);
            }
        }
        for i in 0..blk.checks_v2.len() {
            let mut b = blk.clone();
            b.checks_v2.remove(i);
            cands.push(b);
            for j in 0..blk.checks_v2[i].queries.len() {
                if blk.checks_v2[i].queries.len() > 1 {
                    let mut b = blk.clone();
                    b.checks_v2[i].queries.remove(j);
                    cands.push(b);
                }
                for k in 0..blk.checks_v2[i].queries[j].expressions.len() {
                    let mut b = blk.clone();
                    b.checks_v2[i].queries[j].expressions.remove(k);
                    cands.push(b);
                }
                for k in 0..blk.checks_v2[i].queries[j].body.len() {
                    let mut b = blk.clone();
                    b.checks_v2[i].queries[j].body.remove(k);
                    cands.push(b);
                }
            }
        }
        for i in 0..blk.rules_v2.len() {
            for k in 0..blk.rules_v2[i].expressions.len() {
                let mut b = blk.clone();
                b.rules_v2[i].expressions.remove(k);
                cands.push(b);
            }
        }
        for i in 0..blk.scope.len() {
            let mut b = blk.clone();
            b.scope.remove(i);
            cands.push(b);
        }
        for i in 0..blk.public_keys.len() {
            let mut b = blk.clone();
            b.public_keys.remove(i);
            cands.push(b);
        }
        if blk.context.is_some() {
            let mut b = blk.clone();
            b.context = None;
            cands.push(b);
        }
        cands.truncate(64);
        let cases: Vec<Case> = cands.iter().map(|b| mk(b, &mut rng)).collect();
        if let Some(i) = p.first_reproducing(&cases, sig) {
            blk = cands[i].clone();
            changed = true;
        }
    }
    let m = mk(&blk, &mut rng);
    if p.first_reproducing(&[m.clone()], sig).is_some() {
        m
    } else {
        c.clone()
    }
}

// ------------------------------------------------------------------ main

fn main() {
    if let Some(f) = arg("--child") {
        child(&f);
        return;
    }
    let seed = arg_u64("--seed", 1);
    let tier = arg("--tier").unwrap_or("quick".into());
    let out = arg("--out-dir").expect("--out-dir");
    let thorough = tier == "thorough";
    let corpus_dir = arg("--corpus-dir").unwrap_or("../corpus/C09".into());
    let store = !flag("--no-store");
    // the cap scales with the 1-minute load average (a machine shared with other builds
    // must not turn slow cases into time-outs): x1 up to one runnable task per core, at most x4
    let load_factor = std::fs::read_to_string("/proc/loadavg")
        .ok()
        .and_then(|s| s.split_whitespace().next().and_then(|x| x.parse::<f64>().ok()))
        .map(|l| (l / 16.0).clamp(1.0, 4.0))
        .unwrap_or(1.0);
    let cap = arg_u64("--cap", ((if thorough { 20.0 } else { 6.0 }) * load_factor).ceil() as u64);
    let threads = arg_u64("--threads", 16) as usize;
    std::fs::create_dir_all(&out).unwrap();

    let w = World::new();
    let mut cases: Vec<Case> = vec![];
    // single replayed case
    let single: Option<String> = arg("--case").or_else(|| {
        arg("--case-file").and_then(|f| std::fs::read_to_string(f).ok()).and_then(|t| t.lines().find(|l| !l.starts_with('#') && !l.is_empty()).map(|l| l.to_string()))
    });
    if let Some(line) = &single {
        cases.push(Case::parse(line).expect("case line"));
    } else {
        cases.extend(witnesses(&w));
    }
    let n_wit = cases.len();
    let mut corpus_sigs: BTreeSet<String> = BTreeSet::new();
    if single.is_none() {
        if let Ok(rd) = std::fs::read_dir(&corpus_dir) {
            let mut files: Vec<_> = rd.filter_map(|e| e.ok()).map(|e| e.path()).filter(|p| p.extension().map(|x| x == "case").unwrap_or(false)).collect();
            files.sort();
            for f in files {
                if let Ok(t) = std::fs::read_to_string(&f) {
                    for l in t.lines() {
                        if let Some(s) = l.strip_prefix("# signature: ") {
                            corpus_sigs.insert(s.trim().to_string());
                        } else if !l.starts_with('#') {
                            if let Some(c) = Case::parse(l) {
                                cases.push(c);
                            }
                        }
                    }
                }
            }
        }
    }
    let n_corpus = cases.len() - n_wit;
    // expression-printer cases (model-predicted): built here, evaluated in the children
    let pcases = if single.is_none() { print_cases(seed, thorough) } else { vec![] };
    let first_print = cases.len();
    let first_print_adj;
    for pc in &pcases {
        cases.push(pc.case.clone());
    }
    if single.is_none() {
        cases.extend(gen_cases(seed, thorough));
    }
    // identical inputs run once (a corpus case is often a witness or a catalogue entry);
    // the printer cases keep their positions
    {
        let mut seen = std::collections::HashSet::new();
        let mut keep = vec![];
        for (i, c) in cases.iter().enumerate() {
            let key = (c.kind.clone(), c.data.clone(), c.aux.clone());
            let is_print = i >= first_print && i < first_print + pcases.len();
            if seen.insert(key) || is_print {
                keep.push(c.clone());
            }
        }
        assert!(keep.len() >= first_print + pcases.len());
        // positions before first_print may have shrunk
        let removed_before = (0..first_print).filter(|i| {
            let c = &cases[*i];
            cases[..*i].iter().any(|d| d.kind == c.kind && d.data == c.data && d.aux == c.aux)
        }).count();
        cases = keep;
        first_print_adj = first_print - removed_before;
    }
    let first_print = first_print_adj;
    let batch = format!("{}/C09_batch.txt", out);
    std::fs::write(&batch, cases.iter().map(|c| c.line()).collect::<Vec<_>>().join("\n")).unwrap();

    let runner = Runner::new(cap);
    let t0 = std::time::Instant::now();
    let lines: Vec<String> = cases.iter().map(|c| c.line()).collect();
    let outcomes = runner.run_all(&out, &lines, threads, 30);
    let run_s = t0.elapsed().as_secs_f64();
    eprintln!("children: {} cases in {:.1}s", cases.len(), run_s);
    {
        let mut slow: Vec<(u64, usize)> = outcomes.iter().enumerate().map(|(i, o)| (o.ms, i)).collect();
        slow.sort();
        slow.reverse();
        for (ms, i) in slow.iter().take(12) {
            eprintln!("slow: {} ms case {} {} {}", ms, i, cases[*i].kind, cases[*i].label);
        }
        eprintln!("sum of case times: {} ms", outcomes.iter().map(|o| o.ms).sum::<u64>());
    }

    // ---- findings
    let mut all: Vec<Finding> = vec![];
    let mut kind_hist: BTreeMap<String, u64> = BTreeMap::new();
    let mut class_hist: BTreeMap<String, u64> = BTreeMap::new();
    let mut ops_total = 0u64;
    let mut reached: BTreeMap<String, u64> = BTreeMap::new();
    let mut distinct: BTreeSet<u64> = BTreeSet::new();
    for (i, (c, o)) in cases.iter().zip(outcomes.iter()).enumerate() {
        *kind_hist.entry(c.kind.clone()).or_default() += 1;
        for (op, class) in parse_ops(&o.result) {
            ops_total += 1;
            let k = if class.starts_with("P@") { "panic" } else if class.starts_with("T:") || class == "none" { "text" } else { class.as_str() };
            *class_hist.entry(k.to_string()).or_default() += 1;
            if op == "Biscuit::from" && class == "V" {
                *reached.entry("signed tokens accepted by Biscuit::from".into()).or_default() += 1;
                // non-trivial: verification passed, so the contents reached loaders/printers/engine
                use std::hash::{Hash, Hasher};
                let mut h = std::collections::hash_map::DefaultHasher::new();
                c.data.hash(&mut h);
                distinct.insert(h.finish());
            }
            if op == "UnverifiedBiscuit::from" && class == "V" {
                *reached.entry("tokens accepted by UnverifiedBiscuit::from".into()).or_default() += 1;
            }
            if (op == "Authorizer::from_raw_snapshot" || op == "Authorizer::from" || op == "u.append_third_party" || op == "BlockBuilder::code" || op == "AuthorizerBuilder::code") && class == "V" {
                *reached.entry(format!("{} returned a value", op)).or_default() += 1;
                use std::hash::{Hash, Hasher};
                let mut h = std::collections::hash_map::DefaultHasher::new();
                c.data.hash(&mut h);
                distinct.insert(h.finish());
            }
        }
        if o.crash.is_some() {
            *class_hist.entry("process-failure".into()).or_default() += 1;
        }
        all.extend(findings_of(i, c, o));
    }
    // dedupe by signature, smallest input first
    let mut by_sig: BTreeMap<String, Vec<&Finding>> = BTreeMap::new();
    for f in &all {
        by_sig.entry(signature(f, &cases[f.case])).or_default().push(f);
    }
    let min_budget = arg_u64("--min-budget", if thorough { 300 } else { 90 });
    let probe_runner = Runner { cap: std::time::Duration::from_secs(cap.min(5)), ..runner.clone() };
    let mut probe = Probe { runner: &probe_runner, dir: out.clone(), n: 0, deadline: std::time::Instant::now() + std::time::Duration::from_secs(min_budget) };
    let mut records: Vec<String> = vec![];
    let mut known_seen: BTreeMap<String, u64> = BTreeMap::new();
    let mut unknown = 0u64;
    let mut stored = vec![];
    for (sig, fs) in &by_sig {
        let f = fs.iter().min_by_key(|f| (cases[f.case].data.len(), f.case)).unwrap();
        let c = &cases[f.case];
        let all_known = fs.iter().all(|f| f.known.is_some());
        let known_id = if all_known { f.known } else { None };
        // an example outside the known class, if any, is the one to report
        let (f, c) = if all_known {
            (*f, c)
        } else {
            let g = fs.iter().filter(|f| f.known.is_none()).min_by_key(|f| (cases[f.case].data.len(), f.case)).unwrap();
            (*g, &cases[g.case])
        };
        for x in fs.iter() {
            if let Some(k) = x.known {
                *known_seen.entry(k.to_string()).or_default() += 1;
            }
        }
        if known_id.is_none() {
            unknown += 1;
        }
        // minimise and store signatures the corpus does not hold yet
        let mut example = c.clone();
        let tm = std::time::Instant::now();
        let csig = corpus_signature(f, c);
        if store && !corpus_sigs.contains(&csig) && single.is_none() {
            corpus_sigs.insert(csig.clone());
            let min = if c.label.starts_with("signed;") {
                minimise_signed(&mut probe, c, sig)
            } else if c.kind == "datalog" && f.class == "abort" {
                shrink_nesting(&mut probe, c, sig)
            } else if c.kind == "biscuit" || c.kind == "expr" || f.class == "hang" {
                c.clone()
            } else {
                ddmin_bytes(&mut probe, c, sig, 40)
            };
            example = min.clone();
            let h = {
                use std::hash::{Hash, Hasher};
                let mut h = std::collections::hash_map::DefaultHasher::new();
                csig.hash(&mut h);
                h.finish()
            };
            let _ = std::fs::create_dir_all(&corpus_dir);
            let path = format!("{}/{:016x}.case", corpus_dir, h);
            let text = format!("# signature: {}\n# {} in {} at {} ({})\n{}\n", csig, f.class, f.op, f.where_, f.msg, min.line());
            if std::fs::write(&path, text).is_ok() {
                stored.push(path);
            }
            eprintln!("minimised {} in {:.1}s ({} -> {} bytes)", sig, tm.elapsed().as_secs_f64(), c.data.len(), min.data.len());
        }
        records.push(format!(
            "{{\"signature\": {}, \"count\": {}, \"class\": {}, \"op\": {}, \"where\": {}, \"message\": {}, \"known\": {}, \"kind\": {}, \"label\": {}, \"bytes\": {}, \"case\": {}}}",
            jstr(sig),
            fs.len(),
            jstr(&f.class),
            jstr(&f.op),
            jstr(&f.where_),
            jstr(&f.msg),
            known_id.map(|k| jstr(k)).unwrap_or("null".into()),
            jstr(&c.kind),
            jstr(&example.label),
            example.data.len(),
            if example.data.len() <= 6000 { jstr(&example.line()) } else { jstr(&format!("(see {}/C09_batch.txt line {})", out, f.case + 1)) }
        ));
    }

    // ---- thorough: where does the parser's recursion overflow the 8 MiB stack?
    let mut overflow_depth: BTreeMap<String, u64> = BTreeMap::new();
    if thorough && single.is_none() {
        // (name, text before the nest, opening, innermost, closing, text after the nest)
        let shapes: [(&str, &str, &str, &str, &str, &str); 5] = [
            ("parentheses", "check if ", "(", "1", ")", " == 1;"),
            ("arrays", "f(", "[", "1", "]", ");"),
            ("maps", "f(", "{\"a\":", "1", "}", ");"),
            ("negations", "check if ", "!", "true", "", ";"),
            ("closures", "check if ", "[1].all($x -> ", "true", ")", ";"),
        ];
        let mut p2 = Probe { runner: &probe_runner, dir: out.clone(), n: 100_000, deadline: std::time::Instant::now() + std::time::Duration::from_secs(240) };
        for (name, pre, open, inner, close, post) in shapes {
            let mk = |d: usize| {
                let src = format!("{}{}{}{}{}", pre, open.repeat(d), inner, close.repeat(d), post);
                Case::new("datalog", &format!("depth-probe;{};{}", name, d), src.into_bytes(), vec![])
            };
            let aborts = |p: &mut Probe, d: usize| -> bool {
                let c = mk(d);
                p.n += 1;
                let file = format!("{}/probe_{}.txt", p.dir, p.n);
                if std::fs::write(&file, c.line()).is_err() {
                    return false;
                }
                let res = p.runner.run_range(&file, 0, 1);
                let _ = std::fs::remove_file(&file);
                res.iter().any(|(_, o)| o.crash.as_ref().map(|w| !w.starts_with("hang")).unwrap_or(false))
            };
            let (mut lo, mut hi) = (1usize, 20_000usize);
            if !aborts(&mut p2, hi) {
                continue;
            }
            while lo < hi {
                let mid = (lo + hi) / 2;
                if aborts(&mut p2, mid) {
                    hi = mid;
                } else {
                    lo = mid + 1;
                }
            }
            overflow_depth.insert(name.to_string(), hi as u64);
        }
    }

    // ---- model cases
    let mut gcases: Vec<G> = vec![];
    let mut gtexts: BTreeSet<String> = BTreeSet::new();
    let mut idx_total = 0u64;
    for (c, o) in cases.iter().zip(outcomes.iter()) {
        if c.kind != "biscuit" || o.crash.is_some() {
            continue;
        }
        for g in index_cases(&parse_ops(&o.result)) {
            idx_total += 1;
            let t = g.gallina();
            if gtexts.insert(t) {
                gcases.push(g);
            }
        }
    }
    let n_idx_distinct = gcases.len();
    let mut print_total = 0u64;
    let mut print_none = 0u64;
    for (k, pc) in pcases.iter().enumerate() {
        let o = &outcomes[first_print + k];
        if let Some(g) = print_case_term(pc, &parse_ops(&o.result), o.crash.is_some()) {
            print_total += 1;
            if parse_ops(&o.result).iter().any(|(n, c)| n == "expr.print.text" && c == "none") {
                print_none += 1;
            }
            let t = g.gallina();
            if gtexts.insert(t) {
                gcases.push(g);
            }
        }
    }
    let shards = 16;
    let mut files = write_cases(&out, "C09", "robust", "Model.RobustCases", "rcase", "rcase_failures", &gcases, 0, shards).expect("write");
    files.extend(write_cases(&out, "C09f", "robust", "Model.RobustCases", "rcase", "rcase_known", &gcases, 0, shards).expect("write"));
    let kn = if thorough { 1200 } else { 320 };
    let stride = (gcases.len() / kn).max(1);
    let sample: Vec<G> = gcases.iter().enumerate().filter(|(i, _)| i % stride == 0).map(|(_, g)| g.clone()).collect();
    files.extend(write_cases(&out, "C09k", "robust", "Model.RobustCases", "rcase", "rcase_failures", &sample, sample.len(), shards).expect("write"));
    let _ = std::fs::write(format!("{}/C09_cases.txt", out), gcases.iter().map(|g| g.gallina()).collect::<Vec<_>>().join("\n"));

    let j = |m: &BTreeMap<String, u64>| m.iter().map(|(k, v)| format!("{}: {}", jstr(k), v)).collect::<Vec<_>>().join(", ");
    println!(
        "{{\"family\": \"robust\", \"evaluations\": {}, \"witnesses\": {}, \"corpus\": {}, \"operations_run\": {}, \"distinct_nontrivial\": {}, \"input_kinds\": {{{}}}, \"outcome_classes\": {{{}}}, \"reached\": {{{}}}, \"model_cases\": {}, \"model_cases_distinct\": {}, \"index_gate_observations\": {}, \"index_gate_distinct\": {}, \"printer_cases\": {}, \"printer_cases_unprintable\": {}, \"kernel_sample\": {}, \"child_run_s\": {:.1}, \"cap_s\": {}, \"failing_signatures\": {}, \"unknown_signatures\": {}, \"known_seen\": {{{}}}, \"parser_stack_overflow_min_depth\": {{{}}}, \"findings\": [{}], \"stored\": [{}], \"samples\": [{}], \"panics\": [], \"files\": [{}]}}",
        cases.len(),
        n_wit,
        n_corpus,
        ops_total,
        distinct.len(),
        j(&kind_hist),
        j(&class_hist),
        j(&reached),
        idx_total + print_total,
        gcases.len(),
        idx_total,
        n_idx_distinct,
        print_total,
        print_none,
        sample.len(),
        run_s,
        cap,
        by_sig.len(),
        unknown,
        j(&known_seen),
        j(&overflow_depth),
        records.join(", "),
        stored.iter().map(|s| jstr(s)).collect::<Vec<_>>().join(", "),
        gcases.iter().step_by((gcases.len() / 5).max(1)).take(5).map(|g| jstr(&g.gallina())).collect::<Vec<_>>().join(", "),
        files.iter().map(|s| jstr(s)).collect::<Vec<_>>().join(", ")
    );
}

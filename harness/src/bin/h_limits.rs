//! C10 correspondence: histories of run / authorize / query calls on one authorizer under
//! boundary limit triples, with the scripted clock of the verification hook.
use std::collections::{BTreeMap, HashSet};
use verif_harness::auth::*;
use verif_harness::datalog::*;
use verif_harness::expr::*;
use verif_harness::*;
use biscuit_auth::datalog::RunLimits;
use std::time::Duration;

#[derive(Clone, Debug, PartialEq)]
enum LOp {
    Run,
    Authorize,
    Query,
}

#[derive(Clone, Debug, PartialEq)]
enum LRes {
    RunOk,
    Auth(Outcome),
    QueryOk,
    Err(String), // "LLimit X" | "LExec" | "LPanic"
    Other(String),
}

struct LCase {
    blocks: Vec<ABlock>,
    auth: AAuth,
    max_facts: u64,
    max_iter: u64,
    max_time: Option<u64>, // None = Duration::MAX
    start: u64,
    step: u64,
    ops: Vec<LOp>,
    /// after every second call the authorizer is replaced by the one restored from its own snapshot:
    /// consumed iterations, facts and time must survive (transparent for the model)
    snap: bool,
}

fn token_err(e: &biscuit_auth::error::Token) -> LRes {
    use biscuit_auth::error::{RunLimit, Token};
    match e {
        Token::RunLimit(RunLimit::TooManyFacts) => LRes::Err("TooManyFacts".into()),
        Token::RunLimit(RunLimit::TooManyIterations) => LRes::Err("TooManyIterations".into()),
        Token::RunLimit(RunLimit::Timeout) => LRes::Err("Timeout".into()),
        Token::Execution(_) => LRes::Err("LExec".into()),
        e => LRes::Other(format!("{:?}", e).chars().take(60).collect()),
    }
}

type Obs = (LRes, u64, u64, Option<u64>);
// per call: number of clock readings it consumed
thread_local! { static READS: std::cell::RefCell<Vec<u64>> = std::cell::RefCell::new(vec![]); }

fn run_lcase(c: &LCase, keys: &Keys, rng: &mut Rng) -> Option<Vec<Obs>> {
    let token = build_token(&c.blocks, keys, rng).ok()?;
    let mut ab = build_authorizer(&c.auth, keys, (c.max_facts, c.max_iter)).ok()?;
    ab = ab.limits(RunLimits {
        max_facts: c.max_facts,
        max_iterations: c.max_iter,
        max_time: match c.max_time {
            Some(ns) => Duration::from_nanos(ns),
            None => Duration::MAX,
        },
    });
    let mut az = ab.build(&token).ok()?;
    let mut out = vec![];
    biscuit_auth::verif_clock::set(c.start, c.step);
    READS.with(|r| r.borrow_mut().clear());
    for op in &c.ops {
        let before = biscuit_auth::verif_clock::reads();
        let r = std::panic::catch_unwind(std::panic::AssertUnwindSafe(|| match op {
            LOp::Run => match az.run() {
                Ok(_) => LRes::RunOk,
                Err(e) => token_err(&e),
            },
            LOp::Authorize => match az.authorize() {
                Ok(i) => LRes::Auth(Outcome::Allow(i as u64)),
                Err(e) => match outcome_of(&Err(e.clone())) {
                    o @ (Outcome::NoPolicy(_) | Outcome::Refused(_, _, _)) => LRes::Auth(o),
                    _ => token_err(&e),
                },
            },
            LOp::Query => {
                let r: Result<Vec<biscuit_auth::builder::Fact>, _> = az.query("q($x) <- zzz($x)");
                match r {
                    Ok(_) => LRes::QueryOk,
                    Err(e) => token_err(&e),
                }
            }
        }));
        match r {
            Err(_) => {
                out.push((LRes::Err("LPanic".into()), 0, 0, None));
                break;
            }
            Ok(res) => {
                let after = biscuit_auth::verif_clock::reads();
                READS.with(|r| r.borrow_mut().push(after - before));
                let ex = az.execution_time().map(|d| d.as_nanos() as u64);
                out.push((res, az.iterations(), az.fact_count() as u64, ex));
                if c.snap && out.len() % 2 == 1 {
                    // snapshot / restore between two calls: the restored authorizer carries on
                    let restored = std::panic::catch_unwind(std::panic::AssertUnwindSafe(|| {
                        az.to_raw_snapshot().ok().and_then(|b| biscuit_auth::Authorizer::from_raw_snapshot(&b).ok())
                    }));
                    match restored {
                        Ok(Some(a2)) => az = a2,
                        _ => {
                            out.push((LRes::Other("snapshot / restore of the authorizer failed between two calls".into()), 0, 0, None));
                            break;
                        }
                    }
                }
            }
        }
    }
    biscuit_auth::verif_clock::clear();
    Some(out)
}

fn g_lerr(k: &str) -> G {
    match k {
        "LExec" => c0("LExec"),
        "LPanic" => c0("LPanic"),
        k => c("LLimit", vec![c0(k)]),
    }
}

fn g_obs(o: &Obs, panicked: bool) -> G {
    let r = match &o.0 {
        LRes::RunOk => c0("BRunOk"),
        LRes::QueryOk => c0("BQueryOk"),
        LRes::Auth(oc) => {
            // IOutcome wrapper of g_outcome is not wanted here
            let g = g_outcome(oc);
            match g {
                G::C(_, mut args) if args.len() == 1 => c("BAuth", vec![args.remove(0)]),
                g => c("BAuth", vec![g]),
            }
        }
        LRes::Err(k) => c("BErr", vec![g_lerr(k)]),
        LRes::Other(_) => c("BErr", vec![c0("LExec")]),
    };
    let _ = panicked;
    G::T(vec![r, G::N(o.1), G::N(o.2), gopt(o.3.map(G::N))])
}

fn chain_case(rng: &mut Rng) -> LCase {
    // p(0); succ(i, i+1) for i < L; p($y) <- p($x), succ($x, $y): L productive passes
    let l = 1 + rng.below(5);
    let wide = rng.below(4); // extra facts derived per step
    let mut facts: Vec<(String, Vec<V>)> = vec![("p".into(), vec![V::Int(0)])];
    for i in 0..l {
        facts.push(("succ".into(), vec![V::Int(i as i64), V::Int(i as i64 + 1)]));
    }
    let v = |x: u32| DTerm::Var(x);
    let pr = |n: &str, a: Vec<DTerm>| DPred { name: n.into(), args: a };
    let mut rules = vec![ARule {
        rule: DRule {
            head: pr("p", vec![v(1)]),
            body: vec![pr("p", vec![v(0)]), pr("succ", vec![v(0), v(1)])],
            exprs: vec![],
        },
        scopes: vec![],
    }];
    for k in 0..wide {
        rules.push(ARule {
            rule: DRule {
                head: pr("w", vec![v(0), DTerm::Val(V::Int(k as i64))]),
                body: vec![pr("p", vec![v(0)])],
                exprs: vec![],
            },
            scopes: vec![],
        });
    }
    // one program in six has no rule at all (neither token nor authorizer): the budgets bind all the same
    let wide = if rng.chance(1, 6) {
        rules.clear();
        0
    } else {
        wide
    };
    let norules = rules.is_empty();
    let in_token = rng.chance(1, 2);
    let q = |body: Vec<DPred>, exprs: Vec<Vec<Op>>| ARule { rule: DRule { head: pr("query", vec![]), body, exprs }, scopes: vec![] };
    let mut checks = vec![];
    let nchecks = rng.below(3);
    for _ in 0..nchecks {
        checks.push(ACheck {
            kind: match rng.below(4) {
                0 => CK::Reject,
                1 => CK::All,
                _ => CK::One,
            },
            queries: (0..1 + rng.below(2))
                .map(|_| q(vec![pr("p", vec![DTerm::Val(V::Int(rng.range(0, l as i64 + 1)))])], vec![]))
                .collect(),
        });
    }
    let policies = vec![
        APolicy { allow: false, queries: vec![q(vec![pr("nope", vec![v(0)])], vec![])] },
        APolicy { allow: true, queries: vec![q(vec![], vec![vec![Op::Val(V::Bool(true))]])] },
    ];
    let (bfacts, brules, afacts, arules) =
        if in_token { (facts, rules, vec![], vec![]) } else { (vec![], vec![], facts, rules) };
    let blocks = vec![ABlock { facts: bfacts, rules: brules, checks: if in_token { checks.clone() } else { vec![] }, scopes: vec![], ext: None }];
    let auth = AAuth { facts: afacts, rules: arules, checks: if in_token { vec![] } else { checks }, policies, scopes: vec![] };
    // final number of facts: initial + L derived p + wide * (L+1)
    let n_init = 1 + l;
    let n_final = if norules { n_init } else { n_init + l + wide * (l + 1) };
    let max_iter = match rng.below(8) {
        0 => 0,
        1 => 1,
        2 => l.saturating_sub(1),
        3 => l,
        4 => l + 1,
        _ => 1000,
    };
    let max_facts = match rng.below(10) {
        0 => 0,
        1 => 1,
        2 => n_init.saturating_sub(1),
        3 => n_init,
        4 => n_final.saturating_sub(1),
        5 => n_final,
        6 => n_final + 1,
        _ => 100000,
    };
    // one clock reading = 10 ns, 0.4 s or 1.5 s: budgets and consumed time reach whole seconds in a few readings
    let step = *rng.pick(&[10u64, 10, 400_000_000, 1_500_000_000]);
    let max_time = match rng.below(10) {
        0 => Some(0),
        1 => Some(step * rng.below(6)),
        2 => Some(step * (2 + rng.below(12))),
        3 => Some(step * (2 + rng.below(30)) + rng.below(10)),
        4 => None,
        _ => Some(3_600_000_000_000),
    };
    let nops = 1 + rng.below(4);
    let ops = (0..nops)
        .map(|_| match rng.below(5) {
            0 | 1 => LOp::Authorize,
            2 | 3 => LOp::Run,
            _ => LOp::Query,
        })
        .collect();
    let snap = rng.chance(1, 3);
    LCase { blocks, auth, max_facts, max_iter, max_time, start: 1000, step, ops, snap }
}

/// Stored witness of the known finding: a run that times out, then a retry that succeeds
/// although the two runs together used more than max_time.
fn witness_time_restart() -> LCase {
    let mut rng = Rng::new(7);
    let mut c = chain_case(&mut rng);
    // a chain of 4 in the authorizer, generous fact/iteration budgets, time for ~3 passes
    let v = |x: u32| DTerm::Var(x);
    let pr = |n: &str, a: Vec<DTerm>| DPred { name: n.into(), args: a };
    let mut facts: Vec<(String, Vec<V>)> = vec![("p".into(), vec![V::Int(0)])];
    for i in 0..4 {
        facts.push(("succ".into(), vec![V::Int(i), V::Int(i + 1)]));
    }
    c.blocks = vec![ABlock { facts: vec![], rules: vec![], checks: vec![], scopes: vec![], ext: None }];
    c.auth.facts = facts;
    c.auth.rules = vec![ARule {
        rule: DRule { head: pr("p", vec![v(1)]), body: vec![pr("p", vec![v(0)]), pr("succ", vec![v(0), v(1)])], exprs: vec![] },
        scopes: vec![],
    }];
    c.auth.checks = vec![];
    c.max_facts = 100000;
    c.max_iter = 1000;
    c.max_time = Some(25);
    c.start = 1000;
    c.step = 10;
    c.ops = vec![LOp::Run, LOp::Run, LOp::Run];
    c.snap = false;
    c
}

fn main() {
    let seed = arg_u64("--seed", 1);
    let tier = arg("--tier").unwrap_or("quick".into());
    let out = arg("--out-dir").expect("--out-dir");
    let shards = arg_u64("--shards", 16) as usize;
    let thorough = tier == "thorough";
    let n = arg_u64("--n", if thorough { 30000 } else { 3000 });
    std::panic::set_hook(Box::new(|_| {}));
    let mut rng = Rng::new(seed);
    let keys = make_keys(&mut rng);
    let overflow_checks = cfg!(debug_assertions);

    let mut gs = vec![];
    let mut hist: BTreeMap<String, u64> = BTreeMap::new();
    let mut seen = HashSet::new();
    let mut nontrivial = 0u64;
    let mut samples = vec![];
    let mut panics = vec![];
    let mut over_budget = vec![];
    let mut time_over_after_failure = vec![];
    let mut time_over_other = vec![];
    for i in 0..n as usize {
        let cs = if i == 0 { witness_time_restart() } else { chain_case(&mut rng) };
        let obs = run_lcase(&cs, &keys, &mut rng);
        // direct oracle of the property on the implementation: on success, never more
        // iterations or facts than the budget
        if let Some(obs) = &obs {
            // cumulative evaluation time (in scripted clock readings) against max_time
            let reads: Vec<u64> = READS.with(|r| r.borrow().clone());
            let mut cum = 0u64;
            let mut failed_before = false;
            for (k, o) in obs.iter().enumerate() {
                cum += reads.get(k).cloned().unwrap_or(0).saturating_sub(1) * cs.step;
                let success = matches!(o.0, LRes::RunOk | LRes::QueryOk | LRes::Auth(_));
                if let Some(mt) = cs.max_time {
                    if success && failed_before && cum > mt + 2 * cs.step {
                        time_over_after_failure.push(i);
                    }
                    // without an earlier failure the authorizer's own accounting is the measure
                    if success && !failed_before && o.3.map(|ex| ex > mt + 2 * cs.step).unwrap_or(false) {
                        time_over_other.push(i);
                    }
                }
                if matches!(o.0, LRes::Err(_)) {
                    failed_before = true;
                }
            }
            for o in obs {
                let class = match &o.0 {
                    LRes::RunOk => "run-ok".to_string(),
                    LRes::QueryOk => "query-ok".to_string(),
                    LRes::Auth(_) => "authorize-decided".to_string(),
                    LRes::Err(k) => format!("err:{}", k),
                    LRes::Other(_) => "other".to_string(),
                };
                *hist.entry(class).or_default() += 1;
                let success = matches!(o.0, LRes::RunOk | LRes::QueryOk | LRes::Auth(_));
                if success && (o.1 > cs.max_iter || o.2 > cs.max_facts) {
                    over_budget.push(i);
                }
                if o.0 == LRes::Err("LPanic".into()) {
                    panics.push(i);
                }
            }
        }
        let first = ARun { outcome: Outcome::Allow(0), facts: None, iterations: 0, queries: vec![] };
        let base = g_acase(&cs.blocks, &cs.auth, (cs.max_facts, cs.max_iter), &first);
        let (tok, auth) = match base {
            G::T(parts) => (parts[0].clone(), parts[1].clone()),
            _ => unreachable!(),
        };
        let limits = rec(
            "mklimits",
            vec![
                ("max_facts", G::N(cs.max_facts)),
                ("max_iter", G::N(cs.max_iter)),
                ("max_time", G::N(cs.max_time.unwrap_or(0))),
                ("time_is_max", G::B(cs.max_time.is_none())),
            ],
        );
        let ops = G::L(
            cs.ops
                .iter()
                .map(|o| c0(match o {
                    LOp::Run => "LRun",
                    LOp::Authorize => "LAuthorize",
                    LOp::Query => "LQuery",
                }))
                .collect(),
        );
        let observed = match &obs {
            Some(l) => c("LObs", vec![G::L(l.iter().map(|o| g_obs(o, false)).collect())]),
            None => c0("LOther"),
        };
        let g = G::T(vec![
            tok,
            auth,
            limits,
            G::T(vec![G::N(cs.start), G::N(cs.step)]),
            ops,
            G::B(overflow_checks),
            G::L(vec![]),
            observed,
        ]);
        let line = g.gallina();
        let has_limit = obs.as_ref().map(|l| l.iter().any(|o| matches!(o.0, LRes::Err(_)))).unwrap_or(false);
        if seen.insert(line.clone()) && has_limit {
            nontrivial += 1;
        }
        if samples.len() < 3 && has_limit && i % 13 == 0 {
            samples.push(line);
        }
        gs.push(g);
    }
    let kernel_n = arg_u64("--kernel-n", if thorough { 800 } else { 160 }) as usize;
    let files = write_cases(&out, "C10", "limits", "Model.LimitsCases", "lcase", "lcase_failures", &gs, 0, shards).expect("write");
    let stride = (gs.len() / kernel_n.max(1)).max(1);
    let sample: Vec<G> = gs.iter().enumerate().filter(|(i, _)| i % stride == 0).map(|(_, g)| g.clone()).collect();
    let kfiles = write_cases(&out, "C10k", "limits", "Model.LimitsCases", "lcase", "lcase_failures", &sample, sample.len(), 8).expect("write");
    let _ = std::fs::write(format!("{}/C10_cases.txt", out), gs.iter().map(|g| g.gallina()).collect::<Vec<_>>().join("\n"));
    let hist_s: Vec<String> = hist.iter().map(|(k, v)| format!("{}: {}", jstr(k), v)).collect();
    let files_s: Vec<String> = files.iter().chain(kfiles.iter()).map(|p| jstr(p)).collect();
    over_budget.dedup();
    panics.dedup();
    println!(
        "{{\"family\": \"limits\", \"evaluations\": {}, \"distinct_nontrivial\": {}, \"call_result_histogram\": {{{}}}, \"overflow_checks_build\": {}, \"success_over_budget\": {:?}, \"time_over_budget_after_failed_call\": {:?}, \"time_over_budget_other\": {:?}, \"panics\": {:?}, \"samples\": [{}], \"kernel_sample\": {}, \"files\": [{}]}}",
        gs.len(),
        nontrivial,
        hist_s.join(", "),
        overflow_checks,
        &over_budget[..over_budget.len().min(20)],
        &time_over_after_failure[..time_over_after_failure.len().min(20)],
        &time_over_other[..time_over_other.len().min(20)],
        &panics[..panics.len().min(20)],
        samples.iter().map(|s| jstr(s)).collect::<Vec<_>>().join(", "),
        sample.len(),
        files_s.join(", ")
    );
}

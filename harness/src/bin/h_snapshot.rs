//! C13 correspondence driver.
use std::collections::{BTreeMap, HashSet};
use verif_harness::auth::{self, AAuth, ABlock, AGen, ARule};
use verif_harness::datalog::DGen;
use verif_harness::snapshot::*;
use verif_harness::symbols::write_ocaml_shards;
use verif_harness::*;

fn main() {
    let seed = arg_u64("--seed", 1);
    let tier = arg("--tier").unwrap_or("quick".into());
    let out = arg("--out-dir").expect("--out-dir");
    let shards = arg_u64("--shards", 16) as usize;
    let thorough = tier == "thorough";
    let n = arg_u64("--n", if thorough { 12000 } else { 1200 });
    std::panic::set_hook(Box::new(|_| {}));

    let mut rng = Rng::new(seed ^ 0x13);
    let mut cs: Vec<SCase> = corpus();
    let n_corpus = cs.len();
    for _ in 0..n {
        cs.push(gen_case(&mut rng));
    }
    let mut lines: Vec<G> = vec![];
    let mut hist: BTreeMap<String, u64> = BTreeMap::new();
    let mut seen: HashSet<String> = HashSet::new();
    let mut nontrivial = 0u64;
    let mut panics = vec![];
    let mut inputs_mismatch = vec![];
    let mut restore_failed = vec![];
    let mut snapshot_differs = vec![];
    let mut behaviour_differs = vec![];
    let mut policies_failed = vec![];
    let mut builder_failed = vec![];
    let mut samples = vec![];
    for (i, c) in cs.iter().enumerate() {
        let case_seed = seed.wrapping_mul(1_000_003).wrapping_add(i as u64);
        let r = run_case(case_seed, c);
        let g = g_scase(case_seed, &r);
        *hist.entry(format!("moment {}", c.moment)).or_default() += 1;
        *hist.entry(format!("blocks {}", c.blocks.len())).or_default() += 1;
        if c.blocks.iter().any(|b| b.1.is_some()) {
            *hist.entry("with third-party block".into()).or_default() += 1;
        }
        *hist.entry(format!("restore {:?}", r.restore_raw)).or_default() += 1;
        *hist.entry(format!("policies {:?}", r.policies)).or_default() += 1;
        if r.panicked || !r.built {
            panics.push(i);
        }
        if r.built && !r.inputs_match {
            inputs_mismatch.push(i);
        }
        if r.restore_raw != Restore::Ok || r.restore_b64 != Restore::Ok {
            restore_failed.push(i);
        } else if !r.snapshot_equal {
            snapshot_differs.push(i);
        }
        if !r.behaviour_equal {
            behaviour_differs.push(i);
        }
        if r.built && !r.builder_roundtrip {
            builder_failed.push(i);
        }
        if r.policies != PolLoad::Ok(true) {
            policies_failed.push(i);
        }
        let line = g.gallina();
        if seen.insert(line.clone()) && c.blocks.len() >= 2 && !r.facts.is_empty() {
            nontrivial += 1;
        }
        if i < 2 || (i >= n_corpus && samples.len() < 4 && i % 13 == 0) {
            samples.push(if line.len() > 1500 { format!("{}...", &line[..1500]) } else { line.clone() });
        }
        lines.push(g);
    }
    // ---- second stream (implementation only): programs over the whole language (all term
    // types, expressions, closures, scopes, third-party blocks) from the C04 generator; the
    // original and the authorizers restored from its raw and base64 snapshots must show the same
    // code, facts per origin, authorize() result and query answers -- before a run, after
    // authorize(), and after a run stopped by the iteration budget
    let rich_n = arg_u64("--rich", if thorough { 4000 } else { 400 });
    let mut rich_differs: Vec<String> = vec![];
    let mut rich_hist: BTreeMap<String, u64> = BTreeMap::new();
    {
        let mut rrng = Rng::new(seed ^ 0x1313);
        let akeys = auth::make_keys(&mut rrng);
        for j in 0..rich_n {
            let mut g = AGen { d: DGen { rng: rrng.fork(), risky: j % 2 == 0 }, nblocks: 0 };
            let nb = 1 + g.d.rng.below(3) as usize;
            let blocks: Vec<ABlock> = (0..nb).map(|i| g.block(i)).collect();
            let a = g.authorizer();
            let probes: Vec<ARule> = (0..2).map(|_| g.probe()).collect();
            let moment = j % 3;
            let r = std::panic::catch_unwind(std::panic::AssertUnwindSafe(|| rich_case(&blocks, &a, &probes, moment, &akeys, &mut rrng)));
            let verdict = match r {
                Ok(Ok(class)) => class,
                Ok(Err(what)) => {
                    if rich_differs.len() < 20 {
                        rich_differs.push(format!("rich case {} (seed {}, moment {}): {}", j, seed, moment, what));
                    }
                    "differs".to_string()
                }
                Err(_) => {
                    if rich_differs.len() < 20 {
                        rich_differs.push(format!("rich case {} (seed {}, moment {}): panicked", j, seed, moment));
                    }
                    "panicked".to_string()
                }
            };
            *rich_hist.entry(format!("moment {}: {}", moment, verdict)).or_default() += 1;
        }
    }
    let kernel_n = arg_u64("--kernel-n", if thorough { 480 } else { 48 }) as usize;
    let files = write_ocaml_shards(&out, "C13", "snapshot", "ncase_failures", &lines, shards, 8).expect("write cases");
    let stride = (lines.len() / kernel_n.max(1)).max(1);
    let sample: Vec<G> = lines.iter().enumerate().filter(|(i, _)| *i < n_corpus || i % stride == 0).map(|(_, g)| g.clone()).collect();
    let kfiles = write_cases(&out, "C13k", "snapshot", "Model.SnapshotCases", "ncase", "ncase_failures", &sample, sample.len(), shards)
        .expect("write kernel cases");
    let _ = std::fs::write(format!("{}/C13_cases.txt", out), lines.iter().map(|g| g.gallina()).collect::<Vec<_>>().join("\n"));
    let hist_s: Vec<String> = hist.iter().map(|(k, v)| format!("{}: {}", jstr(k), v)).collect();
    let files_s: Vec<String> = files.iter().chain(kfiles.iter()).map(|p| jstr(p)).collect();
    let cut = |v: &Vec<usize>| v[..v.len().min(5000)].to_vec();
    println!(
        "{{\"family\": \"snapshot\", \"evaluations\": {}, \"corpus\": {}, \"random_cases\": {}, \"distinct_nontrivial\": {}, \"histogram\": {{{}}}, \"inputs_mismatch\": {:?}, \"restore_failed_count\": {}, \"restore_failed\": {:?}, \"snapshot_differs\": {:?}, \"behaviour_differs\": {:?}, \"builder_snapshot_failed\": {:?}, \"policies_failed_count\": {}, \"policies_failed\": {:?}, \"panics\": {:?}, \"rich_programs\": {}, \"rich_histogram\": {{{}}}, \"rich_differs\": [{}], \"samples\": [{}], \"kernel_sample\": {}, \"files\": [{}]}}",
        cs.len(),
        n_corpus,
        n,
        nontrivial,
        hist_s.join(", "),
        cut(&inputs_mismatch),
        restore_failed.len(),
        cut(&restore_failed),
        cut(&snapshot_differs),
        cut(&behaviour_differs),
        cut(&builder_failed),
        policies_failed.len(),
        cut(&policies_failed),
        panics,
        rich_n,
        rich_hist.iter().map(|(k, v)| format!("{}: {}", jstr(k), v)).collect::<Vec<_>>().join(", "),
        rich_differs.iter().map(|s| jstr(s)).collect::<Vec<_>>().join(", "),
        samples.iter().map(|s| jstr(s)).collect::<Vec<_>>().join(", "),
        sample.len(),
        files_s.join(", ")
    );
}

/// what an authorizer shows: sorted code, facts per origin, then authorize() and the answers of
/// the probe queries (on a clone, so that the observation does not change it)
fn rich_observe(a: &biscuit_auth::Authorizer, probes: &[ARule], keys: &auth::Keys) -> (String, auth::Outcome) {
    let mut a = a.clone();
    let mut code: Vec<String> = a.dump_code().lines().map(|l| l.to_string()).collect();
    code.sort();
    let before = auth::world_facts(&a);
    let res = auth::outcome_of(&a.authorize());
    let after = auth::world_facts(&a);
    let mut qs = vec![];
    for q in probes {
        let r1 = a.query(auth::b_rule(q, &keys.ext_pub)).map(|mut v: Vec<biscuit_auth::builder::Fact>| {
            let mut t: Vec<String> = v.drain(..).map(|f| f.to_string()).collect();
            t.sort();
            t
        });
        let r2 = a.query_all(auth::b_rule(q, &keys.ext_pub)).map(|mut v: Vec<biscuit_auth::builder::Fact>| {
            let mut t: Vec<String> = v.drain(..).map(|f| f.to_string()).collect();
            t.sort();
            t
        });
        // errors by class: their text carries symbol-table indices, which a restored authorizer may number differently
        let class = |e: biscuit_auth::error::Token| match e {
            biscuit_auth::error::Token::Execution(_) => "execution error",
            biscuit_auth::error::Token::RunLimit(_) => "run limit",
            _ => "other error",
        };
        qs.push(format!("{:?} / {:?}", r1.map_err(class), r2.map_err(class)));
    }
    (format!("code {:?}\nfacts before {:?}\niterations {}\nfacts after {:?}\nqueries {:?}", code, before, a.iterations(), after, qs), res)
}

fn rich_case(blocks: &[ABlock], a: &AAuth, probes: &[ARule], moment: u64, keys: &auth::Keys, rng: &mut Rng) -> Result<String, String> {
    let token = match auth::build_token(blocks, keys, rng) {
        Ok(t) => t,
        Err(_) => return Ok("token refused".into()),
    };
    let bytes = token.to_vec().map_err(|e| format!("to_vec: {:?}", e))?;
    let token = biscuit_auth::Biscuit::from(&bytes, keys.root.public()).map_err(|e| format!("reload: {:?}", e))?;
    let limits = if moment == 2 { (100_000, 1) } else { (100_000, 2000) };
    // no extern functions: a snapshot cannot carry them
    let ab = match auth::build_authorizer(a, keys, limits) {
        Ok(b) => b.set_extern_funcs(Default::default()),
        Err(_) => return Ok("authorizer refused".into()),
    };
    let mut az = match ab.build(&token) {
        Ok(x) => x,
        Err(_) => return Ok("load refused".into()),
    };
    let mut class = "before run".to_string();
    if moment > 0 {
        class = match az.authorize() {
            Ok(_) => "after authorize: ok".into(),
            Err(biscuit_auth::error::Token::RunLimit(_)) => "after authorize: run limit".into(),
            Err(biscuit_auth::error::Token::FailedLogic(_)) => "after authorize: refused".into(),
            Err(_) => "after authorize: other error".into(),
        };
    }
    let raw = az.to_raw_snapshot().map_err(|e| format!("to_raw_snapshot: {:?}", e))?;
    let b64 = az.to_base64_snapshot().map_err(|e| format!("to_base64_snapshot: {:?}", e))?;
    let r1 = biscuit_auth::Authorizer::from_raw_snapshot(&raw).map_err(|e| format!("from_raw_snapshot refused a snapshot the library produced: {:?}", e))?;
    let r2 = biscuit_auth::Authorizer::from_base64_snapshot(&b64).map_err(|e| format!("from_base64_snapshot refused a snapshot the library produced: {:?}", e))?;
    let (o, res) = rich_observe(&az, probes, keys);
    for (which, r) in [("raw", &r1), ("base64", &r2)] {
        let (o1, res1) = rich_observe(r, probes, keys);
        if o != o1 {
            return Err(format!("the authorizer restored from the {} snapshot differs\n--- original\n{}\n--- restored\n{}", which, o, o1));
        }
        if res != res1 {
            // an execution error on one side only may be C11's known class (a deciding and an erroring
            // binding met in hash order; the restored authorizer has other hash seeds): it is, when
            // fresh builds of the ORIGINAL already show both results
            let exec = |x: &auth::Outcome| matches!(x, auth::Outcome::Exec);
            let mut explained = false;
            if exec(&res) != exec(&res1) {
                for _ in 0..24 {
                    let ab = auth::build_authorizer(a, keys, limits).map_err(|e| format!("{:?}", e))?.set_extern_funcs(Default::default());
                    let mut fresh = ab.build(&token).map_err(|e| format!("{:?}", e))?;
                    let rf = auth::outcome_of(&fresh.authorize());
                    if rf == res1 {
                        explained = true;
                        break;
                    }
                }
            }
            if !explained {
                return Err(format!("authorize() on the authorizer restored from the {} snapshot gives {:?}, on the original {:?}\n{}", which, res1, res, o));
            }
            class.push_str(" (C11 class: outcome depends on hash order)");
        }
    }
    Ok(class)
}

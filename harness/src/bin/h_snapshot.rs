//! C13 correspondence driver.
use std::collections::{BTreeMap, HashSet};
use verif_harness::snapshot::*;
use verif_harness::symbols::write_ocaml_shards;
use verif_harness::*;

fn main() {
    let seed = arg_u64("--seed", 1);
    let tier = arg("--tier").unwrap_or("quick".into());
    let out = arg("--out-dir").expect("--out-dir");
    let shards = arg_u64("--shards", 16) as usize;
    let thorough = tier == "thorough";
    let n = arg_u64("--n", if thorough { 12000 } else { 1200 });
    std::panic::set_hook(Box::new(|_| {}));

    let mut rng = Rng::new(seed ^ 0x13);
    let mut cs: Vec<SCase> = corpus();
    let n_corpus = cs.len();
    for _ in 0..n {
        cs.push(gen_case(&mut rng));
    }
    let mut lines: Vec<G> = vec![];
    let mut hist: BTreeMap<String, u64> = BTreeMap::new();
    let mut seen: HashSet<String> = HashSet::new();
    let mut nontrivial = 0u64;
    let mut panics = vec![];
    let mut inputs_mismatch = vec![];
    let mut restore_failed = vec![];
    let mut snapshot_differs = vec![];
    let mut behaviour_differs = vec![];
    let mut policies_failed = vec![];
    let mut builder_failed = vec![];
    let mut samples = vec![];
    for (i, c) in cs.iter().enumerate() {
        let case_seed = seed.wrapping_mul(1_000_003).wrapping_add(i as u64);
        let r = run_case(case_seed, c);
        let g = g_scase(case_seed, &r);
        *hist.entry(format!("moment {}", c.moment)).or_default() += 1;
        *hist.entry(format!("blocks {}", c.blocks.len())).or_default() += 1;
        if c.blocks.iter().any(|b| b.1.is_some()) {
            *hist.entry("with third-party block".into()).or_default() += 1;
        }
        *hist.entry(format!("restore {:?}", r.restore_raw)).or_default() += 1;
        *hist.entry(format!("policies {:?}", r.policies)).or_default() += 1;
        if r.panicked || !r.built {
            panics.push(i);
        }
        if r.built && !r.inputs_match {
            inputs_mismatch.push(i);
        }
        if r.restore_raw != Restore::Ok || r.restore_b64 != Restore::Ok {
            restore_failed.push(i);
        } else if !r.snapshot_equal {
            snapshot_differs.push(i);
        }
        if !r.behaviour_equal {
            behaviour_differs.push(i);
        }
        if r.built && !r.builder_roundtrip {
            builder_failed.push(i);
        }
        if r.policies != PolLoad::Ok(true) {
            policies_failed.push(i);
        }
        let line = g.gallina();
        if seen.insert(line.clone()) && c.blocks.len() >= 2 && !r.facts.is_empty() {
            nontrivial += 1;
        }
        if i < 2 || (i >= n_corpus && samples.len() < 4 && i % 13 == 0) {
            samples.push(if line.len() > 1500 { format!("{}...", &line[..1500]) } else { line.clone() });
        }
        lines.push(g);
    }
    let kernel_n = arg_u64("--kernel-n", if thorough { 480 } else { 48 }) as usize;
    let files = write_ocaml_shards(&out, "C13", "snapshot", "ncase_failures", &lines, shards, 8).expect("write cases");
    let stride = (lines.len() / kernel_n.max(1)).max(1);
    let sample: Vec<G> = lines.iter().enumerate().filter(|(i, _)| *i < n_corpus || i % stride == 0).map(|(_, g)| g.clone()).collect();
    let kfiles = write_cases(&out, "C13k", "snapshot", "Model.SnapshotCases", "ncase", "ncase_failures", &sample, sample.len(), shards)
        .expect("write kernel cases");
    let _ = std::fs::write(format!("{}/C13_cases.txt", out), lines.iter().map(|g| g.gallina()).collect::<Vec<_>>().join("\n"));
    let hist_s: Vec<String> = hist.iter().map(|(k, v)| format!("{}: {}", jstr(k), v)).collect();
    let files_s: Vec<String> = files.iter().chain(kfiles.iter()).map(|p| jstr(p)).collect();
    let cut = |v: &Vec<usize>| v[..v.len().min(5000)].to_vec();
    println!(
        "{{\"family\": \"snapshot\", \"evaluations\": {}, \"corpus\": {}, \"random_cases\": {}, \"distinct_nontrivial\": {}, \"histogram\": {{{}}}, \"inputs_mismatch\": {:?}, \"restore_failed_count\": {}, \"restore_failed\": {:?}, \"snapshot_differs\": {:?}, \"behaviour_differs\": {:?}, \"builder_snapshot_failed\": {:?}, \"policies_failed_count\": {}, \"policies_failed\": {:?}, \"panics\": {:?}, \"samples\": [{}], \"kernel_sample\": {}, \"files\": [{}]}}",
        cs.len(),
        n_corpus,
        n,
        nontrivial,
        hist_s.join(", "),
        cut(&inputs_mismatch),
        restore_failed.len(),
        cut(&restore_failed),
        cut(&snapshot_differs),
        cut(&behaviour_differs),
        cut(&builder_failed),
        policies_failed.len(),
        cut(&policies_failed),
        panics,
        samples.iter().map(|s| jstr(s)).collect::<Vec<_>>().join(", "),
        sample.len(),
        files_s.join(", ")
    );
}

//! C05 correspondence: datalog::World on generated worlds, each in three insertion orders.
use std::collections::{BTreeMap, HashSet};
use verif_harness::datalog::*;
use verif_harness::expr::*;
use verif_harness::*;

fn main() {
    let seed = arg_u64("--seed", 1);
    let tier = arg("--tier").unwrap_or("quick".into());
    let out = arg("--out-dir").expect("--out-dir");
    let shards = arg_u64("--shards", 16) as usize;
    let thorough = tier == "thorough";
    let n = arg_u64("--n", if thorough { 30000 } else { 2500 });
    std::panic::set_hook(Box::new(|_| {}));
    let mut rng = Rng::new(seed);
    let mut cases: Vec<DCase> = corpus();
    let n_corpus = cases.len();
    for _ in 0..n {
        let c = random_dcase(&mut rng);
        let s1 = shuffled(&c, &mut rng);
        let s2 = shuffled(&c, &mut rng);
        cases.push(c);
        cases.push(s1);
        cases.push(s2);
    }
    let mut gs = vec![];
    let mut seen = HashSet::new();
    let mut nontrivial = 0u64;
    let mut hist: BTreeMap<String, u64> = BTreeMap::new();
    let mut panics = vec![];
    let mut order_dependent = vec![];
    let mut samples = vec![];
    let mut prev: Option<(usize, DRes)> = None;
    let mut max_iter = 0;
    let mut derived_total = 0u64;
    for (i, cs) in cases.iter().enumerate() {
        let r = run_dcase(cs);
        // the three orders of one program must give the same result (queries may differ
        // only when a query errors: which binding errors first is order dependent)
        if i >= n_corpus {
            let k = (i - n_corpus) % 3;
            if k == 0 {
                prev = Some((i, r.result.clone()));
            } else if let Some((pi, pr)) = &prev {
                let same = match (pr, &r.result) {
                    (DRes::Ok(f1, q1), DRes::Ok(f2, q2)) => {
                        f1 == f2
                            && (q1 == q2
                                || q1.iter().chain(q2.iter()).any(|(a, b, c)| *a == RB::E || *b == RB::E || c.is_none()))
                    }
                    (a, b) => a == b,
                };
                if !same {
                    order_dependent.push((*pi, i));
                }
            }
        }
        let class = match &r.result {
            DRes::Ok(fs, _) => {
                let derived = fs.len().saturating_sub({
                    let mut s = HashSet::new();
                    r.facts.iter().for_each(|f| {
                        s.insert(f.clone());
                    });
                    s.len()
                });
                derived_total += derived as u64;
                let multi = fs.iter().any(|f| f.origin.len() >= 2 && !r.facts.contains(f));
                if multi {
                    "ok:derived-multi-origin"
                } else if derived > 0 {
                    "ok:derived"
                } else {
                    "ok:nothing-derived"
                }
            }
            DRes::Err => "err",
            DRes::Panic => "panic",
        };
        *hist.entry(class.to_string()).or_default() += 1;
        max_iter = max_iter.max(r.iterations);
        if r.result == DRes::Panic {
            panics.push(i);
        }
        let g = g_drun(&r);
        let line = g.gallina();
        if seen.insert(line.clone()) && class == "ok:derived-multi-origin" {
            nontrivial += 1;
        }
        if samples.len() < 4 && class == "ok:derived-multi-origin" && i % 5 == 0 {
            samples.push(line);
        }
        gs.push(g);
    }
    let kernel_n = arg_u64("--kernel-n", if thorough { 1500 } else { 240 }) as usize;
    let files = write_cases(&out, "C05", "datalog", "Model.DatalogCases", "dcase", "dcase_failures", &gs, 0, shards)
        .expect("write");
    let stride = (gs.len() / kernel_n.max(1)).max(1);
    let sample: Vec<G> = gs
        .iter()
        .enumerate()
        .filter(|(i, _)| *i < n_corpus || i % stride == 0)
        .map(|(_, g)| g.clone())
        .collect();
    let kfiles = write_cases(
        &out,
        "C05k",
        "datalog",
        "Model.DatalogCases",
        "dcase",
        "dcase_failures",
        &sample,
        sample.len(),
        8,
    )
    .expect("write");
    let _ = std::fs::write(
        format!("{}/C05_cases.txt", out),
        gs.iter().map(|g| g.gallina()).collect::<Vec<_>>().join("\n"),
    );
    let hist_s: Vec<String> = hist.iter().map(|(k, v)| format!("{}: {}", jstr(k), v)).collect();
    let files_s: Vec<String> = files.iter().chain(kfiles.iter()).map(|p| jstr(p)).collect();
    println!(
        "{{\"family\": \"datalog\", \"evaluations\": {}, \"corpus\": {}, \"programs\": {}, \"orders_per_program\": 3, \"distinct_nontrivial\": {}, \"result_histogram\": {{{}}}, \"max_iterations_seen\": {}, \"derived_facts_total\": {}, \"panics\": {:?}, \"order_dependent\": {:?}, \"samples\": [{}], \"kernel_sample\": {}, \"files\": [{}]}}",
        cases.len(),
        n_corpus,
        n,
        nontrivial,
        hist_s.join(", "),
        max_iter,
        derived_total,
        panics,
        order_dependent,
        samples.iter().map(|s| jstr(s)).collect::<Vec<_>>().join(", "),
        sample.len(),
        files_s.join(", ")
    );
}

fn corpus() -> Vec<DCase> {
    let v = |x: u32| DTerm::Var(x);
    let i = |x: i64| V::Int(x);
    let f = |o: Vec<u64>, n: &str, a: Vec<V>| DFact { origin: o, name: n.into(), args: a };
    let p = |n: &str, a: Vec<DTerm>| DPred { name: n.into(), args: a };
    vec![
        // transitive closure with provenance: r is the closure of q, owners differ
        DCase {
            facts: vec![
                f(vec![0], "q", vec![i(0), i(1)]),
                f(vec![1], "q", vec![i(1), i(2)]),
                f(vec![AUTH], "q", vec![i(2), i(0)]),
            ],
            rules: vec![
                DEntry {
                    trusted: vec![0, 1, 2, AUTH],
                    owner: 2,
                    rule: DRule { head: p("r", vec![v(0), v(1)]), body: vec![p("q", vec![v(0), v(1)])], exprs: vec![] },
                },
                DEntry {
                    trusted: vec![0, 1, 2, AUTH],
                    owner: AUTH,
                    rule: DRule {
                        head: p("r", vec![v(0), v(2)]),
                        body: vec![p("r", vec![v(0), v(1)]), p("q", vec![v(1), v(2)])],
                        exprs: vec![],
                    },
                },
            ],
            queries: vec![DEntry {
                trusted: vec![0, 2, AUTH],
                owner: AUTH,
                rule: DRule { head: p("query", vec![v(0)]), body: vec![p("r", vec![v(0), v(0)])], exprs: vec![] },
            }],
        },
        // a rule that only trusts {0}: facts with origin {1} stay invisible
        DCase {
            facts: vec![f(vec![0], "p", vec![i(1)]), f(vec![1], "p", vec![i(2)]), f(vec![0, 1], "p", vec![i(0)])],
            rules: vec![DEntry {
                trusted: vec![0, AUTH],
                owner: 0,
                rule: DRule { head: p("s", vec![v(0)]), body: vec![p("p", vec![v(0)])], exprs: vec![] },
            }],
            queries: vec![],
        },
        // unbound head variable: nothing produced; empty body: produced once
        DCase {
            facts: vec![f(vec![0], "p", vec![i(1)])],
            rules: vec![
                DEntry {
                    trusted: vec![0, AUTH],
                    owner: 0,
                    rule: DRule { head: p("q", vec![v(0), v(5)]), body: vec![p("p", vec![v(0)])], exprs: vec![] },
                },
                DEntry {
                    trusted: vec![0, AUTH],
                    owner: 1,
                    rule: DRule { head: p("t", vec![]), body: vec![], exprs: vec![] },
                },
            ],
            queries: vec![],
        },
        // repeated variable inside one atom and across atoms
        DCase {
            facts: vec![
                f(vec![0], "q", vec![i(1), i(1)]),
                f(vec![0], "q", vec![i(1), i(2)]),
                f(vec![AUTH], "p", vec![i(1)]),
            ],
            rules: vec![DEntry {
                trusted: vec![0, AUTH],
                owner: AUTH,
                rule: DRule {
                    head: p("s", vec![v(0)]),
                    body: vec![p("q", vec![v(0), v(0)]), p("p", vec![v(0)])],
                    exprs: vec![vec![Op::Var(0), Op::Val(i(1)), Op::Bin(Bin::Equal)]],
                },
            }],
            queries: vec![],
        },
    ]
}

//! Block conversion correspondence (C02 / C16 / C09): bytes -> prost -> proto_block_to_token_block
//! (and back through token_block_to_proto_block) against Model.Convert on convertible-biased
//! structured blocks (every term kind, sets and maps in arbitrary order with duplicates, every
//! operator number, scopes, check kinds, key tables, declared versions around the content's
//! level), their defective neighbours, blocks built by the library, the conformance samples'
//! blocks, wild structures, raw trees and byte mutations.
use prost::Message;
use std::collections::{BTreeMap, HashSet};
use verif_harness::blockwire::*;
use verif_harness::convert::*;
use verif_harness::wire::pb_encode;
use verif_harness::*;

fn main() {
    let seed = arg_u64("--seed", 1);
    let tier = arg("--tier").unwrap_or("quick".into());
    let out = arg("--out-dir").expect("--out-dir");
    let shards = arg_u64("--shards", 16) as usize;
    let repo = arg("--repo").unwrap_or("/repo".into());
    let thorough = tier == "thorough";
    let n_gen = arg_u64("--n-gen", if thorough { 40000 } else { 3000 }) as usize;
    let n_wild = arg_u64("--n-wild", if thorough { 6000 } else { 400 }) as usize;
    let n_raw = arg_u64("--n-raw", if thorough { 6000 } else { 400 }) as usize;
    let n_tokens = arg_u64("--n-tokens", if thorough { 600 } else { 40 }) as usize;
    std::panic::set_hook(Box::new(|_| {}));
    let mut rng = Rng::new(seed ^ 0xc0117e47);
    let extkey = biscuit_auth::KeyPair::new_with_rng(biscuit_auth::builder::Algorithm::Ed25519, &mut rng).public();

    let mut inputs: Vec<(String, Vec<u8>)> = vec![];
    // 1. convertible-biased structured blocks and their defective neighbours
    let keys = key_pool(&mut rng);
    let mut g = CGen { rng: rng.fork(), risk: 0, v33: false, keys };
    for j in 0..n_gen {
        g.risk = [0u64, 0, 2, 8][j % 4];
        let level = ((j / 4) % 4) as u32;
        let b = g.block(level);
        inputs.push((format!("gen level={} risk={}", level, g.risk), b.encode_to_vec()));
    }
    // 2. the conformance samples' blocks
    let samples = sample_blocks(&format!("{}/biscuit-auth/samples", repo));
    let n_samples = samples.len();
    let mut valid: Vec<Vec<u8>> = vec![];
    for (name, b) in &samples {
        inputs.push((format!("sample {}", name), b.clone()));
        valid.push(b.clone());
    }
    // 3. blocks built by the library
    let mut n_built = 0usize;
    {
        use verif_harness::auth::{self, AGen};
        use verif_harness::datalog::DGen;
        let keys = auth::make_keys(&mut rng);
        for j in 0..n_tokens {
            let mut ag = AGen { d: DGen { rng: rng.fork(), risky: j % 2 == 0 }, nblocks: 0 };
            let nb = 1 + ag.d.rng.below(3) as usize;
            let blocks: Vec<auth::ABlock> = (0..nb).map(|i| ag.block(i)).collect();
            let r = std::panic::catch_unwind(std::panic::AssertUnwindSafe(|| auth::build_token(&blocks, &keys, &mut rng).ok().and_then(|t| t.to_vec().ok())));
            if let Ok(Some(bytes)) = r {
                if let Ok(t) = biscuit_auth::format::schema::Biscuit::decode(&bytes[..]) {
                    for b in std::iter::once(&t.authority).chain(t.blocks.iter()) {
                        inputs.push(("built".into(), b.block.clone()));
                        valid.push(b.block.clone());
                        n_built += 1;
                    }
                }
            }
        }
    }
    // 4. re-declared versions of valid blocks (every version 0..8 and absent)
    let mut n_reversioned = 0usize;
    for (j, b) in valid.clone().iter().enumerate() {
        if let Ok(mut p) = biscuit_auth::format::schema::Block::decode(&b[..]) {
            let v = [None, Some(0u32), Some(2), Some(3), Some(4), Some(5), Some(6), Some(7), Some(u32::MAX)][j % 9];
            p.version = v;
            inputs.push(("reversioned".into(), p.encode_to_vec()));
            n_reversioned += 1;
        }
    }
    // 5. wild structures, raw trees, probes, byte mutations
    for j in 0..n_wild {
        inputs.push(("wild".into(), rand_block(&mut rng, (j % 3) as usize).encode_to_vec()));
    }
    for j in 0..n_raw {
        let wild = [0u64, 0, 5, 15][j % 4];
        let raw = raw_msg(&mut rng, M::Block, [2usize, 4, 6][j % 3], wild);
        inputs.push((format!("raw wild={}", wild), pb_encode(&raw)));
    }
    for (name, b) in merge_probes() {
        inputs.push((format!("probe {}", name), b));
    }
    for b in valid.clone().iter() {
        inputs.push(("mutated".into(), mutate(&mut rng, b)));
    }

    // 6. snapshot blocks (proto_snapshot_block_to_token_block): the same generator, tables dropped,
    //    with and without an external key, every declared version
    let mut snaps: Vec<SvCase> = vec![];
    {
        let keys = key_pool(&mut rng);
        let mut g = CGen { rng: rng.fork(), risk: 0, v33: false, keys };
        for j in 0..(n_gen / 3) {
            g.risk = [0u64, 0, 2, 8][j % 4];
            let level = ((j / 4) % 4) as u32;
            let b = g.block(level);
            let sb = snapshot_of(&mut g, &b);
            snaps.push(sv_case(&format!("snap level={} risk={}", level, g.risk), sb));
        }
    }
    let mut cases: Vec<CvCase> = vec![];
    for (j, (kind, b)) in inputs.into_iter().enumerate() {
        let ext = j % 3 == 2;
        cases.push(cv_case(&kind, b, ext, &extkey));
    }

    // ---- statistics
    let mut hist: BTreeMap<String, u64> = BTreeMap::new();
    let mut seen: HashSet<(Vec<u8>, bool)> = HashSet::new();
    let mut nontrivial = 0u64;
    let mut panics = vec![];
    let mut converted = 0u64;
    for (i, cs) in cases.iter().enumerate() {
        let kind = cs.kind.split(' ').next().unwrap_or("").to_string();
        let o = match &cs.outcome {
            CvImpl::NoDecode => "undecodable".to_string(),
            CvImpl::Err(e) => e.to_string(),
            CvImpl::Ok(..) => "converted".to_string(),
            CvImpl::Panic => "panic".to_string(),
        };
        *hist.entry(format!("{} {}", kind, o)).or_default() += 1;
        if let CvImpl::Ok(..) = cs.outcome {
            converted += 1;
        }
        if cs.outcome == CvImpl::Panic {
            panics.push(i);
        }
        // distinct inputs that reach the conversion with some content
        if seen.insert((cs.bytes.clone(), cs.ext)) && cs.bytes.len() > 6 && cs.outcome != CvImpl::NoDecode {
            nontrivial += 1;
        }
    }
    let terms: Vec<G> = cases.iter().map(g_cvcase).collect();
    let lines: Vec<String> = terms.iter().map(|g| g.gallina()).collect();
    let files = write_cases(&out, "CV", "convert", "Model.ConvertCases", "cvcase", "cv_failures", &terms, 0, shards).expect("write cases");
    let kernel_n = arg_u64("--kernel-n", if thorough { 640 } else { 64 }) as usize;
    let sample = verif_harness::wire::kernel_sample(&terms, &lines, kernel_n, 60_000, 4_000_000, shards);
    let kfiles = write_cases(&out, "CVk", "convert", "Model.ConvertCases", "cvcase", "cv_failures", &sample, sample.len(), shards).expect("write kernel cases");
    // snapshot stream: its own files (checker sv_failures)
    let sterms: Vec<G> = snaps.iter().map(g_svcase).collect();
    let slines: Vec<String> = sterms.iter().map(|g| g.gallina()).collect();
    let sfiles = write_cases(&out, "SV", "convert", "Model.ConvertCases", "svcase", "sv_failures", &sterms, 0, shards).expect("write snapshot cases");
    let ssample = verif_harness::wire::kernel_sample(&sterms, &slines, kernel_n / 2, 60_000, 2_000_000, shards);
    let skfiles = write_cases(&out, "SVk", "convert", "Model.ConvertCases", "svcase", "sv_failures", &ssample, ssample.len(), shards).expect("write snapshot kernel cases");
    let _ = std::fs::write(format!("{}/SV_cases.txt", out), slines.join("\n"));
    let mut shist: BTreeMap<String, u64> = BTreeMap::new();
    let mut spanics = vec![];
    for (i, cs) in snaps.iter().enumerate() {
        let o = match &cs.outcome {
            None => {
                spanics.push(i);
                "panic".to_string()
            }
            Some(Err(e)) => e.to_string(),
            Some(Ok(_)) => format!("converted{}", if cs.snap.external_key.is_some() { " third-party" } else { "" }),
        };
        *shist.entry(o).or_default() += 1;
    }
    let _ = std::fs::write(format!("{}/SV_info.txt", out), snaps.iter().map(|c| format!("{} {:?}", c.kind, c.snap)).collect::<Vec<_>>().join("\n"));
    let _ = std::fs::write(format!("{}/CV_cases.txt", out), lines.join("\n"));
    let _ = std::fs::write(
        format!("{}/CV_info.txt", out),
        cases.iter().map(|c| format!("{} ext={} outcome={} bytes={}", c.kind, c.ext, match &c.outcome { CvImpl::NoDecode => "undecodable".to_string(), CvImpl::Err(e) => e.to_string(), CvImpl::Ok(..) => "converted".into(), CvImpl::Panic => "PANIC".into() }, hex::encode(&c.bytes))).collect::<Vec<_>>().join("\n"),
    );
    let hist_s: Vec<String> = hist.iter().map(|(k, v)| format!("{}: {}", jstr(k), v)).collect();
    let files_s: Vec<String> = files.iter().chain(kfiles.iter()).chain(sfiles.iter()).chain(skfiles.iter()).map(|p| jstr(p)).collect();
    let shist_s: Vec<String> = shist.iter().map(|(k, v)| format!("{}: {}", jstr(k), v)).collect();
    println!(
        "{{\"family\": \"convert\", \"evaluations\": {}, \"generated_blocks\": {}, \"sample_blocks\": {}, \"library_built_blocks\": {}, \"reversioned\": {}, \"wild_structures\": {}, \"raw_trees\": {}, \"converted\": {}, \"distinct_nontrivial\": {}, \"outcome_histogram\": {{{}}}, \"panics\": {:?}, \"kernel_sample\": {}, \"snapshot_blocks\": {}, \"snapshot_outcome_histogram\": {{{}}}, \"snapshot_panics\": {:?}, \"snapshot_kernel_sample\": {}, \"files\": [{}]}}",
        cases.len(),
        n_gen,
        n_samples,
        n_built,
        n_reversioned,
        n_wild,
        n_raw,
        converted,
        nontrivial,
        hist_s.join(", "),
        &panics[..panics.len().min(50)],
        sample.len(),
        snaps.len(),
        shist_s.join(", "),
        &spanics[..spanics.len().min(50)],
        ssample.len(),
        files_s.join(", ")
    );
}

//! C18: writes the crate harness/macrogen (one function per generated Datalog source, each
//! building the item / builder through the biscuit-quote macros); the crate's own main
//! (verif_harness::params::macro_main) then runs every function, the runtime path on the
//! same source and bindings, and compares.
use verif_harness::params::*;
use verif_harness::*;

fn main() {
    let seed = arg_u64("--seed", 1);
    let tier = arg("--tier").unwrap_or("quick".into());
    let dir = arg("--dir").expect("--dir");
    let repo = arg("--repo").unwrap_or("/repo".into());
    let thorough = tier == "thorough";
    std::panic::set_hook(Box::new(|_| {}));
    let items = macro_items(seed, thorough);
    std::fs::create_dir_all(format!("{}/src", dir)).expect("mkdir");
    let main_rs = macro_crate_main(&items, seed, thorough);
    let toml = macro_crate_toml(&repo);
    // leave unchanged files alone so that cargo does not rebuild for nothing
    let write_if_changed = |p: String, s: String| {
        if std::fs::read_to_string(&p).ok().as_deref() != Some(s.as_str()) {
            std::fs::write(&p, s).expect("write");
        }
    };
    write_if_changed(format!("{}/src/main.rs", dir), main_rs);
    write_if_changed(format!("{}/Cargo.toml", dir), toml);
    println!("{{\"family\": \"macrogen\", \"items\": {}, \"dir\": {}}}", items.len(), jstr(&dir));
}

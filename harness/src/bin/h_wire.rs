//! C02 / C07 correspondence.
//!   --property C02: operation histories through Biscuit and UnverifiedBiscuit, container decode cases
//!   --property C07: append_third_party attempts, splice groups, request / response codecs
//! Cases are written for the Coq model Model/WireCases.v (extraction unit `wire`).
use biscuit_auth::format::schema;
use prost::Message;
use std::collections::{BTreeMap, HashSet};
use verif_harness::chain::*;
use verif_harness::wire::*;
use verif_harness::*;

fn hist<K: Ord + Clone>(m: &mut BTreeMap<K, u64>, k: K) {
    *m.entry(k).or_default() += 1;
}
fn jmap<K: std::fmt::Display>(m: &BTreeMap<K, u64>) -> String {
    m.iter().map(|(k, v)| format!("{}: {}", jstr(&k.to_string()), v)).collect::<Vec<_>>().join(", ")
}

fn main_c02(seed: u64, thorough: bool, out: &str, shards: usize) {
    let mut rng = Rng::new(seed ^ 0xC02);
    let n_hist = arg_u64("--n-hist", if thorough { 1500 } else { 150 }) as usize;
    let mut cases: Vec<G> = vec![];
    let mut lines: Vec<String> = vec![];
    let mut info: Vec<String> = vec![]; // one line per case: kind, flags
    let mut kind_hist: BTreeMap<String, u64> = BTreeMap::new();
    let mut len_hist: BTreeMap<u64, u64> = BTreeMap::new();
    let mut alg_hist: BTreeMap<String, u64> = BTreeMap::new();
    let mut direct: Vec<(usize, String)> = vec![];
    let mut panics: Vec<usize> = vec![];
    let mut build_errors = vec![];
    let mut distinct: HashSet<Vec<u8>> = HashSet::new();
    let mut nontrivial = 0u64;
    let mut decoded_ok = 0u64;
    let mut samples: Vec<String> = vec![];
    let mut token_pool: Vec<Vec<u8>> = vec![];

    // anchors: the conformance samples decode, re-encode and measure as prost says
    let mut sample_files = 0;
    if let Ok(rd) = std::fs::read_dir("/repo/biscuit-auth/samples") {
        let mut names: Vec<_> = rd.filter_map(|e| e.ok()).map(|e| e.path()).filter(|p| p.extension().map(|x| x == "bc").unwrap_or(false)).collect();
        names.sort();
        for p in names {
            if let Ok(b) = std::fs::read(&p) {
                let d = dec_case("conformance sample", b.clone());
                hist(&mut kind_hist, "dec: conformance sample".to_string());
                if d.decoded {
                    decoded_ok += 1;
                }
                if distinct.insert(b) {
                    nontrivial += 1;
                }
                info.push(format!("dec conformance sample {}", p.file_name().unwrap().to_string_lossy()));
                cases.push(d.term);
                lines.push(d.line);
                sample_files += 1;
            }
        }
    }

    // histories, both paths
    for t in 0..n_hist {
        let len = 1 + (t % 8);
        let h = gen_hist(&mut rng, len, 1000 + t as u64);
        for unverified in [false, true] {
            match hist_case(&h, unverified) {
                Ok(hc) => {
                    let idx = cases.len();
                    hist(&mut kind_hist, format!("hist: {}", if unverified { "unverified" } else { "biscuit" }));
                    hist(&mut len_hist, len as u64);
                    hist(&mut alg_hist, hc.algs.chars().filter(|c| c.is_ascii_alphabetic()).collect::<String>());
                    if hc.panicked {
                        panics.push(idx);
                    }
                    for f in &hc.flags {
                        direct.push((idx, f.clone()));
                    }
                    if !hc.panicked {
                        for f in direct_c02(&hc.bytes, &hc.root) {
                            direct.push((idx, f));
                        }
                    }
                    let mut key = hc.bytes.clone();
                    key.push(unverified as u8);
                    if distinct.insert(key) && hc.nblocks > 0 {
                        nontrivial += 1;
                    }
                    if samples.len() < 4 {
                        samples.push(format!("history {} ({} blocks, {}): {}", hc.algs, hc.nblocks, if unverified { "unverified" } else { "biscuit" }, hex::encode(&hc.bytes[..hc.bytes.len().min(40)])));
                    }
                    info.push(format!("hist path={} ops={} flags={:?} bytes={}", if unverified { "unverified" } else { "biscuit" }, hc.algs, hc.flags, hex::encode(&hc.bytes)));
                    if !unverified && !hc.bytes.is_empty() {
                        token_pool.push(hc.bytes.clone());
                    }
                    cases.push(hc.term);
                    lines.push(hc.line);
                }
                Err(e) => build_errors.push(e),
            }
        }
    }

    // decode cases from a stride of the tokens just built
    let n_dec_tokens = arg_u64("--n-dec-tokens", if thorough { 200 } else { 24 }) as usize;
    let stride = (token_pool.len() / n_dec_tokens.max(1)).max(1);
    for (ti, b) in token_pool.iter().enumerate() {
        if ti % stride != 0 {
            continue;
        }
        for d in dec_cases_for(b, &mut rng, if thorough { 30 } else { 12 }) {
            let idx = cases.len();
            hist(&mut kind_hist, format!("dec: {}", d.kind));
            if d.decoded {
                decoded_ok += 1;
            }
            if d.panicked {
                panics.push(idx);
            }
            if distinct.insert(d.bytes.clone()) {
                nontrivial += 1;
            }
            info.push(format!("dec {} decoded={} bytes={}", d.kind, d.decoded, hex::encode(&d.bytes)));
            cases.push(d.term);
            lines.push(d.line);
        }
    }

    // interleave the heavy (history) and light (decode) cases so that the shards are balanced
    {
        let n = cases.len();
        let heavy: Vec<usize> = (0..n).filter(|i| info[*i].starts_with("hist")).collect();
        let light: Vec<usize> = (0..n).filter(|i| !info[*i].starts_with("hist")).collect();
        let mut order = Vec::with_capacity(n);
        let (mut x, mut y) = (0usize, 0usize);
        while x < heavy.len() || y < light.len() {
            if x >= heavy.len() || (y < light.len() && y * heavy.len() <= x * light.len()) {
                order.push(light[y]);
                y += 1;
            } else {
                order.push(heavy[x]);
                x += 1;
            }
        }
        let mut newpos = vec![0usize; n];
        for (j, &i) in order.iter().enumerate() {
            newpos[i] = j;
        }
        cases = order.iter().map(|&i| cases[i].clone()).collect();
        lines = order.iter().map(|&i| lines[i].clone()).collect();
        info = order.iter().map(|&i| info[i].clone()).collect();
        for p in panics.iter_mut() {
            *p = newpos[*p];
        }
        for d in direct.iter_mut() {
            d.0 = newpos[d.0];
        }
    }
    let mut files = write_cases(out, "C02", "wire", "Model.WireCases", "wcase", "c02_failures", &cases, 0, shards).expect("write cases");
    // kernel sample: a stride over all cases
    speed_up_ml(&files);
    let kn = arg_u64("--kernel-cases", if thorough { 480 } else { 64 }) as usize;
    let ksample = kernel_sample(&cases, &lines, kn, if thorough { 200_000 } else { 40_000 }, if thorough { 12_000_000 } else { 700_000 }, shards);
    files.extend(write_cases(out, "C02k", "wire", "Model.WireCases", "wcase", "c02_failures", &ksample, ksample.len(), shards).expect("write kernel cases"));
    std::fs::write(format!("{}/C02_cases.txt", out), lines.join("\n")).expect("cases.txt");
    std::fs::write(format!("{}/C02_info.txt", out), info.join("\n")).expect("info.txt");
    let direct_s: Vec<String> = direct.iter().take(20).map(|(i, f)| format!("[{}, {}]", i, jstr(f))).collect();
    println!(
        "{{\"family\": \"wire\", \"property\": \"C02\", \"evaluations\": {}, \"distinct_nontrivial\": {}, \"histories\": {}, \"conformance_samples\": {}, \"decode_cases_decoded\": {}, \"kind_histogram\": {{{}}}, \"history_length_histogram\": {{{}}}, \"operation_shape_histogram_top\": {{{}}}, \"build_errors\": {}, \"direct_oracle_failures\": [{}], \"panics\": {:?}, \"samples\": [{}], \"kernel_cases\": {}, \"files\": [{}]}}",
        cases.len(),
        nontrivial,
        n_hist * 2,
        sample_files,
        decoded_ok,
        jmap(&kind_hist),
        jmap(&len_hist),
        {
            let mut v: Vec<(&String, &u64)> = alg_hist.iter().collect();
            v.sort_by(|a, b| b.1.cmp(a.1));
            v.iter().take(12).map(|(k, n)| format!("{}: {}", jstr(k), n)).collect::<Vec<_>>().join(", ")
        },
        build_errors.len(),
        direct_s.join(", "),
        panics,
        samples.iter().map(|s| jstr(s)).collect::<Vec<_>>().join(", "),
        ksample.len(),
        files.iter().map(|p| jstr(p)).collect::<Vec<_>>().join(", ")
    );
}

#[derive(Default)]
struct Acc7 {
    cases: Vec<G>,
    lines: Vec<String>,
    info: Vec<String>,
    reattrib_case: Vec<bool>, // the case contains a re-attribution by key recovery
    kind_hist: BTreeMap<String, u64>,
    outcome_hist: BTreeMap<String, u64>,
    panics: Vec<usize>,
    unverified_panics: u64,
    direct: Vec<(usize, String)>,
    known_direct: u64,
    witness_seen: bool,
    samples: Vec<String>,
    evaluations: u64,
    accepted_total: u64,
    constructor_failed: bool,
}
impl Acc7 {
    fn push_append(&mut self, ac: Result<AppendCase, NoCase>, reattrib: bool) {
        match ac {
            Err(NoCase::Constructor) | Err(NoCase::Other) => self.constructor_failed = true,
            Err(NoCase::NotAMessage) => {}
            Ok(a) => {
                let idx = self.cases.len();
                self.evaluations += 1;
                hist(&mut self.kind_hist, format!("append/{}", a.path));
                hist(&mut self.outcome_hist, format!("{}: {}", a.path, a.outcome));
                if a.accepted {
                    self.accepted_total += 1;
                }
                if a.panicked {
                    if a.path == "unverified" {
                        self.unverified_panics += 1;
                    } else {
                        self.panics.push(idx);
                    }
                }
                if let Some(d) = &a.direct_violation {
                    if reattrib && d.contains("re-attributed") {
                        self.known_direct += 1;
                        self.witness_seen = true;
                    } else {
                        self.direct.push((idx, d.clone()));
                    }
                }
                if self.samples.len() < 6 && (idx % 37 == 0) {
                    self.samples.push(format!("{} [{}] -> {}", a.label, a.path, a.outcome));
                }
                self.info.push(format!("append path={} outcome={} label={}", a.path, a.outcome, a.label));
                self.reattrib_case.push(reattrib);
                self.cases.push(a.term);
                self.lines.push(a.line);
            }
        }
    }
    fn push_msg(&mut self, m: MsgCase, what: &str) {
        hist(&mut self.kind_hist, format!("msg/{}", m.kind));
        self.evaluations += 1;
        self.info.push(format!("msg {} {}", m.kind, what));
        self.reattrib_case.push(false);
        self.cases.push(m.term);
        self.lines.push(m.line);
    }
}

fn main_c07(seed: u64, thorough: bool, out: &str, shards: usize) {
    let mut rng = Rng::new(seed ^ 0xC07);
    let n_tokens = arg_u64("--n-tokens", if thorough { 20 } else { 8 }) as usize;
    let mut a = Acc7::default();

    // carriers: every position of several tokens
    let mut carriers: Vec<Carrier> = vec![];
    let mut issued: Vec<Issued> = vec![];
    let mut honest: Vec<Pk> = vec![];
    for t in 0..n_tokens {
        let (cs, iss, hon) = gen_carriers(&mut rng, 1 + (t % 4), 7000 + t as u64, t % 3 == 2, &format!("T{}", t));
        carriers.extend(cs);
        issued.extend(iss);
        for k in hon {
            if !honest.contains(&k) {
                honest.push(k);
            }
        }
    }
    // one honest response per unsealed carrier (both algorithms over the run)
    let mut responses: Vec<Response> = vec![];
    let mut req_sers: Vec<(Vec<u8>, Vec<u8>)> = vec![];
    for (ci, car) in carriers.iter().enumerate() {
        if car.sealed {
            continue;
        }
        let ext = Kp::gen(if ci % 2 == 0 { P256 } else { ED }, &mut rng);
        if let Some((r, iss, req_ser)) = make_response(car, &ext, 9000 + ci as u64, ci) {
            issued.push(iss);
            honest.push(ext.pk.clone());
            req_sers.push((last_sig(&car.wire), req_ser));
            responses.push(r);
        }
    }
    let adv = Kp::gen(ED, &mut rng);
    let adv_p = Kp::gen(P256, &mut rng);
    // the decidable premise of C07_position_binding: no signature that serves as a position
    // contains the tag fragment "PREVSIG\0"
    let frag = b"PREVSIG\0";
    let has_frag = |s: &Vec<u8>| s.windows(frag.len()).any(|w| w == frag);
    let positions_with_fragment = carriers.iter().filter(|c| has_frag(&last_sig(&c.wire))).count() + issued.iter().filter(|i| has_frag(&i.prev)).count();

    // (1) every response on every carrier (replay to every other token and position), both paths
    let max_pairs = if thorough { usize::MAX } else { 400 };
    let mut pairs = 0usize;
    for r in &responses {
        for (ci, car) in carriers.iter().enumerate() {
            let own = ci == r.for_carrier;
            if !own {
                pairs += 1;
                if pairs > max_pairs && (pairs % 7 != 0) {
                    continue;
                }
            }
            let label = format!("response for {} on {}", carriers[r.for_carrier].id, car.id);
            let nk = Kp::gen(if rng.chance(1, 2) { ED } else { P256 }, &mut rng);
            for unverified in [false, true] {
                a.push_append(append_case(&label, car, &r.ser, &r.ext.pk, &nk, unverified, &issued, &honest), false);
            }
            if own {
                // the holder asks for another key than the signer's
                for (wl, wrong) in [("adversary key", adv.pk.clone()), ("another third party's key", honest[0].clone())] {
                    if wrong != r.ext.pk {
                        a.push_append(append_case(&format!("{} expecting {}", label, wl), car, &r.ser, &wrong, &nk, false, &issued, &honest), false);
                    }
                }
            }
        }
    }
    // (2) mutated responses on their own carrier, both paths; expected key = the signer's, and the
    // stated key of the mutated message when it parses (a holder that trusts what it is told)
    for r in &responses {
        let car = &carriers[r.for_carrier];
        let prev = last_sig(&car.wire);
        let ad = if r.ext.alg == ED { &adv } else { &adv_p };
        let prev_key = car.wire.blocks.last().unwrap_or(&car.wire.authority).next_key.clone();
        for (name, bytes) in response_mutations(r, &mut rng, ad, &prev, &prev_key) {
            let stated = schema::ThirdPartyBlockContents::decode(&bytes[..])
                .ok()
                .and_then(|c| key_canon(c.external_signature.public_key.algorithm, &c.external_signature.public_key.key).map(|b| Pk { alg: c.external_signature.public_key.algorithm, bytes: b }));
            let reattrib = name.contains("second key recovered");
            let nk = Kp::gen(ED, &mut rng);
            let label = format!("{} / {}", car.id, name);
            let mut expects = vec![r.ext.pk.clone()];
            if let Some(s) = stated {
                if s != r.ext.pk {
                    expects.push(s);
                }
            }
            for e in &expects {
                a.push_append(append_case(&label, car, &bytes, e, &nk, false, &issued, &honest), reattrib);
            }
            a.push_append(append_case(&label, car, &bytes, &r.ext.pk, &nk, true, &issued, &honest), reattrib);
            a.push_msg(msg_resp_dec(&bytes), &name);
        }
        a.push_msg(msg_resp(&r.contents, &r.ser), "honest");
    }
    // (3) request messages
    for (prev, ser) in &req_sers {
        a.push_msg(msg_req(prev, ser), "honest");
        a.push_msg(msg_req_dec(ser), "honest");
        for b in request_mutations(prev, ser, &mut rng) {
            a.push_msg(msg_req_dec(&b), "mutated");
        }
    }
    // (4) splice groups: tokens that carry third-party blocks (the carriers with the honest
    // response appended through the API), variants: re-attribution, moves, transplants
    let mut with_tp: Vec<(Carrier, Kp)> = vec![];
    for r in &responses {
        let car = &carriers[r.for_carrier];
        let nk = Kp::gen(if rng.chance(1, 2) { ED } else { P256 }, &mut rng);
        if let Some(tp) = third_party_block_from(r.contents.clone()) {
            if let Ok(t) = car.token.append_third_party_with_keypair(r.ext.public(), tp, nk.keypair()) {
                // sometimes one more first-party block after it, sometimes sealed
                let (t, fin, sealed) = match rng.below(4) {
                    0 => {
                        let nk2 = Kp::gen(ED, &mut rng);
                        match t.append_with_keypair(&nk2.keypair(), biscuit_auth::builder::BlockBuilder::new().fact("after(1)").unwrap()) {
                            Ok(t2) => (t2, nk2, false),
                            Err(_) => (t, nk.clone(), false),
                        }
                    }
                    1 => match t.seal() {
                        Ok(t2) => (t2, nk.clone(), true),
                        Err(_) => (t, nk.clone(), false),
                    },
                    _ => (t, nk.clone(), false),
                };
                if let Ok(bytes) = t.to_vec() {
                    if let Ok(wire) = schema::Biscuit::decode(&bytes[..]) {
                        with_tp.push((Carrier { token: t, bytes, wire, root: car.root.clone(), fin: fin.clone(), sealed, id: format!("{}+tp", car.id) }, fin));
                    }
                }
            }
        } else {
            a.constructor_failed = true;
        }
    }
    // also the generated tokens that already contain third-party blocks
    for car in &carriers {
        if car.wire.blocks.iter().any(|b| b.external_signature.is_some()) && rng.chance(1, 2) {
            with_tp.push((car.clone(), car.fin.clone()));
        }
    }
    let max_groups = if thorough { 60 } else { 14 };
    let gstride = (with_tp.len() / max_groups).max(1);
    for (gi, (h, fin)) in with_tp.iter().enumerate() {
        if gi % gstride != 0 {
            continue;
        }
        let donors: Vec<&Carrier> = with_tp.iter().enumerate().filter(|(j, _)| *j != gi).map(|(_, (c, _))| c).take(if thorough { 4 } else { 2 }).collect();
        let (term, vs) = splice_group(h, fin, &issued, &honest, &donors, &mut rng);
        let idx = a.cases.len();
        let mut has40 = false;
        for v in &vs {
            a.evaluations += 1;
            hist(&mut a.kind_hist, format!("splice/{}", v.kind));
            let acc = v.imp.ser || v.imp.bis || v.imp.unv;
            hist(&mut a.outcome_hist, format!("splice kind {}: {}", v.kind, if v.imp.panic { "panic" } else if acc { "accepted" } else { "rejected" }));
            if v.imp.panic {
                a.panics.push(idx);
            }
            if v.kind == 40 {
                has40 = true;
            }
            if acc {
                a.accepted_total += 1;
                if let Some(w) = &v.wire {
                    if let Some(d) = direct_c07(w, &issued, &honest) {
                        if v.kind == 40 && d.contains("known-class") {
                            a.known_direct += 1;
                            a.witness_seen = true;
                        } else {
                            a.direct.push((idx, format!("{}: {}", v.label, d)));
                        }
                    }
                }
            }
        }
        a.info.push(format!(
            "splice honest={} root={}:{} bytes={} variants={}",
            h.id,
            h.root.pk.alg,
            hex::encode(&h.root.pk.bytes),
            hex::encode(&h.bytes),
            vs.iter().map(|v| format!("[{} {} {}{}{} {}]", v.kind, v.label, v.imp.ser as u8, v.imp.bis as u8, v.imp.unv as u8, hex::encode(&v.bytes))).collect::<Vec<_>>().join(" ")
        ));
        a.reattrib_case.push(has40);
        a.lines.push(term.gallina());
        a.cases.push(term);
    }

    // tolerant checker on everything; strict checker on the cases that contain a re-attribution
    // by key recovery: what the strict one reports beyond the tolerant one is, by the model's own
    // structural classifier (reattrib_known), the documented finding
    let cases = &a.cases;
    let mut files = write_cases(out, "C07", "wire", "Model.WireCases", "tcase", "c07_failures_unknown", cases, 0, shards).expect("write cases");
    let strict_idx: Vec<usize> = (0..cases.len()).filter(|i| a.reattrib_case[*i]).collect();
    let strict: Vec<G> = strict_idx.iter().map(|i| cases[*i].clone()).collect();
    files.extend(write_cases(out, "C07s", "wire", "Model.WireCases", "tcase", "c07_failures", &strict, 0, shards).expect("write cases"));
    speed_up_ml(&files);
    let kn = arg_u64("--kernel-cases", if thorough { 320 } else { 48 }) as usize;
    let ksample = kernel_sample(cases, &a.lines, kn, if thorough { 300_000 } else { 60_000 }, if thorough { 12_000_000 } else { 700_000 }, shards);
    files.extend(write_cases(out, "C07k", "wire", "Model.WireCases", "tcase", "c07_failures_unknown", &ksample, ksample.len(), shards).expect("write kernel cases"));
    std::fs::write(format!("{}/C07_cases.txt", out), a.lines.join("\n")).expect("cases.txt");
    std::fs::write(format!("{}/C07_info.txt", out), a.info.join("\n")).expect("info.txt");
    std::fs::write(format!("{}/C07_strict_index.txt", out), strict_idx.iter().map(|i| i.to_string()).collect::<Vec<_>>().join("\n")).expect("strict index");
    let direct_s: Vec<String> = a.direct.iter().take(20).map(|(i, f)| format!("[{}, {}]", i, jstr(f))).collect();
    let distinct: HashSet<&String> = a.lines.iter().collect();
    println!(
        "{{\"family\": \"wire\", \"property\": \"C07\", \"evaluations\": {}, \"cases\": {}, \"distinct_nontrivial\": {}, \"carriers\": {}, \"responses\": {}, \"issued_signatures\": {}, \"positions_with_tag_fragment\": {}, \"accepted\": {}, \"kind_histogram\": {{{}}}, \"outcome_histogram\": {{{}}}, \"direct_oracle_failures\": [{}], \"known_class_reattributions_accepted\": {}, \"witness_reattribution_accepted\": {}, \"unverified_append_panics_c09_class\": {}, \"third_party_block_constructor_ok\": {}, \"panics\": {:?}, \"samples\": [{}], \"strict_cases\": {}, \"kernel_cases\": {}, \"files\": [{}]}}",
        a.evaluations,
        cases.len(),
        distinct.len(),
        carriers.len(),
        responses.len(),
        issued.len(),
        positions_with_fragment,
        a.accepted_total,
        jmap(&a.kind_hist),
        jmap(&a.outcome_hist),
        direct_s.join(", "),
        a.known_direct,
        a.witness_seen,
        a.unverified_panics,
        !a.constructor_failed,
        a.panics,
        a.samples.iter().map(|s| jstr(s)).collect::<Vec<_>>().join(", "),
        strict.len(),
        ksample.len(),
        files.iter().map(|p| jstr(p)).collect::<Vec<_>>().join(", ")
    );
}

fn main() {
    let seed = arg_u64("--seed", 1);
    let tier = arg("--tier").unwrap_or("quick".into());
    let out = arg("--out-dir").expect("--out-dir");
    let prop = arg("--property").unwrap_or("C02".into());
    let shards = arg_u64("--shards", 16) as usize;
    let thorough = tier == "thorough";
    std::panic::set_hook(Box::new(|_| {}));
    if let Some(hexb) = arg("--decode-hex") {
        // replay helper: what prost says of these container bytes now
        let b = hex::decode(hexb).expect("hex");
        let d = dec_case("replay", b);
        println!("{{\"family\": \"wire\", \"replay\": true, \"decoded\": {}, \"case\": {}}}", d.decoded, jstr(&d.line));
        return;
    }
    match prop.as_str() {
        "C07" => main_c07(seed, thorough, &out, shards),
        _ => main_c02(seed, thorough, &out, shards),
    }
}

//! C12 correspondence driver: corpus + seeded random histories; every case carries the
//! implementation's observations at every step; the Coq model (extracted, and in-kernel for a
//! sample) must predict them.
use std::collections::{BTreeMap, HashSet};
use verif_harness::symbols::*;
use verif_harness::*;

fn main() {
    let seed = arg_u64("--seed", 1);
    let tier = arg("--tier").unwrap_or("quick".into());
    let out = arg("--out-dir").expect("--out-dir");
    let shards = arg_u64("--shards", 16) as usize;
    let thorough = tier == "thorough";
    let n = arg_u64("--n", if thorough { 8000 } else { 700 });
    std::panic::set_hook(Box::new(|_| {}));

    let mut rng = Rng::new(seed);
    let mut hs: Vec<History> = corpus();
    let n_corpus = hs.len();
    for i in 0..n {
        // one history in four has no hand-made block (pure API histories)
        hs.push(gen_history(&mut rng, i % 4 != 0));
    }

    let mut lines: Vec<G> = vec![];
    let mut ophist: BTreeMap<&'static str, u64> = BTreeMap::new();
    let mut errhist: BTreeMap<String, u64> = BTreeMap::new();
    let mut lenhist: BTreeMap<usize, u64> = BTreeMap::new();
    let mut seen: HashSet<String> = HashSet::new();
    let mut nontrivial = 0u64;
    let mut panics = vec![];
    let mut differs = vec![];
    let mut overlap_accepted = vec![];
    let mut author_mismatch = vec![];
    let mut samples = vec![];
    let mut steps_total = 0u64;
    let mut tp_with_keys = 0u64;
    let mut reload_refused = 0u64;
    for (i, h) in hs.iter().enumerate() {
        let case_seed = seed.wrapping_mul(1_000_003).wrapping_add(i as u64);
        let r = run_history(case_seed, h);
        let g = g_case(case_seed, &r);
        *lenhist.entry(h.ops.len()).or_default() += 1;
        steps_total += 1 + h.ops.len() as u64;
        let mut ok_ops = 0;
        for (o, s) in h.ops.iter().zip(r.steps.iter()) {
            let name = match o {
                Op::Append(Side::V, _) => "append/Biscuit",
                Op::Append(Side::U, _) => "append/Unverified",
                Op::AppendTP(Side::V, _, _) => "append_third_party/Biscuit",
                Op::AppendTP(Side::U, _, _) => "append_third_party/Unverified",
                Op::Seal(_) => "seal",
                Op::Reload(Side::V) => "reload/Biscuit",
                Op::Reload(Side::U) => "reload/Unverified",
                Op::AppendRaw(_) => "hand-made first-party block",
            };
            *ophist.entry(name).or_default() += 1;
            match s {
                StepObs::Err(e) => {
                    *errhist.entry(format!("{}: {:?}", name, e)).or_default() += 1;
                    if matches!(o, Op::AppendRaw(_)) {
                        reload_refused += 1;
                    }
                }
                StepObs::Ok { .. } => ok_ops += 1,
                StepObs::Panic => {}
            }
        }
        if h.ops.iter().any(|o| matches!(o, Op::AppendTP(_, _, c) if c.has_key())) {
            tp_with_keys += 1;
        }
        if r.panicked {
            panics.push(i);
        }
        if r.roundtrip_differs {
            differs.push(i);
        }
        if r.overlap_accepted {
            overlap_accepted.push(i);
        }
        if r.author_mismatch {
            author_mismatch.push(i);
        }
        let line = g.gallina();
        let declares = h.c0.has_key()
            || h.c0.strings() > 0
            || h.ops.iter().any(|o| matches!(o, Op::Append(_, c) | Op::AppendTP(_, _, c) if c.has_key() || c.strings() > 0));
        if seen.insert(line.clone()) && ok_ops >= 2 && declares {
            nontrivial += 1;
        }
        if i < 2 || (i >= n_corpus && samples.len() < 5 && i % 11 == 0) {
            samples.push(if line.len() > 1500 { format!("{}...", &line[..1500]) } else { line.clone() });
        }
        lines.push(g);
    }

    let kernel_n = arg_u64("--kernel-n", if thorough { 480 } else { 64 }) as usize;
    let files = write_ocaml_shards(&out, "C12", "symbols", "scase_failures", &lines, shards, 4).expect("write cases");
    let stride = (lines.len() / kernel_n.max(1)).max(1);
    let sample: Vec<G> = lines
        .iter()
        .enumerate()
        .filter(|(i, _)| *i < n_corpus || i % stride == 0)
        .map(|(_, g)| g.clone())
        .collect();
    let kfiles = write_cases(&out, "C12k", "symbols", "Model.SymbolsCases", "scase", "scase_failures", &sample, sample.len(), shards)
        .expect("write kernel cases");
    let _ = std::fs::write(
        format!("{}/C12_cases.txt", out),
        lines.iter().map(|g| g.gallina()).collect::<Vec<_>>().join("\n"),
    );

    // ---- second stream (implementation only): tokens over the whole language (C04 generator:
    // all term types, nested collections, expressions, closures, scopes, third-party blocks);
    // after every step the in-memory token, the token re-read from its bytes and the unverified
    // reading must print the same sources, expose the same symbols and keys and authorize alike
    let rich_n = arg_u64("--rich", if thorough { 3000 } else { 300 });
    let mut rich_differs: Vec<String> = vec![];
    let mut rich_hist: BTreeMap<String, u64> = BTreeMap::new();
    {
        use verif_harness::auth::{self, AGen};
        use verif_harness::datalog::DGen;
        let mut rrng = Rng::new(seed ^ 0x1212);
        let akeys = auth::make_keys(&mut rrng);
        for jx in 0..rich_n {
            let mut g = AGen { d: DGen { rng: rrng.fork(), risky: jx % 2 == 0 }, nblocks: 0 };
            let nb = 1 + g.d.rng.below(4) as usize;
            let blocks: Vec<auth::ABlock> = (0..nb).map(|i| g.block(i)).collect();
            let a = g.authorizer();
            let r = std::panic::catch_unwind(std::panic::AssertUnwindSafe(|| rich_token_case(&blocks, &a, &akeys, &mut rrng, jx % 3 == 0)));
            let verdict = match r {
                Ok(Ok(class)) => class,
                Ok(Err(what)) => {
                    if rich_differs.len() < 20 {
                        rich_differs.push(format!("rich token {} (seed {}): {}", jx, seed, what));
                    }
                    "differs".to_string()
                }
                Err(_) => {
                    if rich_differs.len() < 20 {
                        rich_differs.push(format!("rich token {} (seed {}): panicked", jx, seed));
                    }
                    "panicked".to_string()
                }
            };
            *rich_hist.entry(verdict).or_default() += 1;
        }
    }
    let j = |m: &BTreeMap<String, u64>| m.iter().map(|(k, v)| format!("{}: {}", jstr(k), v)).collect::<Vec<_>>().join(", ");
    let oph: BTreeMap<String, u64> = ophist.iter().map(|(k, v)| (k.to_string(), *v)).collect();
    let lenh: BTreeMap<String, u64> = lenhist.iter().map(|(k, v)| (k.to_string(), *v)).collect();
    let files_s: Vec<String> = files.iter().chain(kfiles.iter()).map(|p| jstr(p)).collect();
    println!(
        "{{\"family\": \"symbols\", \"evaluations\": {}, \"corpus\": {}, \"random_histories\": {}, \"steps_observed\": {}, \"distinct_nontrivial\": {}, \"histories_with_third_party_block_declaring_keys\": {}, \"hand_made_blocks_refused\": {}, \"operation_histogram\": {{{}}}, \"operation_error_histogram\": {{{}}}, \"history_length_histogram\": {{{}}}, \"roundtrip_differs_count\": {}, \"roundtrip_differs\": {:?}, \"overlap_accepted\": {:?}, \"author_mismatch\": {:?}, \"panics\": {:?}, \"rich_tokens\": {}, \"rich_histogram\": {{{}}}, \"rich_differs\": [{}], \"samples\": [{}], \"kernel_sample\": {}, \"files\": [{}]}}",
        hs.len(),
        n_corpus,
        n,
        steps_total,
        nontrivial,
        tp_with_keys,
        reload_refused,
        j(&oph),
        j(&errhist),
        j(&lenh),
        differs.len(),
        &differs[..differs.len().min(4000)],
        &overlap_accepted[..overlap_accepted.len().min(200)],
        &author_mismatch[..author_mismatch.len().min(200)],
        panics,
        rich_n,
        j(&rich_hist),
        rich_differs.iter().map(|s| jstr(s)).collect::<Vec<_>>().join(", "),
        samples.iter().map(|s| jstr(s)).collect::<Vec<_>>().join(", "),
        sample.len(),
        files_s.join(", ")
    );
}

/// what a verified token shows, block by block
fn rich_show(b: &biscuit_auth::Biscuit) -> Vec<String> {
    (0..b.block_count())
        .map(|i| {
            format!(
                "source {:?} symbols {:?} keys {:?} external {:?} version {:?}",
                b.print_block_source(i).map_err(|e| format!("{:?}", e)),
                b.block_symbols(i).map_err(|e| format!("{:?}", e)),
                b.block_public_keys(i).map(|pk| pk.into_inner().iter().map(|k| k.print()).collect::<Vec<_>>()).map_err(|e| format!("{:?}", e)),
                b.block_external_key(i).map(|k| k.map(|k| k.print())).map_err(|e| format!("{:?}", e)),
                b.block_version(i).map_err(|e| format!("{:?}", e)),
            )
        })
        .collect()
}
/// what both token types expose: printed source, version, external key, revocation id
fn rich_show_common(b: &biscuit_auth::Biscuit) -> Vec<String> {
    let ext = b.external_public_keys();
    let rev = b.revocation_identifiers();
    (0..b.block_count())
        .map(|i| {
            format!(
                "source {:?} version {:?} external {:?} revocation {:?}",
                b.print_block_source(i).map_err(|e| format!("{:?}", e)),
                b.block_version(i).map_err(|e| format!("{:?}", e)),
                ext.get(i).map(|k| k.map(|k| k.print())),
                rev.get(i).map(hex::encode),
            )
        })
        .collect()
}
fn rich_show_u(u: &biscuit_auth::UnverifiedBiscuit) -> Vec<String> {
    let ext = u.external_public_keys();
    let rev = u.revocation_identifiers();
    (0..u.block_count())
        .map(|i| {
            format!(
                "source {:?} version {:?} external {:?} revocation {:?}",
                u.print_block_source(i).map_err(|e| format!("{:?}", e)),
                u.block_version(i).map_err(|e| format!("{:?}", e)),
                ext.get(i).map(|k| k.map(|k| k.print())),
                rev.get(i).map(hex::encode),
            )
        })
        .collect()
}

fn rich_authorize(
    t: &biscuit_auth::Biscuit,
    a: &verif_harness::auth::AAuth,
    keys: &verif_harness::auth::Keys,
) -> Result<(verif_harness::auth::Outcome, Option<Vec<verif_harness::datalog::DFact>>), String> {
    use verif_harness::auth;
    let ab = auth::build_authorizer(a, keys, (100_000, 2000)).map_err(|e| format!("authorizer refused: {:?}", e))?;
    let mut az = match ab.build(t) {
        Ok(x) => x,
        Err(e) => return Ok((auth::Outcome::Other(format!("load: {:?}", e)), None)),
    };
    let o = auth::outcome_of(&az.authorize());
    let clean = !matches!(o, auth::Outcome::Exec | auth::Outcome::Limit(_) | auth::Outcome::Other(_) | auth::Outcome::Panic);
    Ok((o, if clean { auth::world_facts(&az) } else { None }))
}

fn rich_token_case(
    blocks: &[verif_harness::auth::ABlock],
    a: &verif_harness::auth::AAuth,
    keys: &verif_harness::auth::Keys,
    rng: &mut Rng,
    seal: bool,
) -> Result<String, String> {
    use verif_harness::auth;
    let mut steps = match auth::build_token_steps(blocks, keys, rng) {
        Ok(s) => s,
        Err(_) => return Ok("token refused by the builders".into()),
    };
    if seal {
        if let Some(last) = steps.last() {
            steps.push(last.seal().map_err(|e| format!("seal: {:?}", e))?);
        }
    }
    // "references inside a block resolve to what the block's author wrote": the printed source
    // of every block of the final token, read back by the parser, is the author's block read
    // back by the parser (both through the builder types, which order sets canonically);
    // texts the parser refuses (C14's known classes) are skipped
    let mut authored_compared = 0;
    if let Some(last) = steps.last() {
        for (i, b) in blocks.iter().enumerate() {
            let authored = match auth::b_block(b, &keys.ext_pub) {
                Ok(x) => x.to_string(),
                Err(_) => continue,
            };
            let printed = last.print_block_source(i).map_err(|e| format!("print_block_source({}): {:?}", i, e))?;
            let pa = biscuit_auth::builder::BlockBuilder::new().code(&authored);
            let pp = biscuit_auth::builder::BlockBuilder::new().code(&printed);
            if let (Ok(pa), Ok(pp)) = (pa, pp) {
                authored_compared += 1;
                if pa.to_string() != pp.to_string() {
                    return Err(format!(
                        "block {} does not read as its author wrote it\n--- authored\n{}\n--- print_block_source\n{}",
                        i, authored, printed
                    ));
                }
            }
        }
    }
    let mut c11 = false;
    for (n, mem) in steps.iter().enumerate() {
        let bytes = mem.to_vec().map_err(|e| format!("step {}: to_vec: {:?}", n, e))?;
        let rel = biscuit_auth::Biscuit::from(&bytes, keys.root.public())
            .map_err(|e| format!("step {}: the library refuses the bytes it produced: {:?}", n, e))?;
        let unv = biscuit_auth::UnverifiedBiscuit::from(&bytes)
            .map_err(|e| format!("step {}: UnverifiedBiscuit::from refuses the bytes the library produced: {:?}", n, e))?;
        let (sm, sr, su) = (rich_show(mem), rich_show(&rel), rich_show_u(&unv));
        if sm != sr {
            return Err(format!("step {}: the in-memory token and the token re-read from its bytes differ\n--- in memory\n{:#?}\n--- re-read\n{:#?}", n, sm, sr));
        }
        let (sc, su) = (rich_show_common(&rel), su);
        if sc != su {
            return Err(format!("step {}: Biscuit and UnverifiedBiscuit read the same bytes differently\n--- Biscuit\n{:#?}\n--- UnverifiedBiscuit\n{:#?}", n, sc, su));
        }
        if rel.to_vec().ok() != Some(bytes.clone()) {
            return Err(format!("step {}: re-serializing the re-read token gives other bytes", n));
        }
        let (om, fm) = rich_authorize(mem, a, keys)?;
        let (or, fr) = rich_authorize(&rel, a, keys)?;
        if om != or {
            // C11's known class: a deciding and an erroring binding met in hash order
            let exec = |x: &auth::Outcome| matches!(x, auth::Outcome::Exec);
            let mut explained = false;
            if exec(&om) != exec(&or) {
                for _ in 0..24 {
                    if rich_authorize(mem, a, keys)?.0 == or {
                        explained = true;
                        break;
                    }
                }
            }
            if !explained {
                return Err(format!("step {}: authorize() gives {:?} on the in-memory token and {:?} on the token re-read from its bytes\n{:#?}", n, om, or, sm));
            }
            c11 = true;
        } else if fm.is_some() && fr.is_some() && fm != fr {
            return Err(format!("step {}: the facts after authorize() differ between the in-memory token and the re-read one\n{:?}\n{:?}", n, fm, fr));
        }
    }
    Ok(format!(
        "{} steps agree{}{}",
        steps.len(),
        if c11 { " (one C11-class outcome)" } else { "" },
        if authored_compared == blocks.len() { ", every block compared with its author's text" } else { "" }
    ))
}
